#!/venv/bin/python
"""tools/seed_note.py <seed dir> <first-note> <what-was-strengthened> [--check=Cyy]
Re-runs tools/try_seed.py on an archived seed and records the result as `after_strengthening` in its meta.json
(the result recorded when the seed was archived becomes `first_result`)."""
import json, os, subprocess, sys
V = os.path.dirname(os.path.dirname(os.path.abspath(__file__)))
d = os.path.abspath(sys.argv[1])
note, what = sys.argv[2], sys.argv[3]
extra = [a for a in sys.argv[4:] if a.startswith('--check=')]
out = subprocess.run([os.path.join(V, 'tools', 'try_seed.py'), d] + extra, stdout=subprocess.PIPE, text=True, cwd=V).stdout
res = json.loads(out.strip().splitlines()[-1])
mp = os.path.join(d, 'meta.json')
m = json.load(open(mp))
c = m.setdefault('confirmed', {})
if 'first_result' not in c:
    c['first_result'] = {'check_exit': c.get('check_exit'), 'caught': c.get('caught'),
                         'caught_with_failing_input': c.get('caught_with_failing_input'), 'note': note}
noinput = any('no-failing-input-found' in l for l in res.get('check_lines', []) if l.startswith('VIOLATION'))
c['after_strengthening'] = {'what': what, 'check': res.get('check'), 'check_exit': res.get('check_exit'),
                            'violated': res.get('clauses'), 'caught': res.get('check_exit') == 1,
                            'caught_with_failing_input': res.get('check_exit') == 1 and not noinput,
                            'demo_on_original_exit': res.get('demo_on_original'), 'demo_on_changed_exit': res.get('demo_on_changed')}
c['caught'] = c['after_strengthening']['caught']
c['caught_with_failing_input'] = c['after_strengthening']['caught_with_failing_input']
c['violated'] = res.get('clauses')
json.dump(m, open(mp, 'w'), indent=1)
print(json.dumps(c['after_strengthening']))
