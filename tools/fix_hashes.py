#!/venv/bin/python
"""Rewrite 'fixed:' lines of props/*.findings.json so that they carry the hash of the 'fix:' commit in /repo.
Mapping: slug (as written by the builders) -> distinctive words of the commit subject."""
import json, glob, os, re, subprocess
V = os.path.dirname(os.path.dirname(os.path.abspath(__file__)))
log = subprocess.check_output(['git', '-C', '/repo', 'log', '--format=%h %s']).decode().splitlines()
MAP = {
 'dplace-core-index-join': 'dplace core list', 'dplace-per-task': 'dplace option is built per task',
 'tarball-never-unpacked': 'unpacks TARBALL', 'cp-exit-status-ignored': 'copy fails when cp fails',
 'cp-paths-with-blanks': 'paths with blanks', 'early-not-cleared': 'forget early-bound',
 'all-tasks-failed': 'only fails its own', 'task-wait-default': 'Task.wait() without a state',
 'wait-other-final': 'final in a state not waited for', 'pilot-wait-none': 'Pilot.wait() returns the state',
 'mahti-batch-schema': 'csc.mahti', 'rminfo-shared-default-lists': 'shared RMInfo default lists',
 'pbspro-nodefile-smt-twice': 'PBSPro node file fallback', 'worker-class-alias': 'worker_class alias',
 'pythontask-default-kwargs': 'PythonTask without kwargs', 'env-rebind-leaks-process-env': 'restore os.environ in place',
 'process-death-no-result': 'report a result when a raptor task process',
 'tout-staging-error-records-exception': 'tmgr output staging records the exception', 'roundrobin-failure-records-exception': 'round robin tmgr scheduler records',
 'early-bound-error-fails-one-task': 'binding one early-bound task',
 'late-check-two-handons': 'late cancel check in Popen', 'launch-error-left-in-tasks': 'fails to launch is removed', 'intake-filter-no-unschedule': 'executor\'s intake releases',
 'quote-task-env-values': 'quote task environment values', 'quote-stdout-stderr-names': 'quote stdout/stderr file names', 'control-sub-address': 'RP_CONTROL_SUB_ADDRESS',
}
def find(words):
    hits = [l for l in log if words in l]
    assert len(hits) == 1, (words, hits)
    return hits[0].split()[0]
for f in sorted(glob.glob(os.path.join(V, 'props', '*.findings.json'))):
    d = json.load(open(f)); out = []
    for line in d.get('fixed', []):
        m = re.match(r'(fixed: property=C\d+) (\S+)( [0-9a-f]{7})? (.*)', line, re.S)
        head, tok, oldhash, rest = m.groups()
        if tok in MAP:
            line = '%s %s %s' % (head, find(MAP[tok]), rest)
        else:
            assert any(l.startswith(tok) for l in log), ('unknown commit', tok, f)
        out.append(line)
    if out != d.get('fixed', []):
        d['fixed'] = out; json.dump(d, open(f, 'w'), indent=1); print('updated', os.path.basename(f))
