#!/venv/bin/python
"""debug: run N generated scheduler cases through impl + model, print disagreements"""
import sys, os, json, random
sys.path.insert(0, os.path.dirname(os.path.dirname(os.path.abspath(__file__))))
os.environ.setdefault('PYTHONHASHSEED', '0')
from harness import core, schedlib as SL
import importlib
PROP = importlib.import_module("harness." + os.environ.get("P", "c01")).PROP
n = int(sys.argv[1]) if len(sys.argv) > 1 else 20
seed = int(sys.argv[2]) if len(sys.argv) > 2 else 0
rng = random.Random(seed)
cases = []
for c in PROP.cases(rng, 'quick'):
    cases.append(c)
    if len(cases) >= n: break
core.coq_make(['Sched/Oracle.vo'])
with core.Scratch('dbg') as sc:
    rs = core.evaluate(PROP, cases, sc)
    bad = 0
    for i, r in enumerate(rs):
        if r['err']:
            print(i, 'IMPL ERR', r['err'], r.get('tb')); bad += 1; continue
        if not all(r['bits']):
            bad += 1
            print(i, 'bits', r['bits'], [PROP.signature(r['case'], r['obs'], cl) for cl in core.failing_clauses(PROP, r)])
            if bad <= int(os.environ.get('SHOW', '1')):
                print(json.dumps(r['case']))
                print(json.dumps(r['obs']))
                c = r['case']; o = r['obs']
                print(core.coq_eval_text(sc, PROP.header + '\nFrom RP Require Import Common.Eqb.', 'rows (diag %s %s %s %s)' % (SL.c_cfg(c['cfg']), SL.c_nodes0(c), SL.c_ops(o['eff'], o['snaps']), SL.c_iters(o['eff'], o['snaps']))))
                if os.environ.get('FULL'):
                    print(core.coq_eval_text(sc, PROP.header + '\nFrom RP Require Import Common.Eqb.', 'run_snaps %s (init_world %s) 0 %s' % (SL.c_cfg(c['cfg']), SL.c_nodes0(c), SL.c_ops(o['eff'], o['snaps']))))
    print('cases', len(rs), 'bad', bad)
