#!/venv/bin/python
"""tools/try_seed.py <dir with patch.diff, demo.py, meta.json> [--keep]
Confirms a seeded change independently (fresh scratch worktree of /repo HEAD: patch applies, baseline suite
still 95 passed, demo passes on the original and fails on the changed tree), then runs the property's quick
check against the changed tree (VERIF_REPO) and reports whether it is caught.  Prints one JSON line."""
import json, os, subprocess, sys, shutil, time
V = os.path.dirname(os.path.dirname(os.path.abspath(__file__)))
d = os.path.abspath(sys.argv[1])
meta = json.load(open(os.path.join(d, 'meta.json')))
pid = meta['property']
wt = '/tmp/seedchk-%s-%d' % (pid, os.getpid())
def sh(cmd, **k):
    p = subprocess.run(cmd, shell=True, stdout=subprocess.PIPE, stderr=subprocess.STDOUT, text=True, **k)
    return p.returncode, p.stdout
res = {'property': pid, 'dir': d}
try:
    sh('git -C /repo worktree add -q --detach %s HEAD' % wt)
    env = dict(os.environ, PYTHONPATH=wt + '/src', PYTHONHASHSEED='0')
    rc, out = sh('/venv/bin/python %s/demo.py %s/src' % (d, wt), cwd=wt, env=env, timeout=600)
    res['demo_on_original'] = rc
    rc, out = sh('git -C %s apply %s/patch.diff' % (wt, d)); res['patch_applies'] = (rc == 0)
    if rc != 0: res['apply_out'] = out[-300:]
    rc, out = sh('/venv/bin/python -m pytest -q -p no:cacheprovider --timeout=900 --continue-on-collection-errors 2>&1 | tail -1', cwd=wt, env=env, timeout=1200)
    res['tests'] = out.strip()[-80:]
    sh('rm -f rm_info.json', cwd=wt)
    rc, out = sh('/venv/bin/python %s/demo.py %s/src' % (d, wt), cwd=wt, env=env, timeout=600)
    res['demo_on_changed'] = rc; res['demo_out'] = out.strip()[-200:]
    checks = [a.split('=')[1] for a in sys.argv if a.startswith('--check=')]
    cid = checks[0] if checks else pid
    res['check'] = cid
    t0 = time.time()
    rc, out = sh('./check %s' % cid, cwd=V, env=dict(os.environ, VERIF_REPO=wt, VERIF_SEED=os.environ.get('VERIF_SEED', '0')), timeout=3000)
    res['check_exit'] = rc; res['check_wall'] = round(time.time() - t0, 1)
    res['check_lines'] = [l for l in out.splitlines() if l.startswith('VIOLATION') or 'tier=' in l][:6]
    for l in res['check_lines']:
        if l.startswith('VIOLATION') and 'replay=' in l:
            rp = l.split('replay=')[1].split()[0]
            try:
                r = json.load(open(rp)); res.setdefault('clauses', []).append(r.get('clause') or r.get('what', '')[:80])
            except Exception: pass
finally:
    sh('git -C /repo worktree remove --force %s' % wt)
    # restore generated tables / evidence for the real tree
    sh('./check %s > /dev/null 2>&1' % res.get('check', pid), cwd=V)
if '--archive' in sys.argv and res.get('patch_applies') and res.get('demo_on_original') == 0 and res.get('demo_on_changed') not in (0, None) and '95 passed' in res.get('tests', ''):
    k = 1
    while os.path.exists(os.path.join(V, 'seeded', '%s-%d' % (pid, k))): k += 1
    dst = os.path.join(V, 'seeded', '%s-%d' % (pid, k)); os.makedirs(dst)
    for f in ('patch.diff', 'demo.py'): shutil.copy(os.path.join(d, f), dst)
    meta2 = dict(meta, confirmed=dict(
        how='fresh scratch worktree of /repo HEAD (%s): git apply patch.diff; baseline suite; demo.py on original and changed tree; VERIF_REPO=<worktree> ./check %s (quick, seed %s)' % (
            subprocess.check_output(['git', '-C', '/repo', 'rev-parse', '--short', 'HEAD']).decode().strip(), res.get('check', pid), os.environ.get('VERIF_SEED', '0')),
        baseline_suite=res['tests'], demo_on_original_exit=res['demo_on_original'], demo_on_changed_exit=res['demo_on_changed'],
        demo_output=res.get('demo_out'), check_exit=res.get('check_exit'), check_wall_s=res.get('check_wall'),
        check_lines=res.get('check_lines'), violated=res.get('clauses'),
        caught=(res.get('check_exit') == 1), caught_with_failing_input=(res.get('check_exit') == 1 and not any('no-failing-input-found' in l for l in res.get('check_lines', []) if l.startswith('VIOLATION')))))
    json.dump(meta2, open(os.path.join(dst, 'meta.json'), 'w'), indent=1)
    res['archived'] = dst
print(json.dumps(res))
