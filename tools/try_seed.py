#!/venv/bin/python
"""tools/try_seed.py <dir with patch.diff, demo.py, meta.json> [--keep]
Confirms a seeded change independently (fresh scratch worktree of /repo HEAD: patch applies, baseline suite
still 95 passed, demo passes on the original and fails on the changed tree), then runs the property's quick
check against the changed tree (VERIF_REPO) and reports whether it is caught.  Prints one JSON line."""
import json, os, subprocess, sys, shutil, time
V = os.path.dirname(os.path.dirname(os.path.abspath(__file__)))
d = os.path.abspath(sys.argv[1])
meta = json.load(open(os.path.join(d, 'meta.json')))
pid = meta['property']
wt = '/tmp/seedchk-%s-%d' % (pid, os.getpid())
def sh(cmd, **k):
    p = subprocess.run(cmd, shell=True, stdout=subprocess.PIPE, stderr=subprocess.STDOUT, text=True, **k)
    return p.returncode, p.stdout
res = {'property': pid, 'dir': d}
try:
    sh('git -C /repo worktree add -q --detach %s HEAD' % wt)
    env = dict(os.environ, PYTHONPATH=wt + '/src', PYTHONHASHSEED='0')
    rc, out = sh('/venv/bin/python %s/demo.py %s/src' % (d, wt), cwd=wt, env=env, timeout=600)
    res['demo_on_original'] = rc
    rc, out = sh('git -C %s apply %s/patch.diff' % (wt, d)); res['patch_applies'] = (rc == 0)
    if rc != 0: res['apply_out'] = out[-300:]
    rc, out = sh('/venv/bin/python -m pytest -q -p no:cacheprovider --timeout=900 --continue-on-collection-errors 2>&1 | tail -1', cwd=wt, env=env, timeout=1200)
    res['tests'] = out.strip()[-80:]
    sh('rm -f rm_info.json', cwd=wt)
    rc, out = sh('/venv/bin/python %s/demo.py %s/src' % (d, wt), cwd=wt, env=env, timeout=600)
    res['demo_on_changed'] = rc; res['demo_out'] = out.strip()[-200:]
    t0 = time.time()
    rc, out = sh('./check %s' % pid, cwd=V, env=dict(os.environ, VERIF_REPO=wt, VERIF_SEED=os.environ.get('VERIF_SEED', '0')), timeout=3000)
    res['check_exit'] = rc; res['check_wall'] = round(time.time() - t0, 1)
    res['check_lines'] = [l for l in out.splitlines() if l.startswith('VIOLATION') or 'tier=' in l][:6]
    for l in res['check_lines']:
        if l.startswith('VIOLATION') and 'replay=' in l:
            rp = l.split('replay=')[1].split()[0]
            try:
                r = json.load(open(rp)); res.setdefault('clauses', []).append(r.get('clause') or r.get('what', '')[:80])
            except Exception: pass
finally:
    sh('git -C /repo worktree remove --force %s' % wt)
    # restore generated tables / evidence for the real tree
    sh('./check %s > /dev/null 2>&1' % pid, cwd=V)
print(json.dumps(res))
