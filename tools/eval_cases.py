#!/venv/bin/python
"""tools/eval_cases.py <prop> <cases.json> <outdir>: evaluate hand-written cases on VERIF_REPO, write one replay-like JSON per case"""
import sys, os, json, importlib
sys.path.insert(0, os.path.dirname(os.path.dirname(os.path.abspath(__file__))))
os.environ.setdefault('PYTHONHASHSEED', '0')
from harness import core
prop = importlib.import_module('harness.' + sys.argv[1].lower()).PROP
cases = json.load(open(sys.argv[2]))
core.coq_make(prop.model_targets)
with core.Scratch('ev') as sc:
    rs = core.evaluate(prop, [c['case'] for c in cases], sc)
    for c, r in zip(cases, rs):
        out = dict(property=prop.id, what=c['what'], case=r['case'], impl_observation=r['obs'], impl_error=r['err'],
                   bits=dict(zip(['corr'] + prop.clauses, r['bits'] or [])), repo=core.REPO,
                   repo_commit=os.popen('git -C %s rev-parse --short HEAD' % core.REPO).read().strip())
        print(c['name'], out['bits'])
        if len(sys.argv) > 3:
            json.dump(out, open(os.path.join(sys.argv[3], c['name'] + '.json'), 'w'), indent=1)
