#!/bin/bash
# tools/apply_fixes.sh <patch...>: git am each patch into /repo, dropping the test artefact rm_info.json if a patch carries it
set -e
cd /repo
for p in "$@"; do
  git am -q "$p"
  if git show --stat --format= HEAD | grep -q rm_info.json; then
    git rm -q --cached rm_info.json; git commit -q --amend --no-edit; rm -f rm_info.json
  fi
  echo "applied $(basename $p): $(git log --oneline | head -1)"
done
