#!/venv/bin/python
"""Print the as-built status tables (markdown) for DESIGN.md sections 9-11 from the committed artefacts."""
import json, os, re, glob
V = os.path.dirname(os.path.dirname(os.path.abspath(__file__)))
props = [json.loads(l) for l in open(os.path.join(V, 'properties.jsonl'))]
print('| id | title | model (coq/) | theorems (Props/Cxx.v) | partial / refuted | tie | quick: cases, wall |')
print('|----|-------|--------------|------------------------|-------------------|-----|--------------------|')
for p in props:
    i = p['id']
    pf = os.path.join(V, 'coq', 'Props', i + '.v')
    if not os.path.exists(pf):
        print('| %s | %s | — | not built | | | |' % (i, p['title'])); continue
    src = open(pf).read()
    ths = re.findall(r'^\s*Theorem\s+([A-Za-z0-9_\']+)', src, re.M)
    imp = sorted(set(re.findall(r'\b([A-Z][A-Za-z]+)\.(?:Model|Proofs|Oracle|Inst|Inv|RunProofs)', src)))
    pr = [t for t in ths if t.endswith('_partial') or t.endswith('_refuted') or '_partial' in t or '_refuted' in t]
    ev = {}
    try: ev = json.load(open(os.path.join(V, 'evidence', i + '.json')))
    except Exception: pass
    cov = ev.get('coverage', {})
    mod = __import__('importlib').import_module('harness.' + i.lower()).PROP
    tie = ('translator ' + ','.join(mod.translators) + ' + ' if mod.translators else '') + 'correspondence'
    print('| %s | %s | %s | %d: %s | %s | %s | %s, %ss |' % (
        i, p['title'], ', '.join(imp), len(ths), ', '.join(t.replace(i + '_', '') for t in ths), ', '.join(t.replace(i + '_', '') for t in pr) or '—',
        tie, cov.get('evaluations', '?'), ev.get('wall_s', '?')))
print()
print('Seeded changes:\n')
print('| seed | property | change | needs | caught | by |')
print('|------|----------|--------|-------|--------|----|')
for d in sorted(glob.glob(os.path.join(V, 'seeded', '*'))):
    m = json.load(open(os.path.join(d, 'meta.json'))); c = m.get('confirmed', {})
    print('| %s | %s | %s | %s | %s | %s |' % (os.path.basename(d), m['property'], m['summary'][:160].replace('|', '/').replace('\n', ' '),
          m['needs'][:120].replace('|', '/').replace('\n', ' '),
          ('yes' if c.get('caught_with_failing_input') else ('no-failing-input-found' if c.get('caught') else 'NO'))
          + (' (after strengthening; first: %s)' % ('missed' if not (c.get('first_result') or {}).get('caught', (c.get('first_result') or {}).get('check_exit') == 1) else 'no-failing-input-found')
             if c.get('after_strengthening') else ''),
          ', '.join(sorted(set((c.get('after_strengthening') if isinstance(c.get('after_strengthening'), dict) else {}).get('violated') or c.get('violated') or [])))[:120]))
