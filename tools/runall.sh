#!/bin/bash
# tools/runall.sh <quick|thorough> [seed] [ids...] -- run checks on the unchanged tree; print exit codes and every
# VIOLATION line (a VIOLATION or a non-zero exit here means the check is broken or a new defect was found)
tier=${1:-quick}; seed=${2:-0}; shift; shift
ids=${@:-C01 C02 C03 C04 C05 C06 C07 C08 C09 C10 C11 C12 C13 C14 C15 C16 C17 C18 C19 C20}
cd "$(dirname "$0")/.."
bad=0
for p in $ids; do
    out=$(VERIF_SEED=$seed ./check $p --tier $tier 2>&1); rc=$?
    echo "$out" | grep "^VIOLATION"
    echo "$p exit=$rc $(echo "$out" | grep 'tier=' | tail -1 | cut -c1-150) known=$(echo "$out" | grep -c '^KNOWN-FINDING')"
    [ $rc -ne 0 ] && bad=1
done
echo "ALL-OK=$((1-bad))"
