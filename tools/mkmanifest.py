#!/venv/bin/python
"""Assemble /verif/MANIFEST.json from props/Cxx.json fragments (one per claimed property)."""
import json, os, sys
V = os.path.dirname(os.path.dirname(os.path.abspath(__file__)))
props = [json.loads(l) for l in open(os.path.join(V, 'properties.jsonl'))]
ids = [p['id'] for p in props]
checks, na = [], []
hooks_commits = []
for i in ids:
    f = os.path.join(V, 'props', i + '.json')
    if os.path.exists(f):
        d = json.load(open(f))
        if d.get('not_applicable'):
            na.append({'property_id': i, 'reason': d['not_applicable']})
            continue
        c = {
            'property_id': i,
            'quick_cmd': './check %s --tier quick' % i,
            'thorough_cmd': './check %s --tier thorough' % i,
            'evidence_file': '/verif/evidence/%s.json' % i,
            'replay_cmd_template': './check %s --replay {path}' % i,
            'engine': 'coq-proof+correspondence',
            'level_claimed': {'category': d.get('category', 'proof'), 'text': d['level_text'],
                              'design_ref': d.get('design_ref', 'DESIGN.md section 4, ' + i)},
            'level_note': d['level_note'],
            'technique': d['technique'],
        }
        checks.append(c)
    else:
        na.append({'property_id': i, 'reason': 'not yet built in this development (planned: DESIGN.md section 4); no check is registered, nothing is claimed'})
m = {
    'version': 1,
    'setup_cmd': './setup',
    'hooks': {
        'guard': 'RADICAL_PILOT_VERIF',
        'enable': 'export RADICAL_PILOT_VERIF=1 (no hook exists in /repo; the harness drives the unmodified code with mocks, sys.settrace and patched clocks)',
        'baseline_off_cmd': 'cd /repo && /venv/bin/python -m pytest -ra -q -p no:cacheprovider --timeout=900 --continue-on-collection-errors',
        'source_commits': hooks_commits,
        'add_only': True,
    },
    'engines': [{
        'name': 'coq-proof+correspondence', 'path': '/verif/check',
        'serves_properties': [c['property_id'] for c in checks],
        'kind_free_text': 'Coq 8.16.1 theorems over executable Gallina models (coq/), models tied to /repo by translators '
                          '(translators/ -> coq/Gen) and by a correspondence check that evaluates the model with vm_compute '
                          'inside Coq on the same generated cases the real Python code is run on (harness/)'}],
    'checks': checks,
    'not_applicable': na,
    'notes': 'See DESIGN.md. known_findings.json lists recorded and fixed defects. VERIF_REPO overrides the repository path (default /repo).',
}
json.dump(m, open(os.path.join(V, 'MANIFEST.json'), 'w'), indent=1)
findings, fixed = [], []
for i in ids:
    f = os.path.join(V, 'props', i + '.findings.json')
    if os.path.exists(f):
        d = json.load(open(f))
        findings.extend(d.get('findings', []))
        fixed.extend(d.get('fixed', []))
json.dump({'_comment': "Committed list of genuine defects of radical.pilot found by the checks (assembled by tools/mkmanifest.py from props/Cxx.findings.json). 'findings' are recorded, not repaired: a check prints KNOWN-FINDING for a violation whose signature is listed and exits 0; any other violation is reported. 'fixed' entries document repaired defects ('fix:' commits in /repo) and suppress nothing. Never written at run time.",
           'findings': findings, 'fixed': fixed}, open(os.path.join(V, 'known_findings.json'), 'w'), indent=1)
print('MANIFEST.json: %d checks, %d not claimed' % (len(checks), len(na)))
