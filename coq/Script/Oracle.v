(* C10: observations, the property clauses ok_* (evaluated on the
   implementation's trace AND used to state the theorems), and the rows the
   harness evaluates. *)
From Coq Require Import ZArith List Bool String.
From RP Require Import Common.Eqb Common.ZRange Quote.Model Script.Model.
Import ListNotations.
Open Scope Z_scope.

(* ---- what is observed after real bash ran the real scripts -------------- *)
Record robs := mkR {
  o_tr : list event;                                  (* trace.<rank> *)
  o_probe : option (list bytes * bytes * envmap);     (* ''$@'', cwd, environment of the executable *)
  o_rc : option Z }.                                  (* exit status of this rank's exec script, when recorded *)

Record obs := mkO {
  o_lrc : Z;                                          (* exit status of the launch script *)
  o_ltr : list event;                                 (* trace of the launch script *)
  o_ranks : list robs;
  o_out : option (list line);                         (* content of the DESCRIBED stdout file *)
  o_err : option (list line);
  o_sig : list bytes;                                 (* content of pre_exec.sig *)
  o_line : option bytes;                              (* the command line text in the exec script *)
  o_blocked : list Z }.                               (* ranks whose exec script was still running when the
                                                         harness gave up waiting (o_lrc = -1 then) *)

(* ---- equality ------------------------------------------------------------- *)
Definition sigk_eqb (a b : sigk) : bool :=
  match a, b with
  | PreExec, PreExec | PostExec, PostExec | PreLaunch, PreLaunch
  | PostLaunch, PostLaunch | LauncherEnv, LauncherEnv => true
  | _, _ => false
  end.

Definition event_eqb (a b : event) : bool :=
  match a, b with
  | EProf x, EProf y => bytes_eqb x y
  | ECmd x, ECmd y => x =? y
  | EExec, EExec | ECtrl, ECtrl => true
  | _, _ => false
  end.

Definition line_eqb (a b : line) : bool :=
  match a, b with
  | LOut x, LOut y | LErr x, LErr y => bytes_eqb x y
  | LFail x, LFail y => sigk_eqb x y
  | _, _ => false
  end.

Fixpoint remove1 {A} (e : A -> A -> bool) (x : A) (l : list A) : option (list A) :=
  match l with
  | [] => None
  | y :: l' => if e x y then Some l'
               else match remove1 e x l' with Some r => Some (y :: r) | None => None end
  end.

Fixpoint perm_eqb {A} (e : A -> A -> bool) (a b : list A) : bool :=
  match a with
  | [] => match b with [] => true | _ => false end
  | x :: a' => match remove1 e x b with Some b' => perm_eqb e a' b' | None => false end
  end.

Definition env_sub (a b : envmap) : bool :=
  forallb (fun kv => eqb_option bytes_eqb (lookup (fst kv) b) (Some (snd kv))) a.
Definition env_eqb (a b : envmap) : bool := env_sub a b && env_sub b a.

(* ---- the model's prediction, as an observation --------------------------- *)
Definition robs_of (s : st) : robs :=
  mkR (s_tr s)
      (match s_probe s with
       | Some (w :: ws, cwd, e) => Some (ws, cwd, unsetenv (B "VERIF_RANK") e)
       | _ => None
       end)
      (Some (exit_code s)).

Definition empty_robs : robs := mkR [] None None.

Definition sbox_abs (c : cfg) (t : task) : bytes := squeeze (c_ps_abs c ++ B "/" ++ t_uid t).

Definition described_path (c : cfg) (t : task) (o : option bytes) (dflt : string) : bytes :=
  let name := match o with Some (x :: r) => x :: r | _ => t_uid t ++ B dflt end in
  match name with
  | 47 :: _ => squeeze name
  | _ => squeeze (sbox_abs c t ++ B "/" ++ name)
  end.

Definition file_at (p : bytes) (f : option (bytes * list line)) : option (list line) :=
  match f with
  | Some (q, ls) => if bytes_eqb p q then Some ls else None
  | None => None
  end.

Definition mobs_of (c : cfg) (t : task) (L : lst) : obs :=
  mkO (exit_code (l_st L)) (s_tr (l_st L))
      (match l_ranks L with
       | [] => map (fun _ => empty_robs) (zrange (Z.to_nat (t_ranks t)))
       | rs => map robs_of rs
       end)
      (file_at (described_path c t (t_stdout t) ".out") (l_outf L))
      (file_at (described_path c t (t_stderr t) ".err") (l_errf L))
      (flat_map s_sig (l_ranks L))
      (Some (get_exec (t_exe t) (t_args t)))
      [].   (* every script of the model ends: Script.Barrier shows that the rank synchronisation lets every rank pass *)

Definition unmodelled (L : lst) : bool := s_unmod (l_st L) || existsb s_unmod (l_ranks L).

Definition probe_eqb (a b : option (list bytes * bytes * envmap)) : bool :=
  match a, b with
  | None, None => true
  | Some (wa, ca, ea), Some (wb, cb, eb) => eqb_list bytes_eqb wa wb && bytes_eqb ca cb && env_eqb ea eb
  | _, _ => false
  end.

Definition robs_eqb (m o : robs) : bool :=
  eqb_list event_eqb (o_tr m) (o_tr o) && probe_eqb (o_probe m) (o_probe o)
  && match o_rc o, o_rc m with
     | Some x, Some y => x =? y
     | Some _, None => false
     | None, _ => true          (* not recorded by the launcher *)
     end.

Definition olines_eqb (a b : option (list line)) : bool :=
  match a, b with
  | None, None => true
  | Some x, Some y => perm_eqb line_eqb x y
  | _, _ => false
  end.

Definition obs_eqb (m o : obs) : bool :=
  (o_lrc m =? o_lrc o) && eqb_list event_eqb (o_ltr m) (o_ltr o)
  && eqb_list robs_eqb (o_ranks m) (o_ranks o)
  && olines_eqb (o_out m) (o_out o) && olines_eqb (o_err m) (o_err o)
  && perm_eqb bytes_eqb (o_sig m) (o_sig o)
  && eqb_option bytes_eqb (o_line m) (o_line o)
  && eqb_list Z.eqb (o_blocked m) (o_blocked o).

(* ---- the description, read as a specification ----------------------------- *)
Definition stubs (cs : list cmd) : list (Z * Z) :=
  flat_map (fun c => match c with CStub i rc => [(i, rc)] | CExport _ _ => [] end) cs.

Fixpoint until_fail (l : list (Z * Z)) : list Z :=        (* ids that run: up to and including the first failure *)
  match l with
  | [] => []
  | (i, rc) :: l' => if rc =? 0 then i :: until_fail l' else [i]
  end.

Definition all_ok (l : list (Z * Z)) : bool := forallb (fun x => snd x =? 0) l.

Definition entry_cmds (e : entry) : list cmd :=
  match e with EAll c => [c] | EPer m => flat_map snd m end.

(* described pre_exec: the task's entries followed by the platform's *)
Definition desc_pre (c : cfg) (t : task) : list entry := t_pre t ++ map EAll (c_task_pre_exec c).

Definition pre_stubs (c : cfg) (t : task) (r : Z) := stubs (per_rank_cmds (desc_pre c t) r).
Definition post_stubs (t : task) (r : Z) := stubs (per_rank_cmds (t_post t) r).
Definition all_pre_ids (c : cfg) (t : task) : list Z := map fst (stubs (flat_map entry_cmds (desc_pre c t))).
Definition all_post_ids (t : task) : list Z := map fst (stubs (flat_map entry_cmds (t_post t))).

Definition mem (i : Z) (l : list Z) : bool := existsb (Z.eqb i) l.

Definition cmd_ids (tr : list event) (ids : list Z) : list Z :=
  flat_map (fun e => match e with ECmd i => if mem i ids then [i] else [] | _ => [] end) tr.

Definition is_exec (e : event) : bool := match e with EExec => true | _ => false end.
Definition n_exec (tr : list event) : nat := List.length (filter is_exec tr).

Fixpoint before_exec (tr : list event) : list event :=
  match tr with [] => [] | e :: tr' => if is_exec e then [] else e :: before_exec tr' end.
Fixpoint after_exec (tr : list event) : list event :=
  match tr with [] => [] | e :: tr' => if is_exec e then tr' else after_exec tr' end.

Definition launched (t : task) : bool := all_ok (stubs (t_pre_launch t)).

(* exit status the property text prescribes for rank r's exec script *)
Definition want_rank_rc (c : cfg) (t : task) (rcs : list Z) (r : Z) : Z :=
  if negb (all_ok (pre_stubs c t r)) then 1
  else if negb (all_ok (post_stubs t r)) then 1
  else nth_rc rcs r.

Definition want_launch_rc (c : cfg) (t : task) (rcs : list Z) : Z :=
  if negb (launched t) then 1
  else if negb (all_ok (stubs (t_post_launch t))) then 1
  else first_nonzero (map (want_rank_rc c t rcs) (zrange (Z.to_nat (t_ranks t)))).

(* names a pre_exec export (task's, platform's) or the task environment sets for rank r *)
Definition exported_names (c : cfg) (t : task) (r : Z) : list bytes :=
  flat_map (fun x => match x with CExport k _ => [k] | CStub _ _ => [] end) (per_rank_cmds (desc_pre c t) r).

Definition bmem (k : bytes) (l : list bytes) : bool := existsb (bytes_eqb k) l.

Fixpoint strip_slash (p : bytes) : bytes :=
  match p with
  | [] => []
  | [47] => []
  | x :: p' => x :: strip_slash p'
  end.

(* the RP_* variables describing the task, with the values the description / pilot give them *)
Definition rp_expected (c : cfg) (t : task) (r : Z) : list (bytes * bytes) :=
  [ (B "RP_TASK_ID", t_uid t); (B "RP_TASK_NAME", name_of t);
    (B "RP_PILOT_ID", c_pid c); (B "RP_SESSION_ID", c_sid c); (B "RP_RESOURCE", c_resource c);
    (B "RP_RANK", dec r); (B "RP_RANKS", dec (t_ranks t));
    (B "RP_CORES_PER_RANK", dec (t_cpr t)); (B "RP_GPUS_PER_RANK", fmt_gpr (t_gpr_q t));
    (B "RP_REGISTRY_ADDRESS", c_reg c);
    (B "RP_CONTROL_PUB_ADDRESS", c_pub c); (B "RP_CONTROL_SUB_ADDRESS", c_sub c) ]
  ++ (if t_omp t then [(B "OMP_NUM_THREADS", dec (t_cpr t))] else [])
  ++ (if negb (t_gpr_q t =? 0) && t_cuda t
      then match nth_error (t_gpus t) (Z.to_nat r) with
           | Some gl => [(B "CUDA_VISIBLE_DEVICES", join [44] (map dec gl))]
           | None => []
           end
      else []).

(* sandboxes: compared as paths (// = /, trailing / ignored) *)
Definition sandboxes_expected (c : cfg) (t : task) : list (bytes * bytes) :=
  [ (B "RP_PILOT_SANDBOX", squeeze (c_ps_abs c)); (B "RP_TASK_SANDBOX", sbox_abs c t) ].

(* ---- the clauses ----------------------------------------------------------- *)
Section Clauses.
  Variable c : cfg.
  Variable t : task.
  Variable rcs : list Z.

  Definition ranks_of (o : obs) : list (Z * robs) := combine (zrange (List.length (o_ranks o))) (o_ranks o).

  Definition all_ranks (o : obs) (p : Z -> robs -> bool) : bool :=
    forallb (fun rr => p (fst rr) (snd rr)) (ranks_of o).

  Definition is_nil {A} (l : list A) : bool := match l with [] => true | _ => false end.

  (* the executable received exactly the described argument list *)
  Definition okr_argv (r : Z) (ro : robs) : bool :=
    match o_probe ro with
    | Some (ws, _, _) => eqb_list bytes_eqb ws (t_args t)
    | None => true end.

  (* every described environment variable has the described value *)
  Definition okr_env (r : Z) (ro : robs) : bool :=
    match o_probe ro with
    | Some (_, _, e) =>
        forallb (fun kv => negb (safe (snd kv)) || bmem (fst kv) (exported_names c t r)
                           || eqb_option bytes_eqb (lookup (fst kv) e) (Some (snd kv))) (t_env t)
    | None => true end.

  (* the RP_* variables describe this task *)
  Definition okr_rp_env (r : Z) (ro : robs) : bool :=
    match o_probe ro with
    | Some (_, _, e) =>
        let skip k := bmem k (exported_names c t r) || bmem k (map fst (t_env t)) in
        forallb (fun kv => skip (fst kv) || eqb_option bytes_eqb (lookup (fst kv) e) (Some (snd kv)))
                (rp_expected c t r)
        && forallb (fun kv => skip (fst kv)
                              || match lookup (fst kv) e with
                                 | Some v => bytes_eqb (strip_slash (squeeze v)) (snd kv)
                                 | None => false end)
                   (sandboxes_expected c t)
    | None => true end.

  (* it ran in the task sandbox *)
  Definition okr_cwd (r : Z) (ro : robs) : bool :=
    match o_probe ro with
    | Some (_, cwd, _) => bytes_eqb cwd (sbox_abs c t)
    | None => true end.

  (* pre_exec commands before, post_exec commands after the executable; it runs at most once *)
  Definition okr_order (r : Z) (ro : robs) : bool :=
    (Nat.leb (n_exec (o_tr ro)) 1)
    && is_nil (cmd_ids (after_exec (o_tr ro)) (all_pre_ids c t))
    && match n_exec (o_tr ro) with
       | O => is_nil (cmd_ids (o_tr ro) (all_post_ids t))
       | _ => is_nil (cmd_ids (before_exec (o_tr ro)) (all_post_ids t))
       end.

  (* on rank r exactly the entries for all ranks and for rank r run, in the described order, up to a failure *)
  Definition okr_per_rank (r : Z) (ro : robs) : bool :=
    match o_tr ro with
    | [] => true                                       (* this rank was never started *)
    | tr =>
        eqb_list Z.eqb (cmd_ids tr (all_pre_ids c t)) (until_fail (pre_stubs c t r))
        && eqb_list Z.eqb (cmd_ids tr (all_post_ids t))
                    (match n_exec tr with O => [] | _ => until_fail (post_stubs t r) end)
    end.

  (* a failing pre_exec (or pre_launch) command prevents the executable from running *)
  Definition okr_pre_blocks (r : Z) (ro : robs) : bool :=
    (launched t && all_ok (pre_stubs c t r))
    || (Nat.eqb (n_exec (o_tr ro)) 0 && match o_probe ro with None => true | _ => false end).

  (* exit status of the rank's script: the executable's, unless a pre/post command failed (then 1) *)
  Definition okr_rc (r : Z) (ro : robs) : bool :=
    match o_rc ro with
    | Some x => x =? want_rank_rc c t rcs r
    | None => true end.

  (* unless a pre command failed, the executable runs exactly once *)
  Definition okr_runs (r : Z) (ro : robs) : bool :=
    negb (launched t && all_ok (pre_stubs c t r))
    || (Nat.eqb (n_exec (o_tr ro)) 1 && match o_probe ro with Some _ => true | None => false end).

  Definition ok_argv o := all_ranks o okr_argv.
  Definition ok_env o := all_ranks o okr_env.
  Definition ok_rp_env o := all_ranks o okr_rp_env.
  Definition ok_cwd o := all_ranks o okr_cwd.
  Definition ok_order o := all_ranks o okr_order.
  Definition ok_per_rank o := all_ranks o okr_per_rank.
  Definition ok_pre_blocks o := all_ranks o okr_pre_blocks.
  Definition ok_exit (o : obs) : bool := (o_lrc o =? want_launch_rc c t rcs) && all_ranks o okr_rc.
  Definition ok_runs (o : obs) : bool :=
    (Z.of_nat (List.length (o_ranks o)) =? t_ranks t) && all_ranks o okr_runs.

  (* stdout / stderr of the ranks that ran are in the described files
     (other lines on stderr, like rp_error's message, are not constrained) *)
  Definition is_exe_line (l : line) : bool := match l with LFail _ => false | _ => true end.
  Definition ok_output (o : obs) : bool :=
    negb (launched t)
    || (let ran := filter (fun rr => Nat.ltb 0 (n_exec (o_tr (snd rr)))) (ranks_of o) in
        match o_out o, o_err o with
        | Some lo, Some le =>
            perm_eqb line_eqb (filter is_exe_line lo) (map (fun rr => LOut (dec (fst rr))) ran)
            && perm_eqb line_eqb (filter is_exe_line le) (map (fun rr => LErr (dec (fst rr))) ran)
        | _, _ => false
        end).

  (* every rank's exec script (and the launch script) ends; a rank still blocked -- e.g. in the rank
     synchronisation -- when the harness gives up is a violation *)
  Definition ok_terminates (o : obs) : bool := is_nil (o_blocked o) && negb (o_lrc o =? -1).

  Definition clauses (o : obs) : list bool :=
    [ ok_argv o; ok_env o; ok_rp_env o; ok_cwd o; ok_order o; ok_per_rank o; ok_pre_blocks o;
      ok_exit o; ok_output o; ok_runs o; ok_terminates o ].
End Clauses.

(* ---- rows ------------------------------------------------------------------- *)
Definition c10_row (c : cfg) (t : task) (rcs : list Z) (o : obs) : list bool :=
  (match model_run c t rcs with
   | inr L => negb (unmodelled L) && obs_eqb (mobs_of c t L) o
   | inl _ => false
   end) :: clauses c t rcs o.

(* the generator raised instead of writing scripts *)
Definition c10_generr_row (c : cfg) (t : task) (rcs : list Z) : list bool :=
  (match model_run c t rcs with inl _ => true | inr _ => false end)
  :: [false; false; false; false; false; false; false; false; false; false; false].

(* a case whose scripts were not executed (see the NOT-RUN lines / evidence): nothing is claimed about it *)
Definition c10_notrun_row : list bool :=
  [true; true; true; true; true; true; true; true; true; true; true; true].

Definition show_model (c : cfg) (t : task) (rcs : list Z) :=
  match model_run c t rcs with
  | inr L => Some (unmodelled L, mobs_of c t L)
  | inl _ => None
  end.
