(* C10 / the rank synchronisation rp_sync_ranks (Script.Model: bev, bstep, brun):
   for EVERY schedule of arrivals and polls of the concurrently running ranks
     - the marker file only grows (one line per arrival, nobody removes it),
     - no rank leaves the synchronisation before RP_RANKS lines are there, i.e. before
       every rank has arrived,
     - once all have arrived, the next poll of any rank lets it pass: no rank waits for ever,
       whatever the arrival order.
   Unbounded in the number of ranks and in the schedule (induction over schedules). *)
From Coq Require Import ZArith List Bool Lia Permutation.
From RP Require Import Common.ZRange Quote.Model Script.Model.
Import ListNotations.
Open Scope Z_scope.

Lemma bmemZ_in r l : bmemZ r l = true <-> In r l.
Proof.
  unfold bmemZ. rewrite existsb_exists. split.
  - intros (x & Hx & E). apply Z.eqb_eq in E. now subst.
  - intro H. exists r. split; [exact H|apply Z.eqb_refl].
Qed.

Lemma brun_app n a b s : brun n (a ++ b) s = brun n b (brun n a s).
Proof. unfold brun. apply fold_left_app. Qed.

Lemma brun_cons n e a s : brun n (e :: a) s = brun n a (bstep n e s).
Proof. reflexivity. Qed.

Lemma bstep_poll_file n r s : b_file (bstep n (Poll r) s) = b_file s.
Proof. simpl. destruct (_ && _ && _); reflexivity. Qed.

(* the marker file is exactly the arrivals so far, in order: it never shrinks *)
Lemma barrier_file_lemma n sched : forall s, b_file (brun n sched s) = b_file s ++ arrivals sched.
Proof.
  induction sched as [|e sched IH]; intro s.
  - simpl. now rewrite app_nil_r.
  - rewrite brun_cons, IH. destruct e as [r|r].
    + simpl. now rewrite <- app_assoc.
    + rewrite bstep_poll_file. reflexivity.
Qed.

Lemma bstep_passed_mono n e s r : In r (b_passed s) -> In r (b_passed (bstep n e s)).
Proof.
  intro H. destruct e as [r0|r0]; simpl; [exact H|].
  destruct (_ && _ && _); simpl; auto.
Qed.

Lemma brun_passed_mono n sched : forall s r, In r (b_passed s) -> In r (b_passed (brun n sched s)).
Proof.
  induction sched as [|e sched IH]; intros s r H; [exact H|].
  rewrite brun_cons. apply IH. now apply bstep_passed_mono.
Qed.

(* invariant: whoever has passed has arrived, and saw at least n lines *)
Definition binv (n : nat) (s : bst) : Prop :=
  forall r, In r (b_passed s) -> In r (b_file s) /\ (n <= List.length (b_file s))%nat.

Lemma bstep_inv n e s : binv n s -> binv n (bstep n e s).
Proof.
  intros I r H. destruct e as [r0|r0]; simpl in *.
  - destruct (I r H) as [A B0]. split; [apply in_or_app; now left|].
    rewrite app_length. simpl. lia.
  - destruct (bmemZ r0 (b_file s) && negb (bmemZ r0 (b_passed s)) && Nat.leb n (List.length (b_file s))) eqn:E.
    + simpl in *. apply andb_true_iff in E as [E E3]. apply andb_true_iff in E as [E1 E2].
      apply Nat.leb_le in E3. destruct H as [<-|H].
      * split; [now apply bmemZ_in|exact E3].
      * exact (I r H).
    + exact (I r H).
Qed.

Lemma brun_inv n sched : forall s, binv n s -> binv n (brun n sched s).
Proof.
  induction sched as [|e sched IH]; intros s I; [exact I|].
  rewrite brun_cons. apply IH. now apply bstep_inv.
Qed.

(* NONE PASSES EARLY: at every moment (= after every schedule), a rank that has left the
   synchronisation has arrived itself and the file holds at least n lines *)
Lemma barrier_none_early_lemma (n : nat) sched r :
  In r (b_passed (brun n sched b0)) ->
  In r (arrivals sched) /\ (n <= List.length (arrivals sched))%nat.
Proof.
  intro H. assert (I : binv n (brun n sched b0)) by (apply brun_inv; intros x []).
  destruct (I r H) as [A B0]. rewrite barrier_file_lemma in A, B0. simpl in A, B0. auto.
Qed.

(* ... hence, when every rank arrives once and only ranks 0..n-1 arrive: ALL ranks have arrived *)
Lemma barrier_all_arrived_lemma (n : nat) sched r :
  NoDup (arrivals sched) -> (forall x, In x (arrivals sched) -> In x (zrange n)) ->
  In r (b_passed (brun n sched b0)) ->
  forall k, In k (zrange n) -> In k (arrivals sched).
Proof.
  intros ND Hin H. destruct (barrier_none_early_lemma n sched r H) as [_ L].
  apply (NoDup_length_incl ND).
  - unfold zrange. now rewrite map_length, seq_length.
  - exact Hin.
Qed.

(* NO RANK WAITS FOR EVER: once n lines are in the file, the next poll of a rank that has
   arrived lets it pass (and the file never shrinks, so this stays true at every later moment) *)
Lemma barrier_next_poll_passes_lemma (n : nat) sched later r :
  (n <= List.length (arrivals sched))%nat -> In r (arrivals sched) ->
  In r (b_passed (brun n (sched ++ later ++ [Poll r]) b0)).
Proof.
  intros L A. rewrite app_assoc, brun_app. set (s := brun n (sched ++ later) b0).
  assert (F : b_file s = arrivals sched ++ arrivals later).
  { subst s. rewrite barrier_file_lemma. simpl. unfold arrivals. now rewrite flat_map_app. }
  unfold brun. simpl fold_left. simpl bstep.
  destruct (bmemZ r (b_passed s)) eqn:P.
  - rewrite andb_false_r. simpl. now apply bmemZ_in.
  - assert (M : bmemZ r (b_file s) = true) by (apply bmemZ_in; rewrite F; apply in_or_app; now left).
    assert (N : Nat.leb n (List.length (b_file s)) = true)
      by (apply Nat.leb_le; rewrite F, app_length; lia).
    rewrite M, N. simpl. now left.
Qed.

(* FOR EVERY ARRIVAL ORDER: whatever permutation of the ranks the arrivals come in, and however
   polls are interleaved with them, after one more poll of each rank every rank has passed *)
Lemma barrier_every_order_lemma (n : nat) order sched :
  Permutation order (zrange n) -> arrivals sched = order ->
  forall r, In r (zrange n) -> In r (b_passed (brun n (sched ++ map Poll (zrange n)) b0)).
Proof.
  intros P A r Hr.
  assert (L : (n <= List.length (arrivals sched))%nat).
  { rewrite A, (Permutation_length P). unfold zrange. now rewrite map_length, seq_length. }
  assert (Ar : In r (arrivals sched)) by (rewrite A; apply (Permutation_in r (Permutation_sym P) Hr)).
  apply in_split in Hr as (l1 & l2 & E). rewrite E, map_app. simpl map.
  replace (sched ++ map Poll l1 ++ Poll r :: map Poll l2)
    with ((sched ++ map Poll l1 ++ [Poll r]) ++ map Poll l2) by (now rewrite <- !app_assoc).
  rewrite brun_app. apply brun_passed_mono.
  now apply barrier_next_poll_passes_lemma.
Qed.

(* not vacuous: if rank 0 removed the marker when leaving, a rank could wait for ever:
   rank 1 arrives, polls; rank 0 arrives, passes, removes; rank 1 never passes however often it polls *)
Lemma barrier_with_removal_blocks_lemma :
  forall k, ~ In 1 (b_passed (brun_rm 2 ([Arrive 1; Poll 1; Arrive 0; Poll 0] ++ repeat (Poll 1) k) b0)).
Proof.
  intro k. unfold brun_rm. rewrite fold_left_app.
  change (fold_left (fun s e => bstep_rm 2 e s) [Arrive 1; Poll 1; Arrive 0; Poll 0] b0) with (mkB [] [0]).
  induction k as [|k IH]; simpl; [intros [H|[]]; discriminate|exact IH].
Qed.
