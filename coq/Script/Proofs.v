(* C10 / Script: what running the generated exec script does on one rank,
   for EVERY task description (unbounded: induction over command lists,
   entry lists, statement lists). *)
From Coq Require Import ZArith String List Bool Lia.
From Coq Require DecimalZ DecimalPos Decimal.
From RP Require Import Common.ZRange Common.Eqb Quote.Model Quote.Proofs Script.Model Script.Oracle.
Import ListNotations.
Open Scope Z_scope.

(* ---- decimal rendering is injective, plain and non-empty ---------------------- *)
Lemma bytes_of_uint_inj u : forall v, bytes_of_uint u = bytes_of_uint v -> u = v.
Proof.
  induction u; intros v H; destruct v; simpl in H; try discriminate; try reflexivity;
    injection H as H; f_equal; auto.
Qed.

Lemma bytes_of_uint_digits u : forallb is_digit (bytes_of_uint u) = true.
Proof. induction u; simpl; auto. Qed.

Lemma dec_inj a b : dec a = dec b -> a = b.
Proof.
  unfold dec. intro H.
  rewrite <- (DecimalZ.of_to a), <- (DecimalZ.of_to b).
  destruct (Z.to_int a) as [u|u], (Z.to_int b) as [v|v]; simpl in H.
  - now rewrite (bytes_of_uint_inj u v H).
  - exfalso. pose proof (bytes_of_uint_digits u) as D. rewrite H in D. discriminate D.
  - exfalso. pose proof (bytes_of_uint_digits v) as D. rewrite <- H in D. discriminate D.
  - injection H as H. now rewrite (bytes_of_uint_inj u v H).
Qed.

Lemma digit_plain c : is_digit c = true -> is_plain c = true.
Proof. intro H. unfold is_plain, is_ident_char. rewrite H. now rewrite orb_true_r. Qed.

Lemma dec_plain a : 0 <= a -> forallb is_plain (dec a) = true /\ dec a <> [].
Proof.
  intro Ha. unfold dec. destruct a as [|p|p]; try lia.
  - split; [reflexivity|discriminate].
  - simpl. split.
    + rewrite forallb_forall. intros x Hx. apply digit_plain.
      pose proof (bytes_of_uint_digits (Pos.to_uint p)) as D. rewrite forallb_forall in D. auto.
    + pose proof (DecimalPos.Unsigned.to_uint_nonnil p) as N.
      destruct (Pos.to_uint p); try congruence; discriminate.
Qed.

(* ---- environments ---------------------------------------------------------------- *)
Lemma bytes_eqb_sym a b : bytes_eqb a b = bytes_eqb b a.
Proof.
  destruct (bytes_eqb a b) eqn:E.
  - apply bytes_eqb_eq in E. subst. now rewrite bytes_eqb_refl.
  - destruct (bytes_eqb b a) eqn:E'; [|reflexivity].
    apply bytes_eqb_eq in E'. subst. now rewrite bytes_eqb_refl in E.
Qed.

Lemma lookup_setenv k v k' e :
  lookup k' (setenv k v e) = if bytes_eqb k' k then Some v else lookup k' e.
Proof.
  induction e as [|[k0 v0] e IH]; simpl.
  - reflexivity.
  - destruct (bytes_eqb k k0) eqn:E; simpl.
    + apply bytes_eqb_eq in E. subst k0. destruct (bytes_eqb k' k); reflexivity.
    + rewrite IH. destruct (bytes_eqb k' k0) eqn:E0; [|reflexivity].
      apply bytes_eqb_eq in E0. subst k0. rewrite bytes_eqb_sym in E. now rewrite E.
Qed.

Lemma getenv_setenv_other k v k' e : bytes_eqb k' k = false -> getenv k' (setenv k v e) = getenv k' e.
Proof. intro H. unfold getenv. now rewrite lookup_setenv, H. Qed.

Lemma getenv_setenv_same k v e : getenv k (setenv k v e) = v.
Proof. unfold getenv. now rewrite lookup_setenv, bytes_eqb_refl. Qed.

Lemma lookup_unsetenv_other k k' e : bytes_eqb k' k = false -> lookup k' (unsetenv k e) = lookup k' e.
Proof.
  intro H. induction e as [|[k0 v0] e IH]; simpl; [reflexivity|].
  destruct (bytes_eqb k k0) eqn:E; simpl.
  - apply bytes_eqb_eq in E. subst k0. now rewrite H.
  - now rewrite IH.
Qed.

(* ---- command lists ------------------------------------------------------------------- *)
Definition cmd_keeps (k : bytes) (c : cmd) : bool :=
  match c with CStub _ _ => true | CExport k' _ => negb (bytes_eqb k k') end.

Lemma do_cmds_exited cs g s x : s_exit s = Some x -> do_cmds cs g s = s.
Proof. intro H. destruct cs; simpl; [reflexivity|now rewrite H]. Qed.

Lemma do_cmds_spec cs g : forall s, s_exit s = None ->
  s_tr (do_cmds cs g s) = s_tr s ++ map ECmd (until_fail (stubs cs)) /\
  s_exit (do_cmds cs g s) = (if all_ok (stubs cs) then None else Some 1) /\
  s_probe (do_cmds cs g s) = s_probe s /\ s_ret (do_cmds cs g s) = s_ret s /\
  s_cwd (do_cmds cs g s) = s_cwd s /\
  (forall k, forallb (cmd_keeps k) cs = true -> getenv k (s_env (do_cmds cs g s)) = getenv k (s_env s)).
Proof.
  induction cs as [|c cs IH]; intros s Hs.
  - simpl. rewrite app_nil_r. repeat split; auto.
  - simpl do_cmds. rewrite Hs. destruct c as [id rc|k v].
    + simpl do_cmd. destruct (Z.eqb_spec rc 0) as [->|Hrc].
      * destruct (IH (w_tr (ECmd id) s) Hs) as (A & B0 & C & D & E & F).
        simpl stubs. change (until_fail ((id, 0) :: stubs cs)) with (id :: until_fail (stubs cs)).
        change (all_ok ((id, 0) :: stubs cs)) with (all_ok (stubs cs)).
        rewrite A, B0, C, D, E. simpl. rewrite <- app_assoc. repeat split; auto.
        all: intros k Hk; simpl in Hk; now rewrite (F k Hk).
      * rewrite do_cmds_exited with (x := 1) by reflexivity.
        simpl stubs. unfold until_fail at 1. fold until_fail. unfold all_ok. simpl forallb.
        apply Z.eqb_neq in Hrc. rewrite Hrc. simpl. repeat split; auto.
    + simpl do_cmd. simpl stubs.
      destruct (forallb is_plain v).
      * destruct (IH (w_env (setenv k v) s) Hs) as (A & B0 & C & D & E & F).
        rewrite A, B0, C, D, E. simpl. repeat split; auto.
        all: intros k' Hk; simpl in Hk; apply andb_true_iff in Hk as [H1 H2];
          rewrite (F k' H2); simpl; apply getenv_setenv_other; now apply negb_true_iff in H1.
      * destruct (IH (w_unmod s) Hs) as (A & B0 & C & D & E & F).
        rewrite A, B0, C, D, E. simpl. repeat split; auto.
        all: intros k' Hk; simpl in Hk; apply andb_true_iff in Hk as [H1 H2]; now rewrite (F k' H2).
Qed.

(* ---- the per-rank switch selects the arm of this rank ----------------------------------- *)
Lemma find_arm_map (f : Z -> list cmd) r l :
  In r l -> find_arm (dec r) (map (fun i => (i, f i)) l) = f r.
Proof.
  induction l as [|i l IH]; intro H; [destruct H|].
  simpl. destruct (bytes_eqb (dec i) (dec r)) eqn:E.
  - apply bytes_eqb_eq in E. apply dec_inj in E. now subst.
  - destruct H as [->|H]; [now rewrite bytes_eqb_refl in E|auto].
Qed.

Lemma per_rank_cmds_noper es : has_per es = false -> forall r, per_rank_cmds es r = per_rank_cmds es 0.
Proof.
  induction es as [|e es IH]; intros H r; [reflexivity|].
  simpl in H. destruct e; [|discriminate]. simpl in *. f_equal. auto.
Qed.

(* ---- statements that neither run a command nor leave the script ----------------------------- *)
Definition quiet_ev (e : event) : bool := match e with EProf _ | ECtrl => true | _ => false end.

Definition quiet (x : stmt) : bool :=
  match x with
  | SExportQ _ _ | SUnset _ | SProf _ | SRankFromVar _ | SCtrl | SFiles | SDot => true
  | _ => false
  end.

Definition assigns (k : bytes) (x : stmt) : bool :=
  match x with
  | SExportQ k' _ | SUnset k' => bytes_eqb k k'
  | SRankFromVar _ => bytes_eqb k (B "RP_RANK")
  | _ => false
  end.

Record same_ctl (s s' : st) (q : list event) : Prop := {
  sc_exit : s_exit s' = s_exit s; sc_probe : s_probe s' = s_probe s; sc_ret : s_ret s' = s_ret s;
  sc_cwd : s_cwd s' = s_cwd s; sc_tr : s_tr s' = s_tr s ++ q; sc_q : forallb quiet_ev q = true }.

Lemma step_quiet rc x s : quiet x = true -> s_exit s = None ->
  exists q, same_ctl s (step rc x s) q /\
            (forall k, assigns k x = false -> getenv k (s_env (step rc x s)) = getenv k (s_env s)).
Proof.
  intros Hq Hs. unfold step. rewrite Hs.
  destruct x; try discriminate Hq.
  - (* SExportQ *) exists []. destruct (bash_word (s_env s) q); simpl; split;
      try (constructor; simpl; auto using app_nil_r; now rewrite app_nil_r); auto.
    intros k' Hk. simpl in Hk. apply getenv_setenv_other. exact Hk.
  - (* SUnset *) exists []. simpl; split; [constructor; simpl; auto; now rewrite app_nil_r|].
    intros k' Hk. simpl in Hk. unfold getenv. now rewrite lookup_unsetenv_other.
  - (* SProf *) exists [EProf ev]. simpl; split; [constructor; simpl; auto|auto].
  - (* SRankFromVar *) exists []. destruct (getenv v (s_env s)) as [|c0 val] eqn:E.
    + split; [constructor; auto; now rewrite app_nil_r|auto].
    + destruct (forallb is_plain (c0 :: val)); simpl; split;
        try (constructor; simpl; auto; now rewrite app_nil_r); auto.
      intros k' Hk. simpl in Hk. apply getenv_setenv_other. exact Hk.
  - (* SCtrl *) destruct (bytes_eqb (getenv (B "RP_RANK") (s_env s)) (B "0")).
    + exists [ECtrl]. simpl; split; [constructor; simpl; auto|auto].
    + exists []. split; [constructor; auto; now rewrite app_nil_r|auto].
  - (* SFiles *) exists []. split; [constructor; auto; now rewrite app_nil_r|auto].
  - (* SDot *) exists []. split; [constructor; auto; now rewrite app_nil_r|auto].
Qed.

Lemma run_app rc p1 : forall p2 s, run rc (p1 ++ p2) s = run rc p2 (run rc p1 s).
Proof. induction p1 as [|x p1 IH]; intros; simpl; auto. Qed.

Lemma run_quiet rc p : forall s, forallb quiet p = true -> s_exit s = None ->
  exists q, same_ctl s (run rc p s) q /\
            (forall k, forallb (fun x => negb (assigns k x)) p = true ->
                       getenv k (s_env (run rc p s)) = getenv k (s_env s)).
Proof.
  induction p as [|x p IH]; intros s Hq Hs.
  - exists []. simpl. split; [constructor; auto; now rewrite app_nil_r|auto].
  - simpl in Hq. apply andb_true_iff in Hq as [Hx Hp].
    destruct (step_quiet rc x s Hx Hs) as (q1 & [A1 A2 A3 A4 A5 A6] & K1).
    assert (Hs1 : s_exit (step rc x s) = None) by congruence.
    destruct (IH (step rc x s) Hp Hs1) as (q2 & [B1 B2 B3 B4 B5 B6] & K2).
    exists (q1 ++ q2). simpl run. split.
    + constructor; try congruence.
      * rewrite B5, A5. now rewrite app_assoc.
      * rewrite forallb_app. now rewrite A6, B6.
    + intros k Hk. simpl in Hk. apply andb_true_iff in Hk as [Hk1 Hk2].
      rewrite (K2 k Hk2). apply K1. now apply negb_true_iff in Hk1.
Qed.

(* ---- well-formed inputs ------------------------------------------------------------------------ *)
Notation kRANK := (B "RP_RANK").

Definition entry_keeps (k : bytes) (e : entry) : bool := forallb (cmd_keeps k) (entry_cmds e).

Definition wfb (c : cfg) (t : task) : bool :=
  plain_word (t_exe t) && forallb safe (t_args t) && (1 <=? t_ranks t)
  && forallb (fun kv => negb (bytes_eqb kRANK (fst kv))) (t_env t)
  && forallb (entry_keeps kRANK) (t_pre t) && forallb (entry_keeps kRANK) (t_post t)
  && forallb (cmd_keeps kRANK) (c_task_pre_exec c).

Lemma run_exited rc p : forall s x, s_exit s = Some x -> run rc p s = s.
Proof.
  induction p as [|y p IH]; intros s x H; [reflexivity|].
  simpl. unfold step at 1. rewrite H. eauto.
Qed.

Lemma run_map_cmd rc g cs : forall s, run rc (map (fun c => SCmd c g) cs) s = do_cmds cs g s.
Proof.
  induction cs as [|c cs IH]; intro s; [reflexivity|].
  simpl. destruct (s_exit s) eqn:E.
  - unfold step. rewrite E. apply run_exited with (x := z). exact E.
  - unfold step at 1. rewrite E. apply IH.
Qed.

Lemma zlookup_in {A} r (m : list (Z * A)) x : zlookup r m = Some x -> In x (map snd m).
Proof.
  induction m as [|[r' y] m IH]; simpl; [discriminate|].
  destruct (r =? r'); [intro H; injection H as ->; now left|auto].
Qed.

Lemma per_rank_keeps k es r :
  forallb (entry_keeps k) es = true -> forallb (cmd_keeps k) (per_rank_cmds es r) = true.
Proof.
  induction es as [|e es IH]; intro H; [reflexivity|].
  simpl in H. apply andb_true_iff in H as [He Hes].
  unfold per_rank_cmds. simpl flat_map. rewrite forallb_app. fold (per_rank_cmds es r).
  rewrite (IH Hes), andb_true_r.
  destruct e as [c0|m]; [exact He|].
  destruct (zlookup r m) as [cs|] eqn:E; [|reflexivity].
  unfold entry_keeps in He. simpl in He. rewrite forallb_forall in *.
  intros x Hx. apply He. apply in_flat_map. apply zlookup_in in E.
  apply in_map_iff in E as ([r' cs'] & E1 & E2). simpl in E1. subst cs'.
  exists (r', cs). split; [exact E2|exact Hx].
Qed.

Lemma mapi_keeps k (f : list Z -> bytes) key : bytes_eqb k key = false ->
  forall gl i, forallb (cmd_keeps k) (flat_map snd (mapi_from i (fun r g => (r, [CExport key (f g)])) gl)) = true.
Proof.
  intros Hk gl. induction gl as [|g gl IH]; intro i; [reflexivity|].
  simpl. rewrite Hk. simpl. apply IH.
Qed.

Lemma ext_pre_keeps c t r : wfb c t = true ->
  forallb (cmd_keeps kRANK) (per_rank_cmds (ext_pre c t) r) = true.
Proof.
  intro W. unfold wfb in W. repeat (apply andb_true_iff in W as [W ?]).
  apply per_rank_keeps. unfold ext_pre. rewrite !forallb_app.
  repeat (apply andb_true_iff; split).
  - assumption.
  - destruct (t_omp t); reflexivity.
  - destruct (negb (t_gpr_q t =? 0) && t_cuda t && match t_gpus t with [] => false | _ => true end); [|reflexivity].
    simpl. rewrite andb_true_r. unfold entry_keeps. simpl. now apply mapi_keeps.
  - clear -H. induction (c_task_pre_exec c) as [|x l IH]; [reflexivity|].
    simpl in *. apply andb_true_iff in H as [H1 H2]. unfold entry_keeps at 1. simpl.
    now rewrite H1, IH.
Qed.

(* ---- the pre_exec / post_exec section ------------------------------------------------------------ *)
Lemma prep_spec rc es n g sync r s :
  s_exit s = None -> getenv kRANK (s_env s) = dec r -> 0 <= r < n ->
  let cs := per_rank_cmds es r in
  let s' := run rc (prep es n g sync) s in
  s_tr s' = s_tr s ++ map ECmd (until_fail (stubs cs)) /\
  s_exit s' = (if all_ok (stubs cs) then None else Some 1) /\
  s_probe s' = s_probe s /\ s_ret s' = s_ret s /\ s_cwd s' = s_cwd s /\
  (forallb (cmd_keeps kRANK) cs = true -> getenv kRANK (s_env s') = dec r).
Proof.
  intros Hs Hr Hrn cs s'. subst s'. unfold prep. rewrite run_app.
  set (s1 := run rc (if has_per es then _ else _) s).
  assert (E1 : s1 = do_cmds cs g s).
  { subst s1 cs. destruct (has_per es) eqn:Hp.
    - simpl run. unfold step. rewrite Hs, Hr. rewrite find_arm_map; [reflexivity|].
      apply zrange_in. lia.
    - rewrite run_map_cmd. now rewrite <- (per_rank_cmds_noper es Hp r). }
  destruct (do_cmds_spec cs g s Hs) as (A & B0 & C & D & E & F).
  rewrite <- E1 in *.
  assert (S : forall s2, s_tr (run rc (if sync then [SSync g] else []) s2) = s_tr s2 /\
                         s_exit (run rc (if sync then [SSync g] else []) s2) = s_exit s2 /\
                         s_probe (run rc (if sync then [SSync g] else []) s2) = s_probe s2 /\
                         s_ret (run rc (if sync then [SSync g] else []) s2) = s_ret s2 /\
                         s_cwd (run rc (if sync then [SSync g] else []) s2) = s_cwd s2 /\
                         s_env (run rc (if sync then [SSync g] else []) s2) = s_env s2).
  { intro s2. destruct sync; simpl; [|repeat split; reflexivity].
    unfold step. destruct (s_exit s2) eqn:E2; simpl; repeat split; auto. }
  destruct (S s1) as (S1 & S2 & S3 & S4 & S5 & S6).
  rewrite S1, S2, S3, S4, S5, S6. repeat split; auto.
  intro K. rewrite (F kRANK K). exact Hr.
Qed.

(* ---- one rank's run of the exec script -------------------------------------------------------------- *)
Notation kVR := (B "VERIF_RANK").

Definition ready (l : lm) (r : Z) (s : st) : Prop :=
  match l with
  | LFork => r = 0
  | LFake => getenv kVR (s_env s) = dec r /\ 0 <= r
  end.

Definition head_prog (c : cfg) (t : task) : list stmt :=
  rp_env c t ++ [SExportQ (B "RP_RANKS") (dec (t_ranks t))].

Definition mid_prog (t : task) : list stmt :=
  (if t_startup_to t then [SCtrl] else []) ++ [SProf (B "exec_start")] ++ task_env t ++ [SProf (B "exec_pre")].

Lemma head_quiet c t : forallb quiet (head_prog c t) = true.
Proof. unfold head_prog, rp_env. destruct (c_prof c); reflexivity. Qed.

Lemma head_keeps c t k :
  bytes_eqb k kRANK = true \/ bytes_eqb k kVR = true ->
  forallb (fun x => negb (assigns k x)) (head_prog c t) = true.
Proof.
  intros [H|H]; apply bytes_eqb_eq in H; subst k; unfold head_prog, rp_env; destruct (c_prof c); reflexivity.
Qed.

Lemma mid_quiet t : forallb quiet (mid_prog t) = true.
Proof.
  unfold mid_prog. rewrite !forallb_app. destruct (t_startup_to t); simpl;
    rewrite andb_true_r; unfold task_env; induction (t_env t); simpl; auto.
Qed.

Lemma mid_keeps c t : wfb c t = true -> forallb (fun x => negb (assigns kRANK x)) (mid_prog t) = true.
Proof.
  intro W. unfold wfb in W. repeat (apply andb_true_iff in W as [W ?]).
  unfold mid_prog. rewrite !forallb_app. destruct (t_startup_to t); simpl; rewrite andb_true_r;
    unfold task_env; clear -H2; induction (t_env t) as [|kv l IH]; simpl in *; auto;
    apply andb_true_iff in H2 as [H1 H2]; rewrite H1; simpl; auto.
Qed.

Lemma rank_cmd_spec rc l r s : s_exit s = None -> ready l r s ->
  exists q, same_ctl s (run rc (rank_cmd l) s) q /\ getenv kRANK (s_env (run rc (rank_cmd l) s)) = dec r.
Proof.
  intros Hs Hr. destruct l; simpl in Hr.
  - subst r. exists []. simpl run. unfold step. rewrite Hs.
    change (bash_word (s_env s) (B "0")) with (Some (B "0")). split.
    + constructor; simpl; auto. now rewrite app_nil_r.
    + simpl. now rewrite getenv_setenv_same.
  - destruct Hr as [Hv H0]. exists []. simpl run. unfold step. rewrite Hs, Hv.
    destruct (dec_plain r H0) as [Hp Hn].
    destruct (dec r) as [|d0 dr] eqn:E; [congruence|]. rewrite Hp. split.
    + constructor; simpl; auto. now rewrite app_nil_r.
    + simpl. now rewrite getenv_setenv_same.
Qed.

Definition ev_exec : list event := [EProf (B "rank_start"); EExec; EProf (B "rank_stop"); EProf (B "exec_post")].

Definition exec_tail (c : cfg) (t : task) : list stmt :=
  [SFiles; SProf (B "rank_start"); SExec (get_exec (t_exe t) (t_args t)); SProf (B "rank_stop");
   SFiles; SProf (B "exec_post")].

Lemma step_files rc s : step rc SFiles s = s.
Proof. unfold step. destruct (s_exit s); reflexivity. Qed.

Lemma step_prof rc ev s : s_exit s = None -> step rc (SProf ev) s = w_tr (EProf ev) s.
Proof. intro H. unfold step. now rewrite H. Qed.

Lemma step_exec rc ln s w ws : s_exit s = None -> bash_words (s_env s) ln = Some (w :: ws) ->
  step rc (SExec ln) s =
  mkSt (s_env s) (s_cwd s) (s_tr s ++ [EExec]) (Some rc) None (Some (w :: ws, s_cwd s, s_env s))
       (s_out s ++ [LOut (getenv kRANK (s_env s))]) (s_err s ++ [LErr (getenv kRANK (s_env s))])
       (s_sig s) (s_unmod s).
Proof. intros H E. unfold step. now rewrite H, E. Qed.

Lemma step_exit rc s : s_exit s = None ->
  step rc SExitRet s = w_exit (match s_ret s with Some r => r | None => 0 end) s.
Proof. intro H. unfold step. now rewrite H. Qed.

Lemma exec_tail_spec rc c t s : wfb c t = true -> s_exit s = None ->
  let s' := run rc (exec_tail c t) s in
  s_tr s' = s_tr s ++ ev_exec /\ s_exit s' = None /\ s_ret s' = Some rc /\
  s_probe s' = Some (t_exe t :: t_args t, s_cwd s, s_env s) /\ s_env s' = s_env s /\ s_cwd s' = s_cwd s.
Proof.
  intros W Hs. unfold wfb in W. repeat (apply andb_true_iff in W as [W ?]).
  unfold exec_tail. cbn [run].
  rewrite !step_files. rewrite (step_prof rc _ s Hs).
  set (s1 := w_tr (EProf (B "rank_start")) s).
  assert (Hx1 : s_exit s1 = None) by exact Hs.
  rewrite (step_exec rc _ s1 (t_exe t) (t_args t) Hx1
             (argv_roundtrip_lemma (s_env s1) (t_exe t) (t_args t) W H4)).
  set (s2 := mkSt _ _ _ _ _ _ _ _ _ _).
  rewrite (step_prof rc _ s2 eq_refl).
  rewrite step_prof by reflexivity.
  subst s2 s1. simpl. rewrite <- !app_assoc. simpl. repeat split; reflexivity.
Qed.

Definition exec_body (c : cfg) (l : lm) (t : task) : list stmt :=
  head_prog c t ++ rank_cmd l ++ mid_prog t ++ prep (ext_pre c t) (t_ranks t) PreExec (t_sync t)
  ++ exec_tail c t ++ prep (t_post t) (t_ranks t) PostExec false ++ [SProf (B "exec_stop"); SExitRet].

Lemma exec_prog_eq c l t : exec_prog c l t = inr (exec_body c l t).
Proof.
  unfold exec_prog, exports_rank. rewrite andb_false_r. f_equal.
  unfold exec_body, head_prog, mid_prog, exec_tail. rewrite <- !app_assoc. reflexivity.
Qed.

(* Everything the run of rank r's exec script does that the property talks about. *)
Theorem rank_spec c l t rc r s0 ep :
  wfb c t = true -> exec_prog c l t = inr ep ->
  s_exit s0 = None -> s_tr s0 = [] -> s_probe s0 = None -> ready l r s0 -> 0 <= r < t_ranks t ->
  let pre := stubs (per_rank_cmds (ext_pre c t) r) in
  let post := stubs (per_rank_cmds (t_post t) r) in
  let s' := run rc ep s0 in
  exists qA, forallb quiet_ev qA = true /\
    s_tr s' = qA ++ map ECmd (until_fail pre)
              ++ (if all_ok pre
                  then ev_exec ++ map ECmd (until_fail post)
                       ++ (if all_ok post then [EProf (B "exec_stop")] else [])
                  else []) /\
    s_exit s' = Some (if all_ok pre then if all_ok post then rc else 1 else 1) /\
    (if all_ok pre
     then exists e, s_probe s' = Some (t_exe t :: t_args t, s_cwd s0, e)
     else s_probe s' = None).
Proof.
  intros W Hep Hs0 Htr0 Hp0 Hrdy Hr pre post s'. subst s'.
  assert (Eep : ep = exec_body c l t) by (rewrite exec_prog_eq in Hep; congruence).
  rewrite Eep. unfold exec_body.
  rewrite !run_app.
  (* head *)
  destruct (run_quiet rc (head_prog c t) s0 (head_quiet c t) Hs0) as (q1 & [A1 A2 A3 A4 A5 A6] & K1).
  set (s1 := run rc (head_prog c t) s0) in *.
  assert (Hs1 : s_exit s1 = None) by congruence.
  assert (Hrdy1 : ready l r s1).
  { destruct l; simpl in *; [exact Hrdy|]. destruct Hrdy as [Hv H0]. split; [|exact H0].
    rewrite (K1 kVR); [exact Hv|]. apply head_keeps. right. apply bytes_eqb_refl. }
  (* rank id *)
  destruct (rank_cmd_spec rc l r s1 Hs1 Hrdy1) as (q2 & [B1 B2 B3 B4 B5 B6] & R2).
  set (s2 := run rc (rank_cmd l) s1) in *.
  assert (Hs2 : s_exit s2 = None) by congruence.
  (* task environment *)
  destruct (run_quiet rc (mid_prog t) s2 (mid_quiet t) Hs2) as (q3 & [C1 C2 C3 C4 C5 C6] & K3).
  set (s3 := run rc (mid_prog t) s2) in *.
  assert (Hs3 : s_exit s3 = None) by congruence.
  assert (R3 : getenv kRANK (s_env s3) = dec r) by (rewrite (K3 kRANK (mid_keeps c t W)); exact R2).
  (* pre_exec *)
  destruct (prep_spec rc (ext_pre c t) (t_ranks t) PreExec (t_sync t) r s3 Hs3 R3 Hr)
    as (D1 & D2 & D3 & D4 & D5 & D6).
  set (s4 := run rc (prep (ext_pre c t) (t_ranks t) PreExec (t_sync t)) s3) in *.
  specialize (D6 (ext_pre_keeps c t r W)).
  fold pre in D1, D2.
  exists (q1 ++ q2 ++ q3). split; [rewrite !forallb_app; now rewrite A6, B6, C6|].
  assert (T3 : s_tr s3 = q1 ++ q2 ++ q3) by (rewrite C5, B5, A5, Htr0; simpl; now rewrite <- app_assoc).
  assert (P3 : s_probe s3 = None) by congruence.
  assert (W3 : s_cwd s3 = s_cwd s0) by congruence.
  destruct (all_ok pre) eqn:Hpre.
  2:{ (* a pre_exec command failed: the script has left *)
      rewrite !(run_exited rc _ s4 1 D2). rewrite D1, D2, D3, T3. rewrite app_nil_r.
      repeat split; auto. all: try now rewrite <- !app_assoc. }
  (* the executable *)
  destruct (exec_tail_spec rc c t s4 W D2) as (E1 & E2 & E3 & E4 & E5 & E6).
  set (s5 := run rc (exec_tail c t) s4) in *.
  assert (R5 : getenv kRANK (s_env s5) = dec r) by (rewrite E5; exact D6).
  (* post_exec *)
  destruct (prep_spec rc (t_post t) (t_ranks t) PostExec false r s5 E2 R5 Hr) as (F1 & F2 & F3 & F4 & F5 & _).
  set (s6 := run rc (prep (t_post t) (t_ranks t) PostExec false) s5) in *.
  fold post in F1, F2.
  destruct (all_ok post) eqn:Hpost.
  - cbn [run]. rewrite (step_prof rc _ s6 F2). rewrite step_exit by exact F2.
    simpl. rewrite F4, E3. simpl.
    rewrite F1, E1, D1, T3, F3, E4, D5, W3. rewrite <- !app_assoc. repeat split; eauto.
  - rewrite (run_exited rc _ s6 1 F2). rewrite F1, F2, F3, E1, E4, D1, T3, D5, W3.
    rewrite app_nil_r, <- !app_assoc. repeat split; eauto.
Qed.

(* ---- the description as a specification: platform extensions add no commands ------------------------ *)
Lemma stubs_app a b : stubs (a ++ b) = stubs a ++ stubs b.
Proof. unfold stubs. apply flat_map_app. Qed.

Lemma per_rank_app a b r : per_rank_cmds (a ++ b) r = per_rank_cmds a r ++ per_rank_cmds b r.
Proof. unfold per_rank_cmds. apply flat_map_app. Qed.

Lemma mapi_lookup_stubs (f : list Z -> bytes) key r : forall gl i,
  stubs (match zlookup r (mapi_from i (fun r g => (r, [CExport key (f g)])) gl) with
         | Some cs => cs | None => [] end) = [].
Proof.
  induction gl as [|g gl IH]; intro i; [reflexivity|].
  simpl. destruct (r =? i); [reflexivity|apply IH].
Qed.

Lemma pre_stubs_eq c t r : stubs (per_rank_cmds (ext_pre c t) r) = pre_stubs c t r.
Proof.
  unfold pre_stubs, desc_pre, ext_pre. rewrite !per_rank_app, !stubs_app.
  replace (stubs (per_rank_cmds (if t_omp t then _ else []) r)) with (@nil (Z * Z))
    by (destruct (t_omp t); reflexivity).
  match goal with |- context [per_rank_cmds (if ?b then [EPer ?m] else []) r] =>
    replace (stubs (per_rank_cmds (if b then [EPer m] else []) r)) with (@nil (Z * Z)) end.
  - reflexivity.
  - destruct (negb (t_gpr_q t =? 0) && t_cuda t && match t_gpus t with [] => false | _ => true end);
      [|reflexivity].
    unfold per_rank_cmds. simpl flat_map. rewrite app_nil_r. symmetry. apply mapi_lookup_stubs.
Qed.

(* ---- trace functions on the shape rank_spec gives ------------------------------------------------------ *)
Lemma n_exec_app a b : n_exec (a ++ b) = (n_exec a + n_exec b)%nat.
Proof. unfold n_exec. now rewrite filter_app, app_length. Qed.

Lemma n_exec_quiet q : forallb quiet_ev q = true -> n_exec q = 0%nat.
Proof.
  induction q as [|e q IH]; intro H; [reflexivity|]. simpl in H. apply andb_true_iff in H as [He Hq].
  unfold n_exec in *. simpl. destruct e; try discriminate He; simpl; auto.
Qed.

Lemma n_exec_cmds l : n_exec (map ECmd l) = 0%nat.
Proof. induction l; simpl; auto. Qed.

(* ---- the clauses of the oracle hold on what the model predicts for a rank ------------------------------- *)
Section RankClauses.
  Variables (c : cfg) (l : lm) (t : task) (rcs : list Z) (r : Z) (s0 : st) (ep : list stmt).
  Hypothesis W : wfb c t = true.
  Hypothesis Hep : exec_prog c l t = inr ep.
  Hypothesis Hs0 : s_exit s0 = None.
  Hypothesis Htr0 : s_tr s0 = [].
  Hypothesis Hp0 : s_probe s0 = None.
  Hypothesis Hrdy : ready l r s0.
  Hypothesis Hr : 0 <= r < t_ranks t.

  Let s' := run (nth_rc rcs r) ep s0.

  Lemma rank_exit_code : exit_code s' = want_rank_rc c t rcs r.
  Proof.
    destruct (rank_spec c l t (nth_rc rcs r) r s0 ep W Hep Hs0 Htr0 Hp0 Hrdy Hr) as (qA & _ & _ & E & _).
    fold s' in E. unfold exit_code. rewrite E. rewrite pre_stubs_eq. unfold want_rank_rc, post_stubs.
    destruct (all_ok (pre_stubs c t r)); simpl; [|reflexivity].
    destruct (all_ok (stubs (per_rank_cmds (t_post t) r))); reflexivity.
  Qed.

  Lemma rank_okr_rc : okr_rc c t rcs r (robs_of s') = true.
  Proof. unfold okr_rc, robs_of. simpl. rewrite rank_exit_code. apply Z.eqb_refl. Qed.

  Lemma rank_okr_argv : okr_argv t r (robs_of s') = true.
  Proof.
    destruct (rank_spec c l t (nth_rc rcs r) r s0 ep W Hep Hs0 Htr0 Hp0 Hrdy Hr) as (qA & _ & _ & _ & P).
    fold s' in P. unfold okr_argv, robs_of. simpl.
    destruct (all_ok (stubs (per_rank_cmds (ext_pre c t) r))).
    - destruct P as [e P]. rewrite P.
      apply (proj2 (eqb_list_spec bytes_eqb bytes_eqb_eq _ _)). reflexivity.
    - now rewrite P.
  Qed.

  (* (a rank only runs when the launch script got past pre_launch) *)
  Lemma rank_okr_pre_blocks : launched t = true -> okr_pre_blocks c t r (robs_of s') = true.
  Proof.
    intro HL.
    destruct (rank_spec c l t (nth_rc rcs r) r s0 ep W Hep Hs0 Htr0 Hp0 Hrdy Hr) as (qA & Q & T & _ & P).
    fold s' in T, P. unfold okr_pre_blocks, robs_of. simpl. rewrite pre_stubs_eq in *. rewrite HL.
    destruct (all_ok (pre_stubs c t r)); [reflexivity|].
    simpl. rewrite P, T, app_nil_r.
    now rewrite n_exec_app, (n_exec_quiet qA Q), n_exec_cmds.
  Qed.

  (* unless a pre command failed the executable ran, exactly once *)
  Lemma rank_okr_runs : okr_runs c t r (robs_of s') = true.
  Proof.
    destruct (rank_spec c l t (nth_rc rcs r) r s0 ep W Hep Hs0 Htr0 Hp0 Hrdy Hr) as (qA & Q & T & _ & P).
    fold s' in T, P. unfold okr_runs, robs_of. simpl. rewrite pre_stubs_eq in *.
    destruct (all_ok (pre_stubs c t r)); [|now rewrite andb_false_r].
    destruct P as [e P]. rewrite P, T.
    rewrite !n_exec_app, (n_exec_quiet qA Q), !n_exec_cmds.
    destruct (all_ok (stubs (per_rank_cmds (t_post t) r))); simpl; now rewrite orb_true_r.
  Qed.
End RankClauses.

(* ---- order and per-rank clauses ------------------------------------------------------------------------- *)
Definition noex (a : list event) : Prop := forallb (fun e => negb (is_exec e)) a = true.

Lemma noex_quiet q : forallb quiet_ev q = true -> noex q.
Proof.
  unfold noex. induction q as [|e q IH]; intro H; [reflexivity|]. simpl in *.
  apply andb_true_iff in H as [He Hq]. rewrite (IH Hq). destruct e; try discriminate He; reflexivity.
Qed.

Lemma noex_cmds l : noex (map ECmd l).
Proof. unfold noex. induction l; simpl; auto. Qed.

Lemma noex_app a b : noex a -> noex b -> noex (a ++ b).
Proof. unfold noex. intros. rewrite forallb_app. now rewrite H, H0. Qed.

Lemma before_noex a : noex a -> forall b, before_exec (a ++ b) = a ++ before_exec b.
Proof.
  unfold noex. induction a as [|e a IH]; intros H b; [reflexivity|]. simpl in *.
  apply andb_true_iff in H as [He Ha]. apply negb_true_iff in He. rewrite He. now rewrite IH.
Qed.

Lemma after_noex a : noex a -> forall b, after_exec (a ++ b) = after_exec b.
Proof.
  unfold noex. induction a as [|e a IH]; intros H b; [reflexivity|]. simpl in *.
  apply andb_true_iff in H as [He Ha]. apply negb_true_iff in He. rewrite He. now apply IH.
Qed.

Lemma cmd_ids_app a b ids : cmd_ids (a ++ b) ids = cmd_ids a ids ++ cmd_ids b ids.
Proof. unfold cmd_ids. apply flat_map_app. Qed.

Lemma cmd_ids_quiet q ids : forallb quiet_ev q = true -> cmd_ids q ids = [].
Proof.
  induction q as [|e q IH]; intro H; [reflexivity|]. simpl in *.
  apply andb_true_iff in H as [He Hq]. rewrite (IH Hq). destruct e; try discriminate He; reflexivity.
Qed.

Lemma cmd_ids_prof x l ids : cmd_ids (EProf x :: l) ids = cmd_ids l ids.
Proof. reflexivity. Qed.

Lemma cmd_ids_in l ids : (forall i, In i l -> mem i ids = true) -> cmd_ids (map ECmd l) ids = l.
Proof.
  induction l as [|i l IH]; intro H; [reflexivity|]. simpl. rewrite (H i (or_introl eq_refl)). simpl.
  f_equal. apply IH. intros j Hj. apply H. now right.
Qed.

Lemma cmd_ids_out l ids : (forall i, In i l -> mem i ids = false) -> cmd_ids (map ECmd l) ids = [].
Proof.
  induction l as [|i l IH]; intro H; [reflexivity|]. simpl. rewrite (H i (or_introl eq_refl)). simpl.
  apply IH. intros j Hj. apply H. now right.
Qed.

Lemma mem_in i l : mem i l = true <-> In i l.
Proof.
  unfold mem. rewrite existsb_exists. split.
  - intros (x & Hx & E). apply Z.eqb_eq in E. now subst.
  - intro H. exists i. split; [exact H|apply Z.eqb_refl].
Qed.

Lemma until_fail_sub l i : In i (until_fail l) -> In i (map fst l).
Proof.
  induction l as [|[j rc] l IH]; simpl; [auto|].
  destruct (rc =? 0); simpl; intros [H|H]; auto. destruct H.
Qed.

Lemma per_rank_sub es r x : In x (per_rank_cmds es r) -> In x (flat_map entry_cmds es).
Proof.
  induction es as [|e es IH]; [auto|]. unfold per_rank_cmds. simpl flat_map. fold (per_rank_cmds es r).
  intro H. apply in_app_or in H as [H|H]; apply in_or_app; [left|right; auto].
  destruct e as [c0|m]; [exact H|]. simpl.
  destruct (zlookup r m) as [cs|] eqn:E; [|destruct H].
  apply zlookup_in in E. apply in_map_iff in E as ([r' cs'] & E1 & E2). simpl in E1. subst cs'.
  apply in_flat_map. exists (r', cs). auto.
Qed.

Lemma stubs_sub a b : (forall x, In x a -> In x b) -> forall y, In y (stubs a) -> In y (stubs b).
Proof.
  intros H y Hy. unfold stubs in *. apply in_flat_map in Hy as (x & Hx & Hy).
  apply in_flat_map. exists x. auto.
Qed.

Definition disjoint_ids (c : cfg) (t : task) : bool :=
  forallb (fun i => negb (mem i (all_post_ids t))) (all_pre_ids c t).

Section RankOrder.
  Variables (c : cfg) (l : lm) (t : task) (rcs : list Z) (r : Z) (s0 : st) (ep : list stmt).
  Hypothesis W : wfb c t = true.
  Hypothesis WI : disjoint_ids c t = true.
  Hypothesis Hep : exec_prog c l t = inr ep.
  Hypothesis Hs0 : s_exit s0 = None.
  Hypothesis Htr0 : s_tr s0 = [].
  Hypothesis Hp0 : s_probe s0 = None.
  Hypothesis Hrdy : ready l r s0.
  Hypothesis Hr : 0 <= r < t_ranks t.

  Let s' := run (nth_rc rcs r) ep s0.
  Let PRE := until_fail (pre_stubs c t r).
  Let POST := until_fail (post_stubs t r).

  Lemma pre_in_pre i : In i PRE -> mem i (all_pre_ids c t) = true.
  Proof.
    intro H. apply mem_in. apply until_fail_sub in H. unfold all_pre_ids.
    apply in_map_iff in H as (x & <- & Hx). apply in_map.
    unfold pre_stubs in Hx. revert Hx. apply stubs_sub. apply per_rank_sub.
  Qed.

  Lemma post_in_post i : In i POST -> mem i (all_post_ids t) = true.
  Proof.
    intro H. apply mem_in. apply until_fail_sub in H. unfold all_post_ids.
    apply in_map_iff in H as (x & <- & Hx). apply in_map.
    unfold post_stubs in Hx. revert Hx. apply stubs_sub. apply per_rank_sub.
  Qed.

  Lemma pre_not_post i : In i PRE -> mem i (all_post_ids t) = false.
  Proof.
    intro H. apply pre_in_pre in H. apply mem_in in H.
    unfold disjoint_ids in WI. rewrite forallb_forall in WI. specialize (WI i H).
    now apply negb_true_iff in WI.
  Qed.

  Lemma post_not_pre i : In i POST -> mem i (all_pre_ids c t) = false.
  Proof.
    intro H. apply post_in_post in H. destruct (mem i (all_pre_ids c t)) eqn:E; [|reflexivity].
    apply mem_in in E. unfold disjoint_ids in WI. rewrite forallb_forall in WI. specialize (WI i E).
    now rewrite H in WI.
  Qed.

  Lemma rank_trace : exists qA qZ, forallb quiet_ev qA = true /\ forallb quiet_ev qZ = true /\
    s_tr s' = qA ++ map ECmd PRE
              ++ (if all_ok (pre_stubs c t r)
                  then [EProf (B "rank_start")] ++ [EExec] ++ [EProf (B "rank_stop"); EProf (B "exec_post")]
                       ++ map ECmd POST ++ qZ
                  else []).
  Proof.
    destruct (rank_spec c l t (nth_rc rcs r) r s0 ep W Hep Hs0 Htr0 Hp0 Hrdy Hr) as (qA & Q & T & _ & _).
    fold s' in T. rewrite pre_stubs_eq in T. fold (post_stubs t r) in T.
    exists qA, (if all_ok (post_stubs t r) then [EProf (B "exec_stop")] else []).
    split; [exact Q|]. split; [destruct (all_ok (post_stubs t r)); reflexivity|]. exact T.
  Qed.

  (* pre_exec commands run before, post_exec commands after the executable, which runs at most once *)
  Lemma rank_okr_order : okr_order c t r (robs_of s') = true.
  Proof.
    destruct rank_trace as (qA & qZ & QA & QZ & T).
    unfold okr_order, robs_of. simpl o_tr. rewrite T.
    pose proof (noex_quiet qA QA) as NA. pose proof (noex_cmds PRE) as NP.
    destruct (all_ok (pre_stubs c t r)).
    - rewrite !n_exec_app, (n_exec_quiet qA QA), !n_exec_cmds, (n_exec_quiet qZ QZ).
      change (n_exec [EProf (B "rank_start")]) with 0%nat. change (n_exec [EExec]) with 1%nat.
      change (n_exec [EProf (B "rank_stop"); EProf (B "exec_post")]) with 0%nat.
      cbn [Nat.add Nat.leb andb].
      rewrite (after_noex qA NA), (after_noex _ NP), (after_noex [EProf (B "rank_start")] eq_refl).
      rewrite (before_noex qA NA), (before_noex _ NP), (before_noex [EProf (B "rank_start")] eq_refl).
      cbn [app after_exec before_exec is_exec].
      rewrite !cmd_ids_prof. rewrite !cmd_ids_app.
      rewrite (cmd_ids_quiet [EProf (B "rank_start")] (all_post_ids t) eq_refl).
      rewrite (cmd_ids_quiet qZ _ QZ), (cmd_ids_quiet qA _ QA).
      rewrite (cmd_ids_out POST _ post_not_pre), (cmd_ids_out PRE _ pre_not_post). reflexivity.
    - rewrite app_nil_r.
      rewrite n_exec_app, (n_exec_quiet qA QA), n_exec_cmds. cbn [Nat.add Nat.leb andb].
      rewrite <- (app_nil_r (qA ++ map ECmd PRE)) at 1.
      rewrite (after_noex _ (noex_app _ _ NA NP)). cbn [after_exec]. change (cmd_ids [] (all_pre_ids c t)) with (@nil Z). cbn [is_nil].
      rewrite cmd_ids_app, (cmd_ids_quiet qA _ QA), (cmd_ids_out PRE _ pre_not_post). reflexivity.
  Qed.

  (* exactly the entries for all ranks and for this rank run, in the described order, up to a failure *)
  Lemma rank_okr_per_rank : okr_per_rank c t r (robs_of s') = true.
  Proof.
    destruct rank_trace as (qA & qZ & QA & QZ & T).
    unfold okr_per_rank, robs_of. simpl o_tr.
    assert (Body : eqb_list Z.eqb (cmd_ids (s_tr s') (all_pre_ids c t)) (until_fail (pre_stubs c t r))
                   && eqb_list Z.eqb (cmd_ids (s_tr s') (all_post_ids t))
                        (match n_exec (s_tr s') with O => [] | _ => until_fail (post_stubs t r) end) = true);
      [|destruct (s_tr s'); [reflexivity|exact Body]].
    rewrite T. fold PRE POST.
    destruct (all_ok (pre_stubs c t r)).
    - rewrite !n_exec_app, (n_exec_quiet qA QA), !n_exec_cmds, (n_exec_quiet qZ QZ).
      change (n_exec [EProf (B "rank_start")]) with 0%nat. change (n_exec [EExec]) with 1%nat.
      change (n_exec [EProf (B "rank_stop"); EProf (B "exec_post")]) with 0%nat.
      cbn [Nat.add].
      rewrite !cmd_ids_app.
      rewrite (cmd_ids_quiet [EProf (B "rank_stop"); EProf (B "exec_post")] (all_pre_ids c t) eq_refl).
      rewrite (cmd_ids_quiet [EProf (B "rank_stop"); EProf (B "exec_post")] (all_post_ids t) eq_refl).
      rewrite (cmd_ids_quiet [EProf (B "rank_start")] (all_pre_ids c t) eq_refl).
      rewrite (cmd_ids_quiet [EProf (B "rank_start")] (all_post_ids t) eq_refl).
      change (cmd_ids [EExec] (all_pre_ids c t)) with (@nil Z).
      change (cmd_ids [EExec] (all_post_ids t)) with (@nil Z).
      rewrite !(cmd_ids_quiet qZ _ QZ), !(cmd_ids_quiet qA _ QA).
      rewrite (cmd_ids_out POST _ post_not_pre), (cmd_ids_out PRE _ pre_not_post).
      rewrite (cmd_ids_in PRE _ pre_in_pre), (cmd_ids_in POST _ post_in_post).
      cbn [app]. rewrite !app_nil_r.
      rewrite (proj2 (eqb_list_spec Z.eqb Z.eqb_eq PRE PRE) eq_refl).
      now rewrite (proj2 (eqb_list_spec Z.eqb Z.eqb_eq POST POST) eq_refl).
    - rewrite app_nil_r.
      rewrite n_exec_app, (n_exec_quiet qA QA), n_exec_cmds. cbn [Nat.add].
      rewrite !cmd_ids_app, !(cmd_ids_quiet qA _ QA).
      rewrite (cmd_ids_out PRE _ pre_not_post), (cmd_ids_in PRE _ pre_in_pre). cbn [app].
      now rewrite (proj2 (eqb_list_spec Z.eqb Z.eqb_eq PRE PRE) eq_refl).
  Qed.
End RankOrder.

(* ---- RP_* variables: what both scripts export (partial: see Props/C10.v) ------------------------------- *)
Definition rp_ids (c : cfg) (t : task) : list (bytes * bytes) :=
  [ (B "RP_TASK_ID", t_uid t); (B "RP_TASK_NAME", name_of t); (B "RP_PILOT_ID", c_pid c);
    (B "RP_SESSION_ID", c_sid c); (B "RP_RESOURCE", c_resource c); (B "RP_REGISTRY_ADDRESS", c_reg c) ].

Lemma rp_env_exports_ids c t kv : In kv (rp_ids c t) -> In (SExportQ (fst kv) (dq (snd kv))) (rp_env c t).
Proof.
  unfold rp_ids, rp_env. intro H. simpl in H.
  repeat (destruct H as [<-|H]; [simpl; tauto|]). destruct H.
Qed.

Lemma rp_env_exports_counts c t :
  In (SExportQ (B "RP_CORES_PER_RANK") (dec (t_cpr t))) (rp_env c t) /\
  In (SExportQ (B "RP_GPUS_PER_RANK") (fmt_gpr (t_gpr_q t))) (rp_env c t) /\
  In (SExportQ (B "RP_CONTROL_PUB_ADDRESS") (c_pub c)) (rp_env c t) /\
  In (SExportQ (B "RP_CONTROL_SUB_ADDRESS") (c_sub c)) (rp_env c t) /\
  In (SExportQ (B "RP_TASK_SANDBOX") (dq (tsbox_text t))) (rp_env c t).
Proof. unfold rp_env. simpl. tauto. Qed.

Lemma rp_env_in_both c l t ep x : exec_prog c l t = inr ep -> In x (rp_env c t) ->
  In x ep /\ In x (launch_prog c l t).
Proof.
  intros Hep Hx. rewrite exec_prog_eq in Hep. injection Hep as <-. split.
  - unfold exec_body, head_prog. apply in_or_app. left. apply in_or_app. now left.
  - unfold launch_prog. apply in_or_app. now left.
Qed.

(* on the rank that runs, RP_RANK is the rank's id when the per-rank sections are entered *)
Lemma export_step_value rc k q s v : s_exit s = None -> bash_word (s_env s) q = Some v ->
  lookup k (s_env (step rc (SExportQ k q) s)) = Some v.
Proof. intros H E. unfold step. rewrite H, E. simpl. now rewrite lookup_setenv, bytes_eqb_refl. Qed.

Lemma exit_code_rule_lemma :
  forall c l t rcs r s0 ep,
    wfb c t = true -> exec_prog c l t = inr ep ->
    s_exit s0 = None -> s_tr s0 = [] -> s_probe s0 = None -> ready l r s0 -> 0 <= r < t_ranks t ->
    exit_code (run (nth_rc rcs r) ep s0) = want_rank_rc c t rcs r /\
    okr_rc c t rcs r (robs_of (run (nth_rc rcs r) ep s0)) = true.
Proof. intros. split; [eapply rank_exit_code|eapply rank_okr_rc]; eassumption. Qed.

Lemma rp_env_complete_partial_lemma :
  forall c l t ep, exec_prog c l t = inr ep ->
    (forall kv, In kv (rp_ids c t) ->
       In (SExportQ (fst kv) (dq (snd kv))) ep /\ In (SExportQ (fst kv) (dq (snd kv))) (launch_prog c l t)) /\
    (forall e v, literal v = true -> bash_word e (dq v) = Some v) /\
    In (SExportQ (B "RP_CORES_PER_RANK") (dec (t_cpr t))) ep /\
    In (SExportQ (B "RP_GPUS_PER_RANK") (fmt_gpr (t_gpr_q t))) ep /\
    In (SExportQ (B "RP_CONTROL_PUB_ADDRESS") (c_pub c)) ep /\
    In (SExportQ (B "RP_CONTROL_SUB_ADDRESS") (c_sub c)) ep /\
    In (SExportQ (B "RP_TASK_SANDBOX") (dq (tsbox_text t))) ep.
Proof.
  intros c l t ep Hep.
  destruct (rp_env_exports_counts c t) as (A & B0 & C & D & E).
  repeat split.
  - apply (rp_env_in_both c l t ep _ Hep). now apply rp_env_exports_ids.
  - apply (rp_env_in_both c l t ep _ Hep). now apply rp_env_exports_ids.
  - exact literal_roundtrip.
  - now apply (rp_env_in_both c l t ep _ Hep).
  - now apply (rp_env_in_both c l t ep _ Hep).
  - now apply (rp_env_in_both c l t ep _ Hep).
  - now apply (rp_env_in_both c l t ep _ Hep).
  - now apply (rp_env_in_both c l t ep _ Hep).
Qed.
