(* C10 / Script: the launch and exec scripts as abstract programs, produced by
   a model of
     Popen._handle_task (stdout/stderr names), ResourceManager.find_launcher +
     Fork.can_launch, AgentExecutingComponent._create_exec_script /
     _create_launch_script / _get_rp_env / _get_task_env / _get_rank_ids /
     _extend_pre_exec / _get_prep_exec / _get_exec / _get_launch /
     _get_launch_env / _get_prep_launch, LaunchMethod.get_exec, Fork.get_rank_cmd
   and an executable semantics of those programs over an abstract shell
   (environment, cwd, trace of external commands, exit status), in which every
   piece of generated TEXT that bash has to parse (export values, the command
   line, redirection targets) is kept as text and parsed by Quote.bash_words.

   The model is of the tree AFTER the fix patches fixes/C10-*.patch
   (task environment values, stdout/stderr names quoted with ru.sh_quote;
   RP_CONTROL_SUB_ADDRESS taken from addr_sub).

   Not modelled: named_env, services (the RP_INFO variables), a task sandbox outside the
   pilot sandbox, the profiler/gtod binaries (a call is one trace event), the
   output-file detection lines (ls|sort|comm), rp_sync_ranks' waiting (only its
   write to <sig>.sig), what real MPI launchers do (the stand-in LFake starts
   the exec script once per rank with VERIF_RANK preset and returns the first
   non-zero rank status).
   Executable definitions only. *)
From Coq Require Import ZArith List Bool String.
From RP Require Import Common.ZRange Quote.Model.
Import ListNotations.
Open Scope Z_scope.

(* ---- descriptions ------------------------------------------------------- *)
Inductive cmd :=
| CStub (id rc : Z)               (* external command: records id, exits rc *)
| CExport (k v : bytes).          (* export K=V with a plain V *)

Inductive entry :=
| EAll (c : cmd)                  (* a string entry of pre_exec / post_exec *)
| EPer (m : list (Z * list cmd)). (* a dict entry: rank id -> command(s) *)

Inductive sigk := PreExec | PostExec | PreLaunch | PostLaunch | LauncherEnv.
Inductive lm := LFork | LFake.
Inductive gerr := NoLauncher | RankNotExported.

Record task := mkTask {
  t_uid : bytes; t_name : option bytes;
  t_exe : bytes; t_args : list bytes; t_env : list (bytes * bytes);
  t_ranks : Z; t_cpr : Z; t_gpr_q : Z;          (* gpus_per_rank in quarters *)
  t_omp : bool; t_cuda : bool; t_mpi : bool;
  t_gpus : list (list Z);                       (* slots: GPU indices, one list per slot *)
  t_pre : list entry; t_post : list entry; t_sync : bool;
  t_pre_launch : list cmd; t_post_launch : list cmd;
  t_stdout : option bytes; t_stderr : option bytes;
  t_startup_to : bool }.

Record cfg := mkCfg {
  c_pid : bytes; c_sid : bytes; c_resource : bytes;
  c_rsbox : bytes; c_ssbox : bytes; c_psbox : bytes;   (* texts as computed by initialize(): may hold $RP_.. *)
  c_reg : bytes; c_pub : bytes; c_sub : bytes; c_ctrl : bytes;
  c_prof : bool;
  c_task_pre_exec : list cmd;                   (* rcfg.task_pre_exec *)
  c_lm_env : envmap;                            (* what sourcing the launcher env script exports *)
  c_ps_abs : bytes }.                           (* absolute path of the pilot sandbox (self._pwd) *)

(* ---- programs ----------------------------------------------------------- *)
Inductive stmt :=
| SExportQ (k : bytes) (q : bytes)      (* export K=<q>; <q> is shell text *)
| SUnset (k : bytes)
| SProf (ev : bytes)                    (* $RP_PROF ev ... *)
| SRankFromVar (v : bytes)              (* test -z ''$V'' || export RP_RANK=$V *)
| SCtrl                                 (* test ''$RP_RANK'' == ''0'' && $RP_CTRL ... task_startup_done ... *)
| SCmd (c : cmd) (g : sigk)             (* c || rp_error g *)
| SCase (arms : list (Z * list cmd)) (g : sigk)   (* case ''$RP_RANK'' in r) c || rp_error g ... ;; esac *)
| SSync (g : sigk)                      (* rp_sync_ranks g *)
| SFiles                                (* output file detection *)
| SExec (line : bytes)                  (* <line> & ; wait $! ; RP_RET=$? *)
| SCd (q : bytes)                       (* cd <q> *)
| SDot                                  (* . <launcher env script> || rp_error launcher_env *)
| SLaunch (l : lm) (outq errq : bytes)  (* ( <launch cmds> ) 1> outq 2> errq ; RP_RET=$? *)
| SExitRet.                             (* exit $RP_RET *)

Definition dq (s : bytes) : bytes := c_dq :: s ++ [c_dq].     (* '%s' between double quotes, no escaping *)

Definition name_of (t : task) : bytes :=
  match t_name t with Some (x :: r) => x :: r | _ => t_uid t end.

(* '%d' / '%f' of gpus_per_rank (a multiple of 1/4, so '%f' is exact) *)
Definition fmt_gpr (q : Z) : bytes :=
  if q mod 4 =? 0 then dec (q / 4)
  else dec (q / 4) ++ [46] ++ dec ((q mod 4) * 250000).

Definition tsbox_text (t : task) : bytes := B "$RP_PILOT_SANDBOX/" ++ t_uid t.

(* AgentExecutingComponent._get_rp_env *)
Definition rp_env (c : cfg) (t : task) : list stmt :=
  [ SExportQ (B "RP_TASK_ID")             (dq (t_uid t));
    SExportQ (B "RP_TASK_NAME")           (dq (name_of t));
    SExportQ (B "RP_PILOT_ID")            (dq (c_pid c));
    SExportQ (B "RP_SESSION_ID")          (dq (c_sid c));
    SExportQ (B "RP_RESOURCE")            (dq (c_resource c));
    SExportQ (B "RP_RESOURCE_SANDBOX")    (dq (c_rsbox c));
    SExportQ (B "RP_SESSION_SANDBOX")     (dq (c_ssbox c));
    SExportQ (B "RP_PILOT_SANDBOX")       (dq (c_psbox c));
    SExportQ (B "RP_TASK_SANDBOX")        (dq (tsbox_text t));
    SExportQ (B "RP_REGISTRY_ADDRESS")    (dq (c_reg c));
    SExportQ (B "RP_CONTROL_PUB_ADDRESS") (c_pub c);
    SExportQ (B "RP_CONTROL_SUB_ADDRESS") (c_sub c);
    SExportQ (B "RP_CORES_PER_RANK")      (dec (t_cpr t));
    SExportQ (B "RP_GPUS_PER_RANK")       (fmt_gpr (t_gpr_q t));
    SExportQ (B "RP_GTOD")                (dq (B "$RP_PILOT_SANDBOX/gtod"));
    SExportQ (B "RP_PROF")                (dq (B "$RP_PILOT_SANDBOX/prof"));
    SExportQ (B "RP_CTRL")                (dq (c_ctrl c));
    if c_prof c
    then SExportQ (B "RP_PROF_TGT") (dq (tsbox_text t ++ B "/" ++ t_uid t ++ B ".prof"))
    else SUnset (B "RP_PROF_TGT") ].

(* ResourceManager.find_launcher over [FORK, <stand-in MPI launcher>] with Fork.can_launch *)
Definition fork_can_launch (t : task) : bool :=
  negb (1 <? Z.of_nat (List.length (t_gpus t))) && negb (t_mpi t) && negb (1 <? t_ranks t)
  && match t_exe t with [] => false | _ => true end.

Definition pick_lm (t : task) : lm := if fork_can_launch t then LFork else LFake.

(* launcher.get_rank_cmd *)
Definition rank_cmd (l : lm) : list stmt :=
  match l with
  | LFork => [SExportQ (B "RP_RANK") (B "0")]
  | LFake => [SRankFromVar (B "VERIF_RANK")]
  end.
Definition exports_rank (l : lm) : bool := true.   (* both texts contain 'export RP_RANK=' *)

(* AgentExecutingComponent._get_task_env (named_env not modelled) *)
Definition task_env (t : task) : list stmt :=
  map (fun kv => SExportQ (fst kv) (sh_quote (snd kv))) (t_env t).

Fixpoint zlookup {A} (r : Z) (m : list (Z * A)) : option A :=
  match m with
  | [] => None
  | (r', x) :: m' => if r =? r' then Some x else zlookup r m'
  end.

Fixpoint mapi_from {A B} (i : Z) (f : Z -> A -> B) (l : list A) : list B :=
  match l with [] => [] | x :: l' => f i x :: mapi_from (i + 1) f l' end.

(* AgentExecutingComponent._extend_pre_exec: what is appended to td['pre_exec'] *)
Definition ext_pre (c : cfg) (t : task) : list entry :=
  t_pre t
  ++ (if t_omp t then [EAll (CExport (B "OMP_NUM_THREADS") (dec (t_cpr t)))] else [])
  ++ (if negb (t_gpr_q t =? 0) && t_cuda t && match t_gpus t with [] => false | _ => true end
      then [EPer (mapi_from 0 (fun r gl => (r, [CExport (B "CUDA_VISIBLE_DEVICES") (join [44] (map dec gl))]))
                            (t_gpus t))]
      else [])
  ++ map EAll (c_task_pre_exec c).

(* the commands of an entry list that apply to rank r, in order *)
Definition per_rank_cmds (es : list entry) (r : Z) : list cmd :=
  flat_map (fun e => match e with
                     | EAll c => [c]
                     | EPer m => match zlookup r m with Some cs => cs | None => [] end
                     end) es.

Definition has_per (es : list entry) : bool :=
  existsb (fun e => match e with EPer _ => true | EAll _ => false end) es.

(* AgentExecutingComponent._get_prep_exec *)
Definition prep (es : list entry) (n : Z) (g : sigk) (sync : bool) : list stmt :=
  (if has_per es
   then [SCase (map (fun r => (r, per_rank_cmds es r)) (zrange (Z.to_nat n))) g]
   else map (fun c => SCmd c g) (per_rank_cmds es 0))
  ++ (if sync then [SSync g] else []).

(* AgentExecutingComponent._create_exec_script *)
Definition exec_prog (c : cfg) (l : lm) (t : task) : gerr + list stmt :=
  if (1 <? t_ranks t) && negb (exports_rank l) then inl RankNotExported
  else inr (
    rp_env c t
    ++ [SExportQ (B "RP_RANKS") (dec (t_ranks t))]
    ++ rank_cmd l
    ++ (if t_startup_to t then [SCtrl] else [])
    ++ [SProf (B "exec_start")]
    ++ task_env t
    ++ [SProf (B "exec_pre")]
    ++ prep (ext_pre c t) (t_ranks t) PreExec (t_sync t)
    ++ [SFiles; SProf (B "rank_start"); SExec (get_exec (t_exe t) (t_args t)); SProf (B "rank_stop");
        SFiles; SProf (B "exec_post")]
    ++ prep (t_post t) (t_ranks t) PostExec false
    ++ [SProf (B "exec_stop"); SExitRet]).

(* Popen._handle_task: the names used in the redirection *)
Definition out_short (t : task) (o : option bytes) (dflt : string) : bytes :=
  let name := match o with Some (x :: r) => x :: r | _ => t_uid t ++ B dflt end in
  match name with
  | 47 :: _ => name
  | _ => B "$RP_TASK_SANDBOX/" ++ name
  end.

(* AgentExecutingComponent._create_launch_script *)
Definition launch_prog (c : cfg) (l : lm) (t : task) : list stmt :=
  rp_env c t
  ++ [SProf (B "launch_start"); SCd (B "$RP_TASK_SANDBOX"); SDot; SProf (B "launch_pre")]
  ++ map (fun x => SCmd x PreLaunch) (t_pre_launch t)
  ++ [SProf (B "launch_submit");
      SLaunch l (sh_quote (out_short t (t_stdout t) ".out")) (sh_quote (out_short t (t_stderr t) ".err"));
      SProf (B "launch_collect"); SProf (B "launch_post")]
  ++ map (fun x => SCmd x PostLaunch) (t_post_launch t)
  ++ [SProf (B "launch_stop"); SExitRet].

(* ---- the abstract shell -------------------------------------------------- *)
Inductive event := EProf (ev : bytes) | ECmd (id : Z) | EExec | ECtrl.
Inductive line := LOut (r : bytes) | LErr (r : bytes) | LFail (g : sigk).

Record st := mkSt {
  s_env : envmap; s_cwd : bytes;
  s_tr : list event;                      (* external commands started, in order *)
  s_ret : option Z;                       (* the shell variable RP_RET *)
  s_exit : option Z;                      (* Some c: the script has exited with c *)
  s_probe : option (list bytes * bytes * envmap);   (* argv (with the command word), cwd, environment of the executable *)
  s_out : list line; s_err : list line;   (* what went to the script's stdout / stderr *)
  s_sig : list bytes;                     (* lines appended to pre_exec.sig *)
  s_unmod : bool }.                       (* some text left the modelled bash fragment *)

Definition st0 (e : envmap) (cwd : bytes) : st := mkSt e cwd [] None None None [] [] [] false.

Fixpoint setenv (k v : bytes) (e : envmap) : envmap :=
  match e with
  | [] => [(k, v)]
  | (k', v') :: e' => if bytes_eqb k k' then (k, v) :: e' else (k', v') :: setenv k v e'
  end.

Fixpoint unsetenv (k : bytes) (e : envmap) : envmap :=
  match e with
  | [] => []
  | (k', v') :: e' => if bytes_eqb k k' then unsetenv k e' else (k', v') :: unsetenv k e'
  end.

Definition w_env (f : envmap -> envmap) (s : st) : st :=
  mkSt (f (s_env s)) (s_cwd s) (s_tr s) (s_ret s) (s_exit s) (s_probe s) (s_out s) (s_err s) (s_sig s) (s_unmod s).
Definition w_tr (ev : event) (s : st) : st :=
  mkSt (s_env s) (s_cwd s) (s_tr s ++ [ev]) (s_ret s) (s_exit s) (s_probe s) (s_out s) (s_err s) (s_sig s) (s_unmod s).
Definition w_unmod (s : st) : st :=
  mkSt (s_env s) (s_cwd s) (s_tr s) (s_ret s) (s_exit s) (s_probe s) (s_out s) (s_err s) (s_sig s) true.
Definition w_exit (x : Z) (s : st) : st :=
  mkSt (s_env s) (s_cwd s) (s_tr s) (s_ret s) (Some x) (s_probe s) (s_out s) (s_err s) (s_sig s) (s_unmod s).
(* rp_error g:  echo ''g failed'' 1>&2 ; exit 1 *)
Definition w_fail (g : sigk) (s : st) : st :=
  mkSt (s_env s) (s_cwd s) (s_tr s) (s_ret s) (Some 1) (s_probe s) (s_out s) (s_err s ++ [LFail g]) (s_sig s) (s_unmod s).

Definition do_cmd (c : cmd) (g : sigk) (s : st) : st :=
  match c with
  | CStub id rc => let s' := w_tr (ECmd id) s in if rc =? 0 then s' else w_fail g s'
  | CExport k v => if forallb is_plain v then w_env (setenv k v) s else w_unmod s
  end.

Fixpoint do_cmds (cs : list cmd) (g : sigk) (s : st) : st :=
  match cs with
  | [] => s
  | c :: cs' => match s_exit s with
                | Some _ => s
                | None => do_cmds cs' g (do_cmd c g s)
                end
  end.

Fixpoint squeeze (p : bytes) : bytes :=          (* // -> / as the kernel reads a path *)
  match p with
  | 47 :: ((47 :: _) as p') => squeeze p'
  | x :: p' => x :: squeeze p'
  | [] => []
  end.

Fixpoint find_arm (v : bytes) (arms : list (Z * list cmd)) : list cmd :=
  match arms with
  | [] => []
  | (r, cs) :: arms' => if bytes_eqb (dec r) v then cs else find_arm v arms'
  end.

(* one statement of the exec script; rc = exit status of the executable in this process *)
Definition step (rc : Z) (x : stmt) (s : st) : st :=
  match s_exit s with
  | Some _ => s
  | None =>
    match x with
    | SExportQ k q =>
        match bash_word (s_env s) q with
        | Some v => w_env (setenv k v) s
        | None => w_unmod s
        end
    | SUnset k => w_env (unsetenv k) s
    | SProf ev => w_tr (EProf ev) s
    | SRankFromVar v =>
        match getenv v (s_env s) with
        | [] => s
        | val => if forallb is_plain val then w_env (setenv (B "RP_RANK") val) s else w_unmod s
        end
    | SCtrl => if bytes_eqb (getenv (B "RP_RANK") (s_env s)) (B "0") then w_tr ECtrl s else s
    | SCmd c g => do_cmd c g s
    | SCase arms g => do_cmds (find_arm (getenv (B "RP_RANK") (s_env s)) arms) g s
    | SSync g =>
        mkSt (s_env s) (s_cwd s) (s_tr s) (s_ret s) (s_exit s) (s_probe s) (s_out s) (s_err s)
             (s_sig s ++ [getenv (B "RP_RANK") (s_env s)]) (s_unmod s)
    | SFiles => s
    | SExec ln =>
        match bash_words (s_env s) ln with
        | Some (w :: ws) =>
            let r := getenv (B "RP_RANK") (s_env s) in
            mkSt (s_env s) (s_cwd s) (s_tr s ++ [EExec]) (Some rc) None
                 (Some (w :: ws, s_cwd s, s_env s)) (s_out s ++ [LOut r]) (s_err s ++ [LErr r])
                 (s_sig s) (s_unmod s)
        | _ => w_unmod s
        end
    | SCd q =>
        match bash_word (s_env s) q with
        | Some p => mkSt (s_env s) (squeeze p) (s_tr s) (s_ret s) (s_exit s) (s_probe s) (s_out s) (s_err s)
                         (s_sig s) (s_unmod s)
        | None => w_unmod s
        end
    | SDot => s                    (* only in launch scripts: see lstep *)
    | SLaunch _ _ _ => w_unmod s   (* only in launch scripts *)
    | SExitRet => w_exit (match s_ret s with Some r => r | None => 0 end) s
    end
  end.

Fixpoint run (rc : Z) (p : list stmt) (s : st) : st :=
  match p with
  | [] => s
  | x :: p' => run rc p' (step rc x s)
  end.

Definition exit_code (s : st) : Z := match s_exit s with Some x => x | None => 0 end.

(* ---- the launch script ---------------------------------------------------- *)
Record lst := mkL {
  l_st : st;
  l_ranks : list st;                               (* final state of every rank's exec script *)
  l_outf : option (bytes * list line);             (* file the launch wrote stdout to, and its lines *)
  l_errf : option (bytes * list line) }.

Fixpoint first_nonzero (l : list Z) : Z :=
  match l with [] => 0 | x :: l' => if x =? 0 then first_nonzero l' else x end.

Definition nth_rc (rcs : list Z) (r : Z) : Z := nth (Z.to_nat r) rcs 0.

(* start the exec script for one rank from the launch script's state *)
Definition rank_run (ep : list stmt) (rcs : list Z) (s : st) (r : option Z) : st :=
  match r with
  | None => run (nth_rc rcs 0) ep (st0 (s_env s) (s_cwd s))
  | Some i => run (nth_rc rcs i) ep (st0 (setenv (B "VERIF_RANK") (dec i) (s_env s)) (s_cwd s))
  end.

Definition lstep (n : Z) (ep : list stmt) (rcs : list Z) (c : cfg) (x : stmt) (L : lst) : lst :=
  let s := l_st L in
  match s_exit s with
  | Some _ => L
  | None =>
    match x with
    | SDot => mkL (w_env (fun e => fold_left (fun e kv => setenv (fst kv) (snd kv) e) (c_lm_env c) e) s)
                  (l_ranks L) (l_outf L) (l_errf L)
    | SLaunch l outq errq =>
        match bash_word (s_env s) outq, bash_word (s_env s) errq with
        | Some po, Some pe =>
            let rs := match l with
                      | LFork => [rank_run ep rcs s None]
                      | LFake => map (fun i => rank_run ep rcs s (Some i)) (zrange (Z.to_nat n))
                      end in
            let rc := first_nonzero (map exit_code rs) in
            mkL (mkSt (s_env s) (s_cwd s) (s_tr s) (Some rc) None (s_probe s) (s_out s) (s_err s) (s_sig s)
                      (s_unmod s || existsb s_unmod rs))
                rs
                (Some (squeeze po, flat_map s_out rs))
                (Some (squeeze pe, flat_map s_err rs))
        | _, _ => mkL (w_unmod s) (l_ranks L) (l_outf L) (l_errf L)
        end
    | _ => mkL (step 0 x s) (l_ranks L) (l_outf L) (l_errf L)
    end
  end.

Fixpoint lrun (n : Z) (ep : list stmt) (rcs : list Z) (c : cfg) (p : list stmt) (L : lst) : lst :=
  match p with
  | [] => L
  | x :: p' => lrun n ep rcs c p' (lstep n ep rcs c x L)
  end.

(* the whole thing: Popen._handle_task + running <uid>.launch.sh with cwd = task sandbox *)
Definition model_run (c : cfg) (t : task) (rcs : list Z) : gerr + lst :=
  let l := pick_lm t in
  match exec_prog c l t with
  | inl e => inl e
  | inr ep =>
      inr (lrun (t_ranks t) ep rcs c (launch_prog c l t)
                (mkL (st0 [] (squeeze (c_ps_abs c ++ B "/" ++ t_uid t))) [] None None))
  end.

(* ---- the rank synchronisation (rp_sync_ranks) across the ranks of one task ---------------
     rp_sync_ranks() { sig=$1
                       echo $RP_RANK >> $sig.sig
                       while test $(cat $sig.sig | wc -l) -lt $RP_RANKS; do sleep 1; done }
   The marker file gets one line per arriving rank; a rank that has arrived polls the
   number of lines until it is at least RP_RANKS; nobody removes the file.
   The ranks run concurrently: a schedule is any sequence of these events. *)
Inductive bev :=
| Arrive (r : Z)      (* rank r appends its line to the marker file *)
| Poll (r : Z).       (* rank r evaluates the loop condition once *)

Record bst := mkB {
  b_file : list Z;     (* lines of <sig>.sig *)
  b_passed : list Z }. (* ranks that have left rp_sync_ranks *)

Definition bmemZ (r : Z) (l : list Z) : bool := existsb (Z.eqb r) l.

Definition bstep (n : nat) (e : bev) (s : bst) : bst :=
  match e with
  | Arrive r => mkB (b_file s ++ [r]) (b_passed s)
  | Poll r =>
      if bmemZ r (b_file s) && negb (bmemZ r (b_passed s)) && Nat.leb n (List.length (b_file s))
      then mkB (b_file s) (r :: b_passed s)
      else s
  end.

Definition brun (n : nat) (sched : list bev) (s : bst) : bst := fold_left (fun s e => bstep n e s) sched s.

Definition b0 : bst := mkB [] [].

Definition arrivals (sched : list bev) : list Z :=
  flat_map (fun e => match e with Arrive r => [r] | Poll _ => [] end) sched.

(* the variant in which rank 0 removes the marker when it leaves (NOT what the code does; used to show
   that the theorems of Script.Barrier are not vacuous: with it a rank can be blocked for ever) *)
Definition bstep_rm (n : nat) (e : bev) (s : bst) : bst :=
  match e with
  | Poll 0 => let s' := bstep n e s in
              if bmemZ 0 (b_passed s') && negb (bmemZ 0 (b_passed s)) then mkB [] (b_passed s') else s'
  | _ => bstep n e s
  end.
Definition brun_rm (n : nat) (sched : list bev) (s : bst) : bst := fold_left (fun s e => bstep_rm n e s) sched s.
