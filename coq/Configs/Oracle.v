(* C17 -- boolean checkers (the `ok_*` the theorems are stated with) and the
   rows evaluated by the harness: [model agrees with the observation; clauses...].
   Clause order (harness/c17.py `clauses`):
     config_verifies, endpoints_defined, rm_exists, launch_methods_exist,
     scheduler_exists, executor_exists, agent_config_exists,
     valid_request_sized, min_nodes, job_counts, agent_told_same,
     staged_cfg_is_own, agent_told_what_job_requests *)
From Coq Require Import ZArith List Bool String.
From RP Require Import Common.Eqb Configs.Model Gen.Configs.
Import ListNotations.
Open Scope string_scope.
Open Scope Z_scope.

Definition T := gen_tables.

(* ---------------------------------------------------------------- equalities *)
Definition perr_eqb (a b : perr) : bool :=
  match a, b with
  | KeyError, KeyError | TypeError, TypeError | ValueError, ValueError
  | RuntimeError, RuntimeError | AttributeError, AttributeError
  | AssertionError, AssertionError | OtherError, OtherError | Unmodelled, Unmodelled => true
  | _, _ => false
  end.

Definition res_eqb {A} (e : A -> A -> bool) (a b : res A) : bool := eqb_sum perr_eqb e a b.
Definition strs_eqb := eqb_list String.eqb.
Definition subset (a b : list string) : bool := forallb (fun x => mem x b) a.
Definition same_set (a b : list string) : bool := subset a b && subset b a.

Definition lms_eqb (a b : lms) : bool :=
  strs_eqb (l_order a) (l_order b)
  && eqb_list (eqb_prod String.eqb String.eqb) (l_launchers a) (l_launchers b)
  && strs_eqb (l_skipped a) (l_skipped b).

Definition resolved_eqb (a b : resolved) : bool :=
  eqb_option String.eqb (r_jm a) (r_jm b) && eqb_option String.eqb (r_fs a) (r_fs b)
  && res_eqb String.eqb (r_rm a) (r_rm b) && res_eqb lms_eqb (r_lm a) (r_lm b)
  && res_eqb String.eqb (r_sched a) (r_sched b) && res_eqb String.eqb (r_exec a) (r_exec b)
  && res_eqb same_set (r_agent a) (r_agent b).

Definition sized_eqb (a b : sized) : bool :=
  (s_node_count a =? s_node_count b) && (s_total_cpu a =? s_total_cpu b)
  && (s_total_gpu a =? s_total_gpu b) && (s_pph a =? s_pph b) && (s_smt a =? s_smt b)
  && (a_nodes a =? a_nodes b) && (a_backup a =? a_backup b) && (a_cores a =? a_cores b)
  && (a_gpus a =? a_gpus b) && (a_cpn a =? a_cpn b) && (a_gpn a =? a_gpn b)
  && (p_cpu a =? p_cpu b) && (p_gpu a =? p_gpu b).

Definition combo := (string * string * option string)%type.
Definition combo_eqb (a b : combo) : bool :=
  eqb_prod (eqb_prod String.eqb String.eqb) (eqb_option String.eqb) a b.
Definition shipped (c : combo) : bool := existsb (combo_eqb c) (all_config_schemas T).

Definition is_ok {A} (r : res A) : bool := match r with inr _ => true | inl _ => false end.

(* ---------------------------------------------------------------- part (a) *)
(* where to submit the job and where to stage to *)
Definition ok_endpoints (r : resolved) : bool :=
  match r_jm r, r_fs r with Some _, Some _ => true | _, _ => false end.

Definition ok_rm (r : resolved) : bool := is_ok (r_rm r).

(* a non-empty launch order, nothing skipped, every method backed by a class *)
Definition ok_lms (r : resolved) : bool :=
  match r_lm r with
  | inr l => match l_order l with [] => false | _ => true end
             && match l_skipped l with [] => true | _ => false end
             && forallb (fun n => match assoc n (l_launchers l) with
                                  | Some c => negb (String.eqb c "None") | None => false end) (l_order l)
  | inl _ => false
  end.

Definition ok_sched (r : resolved) : bool := is_ok (r_sched r).
Definition ok_exec (r : resolved) : bool := is_ok (r_exec r).
Definition ok_agent (r : resolved) : bool :=
  match r_agent r with inr (_ :: _) => true | _ => false end.

(* the configuration resolves to parts that all exist *)
Definition resolves_ok (r : res resolved) : bool :=
  match r with
  | inr r => ok_endpoints r && ok_rm r && ok_lms r && ok_sched r && ok_exec r && ok_agent r
  | inl _ => false
  end.

Definition na := [true; true; true; true; true; true].

Definition c17_resolve_row (site rname : string) (schema : option string) (in_batch : bool)
  (obs : res resolved) : list bool :=
  let sh := shipped (site, rname, schema) in
  let part (f : resolved -> bool) := negb sh || match obs with inr r => f r | inl _ => true end in
  ([ res_eqb resolved_eqb (resolve T site rname schema in_batch) obs;
    negb sh || is_ok obs;
    part ok_endpoints; part ok_rm; part ok_lms; part ok_sched; part ok_exec; part ok_agent ] ++ na)%list.

(* the enumeration the theorems range over is the set of configurations the
   real loader finds *)
Definition c17_list_row (obs : list (string * string * list string)) : list bool :=
  let named := flat_map (fun x => map (fun s => (fst (fst x), snd (fst x), Some s)) (snd x)) obs in
  let dflt := map (fun x => (fst (fst x), snd (fst x), @None string)) obs in
  let o := (dflt ++ named)%list in
  let m := all_config_schemas T in
  ([ forallb (fun c => existsb (combo_eqb c) o) m && forallb (fun c => existsb (combo_eqb c) m) o;
    true; true; true; true; true; true; true ] ++ na)%list.

(* the factories on arbitrary names *)
Definition c17_factory_row (which name : string) (jsrun : bool) (obs : res string) : list bool :=
  let m := if String.eqb which "rm" then rm_create T [("resource_manager", JStr name)]
           else if String.eqb which "lm" then lm_create T name
           else if String.eqb which "sched"
                then sched_create T [("agent_scheduler", JStr name);
                                     ("launch_methods", JDict (if jsrun then [("JSRUN", JDict [])] else []))]
           else exec_create T [("agent_spawner", JStr name)] in
  ([ res_eqb String.eqb m obs; true; true; true; true; true; true; true ] ++ na)%list.

(* ---------------------------------------------------------------- part (b) *)
Definition nonneg_req (q : request) : bool :=
  (0 <=? q_nodes q) && (0 <=? q_cores q) && (0 <=? q_gpus q) && (0 <=? q_backup q).

(* a request the launcher has to accept on a platform with mandatory
   arguments `ma` and node parameters `p` *)
Definition valid_request (ma : list string) (p : nodeparams) (q : request) : bool :=
  nonneg_req q && pd_verify q && forallb (fun a => mem a (q_present q)) ma
  && ((q_nodes q =? 0) || negb (avail_cores p =? 0))
  && match q_env_smt q with None => true | Some z => 1 <=? z end.

(* whole nodes: the smallest number that covers the request, plus backup *)
Definition ok_min_nodes (p : nodeparams) (q : request) (s : sized) : bool :=
  let ac := avail_cores p in
  let ag := avail_gpus p in
  let n := s_node_count s - q_backup q in
  if negb (q_nodes q =? 0) then n =? q_nodes q
  else if (0 <? ac) && (0 <=? ag) && nonneg_req q then
    (0 <=? n) && (q_cores q <=? n * ac) && ((ag =? 0) || (q_gpus q <=? n * ag))
    && ((n =? 0) || ((n - 1) * ac <? q_cores q) || (negb (ag =? 0) && ((n - 1) * ag <? q_gpus q)))
  else true.

(* the job's core and GPU totals are those of its whole nodes *)
Definition ok_job_counts (p : nodeparams) (s : sized) : bool :=
  let nc := s_node_count s in
  ((nc * avail_cores p =? 0) || (s_total_cpu s =? nc * avail_cores p))
  && ((nc * avail_gpus p =? 0) || (s_total_gpu s =? nc * avail_gpus p)).

(* the agent is told the figures the job requests *)
Definition ok_agent_same (s : sized) : bool :=
  (a_nodes s + a_backup s =? s_node_count s) && (a_cores s =? s_total_cpu s)
  && (a_gpus s =? s_total_gpu s).

(* mandatory arguments and node parameters of a platform, as the model reads them *)
Definition platform (site rname : string) (schema : option string) (env_smt : option Z)
  : res (list string * nodeparams) :=
  do rcfg <- get_resource_config T site rname schema false;
  do rcfg <- rc_verify T rcfg;
  do ma <- mandatory_args rcfg;
  do _ <- static_checks T rcfg;
  do p <- node_params rcfg env_smt;
  inr (ma, p).

Definition c17_size_row (site rname : string) (schema : option string) (q : request)
  (pd_ok : bool) (obs : res sized) : list bool :=
  let sh := shipped (site, rname, schema) in
  let pl := platform site rname schema (q_env_smt q) in
  let on_ok (f : nodeparams -> sized -> bool) :=
      match pl, obs with
      | inr (_, p), inr s => negb (sh && nonneg_req q) || f p s
      | _, _ => true
      end in
  [ res_eqb sized_eqb (launch T site rname schema q) obs && Bool.eqb (pd_verify q) pd_ok;
    true; true; true; true; true; true; true;
    match pl with
    | inr (ma, p) => negb (sh && valid_request ma p q) || is_ok obs
    | inl _ => true
    end;
    on_ok (fun p s => ok_min_nodes p q s);
    on_ok (fun p s => ok_job_counts p s);
    match obs with inr s => negb (nonneg_req q) || ok_agent_same s | inl _ => true end;
    true; true ].

(* a submission bulk: several pilots prepared from ONE resource config object
   (_start_pilot_bulk).  Every pilot of the bulk has to meet the per-pilot
   clauses, whatever was prepared before it. *)
Fixpoint all2 {A B} (f : A -> B -> bool) (a : list A) (b : list B) : bool :=
  match a, b with
  | x :: a', y :: b' => f x y && all2 f a' b'
  | _, _ => true
  end.

Definition told_eqb (a b : told) : bool :=
  (t_pid a =? t_pid b) && (t_sandbox a =? t_sandbox b) && (t_nodes a =? t_nodes b)
  && (t_backup a =? t_backup b) && (t_cores a =? t_cores b) && (t_gpus a =? t_gpus b)
  && (t_cpn a =? t_cpn b) && (t_gpn a =? t_gpn b).

(* the agent configuration that arrived in the sandbox of pilot i is the one
   prepared for pilot i *)
Definition ok_staged_own (i : nat) (t : option told) : bool :=
  match t with
  | Some t => (t_pid t =? Z.of_nat i) && (t_sandbox t =? Z.of_nat i)
  | None => false
  end.

(* the agent reads the node, core and GPU figures its job requests *)
Definition ok_told_job (s : sized) (t : option told) : bool :=
  match t with
  | Some t => (t_nodes t + t_backup t =? s_node_count s) && (t_cores t =? s_total_cpu s)
              && (t_gpus t =? s_total_gpu s)
  | None => false
  end.

Definition c17_bulk_row (site rname : string) (schema : option string) (qs : list request)
  (obs : res (list (sized * option told))) : list bool :=
  let sh := shipped (site, rname, schema) in
  let pl q := platform site rname schema (q_env_smt q) in
  let each (f : nodeparams -> request -> sized -> bool) :=
      match obs with
      | inr rs => (List.length rs =? List.length qs)%nat
                  && all2 (fun q r => match pl q with
                                      | inr (_, p) => negb (sh && nonneg_req q) || f p q (fst r)
                                      | inl _ => true
                                      end) qs rs
      | inl _ => true
      end in
  [ res_eqb (eqb_list (eqb_prod sized_eqb (eqb_option told_eqb)))
            (launch_bulk_staged T site rname schema qs) obs;
    true; true; true; true; true; true; true;
    negb (sh && forallb (fun q => match pl q with
                                  | inr (ma, p) => valid_request ma p q
                                  | inl _ => false
                                  end) qs) || is_ok obs;
    each (fun p q s => ok_min_nodes p q s);
    each (fun p q s => ok_job_counts p s);
    each (fun p q s => negb (nonneg_req q) || ok_agent_same s);
    match obs with
    | inr rs => forallb (fun x => ok_staged_own (fst x) (snd (snd x))) (enumerate rs)
    | inl _ => true
    end;
    match obs with
    | inr rs => forallb (fun r => ok_told_job (fst r) (snd r)) rs
    | inl _ => true
    end ].
