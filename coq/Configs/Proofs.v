(* C17 -- proofs. *)
From Coq Require Import ZArith List Bool String Lia.
From RP Require Import Common.Eqb Configs.Model Gen.Configs Configs.Oracle.
Import ListNotations.
Open Scope Z_scope.

(* ---- part (a): the complete finite enumeration ---- *)
Definition all_resolve_b : bool :=
  forallb (fun c : combo => let '(s, r, sc) := c in
             resolves_ok (resolve T s r sc false) && resolves_ok (resolve T s r sc true))
          (all_config_schemas T).

Lemma all_resolve_b_true : all_resolve_b = true.
Proof. vm_compute. reflexivity. Qed.

Lemma all_configs_resolve_l :
  forall site rname schema in_batch,
    In (site, rname, schema) (all_config_schemas T) ->
    resolves_ok (resolve T site rname schema in_batch) = true.
Proof.
  intros site rname schema in_batch Hin.
  pose proof all_resolve_b_true as H. unfold all_resolve_b in H.
  rewrite forallb_forall in H. specialize (H _ Hin). cbv beta iota in H.
  apply andb_true_iff in H as [H1 H2]. destruct in_batch; assumption.
Qed.
