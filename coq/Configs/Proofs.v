(* C17 -- proofs.
   Part (a): the finite enumeration of shipped configurations, by computation.
   Part (b): the sizing arithmetic, for all integers (no bound), and its
   connection to every shipped configuration. *)
From Coq Require Import ZArith List Bool String Lia ZifyBool.
From RP Require Import Common.Eqb Configs.Model Gen.Configs Configs.Oracle.
Import ListNotations.
Open Scope Z_scope.

Lemma forallb_In {A} (f : A -> bool) (l : list A) (x : A) :
  forallb f l = true -> In x l -> f x = true.
Proof. intros H Hin. rewrite forallb_forall in H. apply H, Hin. Qed.

(* the complete finite domain: every shipped (site, resource, schema | default) *)
Definition dom : list combo := all_config_schemas T.

(* ================================================================ part (a) *)
Definition combo_resolves (b : bool) (c : combo) : bool :=
  resolves_ok (resolve T (fst (fst c)) (snd (fst c)) (snd c) b).

Lemma all_resolve_b_true : forall b, forallb (combo_resolves b) dom = true.
Proof. intros []; vm_compute; reflexivity. Qed.

Lemma combo_resolves_all : forall b c, In c dom -> combo_resolves b c = true.
Proof.
  intros b c Hin. exact (forallb_In (combo_resolves b) dom c (all_resolve_b_true b) Hin).
Qed.

Lemma all_configs_resolve_l :
  forall site rname schema in_batch,
    In (site, rname, schema) (all_config_schemas T) ->
    resolves_ok (resolve T site rname schema in_batch) = true.
Proof.
  intros site rname schema in_batch Hin.
  exact (combo_resolves_all in_batch (site, rname, schema) Hin).
Qed.

(* what `resolves_ok` says, part by part *)
Lemma resolves_ok_spec :
  forall r, resolves_ok r = true <->
    exists x, r = inr x /\
      (exists jm fs, r_jm x = Some jm /\ r_fs x = Some fs) /\
      (exists c, r_rm x = inr c) /\
      (exists l, r_lm x = inr l /\ l_order l <> [] /\ l_skipped l = [] /\
                 forall n, In n (l_order l) ->
                   exists c, assoc n (l_launchers l) = Some c /\ c <> "None"%string) /\
      (exists c, r_sched x = inr c) /\ (exists c, r_exec x = inr c) /\
      (exists k ks, r_agent x = inr (k :: ks)).
Proof.
  intros [e|x]; simpl; split.
  - discriminate.
  - intros [x [H _]]; discriminate.
  - intro H. repeat rewrite andb_true_iff in H. destruct H as [[[[[Hep Hrm] Hlm] Hs] He] Ha].
    exists x. split; [reflexivity|].
    unfold ok_endpoints, ok_rm, ok_lms, ok_sched, ok_exec, ok_agent, is_ok in *.
    destruct (r_jm x) as [jm|]; [|discriminate].
    destruct (r_fs x) as [fs|]; [|discriminate].
    destruct (r_rm x) as [|c1]; [discriminate|].
    destruct (r_lm x) as [|l]; [discriminate|].
    destruct (r_sched x) as [|c2]; [discriminate|].
    destruct (r_exec x) as [|c3]; [discriminate|].
    destruct (r_agent x) as [|[|k ks]]; try discriminate.
    repeat rewrite andb_true_iff in Hlm. destruct Hlm as [[Ho Hk] Hall].
    repeat split; eauto.
    + exists l. repeat split.
      * destruct (l_order l); [discriminate|congruence].
      * destruct (l_skipped l); [reflexivity|discriminate].
      * intros n Hn. rewrite forallb_forall in Hall. specialize (Hall n Hn).
        destruct (assoc n (l_launchers l)) as [c|]; [|discriminate].
        exists c. split; [reflexivity|]. intros ->. discriminate.
  - intros [y [Hy [[jm [fs [Hjm Hfs]]] [[c1 Hrm] [[l [Hlm [Ho [Hk Hall]]]] [[c2 Hs] [[c3 He] [k [ks Ha]]]]]]]]].
    injection Hy as <-.
    unfold ok_endpoints, ok_rm, ok_lms, ok_sched, ok_exec, ok_agent, is_ok.
    rewrite Hjm, Hfs, Hrm, Hlm, Hs, He, Ha, Hk.
    assert (Hf : forallb (fun n => match assoc n (l_launchers l) with
                                   | Some c => negb (String.eqb c "None") | None => false end)
                         (l_order l) = true).
    { apply forallb_forall. intros n Hn.
      destruct (Hall n Hn) as [c [Hc Hne]]. rewrite Hc.
      destruct (String.eqb c "None") eqn:E; [|reflexivity].
      apply String.eqb_eq in E. contradiction. }
    rewrite Hf. destruct (l_order l); [congruence|reflexivity].
Qed.

(* ================================================================ part (b) *)
(* ---- ceiling division ---- *)
Lemma cdiv_spec : forall a b, 0 < b -> a <= cdiv a b * b /\ (cdiv a b - 1) * b < a.
Proof.
  intros a b Hb. unfold cdiv.
  pose proof (Z.div_mod (- a) b ltac:(lia)) as Hdm.
  pose proof (Z.mod_pos_bound (- a) b Hb) as Hr.
  nia.
Qed.

Lemma cdiv_least : forall a b m, 0 < b -> a <= m * b -> cdiv a b <= m.
Proof.
  intros a b m Hb Hm. destruct (cdiv_spec a b Hb) as [_ H2]. nia.
Qed.

(* ---- the node count ---- *)
Definition covers (ac ag cores gpus m : Z) : Prop :=
  cores <= m * ac /\ (0 < ag -> gpus <= m * ag).

Lemma req_nodes_given :
  forall ac ag nodes cores gpus rn,
    nodes <> 0 -> req_nodes ac ag nodes cores gpus = inr rn -> rn = nodes /\ ac <> 0.
Proof.
  intros ac ag nodes cores gpus rn Hn H. unfold req_nodes in H.
  destruct (nodes =? 0) eqn:E; [lia|]. simpl in H.
  destruct (ac =? 0) eqn:E2; [discriminate|]. injection H as <-. lia.
Qed.

Lemma req_nodes_least :
  forall ac ag cores gpus rn,
    0 < ac -> 0 <= ag ->
    req_nodes ac ag 0 cores gpus = inr rn ->
    covers ac ag cores gpus rn /\ forall m, covers ac ag cores gpus m -> rn <= m.
Proof.
  intros ac ag cores gpus rn Hac Hag H. unfold req_nodes in H. simpl in H.
  assert (E1 : (ac =? 0) = false) by lia. rewrite E1 in H. simpl in H.
  assert (E2 : ((ac <? 0) || (ag <? 0)) = false) by lia. rewrite E2 in H.
  destruct (ag =? 0) eqn:E3; simpl in H.
  - injection H as <-. assert (ag = 0) by lia. subst ag.
    destruct (cdiv_spec cores ac Hac) as [H1 H2].
    split; [split; [assumption|lia]|].
    intros m [Hm _]. apply cdiv_least; assumption.
  - assert (Hag' : 0 < ag) by lia.
    destruct (cores * ag <=? gpus * ac) eqn:E4; injection H as <-.
    + destruct (cdiv_spec gpus ag Hag') as [H1 H2].
      split; [split; [nia|intros _; assumption]|].
      intros m [_ Hm]. apply cdiv_least; auto.
    + destruct (cdiv_spec cores ac Hac) as [H1 H2].
      split; [split; [assumption|intros _; nia]|].
      intros m [Hm _]. apply cdiv_least; assumption.
Qed.

(* ---- from launch to the arithmetic ---- *)
Lemma launch_inv :
  forall Tb site rname schema q s,
    launch Tb site rname schema q = inr s ->
    exists p, launch_params Tb site rname schema (q_env_smt q) = inr p /\
              size_pilot p (q_nodes q) (q_cores q) (q_gpus q) (q_backup q) = inr s.
Proof.
  intros Tb site rname schema q s H. unfold launch, launch_params, prepare_pilot, bind in *.
  destruct (get_resource_config Tb site rname schema false) as [|rcfg]; [discriminate|].
  destruct (rc_verify Tb rcfg) as [|rcfg']; [discriminate|].
  destruct (prepare_checks Tb rcfg' q) as [|u]; [discriminate|].
  destruct (node_params rcfg' (q_env_smt q)) as [|p]; [discriminate|].
  exists p. split; [reflexivity|assumption].
Qed.

Lemma size_pilot_inv :
  forall p nodes cores gpus backup s,
    size_pilot p nodes cores gpus backup = inr s ->
    exists rn, req_nodes (avail_cores p) (avail_gpus p) nodes cores gpus = inr rn /\
               s = mk_sized p rn cores gpus backup.
Proof.
  intros p nodes cores gpus backup s H. unfold size_pilot, bind in H.
  destruct (negb (smt_cores p =? 0) && negb (n_bc p =? 0) && negb (0 <? avail_cores p));
    [discriminate|].
  destruct (negb (n_gpn p =? 0) && negb (n_bg p =? 0) && negb (0 <=? avail_gpus p));
    [discriminate|].
  destruct (req_nodes (avail_cores p) (avail_gpus p) nodes cores gpus) as [|rn]; [discriminate|].
  injection H as <-. exists rn. split; reflexivity.
Qed.

Section Sizing.
  Variable Tb : tables.
  Variables site rname : string.
  Variable schema : option string.
  Variable q : request.
  Variables (p : nodeparams) (s : sized).
  Hypothesis Hp : launch_params Tb site rname schema (q_env_smt q) = inr p.
  Hypothesis Hs : launch Tb site rname schema q = inr s.

  Lemma sized_by_arith :
    exists rn, req_nodes (avail_cores p) (avail_gpus p) (q_nodes q) (q_cores q) (q_gpus q) = inr rn /\
               s = mk_sized p rn (q_cores q) (q_gpus q) (q_backup q).
  Proof.
    destruct (launch_inv _ _ _ _ _ _ Hs) as [p' [Hp' Hsz]].
    rewrite Hp in Hp'. injection Hp' as <-.
    apply size_pilot_inv. assumption.
  Qed.

  (* nodes not given: the job asks for the least number of nodes that covers
     the requested cores and GPUs, plus the backup nodes *)
  Lemma min_nodes_l :
    q_nodes q = 0 -> 0 < avail_cores p -> 0 <= avail_gpus p ->
    let n := s_node_count s - q_backup q in
    covers (avail_cores p) (avail_gpus p) (q_cores q) (q_gpus q) n /\
    forall m, covers (avail_cores p) (avail_gpus p) (q_cores q) (q_gpus q) m -> n <= m.
  Proof.
    intros Hn Hac Hag. destruct sized_by_arith as [rn [Hrn ->]].
    rewrite Hn in Hrn. simpl. replace (rn + q_backup q - q_backup q) with rn by lia.
    apply req_nodes_least; assumption.
  Qed.

  (* nodes given: exactly those, plus the backup nodes; the node size is known *)
  Lemma given_nodes_l :
    q_nodes q <> 0 -> s_node_count s = q_nodes q + q_backup q /\ avail_cores p <> 0.
  Proof.
    intros Hn. destruct sized_by_arith as [rn [Hrn ->]].
    destruct (req_nodes_given _ _ _ _ _ _ Hn Hrn) as [-> Hac]. simpl. split; [reflexivity|assumption].
  Qed.

  (* whole nodes: core and GPU totals are node_count x per-node availability
     (the request is passed through where that product is 0, i.e. the node size is unknown) *)
  Lemma job_counts_l :
    s_node_count s = a_nodes s + q_backup q /\
    s_total_cpu s = (if s_node_count s * avail_cores p =? 0 then q_cores q
                     else s_node_count s * avail_cores p) /\
    s_total_gpu s = (if s_node_count s * avail_gpus p =? 0 then q_gpus q
                     else s_node_count s * avail_gpus p).
  Proof.
    destruct sized_by_arith as [rn [_ ->]]. simpl. repeat split.
  Qed.

  Lemma agent_told_same_l :
    a_nodes s + a_backup s = s_node_count s /\ a_backup s = q_backup q /\
    a_cores s = s_total_cpu s /\ a_gpus s = s_total_gpu s /\
    p_cpu s = s_total_cpu s /\ p_gpu s = s_total_gpu s.
  Proof.
    destruct sized_by_arith as [rn [_ ->]]. simpl. repeat split.
  Qed.

  (* the boolean oracle clauses hold of the model's answer *)
  Lemma ok_min_nodes_l : ok_min_nodes p q s = true.
  Proof.
    unfold ok_min_nodes.
    destruct (q_nodes q =? 0) eqn:En; simpl.
    - destruct ((0 <? avail_cores p) && (0 <=? avail_gpus p) && nonneg_req q) eqn:Eg; [|reflexivity].
      unfold nonneg_req in Eg.
      assert (Hn : q_nodes q = 0) by lia.
      assert (Hac : 0 < avail_cores p) by lia.
      assert (Hag : 0 <= avail_gpus p) by lia.
      assert (Hc0 : 0 <= q_cores q) by lia.
      destruct (min_nodes_l Hn Hac Hag) as [[Hc Hg] Hleast].
      set (n := s_node_count s - q_backup q) in *.
      assert (Hnc : ~ covers (avail_cores p) (avail_gpus p) (q_cores q) (q_gpus q) (n - 1)).
      { intro Hcov. specialize (Hleast _ Hcov). lia. }
      unfold covers in Hnc.
      assert (H0n : 0 <= n) by nia.
      set (X1 := n * avail_cores p) in *. set (X2 := n * avail_gpus p) in *.
      set (X3 := (n - 1) * avail_cores p) in *. set (X4 := (n - 1) * avail_gpus p) in *.
      clearbody X1 X2 X3 X4. lia.
    - destruct (given_nodes_l ltac:(lia)) as [H _]. lia.
  Qed.

  Lemma ok_job_counts_l : ok_job_counts p s = true.
  Proof.
    unfold ok_job_counts. destruct job_counts_l as [_ [Hc Hg]].
    destruct (s_node_count s * avail_cores p =? 0); destruct (s_node_count s * avail_gpus p =? 0);
      simpl; lia.
  Qed.

  Lemma ok_agent_same_l : ok_agent_same s = true.
  Proof.
    unfold ok_agent_same. destruct agent_told_same_l as [H1 [_ [H2 [H3 _]]]]. lia.
  Qed.
End Sizing.

(* ---- every valid request is sized (no exception), on well-formed node parameters ---- *)
Definition wf_params (p : nodeparams) : bool :=
  (0 <=? n_cpn p) && (0 <=? n_gpn p) && (1 <=? n_smt p) && (0 <=? n_bc p) && (0 <=? n_bg p)
  && ((n_cpn p =? 0) || (n_bc p <? n_cpn p)) && ((n_gpn p =? 0) || (n_bg p <=? n_gpn p)).

Lemma wf_avail : forall p, wf_params p = true ->
  0 <= avail_cores p /\ 0 <= avail_gpus p /\ (n_cpn p <> 0 -> 0 < avail_cores p).
Proof.
  intros p H. unfold wf_params in H. unfold avail_cores, avail_gpus, smt_cores.
  destruct (n_cpn p =? 0) eqn:E1; destruct (n_smt p =? 0) eqn:E2; destruct (n_bc p =? 0) eqn:E3;
    destruct (n_gpn p =? 0) eqn:E4; destruct (n_bg p =? 0) eqn:E5; simpl;
    repeat rewrite E1; repeat rewrite E3; simpl; try (destruct (n_cpn p * n_smt p =? 0) eqn:E6; simpl); nia.
Qed.

Lemma size_pilot_total :
  forall p nodes cores gpus backup,
    wf_params p = true -> (nodes = 0 \/ avail_cores p <> 0) ->
    exists s, size_pilot p nodes cores gpus backup = inr s.
Proof.
  intros p nodes cores gpus backup Hwf Hn.
  destruct (wf_avail p Hwf) as [Hac [Hag Hpos]].
  unfold size_pilot.
  assert (E1 : (negb (smt_cores p =? 0) && negb (n_bc p =? 0) && negb (0 <? avail_cores p)) = false).
  { destruct (smt_cores p =? 0) eqn:Es; [reflexivity|]. simpl.
    destruct (n_bc p =? 0); [reflexivity|]. simpl.
    assert (n_cpn p <> 0). { unfold smt_cores in Es. intro H0. rewrite H0 in Es. simpl in Es. discriminate. }
    specialize (Hpos H). lia. }
  rewrite E1.
  assert (E2 : (negb (n_gpn p =? 0) && negb (n_bg p =? 0) && negb (0 <=? avail_gpus p)) = false) by lia.
  rewrite E2. unfold bind, req_nodes.
  destruct (nodes =? 0) eqn:En; simpl.
  - destruct (avail_cores p =? 0); destruct (avail_gpus p =? 0); simpl;
      repeat match goal with |- context [if ?c then _ else _] => destruct c end; eexists; reflexivity.
  - destruct (avail_cores p =? 0) eqn:Ea; [lia|]. eexists; reflexivity.
Qed.

(* ---- node_params does not depend on the environment except for smt ---- *)
Definition set_smt (p : nodeparams) (z : Z) : nodeparams :=
  {| n_cpn := n_cpn p; n_gpn := n_gpn p; n_smt := z; n_bc := n_bc p; n_bg := n_bg p |}.

Lemma node_params_env :
  forall rcfg p z, node_params rcfg None = inr p -> node_params rcfg (Some z) = inr (set_smt p z).
Proof.
  intros rcfg p z H. unfold node_params, bind in *.
  destruct (dget "system_architecture" rcfg) as [| | | | | |sa]; try discriminate.
  destruct (get_int "cores_per_node" rcfg) as [|cpn]; [discriminate|].
  destruct (get_int "gpus_per_node" rcfg) as [|gpn]; [discriminate|].
  destruct (assoc "smt" sa) as [[| | z0 | | | |]|]; try discriminate;
    (destruct (list_len "blocked_cores" sa) as [|bc]; [discriminate|]);
    (destruct (list_len "blocked_gpus" sa) as [|bg]; [discriminate|]);
    injection H as <-; reflexivity.
Qed.

Lemma platform_env :
  forall site rname schema ma p z,
    platform site rname schema None = inr (ma, p) ->
    platform site rname schema (Some z) = inr (ma, set_smt p z).
Proof.
  intros site rname schema ma p z H. unfold platform, bind in *.
  destruct (get_resource_config T site rname schema false) as [|rcfg]; [discriminate|].
  destruct (rc_verify T rcfg) as [|rcfg']; [discriminate|].
  destruct (mandatory_args rcfg') as [|ma']; [discriminate|].
  destruct (static_checks T rcfg') as [|u]; [discriminate|].
  destruct (node_params rcfg' None) as [|p'] eqn:Enp; [discriminate|].
  injection H as <- <-. rewrite (node_params_env _ _ z Enp). reflexivity.
Qed.

(* on a platform whose static checks pass, launching is the arithmetic *)
Lemma platform_launch :
  forall site rname schema q ma p,
    platform site rname schema (q_env_smt q) = inr (ma, p) ->
    forallb (fun a => mem a (q_present q)) ma = true ->
    launch T site rname schema q = size_pilot p (q_nodes q) (q_cores q) (q_gpus q) (q_backup q) /\
    launch_params T site rname schema (q_env_smt q) = inr p.
Proof.
  intros site rname schema q ma p H Hma. unfold platform, launch, launch_params, prepare_pilot, prepare_checks, bind in *.
  destruct (get_resource_config T site rname schema false) as [|rcfg]; [discriminate|].
  destruct (rc_verify T rcfg) as [|rcfg']; [discriminate|].
  destruct (mandatory_args rcfg') as [|ma']; [discriminate|].
  destruct (static_checks T rcfg') as [|u]; [discriminate|].
  destruct (node_params rcfg' (q_env_smt q)) as [|p']; [discriminate|].
  injection H as <- <-. rewrite Hma. simpl. split; reflexivity.
Qed.

(* ---- the shipped configurations: static checks pass and the node parameters are well-formed ---- *)
Definition combo_sizeable (c : combo) : bool :=
  match platform (fst (fst c)) (snd (fst c)) (snd c) None with
  | inr (_, p) => wf_params p
  | inl _ => false
  end.

Lemma all_sizeable_b_true : forallb combo_sizeable dom = true.
Proof. vm_compute. reflexivity. Qed.

Lemma combo_sizeable_all : forall c, In c dom -> combo_sizeable c = true.
Proof. intros c Hin. exact (forallb_In combo_sizeable dom c all_sizeable_b_true Hin). Qed.

Definition env_ok (e : option Z) : Prop := match e with None => True | Some z => 1 <= z end.

Lemma shipped_platform :
  forall site rname schema env,
    In (site, rname, schema) (all_config_schemas T) -> env_ok env ->
    exists ma p, platform site rname schema env = inr (ma, p) /\ wf_params p = true.
Proof.
  intros site rname schema env Hin He.
  pose proof (combo_sizeable_all (site, rname, schema) Hin) as H.
  unfold combo_sizeable in H. cbn [fst snd] in H.
  destruct (platform site rname schema None) as [|[ma p]] eqn:Ep; [discriminate|].
  destruct env as [z|].
  - exists ma, (set_smt p z). split; [apply platform_env; assumption|].
    simpl in He. unfold wf_params in *. simpl. lia.
  - exists ma, p. split; assumption.
Qed.

(* the headline of part (b) *)
Lemma shipped_valid_requests_sized_l :
  forall site rname schema q,
    In (site, rname, schema) (all_config_schemas T) -> env_ok (q_env_smt q) ->
    exists ma p,
      platform site rname schema (q_env_smt q) = inr (ma, p) /\
      (valid_request ma p q = true ->
       exists s, launch T site rname schema q = inr s /\
                 ok_min_nodes p q s = true /\ ok_job_counts p s = true /\ ok_agent_same s = true).
Proof.
  intros site rname schema q Hin He.
  destruct (shipped_platform site rname schema (q_env_smt q) Hin He) as [ma [p [Hpl Hwf]]].
  exists ma, p. split; [assumption|]. intro Hv.
  unfold valid_request in Hv. repeat rewrite andb_true_iff in Hv.
  destruct Hv as [[[[Hnn Hpd] Hma] Hn] _].
  destruct (platform_launch _ _ _ _ _ _ Hpl Hma) as [Hl Hp].
  destruct (size_pilot_total p (q_nodes q) (q_cores q) (q_gpus q) (q_backup q) Hwf ltac:(lia)) as [s Hs].
  exists s. rewrite Hl. split; [assumption|].
  rewrite <- Hl in Hs.
  split; [|split].
  - eapply ok_min_nodes_l; eassumption.
  - eapply ok_job_counts_l; eassumption.
  - eapply ok_agent_same_l; eassumption.
Qed.

(* ================================================================ submission bulks *)
(* _start_pilot_bulk fetches the resource config once and prepares every pilot
   of the bulk from it: a bulk is sized pilot by pilot, no pilot's figures
   depend on the pilots prepared before it. *)
Lemma map_res_Forall2 :
  forall {A B} (f : A -> res B) l r,
    map_res f l = inr r -> Forall2 (fun x y => f x = inr y) l r.
Proof.
  intros A B f l. induction l as [|x l IH]; intros r H; simpl in H.
  - injection H as <-. constructor.
  - unfold bind in H. destruct (f x) as [|y] eqn:Ex; [discriminate|].
    destruct (map_res f l) as [|ys] eqn:El; [discriminate|].
    injection H as <-. constructor; [assumption|apply IH; reflexivity].
Qed.

Lemma bulk_pilot_by_pilot_l :
  forall Tb site rname schema qs ss,
    launch_bulk Tb site rname schema qs = inr ss ->
    Forall2 (fun q s => launch Tb site rname schema q = inr s) qs ss.
Proof.
  intros Tb site rname schema qs ss H. unfold launch_bulk, bind in H.
  destruct (get_resource_config Tb site rname schema false) as [|rcfg] eqn:E; [discriminate|].
  apply map_res_Forall2 in H.
  induction H as [|q s qs' ss' Hq _ IH]; constructor; [|exact IH].
  unfold launch, bind. rewrite E. exact Hq.
Qed.

Definition pilot_ok (site rname : string) (schema : option string) (q : request) (s : sized) : Prop :=
  exists ma p, platform site rname schema (q_env_smt q) = inr (ma, p) /\
               ok_min_nodes p q s = true /\ ok_job_counts p s = true /\ ok_agent_same s = true.

Lemma shipped_bulks_sized_l :
  forall site rname schema qs,
    In (site, rname, schema) (all_config_schemas T) ->
    (forall q, In q qs -> env_ok (q_env_smt q)) ->
    (forall q ma p, In q qs -> platform site rname schema (q_env_smt q) = inr (ma, p) ->
                    valid_request ma p q = true) ->
    exists ss, launch_bulk T site rname schema qs = inr ss /\
               Forall2 (pilot_ok site rname schema) qs ss.
Proof.
  intros site rname schema qs Hin Henv Hval.
  unfold launch_bulk, bind.
  destruct (get_resource_config T site rname schema false) as [e|rcfg] eqn:E.
  - exfalso. destruct (shipped_platform site rname schema None Hin I) as [ma [p [Hpl _]]].
    unfold platform, bind in Hpl. rewrite E in Hpl. discriminate.
  - induction qs as [|q qs IH].
    + exists []. split; [reflexivity|constructor].
    + destruct IH as [ss [Hss Hall]].
      { intros q' Hq'. apply Henv. right; assumption. }
      { intros q' ma p Hq'. apply Hval. right; assumption. }
      destruct (shipped_valid_requests_sized_l site rname schema q Hin (Henv q (or_introl eq_refl)))
        as [ma [p [Hpl Hsz]]].
      destruct (Hsz (Hval q ma p (or_introl eq_refl) Hpl)) as [s [Hl [H1 [H2 H3]]]].
      exists (s :: ss). split.
      * simpl. unfold launch, bind in Hl. rewrite E in Hl. unfold bind. rewrite Hl, Hss. reflexivity.
      * constructor; [|assumption]. exists ma, p. repeat split; assumption.
Qed.

(* ================================================================ deferred staging of the agent configs *)
(* reading a name yields v if every write to that name wrote v and either
   there is such a write or v was there before *)
Lemma latest_acc :
  forall {V} (k : nat) (v : V) (l : list (nat * V)) (acc : option V),
    (forall kv, In kv l -> fst kv = k -> snd kv = v) ->
    ((exists kv, In kv l /\ fst kv = k) \/ acc = Some v) ->
    fold_left (fun a kv => if Nat.eqb k (fst kv) then Some (snd kv) else a) l acc = Some v.
Proof.
  intros V k v l. induction l as [|[k' v'] l IH]; intros acc Hall Hex; simpl.
  - destruct Hex as [[kv [[] _]]|Hacc]. assumption.
  - apply IH.
    + intros kv Hin. apply Hall. right; assumption.
    + destruct (Nat.eqb k k') eqn:E.
      * right. apply Nat.eqb_eq in E. subst k'. f_equal.
        exact (Hall (k, v') (or_introl eq_refl) eq_refl).
      * destruct Hex as [[kv [[Heq|Hin] Hk]]|Hacc].
        -- subst kv. simpl in Hk. subst k'. rewrite Nat.eqb_refl in E. discriminate.
        -- left. exists kv. split; assumption.
        -- right. assumption.
Qed.

Lemma in_combine_seq :
  forall {A} (l : list A) (a i : nat) (x : A),
    In (i, x) (combine (seq a (List.length l)) l) <-> (a <= i)%nat /\ nth_error l (i - a) = Some x.
Proof.
  intros A l. induction l as [|y l IH]; intros a i x; simpl.
  - split; [intros []|]. intros [_ H]. destruct (i - a)%nat; discriminate.
  - split.
    + intros [Heq|Hin].
      * injection Heq as <- <-. split; [lia|]. replace (a - a)%nat with 0%nat by lia. reflexivity.
      * apply IH in Hin. destruct Hin as [Hle Hn]. split; [lia|].
        replace (i - a)%nat with (S (i - S a)) by lia. exact Hn.
    + intros [Hle Hn]. destruct (Nat.eq_dec i a) as [->|Hne].
      * left. replace (a - a)%nat with 0%nat in Hn by lia. simpl in Hn. injection Hn as ->. reflexivity.
      * right. apply IH. split; [lia|].
        replace (i - a)%nat with (S (i - S a)) in Hn by lia. exact Hn.
Qed.

Lemma in_enumerate :
  forall {A} (l : list A) (i : nat) (x : A), In (i, x) (enumerate l) <-> nth_error l i = Some x.
Proof.
  intros A l i x. unfold enumerate. rewrite in_combine_seq.
  replace (i - 0)%nat with i by lia. split; [intros [_ H]; exact H|intro H; split; [lia|exact H]].
Qed.

(* Whatever local file names are used, as long as no two pilots of the bulk
   share one: the sandbox of pilot i receives the configuration prepared for
   pilot i -- for a bulk of any length, whatever the other pilots are. *)
Lemma staged_cfg_is_own_l :
  forall (name : nat -> nat) (ss : list sized),
    (forall i j, (i < List.length ss)%nat -> (j < List.length ss)%nat -> name i = name j -> i = j) ->
    forall i s, nth_error ss i = Some s -> received name ss i = Some (told_of i s).
Proof.
  intros name ss Hinj i s Hi.
  assert (Hlt : (i < List.length ss)%nat) by (apply nth_error_Some; congruence).
  unfold received. replace (i <? List.length ss)%nat with true by (symmetry; apply Nat.ltb_lt; exact Hlt).
  unfold latest, written. apply latest_acc.
  - intros kv Hin Hk. apply in_map_iff in Hin. destruct Hin as [[j sj] [<- Hin]]. simpl in *.
    apply in_enumerate in Hin.
    assert (Hj : (j < List.length ss)%nat) by (apply nth_error_Some; congruence).
    assert (j = i) by (apply Hinj; assumption). subst j. congruence.
  - left. exists (name i, told_of i s). split; [|reflexivity].
    apply in_map_iff. exists (i, s). split; [reflexivity|]. apply in_enumerate. exact Hi.
Qed.

Lemma nth_error_map_enumerate :
  forall {A B} (f : nat * A -> B) (l : list A) (i : nat) (y : B),
    nth_error (map f (enumerate l)) i = Some y -> exists x, nth_error l i = Some x /\ y = f (i, x).
Proof.
  intros A B f l. unfold enumerate.
  assert (G : forall a i y, nth_error (map f (combine (seq a (List.length l)) l)) i = Some y ->
                            exists x, nth_error l i = Some x /\ y = f ((a + i)%nat, x)).
  { induction l as [|x l IH]; intros a i y H; simpl in H.
    - destruct i; discriminate.
    - destruct i as [|i]; simpl in H.
      + injection H as <-. exists x. split; [reflexivity|]. f_equal. f_equal. lia.
      + destruct (IH (S a) i y H) as [x' [Hx ->]]. exists x'. split; [exact Hx|]. f_equal. f_equal. lia. }
  intros i y H. destruct (G 0%nat i y H) as [x [Hx ->]]. exists x. split; [exact Hx|reflexivity].
Qed.

(* a bulk of any length, any tables: pilot i's job figures are those of `launch`
   on its request alone, and the agent configuration that arrives in its sandbox
   is the one built from exactly those figures for pilot i *)
Lemma bulk_agent_receives_own_l :
  forall Tb site rname schema qs rs i s t,
    launch_bulk_staged Tb site rname schema qs = inr rs ->
    nth_error rs i = Some (s, t) ->
    exists q, nth_error qs i = Some q /\ launch Tb site rname schema q = inr s /\
              t = Some (told_of i s).
Proof.
  intros Tb site rname schema qs rs i s t H Hi. unfold launch_bulk_staged, bind in H.
  destruct (launch_bulk Tb site rname schema qs) as [|ss] eqn:Eb; [discriminate|].
  injection H as <-.
  destruct (nth_error_map_enumerate _ _ _ _ Hi) as [s' [Hs' Heq]]. simpl in Heq.
  injection Heq as <- ->.
  pose proof (bulk_pilot_by_pilot_l _ _ _ _ _ _ Eb) as HF.
  assert (Hq : exists q, nth_error qs i = Some q /\ launch Tb site rname schema q = inr s).
  { clear Eb Hi. revert i Hs'. induction HF as [|q s0 qs' ss' Hl _ IH]; intros i Hs'.
    - destruct i; discriminate.
    - destruct i as [|i]; simpl in *.
      + injection Hs' as ->. exists q. split; [reflexivity|exact Hl].
      + apply IH. exact Hs'. }
  destruct Hq as [q [Hq Hl]]. exists q. repeat split; try assumption.
  apply staged_cfg_is_own_l; [|exact Hs'].
  intros a b _ _ Hab. exact Hab.
Qed.

(* ... hence the agent reads what its job requests *)
Lemma bulk_agent_told_job_l :
  forall Tb site rname schema qs rs i s t,
    launch_bulk_staged Tb site rname schema qs = inr rs ->
    nth_error rs i = Some (s, t) ->
    ok_staged_own i t = true /\ ok_told_job s t = true.
Proof.
  intros Tb site rname schema qs rs i s t H Hi.
  destruct (bulk_agent_receives_own_l _ _ _ _ _ _ _ _ _ H Hi) as [q [Hq [Hl ->]]].
  destruct (launch_inv _ _ _ _ _ _ Hl) as [p [_ Hsz]].
  destruct (size_pilot_inv _ _ _ _ _ _ Hsz) as [rn [_ ->]].
  unfold ok_staged_own, ok_told_job, told_of. simpl. split; lia.
Qed.
