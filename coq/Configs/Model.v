(* Executable model of how radical.pilot turns a shipped platform
   configuration and a pilot description into a batch job:

     (a) Session._init_cfg_from_scratch (ResourceConfig(raw)),
         Session.get_resource_config  (schema merge, ENDPOINTS_DEFAULT, verify),
         ru.TypedDict.update / verify (as used by ResourceConfig, AccessSchema,
         RaptorConfig), ResourceManager.get_manager / create,
         ResourceManager._prepare_launch_methods + LaunchMethod.create,
         AgentSchedulingComponent.create, AgentExecutingComponent.create,
         the agent-config lookup of _prepare_pilot;
     (b) PMGRLaunchingComponent._prepare_pilot: checks, SMT / blocked cores /
         blocked GPUs, node / core / GPU arithmetic, the figures written to the
         job description and to the agent configuration.

   The tables (schemas, defaults, factory key tables, agent config files, the
   resource configs themselves) are parameters; RP.Gen.Configs (generated from
   the repository on every run) instantiates them.  Where the Python code
   raises, the model returns `inl <exception class>`.  `Unmodelled` marks
   inputs whose Python behaviour this model does not describe (fail closed:
   no theorem or oracle treats it as success).  Definitions only. *)
From Coq Require Import ZArith List Bool String Ascii.
Import ListNotations.
Open Scope string_scope.
Open Scope Z_scope.

Inductive json :=
| JNull
| JBool (b : bool)
| JInt (z : Z)
| JFloat (repr : string)
| JStr (s : string)
| JList (l : list json)
| JDict (d : list (string * json)).

(* the schema types that occur in resource_config.py *)
Inductive ty := TStr | TInt | TBool | TAny
              | TListOf (t : ty) | TDictOf (k v : ty) | TTyped (cls : string).

Inductive perr := KeyError | TypeError | ValueError | RuntimeError | AttributeError
                | AssertionError | OtherError | Unmodelled.

Definition dict := list (string * json).

Record tables := {
  t_schemas   : list (string * list (string * ty));
  t_defaults  : list (string * dict);
  t_endpoints : dict;                          (* ENDPOINTS_DEFAULT *)
  t_rm        : list (string * string);        (* impl tables: key -> class *)
  t_lm        : list (string * string);
  t_sched     : list (string * string);
  t_exec      : list (string * string);
  t_agents    : list (string * list string);   (* agent_<name>.json -> top-level keys *)
  t_rcfgs     : list (string * list (string * json))
}.

(* ---------------------------------------------------------------- dicts *)
Fixpoint assoc {A} (k : string) (l : list (string * A)) : option A :=
  match l with
  | [] => None
  | (k', v) :: l' => if String.eqb k k' then Some v else assoc k l'
  end.

Definition has_key {A} (k : string) (l : list (string * A)) : bool :=
  match assoc k l with Some _ => true | None => false end.

(* d[k] = v : an existing key keeps its position *)
Fixpoint dset (k : string) (v : json) (d : dict) : dict :=
  match d with
  | [] => [(k, v)]
  | (k', v') :: d' => if String.eqb k k' then (k, v) :: d' else (k', v') :: dset k v d'
  end.

Definition dupdate (d other : dict) : dict :=
  fold_left (fun acc kv => dset (fst kv) (snd kv) acc) other d.

Definition keys {A} (l : list (string * A)) : list string := map fst l.

Fixpoint mem (s : string) (l : list string) : bool :=
  match l with [] => false | x :: l' => String.eqb s x || mem s l' end.

(* python truthiness *)
Definition truthy (v : json) : bool :=
  match v with
  | JNull => false
  | JBool b => b
  | JInt z => negb (z =? 0)
  | JFloat s => negb (String.eqb s "0.0" || String.eqb s "-0.0")
  | JStr s => negb (String.eqb s "")
  | JList l => match l with [] => false | _ => true end
  | JDict d => match d with [] => false | _ => true end
  end.

(* d.get(k) *)
Definition dget (k : string) (d : dict) : json :=
  match assoc k d with Some v => v | None => JNull end.

(* ---------------------------------------------------------------- error monad *)
Definition res (A : Type) := (perr + A)%type.
Definition bind {A B} (x : res A) (f : A -> res B) : res B :=
  match x with inl e => inl e | inr a => f a end.
Notation "'do' x <- a ; b" := (bind a (fun x => b)) (at level 200, x name, a at level 100, b at level 200).

Fixpoint map_res {A B} (f : A -> res B) (l : list A) : res (list B) :=
  match l with
  | [] => inr []
  | x :: l' => do y <- f x; do ys <- map_res f l'; inr (y :: ys)
  end.

(* ---------------------------------------------------------------- int("...") *)
Definition digit (c : ascii) : option Z :=
  let n := Z.of_nat (nat_of_ascii c) in
  if (48 <=? n) && (n <=? 57) then Some (n - 48) else None.

Fixpoint parse_digits (acc : Z) (s : string) : option Z :=
  match s with
  | EmptyString => Some acc
  | String c s' => match digit c with Some d => parse_digits (acc * 10 + d) s' | None => None end
  end.

(* plain decimal literals only; anything else is reported as not an int *)
Definition parse_int (s : string) : option Z :=
  match s with
  | EmptyString => None
  | String "-" s' => match s' with EmptyString => None
                     | _ => option_map Z.opp (parse_digits 0 s') end
  | _ => parse_digits 0 s
  end.

Section WithTables.
  Variable T : tables.

  Definition schema_of (cls : string) : list (string * ty) :=
    match assoc cls (t_schemas T) with Some s => s | None => [] end.
  Definition defaults_of (cls : string) : dict :=
    match assoc cls (t_defaults T) with Some s => s | None => [] end.

  (* ------------------------------------------------ ru.TypedDict.update
     for (k, v) in other.items():
         if isinstance(v, dict) and schema[k] is a TypedDict subclass:
             if not self.get(k): self[k] = t()
             self[k].update(v)            (sub-schemas are flat: plain update)
         else: self[k] = v *)
  Definition td_update (cls : string) (self other : dict) : dict :=
    fold_left (fun acc kv =>
      let '(k, v) := kv in
      match v, assoc k (schema_of cls) with
      | JDict d, Some (TTyped sub) =>
          let base := match dget k acc with
                      | JDict (x :: cur) => x :: cur
                      | _ => defaults_of sub
                      end in
          dset k (JDict (dupdate base d)) acc
      | _, _ => dset k v acc
      end) other self.

  (* cls(from_dict=d) : defaults first, then the data *)
  Definition td_new (cls : string) (d : dict) : dict :=
    td_update cls (td_update cls [] (defaults_of cls)) d.

  (* ------------------------------------------------ ru.TypedDict.verify (_cast = True) *)
  Definition verify_simple (t : ty) (v : json) : res json :=
    match v with
    | JNull => inr JNull
    | _ =>
      match t with
      | TAny => inr v
      | TStr => match v with JStr _ => inr v | _ => inl Unmodelled end      (* str(v): always succeeds *)
      | TInt => match v with
                | JInt _ => inr v
                | JStr s => match parse_int s with Some z => inr (JInt z) | None => inl TypeError end
                | JList _ | JDict _ => inl TypeError
                | _ => inl Unmodelled
                end
      | TBool => match v with
                 | JBool _ => inr v
                 | JInt 0 => inr (JBool false)
                 | JInt 1 => inr (JBool true)
                 | JInt _ | JList _ | JDict _ | JFloat _ => inl TypeError
                 | _ => inl Unmodelled
                 end
      | _ => inl Unmodelled
      end
    end.

  (* every key must be in the schema; values are cast *)
  Fixpoint verify_entries (f : ty -> json -> res json) (sch : list (string * ty)) (d : dict) : res dict :=
    match d with
    | [] => inr []
    | (k, v) :: d' =>
        match assoc k sch with
        | None => inl KeyError
        | Some t => do v' <- f t v; do r <- verify_entries f sch d'; inr ((k, v') :: r)
        end
    end.

  (* t(from_dict=v).verify() for a flat TypedDict class *)
  Definition verify_typed (cls : string) (v : json) : res json :=
    match v with
    | JDict d => do r <- verify_entries verify_simple (schema_of cls) (dupdate (defaults_of cls) d);
                 inr (JDict r)
    | _ => inl TypeError
    end.

  Definition verify_key (t : ty) (k : string) : res unit :=
    match t with
    | TStr | TAny => inr tt
    | TInt => match parse_int k with Some _ => inr tt | None => inl TypeError end
    | _ => inl Unmodelled
    end.

  Fixpoint verify_kvt (t : ty) (v : json) : res json :=
    match v with
    | JNull => inr JNull
    | _ =>
      match t with
      | TListOf t' =>
          let l := match v with JList l => l | _ => [v] end in          (* ru.as_list *)
          do r <- map_res (verify_kvt t') l; inr (JList r)
      | TDictOf tk tv =>
          match v with
          | JDict d =>
              do r <- map_res (fun kv => do _ <- verify_key tk (fst kv);
                                         do v' <- verify_kvt tv (snd kv); inr (fst kv, v')) d;
              inr (JDict r)
          | _ => inl AttributeError                                      (* v.items() *)
          end
      | TTyped cls => verify_typed cls v
      | _ => verify_simple t v
      end
    end.

  Definition RC : string := "ResourceConfig".

  Definition rc_verify (d : dict) : res dict := verify_entries verify_kvt (schema_of RC) d.

  (* ------------------------------------------------ Session *)
  (* _init_cfg_from_scratch: self._rcfgs[site][res] = ResourceConfig(raw) *)
  Definition stored (site rname : string) : res dict :=
    match assoc site (t_rcfgs T) with
    | None => inl RuntimeError
    | Some rs =>
        match assoc rname rs with
        | None => inl RuntimeError
        | Some (JDict raw) => inr (td_new RC raw)
        | Some _ => inl Unmodelled
        end
    end.

  (* ru.dict_merge(rcfg, scfg, ru.OVERWRITE), one level *)
  Fixpoint merge_overwrite (a b : dict) : res dict :=
    match b with
    | [] => inr a
    | (k, v) :: b' =>
        match assoc k a, v with
        | Some (JDict _), JDict _ => inl Unmodelled
        | _, _ => merge_overwrite (dset k v a) b'
        end
    end.

  (* the resource managers that override batch_started(), by key; `in_batch`
     says that their job-id environment variable is set *)
  Definition batch_rms : list string := ["COBALT"; "LSF"; "PBSPRO"; "SLURM"; "TORQUE"].

  Definition get_manager (name : json) : res (option string) :=
    match name with
    | JStr s => inr (assoc s (t_rm T))
    | JList _ | JDict _ => inl TypeError
    | _ => inr None
    end.

  Definition label (site rname : string) : string := site ++ "." ++ rname.

  (* Session.get_resource_config(site.res, schema) *)
  Definition get_resource_config (site rname : string) (schema : option string) (in_batch : bool)
    : res dict :=
    do st <- stored site rname;
    let schema := match schema with
                  | Some s => if String.eqb s "" then dget "default_schema" st else JStr s
                  | None => dget "default_schema" st
                  end in
    if negb (truthy schema) then inr (dset "label" (JStr (label site rname)) st)
    else match schema, dget "schemas" st with
    | JStr s, JDict schemas =>
        if negb (has_key s schemas) then inl RuntimeError else
        let rcfg := td_new RC st in
        do rcfg <- match dget s (match dget "schemas" rcfg with JDict x => x | _ => [] end) with
                   | JDict scfg => merge_overwrite rcfg scfg
                   | JNull => inr rcfg                                  (* dict_merge(a, None) returns a *)
                   | _ => inl TypeError                                 (* "dict_merge expects dicts" *)
                   end;
        do rm <- get_manager (dget "resource_manager" rcfg);
        let rcfg := match rm, dget "resource_manager" rcfg with
                    | Some _, JStr n => if in_batch && mem n batch_rms
                                        then dupdate rcfg (t_endpoints T) else rcfg
                    | _, _ => rcfg
                    end in
        rc_verify (dset "label" (JStr (label site rname)) rcfg)
    | _, _ => inl Unmodelled
    end.

  (* ------------------------------------------------ agent side factories *)
  (* LaunchMethod.create(name, ...) : class name, "None" for an empty name *)
  Definition lm_create (name : string) : res string :=
    if String.eqb name "" then inr "None"%string
    else match assoc name (t_lm T) with Some c => inr c | None => inl ValueError end.

  Fixpoint remove_first (s : string) (l : list string) : list string :=
    match l with [] => [] | x :: l' => if String.eqb s x then l' else x :: remove_first s l' end.

  Fixpoint sset (k v : string) (d : list (string * string)) : list (string * string) :=
    match d with
    | [] => [(k, v)]
    | (k', v') :: d' => if String.eqb k k' then (k, v) :: d' else (k', v') :: sset k v d'
    end.

  Definition str_list (v : json) : res (list string) :=
    match v with
    | JList l => map_res (fun x => match x with JStr s => inr s | _ => inl Unmodelled end) l
    | _ => inl Unmodelled
    end.

  (* the loop of ResourceManager._prepare_launch_methods; `skipped` are the
     names for which LaunchMethod.create raised ('skip lm') *)
  Record lms := { l_order : list string; l_launchers : list (string * string); l_skipped : list string }.

  Fixpoint lm_loop (cfgs : dict) (todo order : list string) (launchers : list (string * string))
    (skipped : list string) : res lms :=
    match todo with
    | [] => inr {| l_order := order; l_launchers := launchers; l_skipped := rev skipped |}
    | n :: todo' =>
        match assoc n cfgs with
        | None => inl KeyError                          (* launch_methods[lm_name] *)
        | Some (JDict _) | Some JNull =>
            match lm_create n with
            | inr c => lm_loop cfgs todo' order (sset n c launchers) skipped
            | inl _ => lm_loop cfgs todo' (remove_first n order) launchers (n :: skipped)
            end
        | Some _ => inl Unmodelled
        end
    end.

  (* ResourceManager._prepare_launch_methods on rm_info.launch_methods = rcfg.launch_methods *)
  Definition prepare_launch_methods (rcfg : dict) : res lms :=
    match dget "launch_methods" rcfg with
    | JDict cfgs =>
        do order <- (if truthy (dget "order" cfgs) then str_list (dget "order" cfgs) else inr (keys cfgs));
        do r <- lm_loop cfgs order order [] [];
        match l_launchers r with [] => inl RuntimeError | _ => inr r end
    | _ => inl Unmodelled
    end.

  (* ResourceManager.create : class of the resource manager *)
  Definition rm_create (rcfg : dict) : res string :=
    do rm <- get_manager (dget "resource_manager" rcfg);
    match rm with Some c => inr c | None => inl RuntimeError end.

  (* AgentSchedulingComponent.create *)
  Definition sched_create (rcfg : dict) : res string :=
    match dget "agent_scheduler" rcfg, dget "launch_methods" rcfg with
    | JStr name, JDict lms =>
        let name := if has_key "JSRUN" lms && String.eqb name "CONTINUOUS"
                    then "CONTINUOUS_JSRUN"%string else name in
        match assoc name (t_sched T) with Some c => inr c | None => inl ValueError end
    | JNull, JDict _ => inl ValueError
    | _, _ => inl Unmodelled
    end.

  (* AgentExecutingComponent.create *)
  Definition exec_create (rcfg : dict) : res string :=
    match dget "agent_spawner" rcfg with
    | JStr name => match assoc name (t_exec T) with Some c => inr c | None => inl ValueError end
    | JNull => inl ValueError
    | _ => inl Unmodelled
    end.

  (* the agent configuration named by the resource config: top-level keys of
     agent_<name>.json; ru.Config silently yields an empty config if there is no such file *)
  Definition agent_cfg_keys (rcfg : dict) : res (list string) :=
    match dget "agent_config" rcfg with
    | JStr name => inr (match assoc name (t_agents T) with Some ks => ks | None => [] end)
    | JNull => inl TypeError
    | _ => inl Unmodelled
    end.

  Definition opt_str (v : json) : res (option string) :=
    match v with JStr s => inr (Some s) | JNull => inr None | _ => inl Unmodelled end.

  (* what a configuration + schema resolves to *)
  Record resolved := {
    r_jm     : option string;                 (* job_manager_endpoint *)
    r_fs     : option string;                 (* filesystem_endpoint *)
    r_rm     : res string;
    r_lm     : res lms;
    r_sched  : res string;
    r_exec   : res string;
    r_agent  : res (list string)
  }.

  Definition resolve (site rname : string) (schema : option string) (in_batch : bool) : res resolved :=
    do rcfg <- get_resource_config site rname schema in_batch;
    do jm <- opt_str (dget "job_manager_endpoint" rcfg);
    do fs <- opt_str (dget "filesystem_endpoint" rcfg);
    inr {| r_jm := jm; r_fs := fs; r_rm := rm_create rcfg; r_lm := prepare_launch_methods rcfg;
           r_sched := sched_create rcfg; r_exec := exec_create rcfg; r_agent := agent_cfg_keys rcfg |}.

  (* the complete finite domain: every site, resource, and each named schema
     plus the default one (None) *)
  Definition schema_names (c : json) : list (option string) :=
    None :: match c with
            | JDict raw => match dget "schemas" raw with JDict s => map Some (keys s) | _ => [] end
            | _ => []
            end.

  Definition all_config_schemas : list (string * string * option string) :=
    flat_map (fun sr => flat_map (fun rc => map (fun s => (fst sr, fst rc, s)) (schema_names (snd rc)))
                                 (snd sr)) (t_rcfgs T).

  (* ------------------------------------------------ (b) PMGRLaunchingComponent._prepare_pilot *)
  Record request := {
    q_nodes  : Z;  q_cores : Z;  q_gpus : Z;  q_backup : Z;
    q_present : list string;        (* keys of the description whose value is not None *)
    q_env_smt : option Z            (* $RADICAL_SMT, if set and non-empty *)
  }.

  Record sized := {
    s_node_count : Z;               (* jd.node_count *)
    s_total_cpu  : Z;               (* jd.total_cpu_count *)
    s_total_gpu  : Z;               (* jd.total_gpu_count *)
    s_pph        : Z;               (* jd.processes_per_host *)
    s_smt        : Z;               (* jd.environment['RADICAL_SMT'] *)
    a_nodes : Z; a_backup : Z; a_cores : Z; a_gpus : Z;       (* agent_cfg *)
    a_cpn : Z; a_gpn : Z;                                     (* agent_cfg cores/gpus_per_node *)
    p_cpu : Z; p_gpu : Z                                      (* pilot['resources'] *)
  }.

  (* math.ceil(a / b), b <> 0 (Z.div rounds towards minus infinity) *)
  Definition cdiv (a b : Z) : Z := - ((- a) / b).

  (* n1/d1 <= n2/d2 for non-zero denominators of any sign *)
  Definition frac_le (n1 d1 n2 d2 : Z) : bool :=
    if 0 <? d1 * d2 then n1 * d2 <=? n2 * d1 else n2 * d1 <=? n1 * d2.

  (* node-size parameters of a platform as _prepare_pilot reads them *)
  Record nodeparams := { n_cpn : Z; n_gpn : Z; n_smt : Z; n_bc : Z; n_bg : Z }.

  (* cores_per_node after the SMT multiplication *)
  Definition smt_cores (p : nodeparams) : Z :=
    if negb (n_cpn p =? 0) && negb (n_smt p =? 0) then n_cpn p * n_smt p else n_cpn p.

  Definition avail_cores (p : nodeparams) : Z :=
    if negb (smt_cores p =? 0) && negb (n_bc p =? 0) then smt_cores p - n_bc p else smt_cores p.

  Definition avail_gpus (p : nodeparams) : Z :=
    if negb (n_gpn p =? 0) && negb (n_bg p =? 0) then n_gpn p - n_bg p else n_gpn p.

  (* requested_nodes: given, or math.ceil(max(gpus / avail_gpus, cores / avail_cores)) *)
  Definition req_nodes (ac ag nodes cores gpus : Z) : res Z :=
    if negb (nodes =? 0)
    then (if ac =? 0 then inl RuntimeError else inr nodes)       (* 'use "cores" in PilotDescription' *)
    else
      (* requested_nodes as a fraction num/den *)
      let '(n1, d1) := if negb (ac =? 0) then (cores, ac) else (nodes, 1) in
      let '(n2, d2) :=
          if negb (ag =? 0)
          then (if (if (ac <? 0) || (ag <? 0)
                    then frac_le n1 d1 gpus ag         (* negative sizes (SMT < 0): sign-aware *)
                    else n1 * ag <=? gpus * d1)        (* max(gpus / ag, requested_nodes) *)
                then (gpus, ag) else (n1, d1))
          else (n1, d1) in
      inr (cdiv n2 d2).

  (* the figures written to jd_dict, agent_cfg and pilot['resources'] *)
  Definition mk_sized (p : nodeparams) (rn cores gpus backup : Z) : sized :=
    let tc := (rn + backup) * avail_cores p in
    let tg := (rn + backup) * avail_gpus p in
    let alloc_c := if tc =? 0 then cores else tc in          (* (...) or requested_cores *)
    let alloc_g := if tg =? 0 then gpus else tg in
    {| s_node_count := rn + backup; s_total_cpu := alloc_c; s_total_gpu := alloc_g;
       s_pph := avail_cores p; s_smt := n_smt p;
       a_nodes := rn; a_backup := backup; a_cores := alloc_c; a_gpus := alloc_g;
       a_cpn := smt_cores p; a_gpn := n_gpn p; p_cpu := alloc_c; p_gpu := alloc_g |}.

  (* the arithmetic from "estimate requested resources" to the job description *)
  Definition size_pilot (p : nodeparams) (nodes cores gpus backup : Z) : res sized :=
    if negb (smt_cores p =? 0) && negb (n_bc p =? 0) && negb (0 <? avail_cores p)
    then inl AssertionError else
    if negb (n_gpn p =? 0) && negb (n_bg p =? 0) && negb (0 <=? avail_gpus p)
    then inl AssertionError else
    do rn <- req_nodes (avail_cores p) (avail_gpus p) nodes cores gpus;
    inr (mk_sized p rn cores gpus backup).

  Definition get_int (k : string) (d : dict) : res Z :=
    match dget k d with JInt z => inr z | _ => inl Unmodelled end.

  Definition list_len (k : string) (d : dict) : res Z :=
    match assoc k d with
    | None => inr 0
    | Some (JList l) => inr (Z.of_nat (List.length l))
    | Some _ => inl Unmodelled
    end.

  Definition node_params (rcfg : dict) (env_smt : option Z) : res nodeparams :=
    match dget "system_architecture" rcfg with
    | JDict sa =>
        do cpn <- get_int "cores_per_node" rcfg;
        do gpn <- get_int "gpus_per_node" rcfg;
        do smt <- match env_smt with
                  | Some z => inr z
                  | None => match assoc "smt" sa with
                            | None => inr 1
                            | Some (JInt z) => inr z
                            | Some _ => inl Unmodelled
                            end
                  end;
        do bc <- list_len "blocked_cores" sa;
        do bg <- list_len "blocked_gpus" sa;
        inr {| n_cpn := cpn; n_gpn := gpn; n_smt := smt; n_bc := bc; n_bg := bg |}
    | _ => inl Unmodelled
    end.

  Definition starts_with_at (s : string) : bool :=
    match s with String "@" _ => true | _ => false end.

  (* the checks of _prepare_pilot that precede the arithmetic *)
  Definition mandatory_args (rcfg : dict) : res (list string) :=
    match dget "mandatory_args" rcfg with JNull => inr [] | v => str_list v end.

  (* ... those that do not depend on the pilot description *)
  Definition static_checks (rcfg : dict) : res unit :=
    do _ <- agent_cfg_keys rcfg;
    match dget "virtenv_mode" rcfg, dget "rp_version" rcfg, dget "python_dist" rcfg with
    | JStr vm, JStr rv, JStr pd =>
        let local := String.eqb vm "local" in
        let rv := if local then "installed" else rv in
        if negb (starts_with_at rv) && negb (mem rv ["installed"; "local"; "release"])
        then inl ValueError else
        if negb (local || truthy (JStr pd)) then inl RuntimeError else
        if negb (truthy (dget "agent_spawner" rcfg)) then inl RuntimeError else
        if negb (truthy (dget "agent_scheduler" rcfg)) then inl RuntimeError else
        if negb (truthy (dget "resource_manager" rcfg)) then inl RuntimeError else
        inr tt
    | _, _, _ => inl Unmodelled
    end.

  Definition prepare_checks (rcfg : dict) (q : request) : res unit :=
    do ma <- mandatory_args rcfg;
    if negb (forallb (fun a => mem a (q_present q)) ma) then inl ValueError else
    static_checks rcfg.

  (* _prepare_pilot(resource, rcfg, pilot, ...) : the figures of jd_dict and agent_cfg *)
  Definition prepare_pilot (rcfg : dict) (q : request) : res sized :=
    do rcfg <- rc_verify rcfg;
    do _ <- prepare_checks rcfg q;
    do p <- node_params rcfg (q_env_smt q);
    size_pilot p (q_nodes q) (q_cores q) (q_gpus q) (q_backup q).

  (* get_resource_config followed by _prepare_pilot, as _start_pilot_bulk does *)
  Definition launch (site rname : string) (schema : option string) (q : request) : res sized :=
    do rcfg <- get_resource_config site rname schema false;
    prepare_pilot rcfg q.

  (* _start_pilot_bulk: the resource config is fetched ONCE and the same object is
     handed to _prepare_pilot for every pilot of the bulk; _prepare_pilot does not
     change it, so the model threads one immutable value.  The first pilot that
     raises aborts the bulk. *)
  Definition launch_bulk (site rname : string) (schema : option string) (qs : list request)
    : res (list sized) :=
    do rcfg <- get_resource_config site rname schema false;
    map_res (prepare_pilot rcfg) qs.

  (* the node-size parameters _prepare_pilot derives for that platform *)
  Definition launch_params (site rname : string) (schema : option string) (env_smt : option Z)
    : res nodeparams :=
    do rcfg <- get_resource_config site rname schema false;
    do rcfg <- rc_verify rcfg;
    node_params rcfg env_smt.

  (* PilotDescription._verify on the size fields *)
  Definition pd_verify (q : request) : bool :=
    if negb (q_backup q =? 0) && (q_nodes q =? 0) then false
    else if q_nodes q =? 0 then negb (q_cores q =? 0)
    else (q_cores q =? 0) && (q_gpus q =? 0).
  (* ------------------------------------------------ what arrives in the pilot sandboxes
     _prepare_pilot writes the agent configuration of pilot i to a local file and records a
     staging directive (that file -> <sandbox of pilot i>/agent_0.cfg).  _start_pilot_bulk
     prepares ALL pilots of the bulk first and runs the staging directives afterwards, so a
     sandbox receives the content its file has AFTER the whole prepare loop.
     Pilots are identified by their position in the bulk. *)
  Record told := {
    t_pid : Z;                      (* agent_cfg['pid'] : which pilot the agent believes it serves *)
    t_sandbox : Z;                  (* agent_cfg['pilot_sandbox'] : whose sandbox *)
    t_nodes : Z; t_backup : Z; t_cores : Z; t_gpus : Z; t_cpn : Z; t_gpn : Z
  }.

  (* the agent configuration _prepare_pilot builds for pilot i *)
  Definition told_of (i : nat) (s : sized) : told :=
    {| t_pid := Z.of_nat i; t_sandbox := Z.of_nat i;
       t_nodes := a_nodes s; t_backup := a_backup s; t_cores := a_cores s; t_gpus := a_gpus s;
       t_cpn := a_cpn s; t_gpn := a_gpn s |}.

  (* a file store as the sequence of writes; reading yields the latest write to that name *)
  Definition latest {V} (k : nat) (l : list (nat * V)) : option V :=
    fold_left (fun acc kv => if Nat.eqb k (fst kv) then Some (snd kv) else acc) l None.

  Definition enumerate {A} (l : list A) : list (nat * A) := combine (seq 0 (List.length l)) l.

  (* the writes of the prepare loop, `name i` being the local file used for pilot i *)
  Definition written (name : nat -> nat) (ss : list sized) : list (nat * told) :=
    map (fun x => (name (fst x), told_of (fst x) (snd x))) (enumerate ss).

  (* deferred staging: the sandbox of pilot i receives file `name i` as it is after the loop *)
  Definition received (name : nat -> nat) (ss : list sized) (i : nat) : option told :=
    if (i <? List.length ss)%nat then latest (name i) (written name ss) else None.

  (* tempfile.mkstemp: a new file for every call *)
  Definition fresh_name (i : nat) : nat := i.

  (* _start_pilot_bulk up to job submission: per pilot, the job figures and what its agent will read *)
  Definition launch_bulk_staged (site rname : string) (schema : option string) (qs : list request)
    : res (list (sized * option told)) :=
    do ss <- launch_bulk site rname schema qs;
    inr (map (fun x => (snd x, received fresh_name ss (fst x))) (enumerate ss)).
End WithTables.
