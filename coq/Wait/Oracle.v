(* Boolean statements of property C15 over one observed wait call, and the
   rows evaluated by the harness:
     [model agrees with the observation; truthful; timely; timeout; justified; no_exception]
   The clauses look only at the inputs (requested states, timeout, termination
   tick, trajectories of the awaited entities) and at the observed result. *)
From Coq Require Import ZArith List Bool Arith.
From RP Require Import Common.Eqb Gen.StatesTables Wait.Model.
Import ListNotations.

Section Oracle.
  Context {state : Type}.
  Variable seqb : state -> state -> bool.
  Variable final : list state.
  Variable value : state -> Z.

  Notation mem := (mem seqb).
  Notation is_final := (is_final seqb final).

  Definition werr_eqb (a b : werr) : bool :=
    match a, b with
    | KeyError, KeyError | ValueError, ValueError | OtherError, OtherError => true
    | _, _ => false
    end.

  Definition rval_eqb (a b : @rval state) : bool :=
    match a, b with
    | VNone, VNone => true
    | VOne x, VOne y => seqb x y
    | VList x, VList y => eqb_list seqb x y
    | _, _ => false
    end.

  Definition res_eqb (a b : @res state) : bool :=
    match a, b with
    | Returned v t, Returned w u => rval_eqb v w && Nat.eqb t u
    | Spins, Spins => true
    | Raised e, Raised f => werr_eqb e f
    | _, _ => false
    end.

  (* the result is a return at tick <= b *)
  Definition ret_by (o : @res state) (b : nat) : bool :=
    match o with Returned _ t => t <=? b | _ => false end.

  (* number of ticks after which no awaited entity changes any more *)
  Definition horizon (aw : list (@traj state)) : nat :=
    fold_right (fun tr h => Nat.max (length (snd tr)) h) 0 aw.

  (* at tick k every awaited entity shows a requested state or a final state *)
  Definition sat (states : list state) (aw : list (@traj state)) (k : nat) : bool :=
    forallb (fun tr => mem (at_ tr k) states || is_final (at_ tr k)) aw.

  (* truthful: what is returned are the states the awaited entities show at
     the tick of the return -- one state for a single entity / a single uid,
     a list (in the order asked for) otherwise; never None *)
  Definition ok_truthful (as_list : bool) (aw : list (@traj state)) (o : @res state) : bool :=
    match o with
    | Returned (VList l) t => as_list && eqb_list seqb l (states_at t aw)
    | Returned (VOne s) t =>
        negb as_list && match aw with tr :: _ => seqb s (at_ tr t) | [] => false end
    | Returned VNone _ => false
    | _ => true
    end.

  (* timely, reading 1: whenever all awaited entities show a requested-or-final
     state at tick k and still at tick k+1 (visible for a polling interval),
     the call has returned by tick k+1 *)
  Definition ok_timely_all (states : list state) (aw : list (@traj state)) (o : @res state) : bool :=
    forallb (fun k => implb (sat states aw k && sat states aw (S k)) (ret_by o (S k)))
            (seq 0 (S (horizon aw))).

  (* the entity has shown a requested or a final state at some tick j,
     p0 <= j <= k.  p0 is the first tick at which the call looks at the
     entities: 0, except for wait_tasks, which sleeps before its first look
     (p0 = 1; a task cannot leave a state for an earlier one, so what it
     showed at tick 0 it has still reached at tick 1) *)
  Definition shown_by (p0 : nat) (states : list state) (tr : @traj state) (k : nat) : bool :=
    existsb (fun j => mem (at_ tr j) states || is_final (at_ tr j)) (seq p0 (S k - p0)).

  (* timely, reading 2 (per entity): once EVERY awaited entity HAS shown a
     requested or final state at some tick <= k -- not necessarily at the same
     tick, an entity may have moved on to a later state since -- the call has
     returned by tick k+1 *)
  Definition ok_timely_each (p0 : nat) (states : list state) (aw : list (@traj state))
    (o : @res state) : bool :=
    forallb (fun k => implb (forallb (fun tr => shown_by p0 states tr k) aw) (ret_by o (S k)))
            (seq 0 (S (S (horizon aw)))).

  (* the state is final, requested, or LATER than some requested state: in the
     linear state model the entity has then reached (passed) that requested
     state -- its value is >= the smallest requested value *)
  Definition passed (states : list state) (s : state) : bool :=
    is_final s || mem s states || existsb (fun q => (value q <=? value s)%Z) states.

  Definition passed_by (p0 : nat) (states : list state) (tr : @traj state) (k : nat) : bool :=
    existsb (fun j => passed states (at_ tr j)) (seq p0 (S k - p0)).

  (* timely, reading 3 ("reached", wait_tasks only -- the other calls are
     membership based): once every awaited task HAS REACHED a requested state,
     i.e. shows at some tick p0 <= j <= k a state that is requested, later than
     a requested one, or final -- it may have been past it when the call began,
     or have jumped over it between two ticks -- the call has returned by k+1 *)
  Definition ok_timely_reached (p0 : nat) (states : list state) (aw : list (@traj state))
    (o : @res state) : bool :=
    forallb (fun k => implb (forallb (fun tr => passed_by p0 states tr k) aw) (ret_by o (S k)))
            (seq 0 (S (S (horizon aw)))).

  Definition ok_timely (p0 : nat) (lib : bool) (states : list state) (aw : list (@traj state))
    (o : @res state) : bool :=
    ok_timely_all states aw o && ok_timely_each p0 states aw o
    && (if lib then ok_timely_reached p0 states aw o else true).

  (* with a truthy timeout the call has returned one poll after the first tick
     d at which the timeout has expired (d = T for T > 0 ticks, d = 0 for a
     negative timeout: it returns at its first check) *)
  Definition ok_timeout (T : tmo) (o : @res state) : bool :=
    match deadline T with Some d => ret_by o (S d) | None => true end.

  (* some tick j <= t at which the entity showed a requested state, a final
     state, or a state later than the earliest requested one *)
  Definition reached (states : list state) (tr : @traj state) (t : nat) : bool :=
    existsb (fun j => let s := at_ tr j in
                      mem s states || is_final s
                      || existsb (fun q => (value q <=? value s)%Z) states)
            (seq 0 (S t)).

  (* justified: a return at tick t happens because the timeout has expired,
     the manager terminates, or every awaited entity has reached what was
     asked for -- the call never returns early *)
  Definition ok_justified (states : list state) (T : tmo) (term : option nat)
    (aw : list (@traj state)) (o : @res state) : bool :=
    match o with
    | Returned _ t => timed_out T t || term_set term t
                      || forallb (fun tr => reached states tr t) aw
    | _ => true
    end.

  (* no exception when every uid named is known *)
  Definition ok_no_exception (valid : bool) (o : @res state) : bool :=
    match o with Raised _ => negb valid | _ => true end.

  (* which entities a manager-level call awaits (None: some uid unknown):
     the uids named, all tasks, or all pilots that are not final at the call *)
  Definition awaited_tasks (tab : @table state) (u : uidsel) : option (list (@traj state)) :=
    find_all tab (snd (sel_tasks tab u)).
  Definition awaited_pilots (tab : @table state) (u : uidsel) : option (list (@traj state)) :=
    find_all tab (snd (sel_pilots seqb final tab u)).
  Definition as_list (u : uidsel) : bool := match u with UOne _ => false | _ => true end.

  Definition clauses (p0 : nat) (lib lst : bool) (states : list state) (T : tmo) (term : option nat)
    (aw : option (list (@traj state))) (o : @res state) : list bool :=
    match aw with
    | Some a => [ ok_truthful lst a o; ok_timely p0 lib states a o; ok_timeout T o;
                  ok_justified states T term a o; ok_no_exception true o ]
    | None => [ match o with Returned _ _ => false | _ => true end; true; true; true; true ]
    end.

  Definition entity_row (r : req) (T : tmo) (term : option nat) (fuel : nat) (tr : traj)
    (o : @res state) : list bool :=
    res_eqb (entity_wait seqb final r T term fuel tr) o
    :: clauses 0 false false (norm final r) T term (Some [tr]) o.

  Definition wait_tasks_row (r : req) (T : tmo) (term : option nat) (fuel : nat)
    (tab : table) (u : uidsel) (o : @res state) : list bool :=
    res_eqb (wait_tasks seqb final value r T term fuel tab u) o
    :: clauses 1 true (as_list u) (norm final r) T term (awaited_tasks tab u) o.

  Definition wait_pilots_row (r : req) (T : tmo) (term : option nat) (fuel : nat)
    (tab : table) (u : uidsel) (o : @res state) : list bool :=
    res_eqb (wait_pilots seqb final r T term fuel tab u) o
    :: clauses 0 false (as_list u) (norm final r) T term (awaited_pilots tab u) o.
End Oracle.

(* rows for the four calls, on the generated tables *)
Definition c15_task_wait_row := entity_row tstate_beq tfinal tvalue.
Definition c15_pilot_wait_row := entity_row pstate_beq pfinal pvalue.
Definition c15_wait_tasks_row := wait_tasks_row tstate_beq tfinal tvalue.
Definition c15_wait_pilots_row := wait_pilots_row pstate_beq pfinal pvalue.
