(* Executable model of radical.pilot's four blocking wait calls
     Task.wait, Pilot.wait                       (single entity)
     TaskManager.wait_tasks, PilotManager.wait_pilots   (sets of entities)
   as functions of the requested states, the timeout (in polling ticks of
   0.1 s; None/0 = no timeout), the tick at which the manager's `_terminate`
   flag becomes set, and the *trajectory* of every entity: the state it shows
   at tick 0, 1, 2, ... (the last entry repeats for ever).  `time.sleep(0.1)`
   advances the clock by one tick.  `fuel` bounds the number of sleeps; a run
   that needs more is `Spins`.
   The model is parametric in the state type; RP.Wait.Inst instantiates it
   with the tables generated from states.py.  Definitions only.

   The code modelled is the code after fixes C15-1..C15-3 (see
   props/C15.findings.json). *)
From Coq Require Import ZArith List Bool Arith.
Import ListNotations.

Inductive werr := KeyError | ValueError | OtherError.

(* the `timeout` argument: None, a negative number (e.g. the remainder of a
   used-up time budget, `t_end - time.time()`), or n >= 0 polling ticks
   (fractions of a tick rounded up: the clock moves in whole ticks) *)
Inductive tmo := TNone | TNeg | TTicks (n : nat).

Section Wait.
  Context {state : Type}.
  Variable seqb : state -> state -> bool.
  Variable final : list state.            (* rps.FINAL *)
  Variable value : state -> Z.            (* rps._task_state_values *)

  Definition mem (s : state) (l : list state) : bool := existsb (seqb s) l.
  Definition is_final (s : state) : bool := mem s final.

  (* the `state` argument: None | '' | a name | a list of names *)
  Inductive req := RNone | REmpty | ROne (s : state) | RMany (l : list state).
  (* the `uids` argument: None | one uid | a list of uids *)
  Inductive uidsel := UAll | UOne (u : Z) | UMany (l : list Z).
  (* what a wait call returns: None | one state | a list of states *)
  Inductive rval := VNone | VOne (s : state) | VList (l : list state).
  Inductive res := Returned (v : rval) (t : nat) | Spins | Raised (e : werr).

  (* trajectory: state at tick 0, then the states at ticks 1, 2, ... *)
  Definition traj := (state * list state)%type.
  Definition at_ (tr : traj) (k : nat) : state :=
    nth k (fst tr :: snd tr) (last (snd tr) (fst tr)).

  (* if not state: FINAL / elif not isinstance(state, list): [state] / else: state *)
  Definition norm (r : req) : list state :=
    match r with
    | RNone | REmpty | RMany [] => final
    | ROne s => [s]
    | RMany l => l
    end.

  (* `timeout and (timeout <= time.time() - start)` at clock c: the timeout is
     truthy (None and 0 are not; a negative number is) and not larger than
     the time elapsed (c ticks >= 0: a negative timeout never is) *)
  Definition truthy (T : tmo) : bool :=
    match T with TNone => false | TNeg => true | TTicks O => false | TTicks (S _) => true end.
  Definition le_elapsed (T : tmo) (c : nat) : bool :=
    match T with TNone => false | TNeg => true | TTicks n => n <=? c end.
  Definition timed_out (T : tmo) (c : nat) : bool := truthy T && le_elapsed T c.
  (* the first tick at which that test holds, if any *)
  Definition deadline (T : tmo) : option nat :=
    match T with TNone => None | TNeg => Some 0 | TTicks O => None | TTicks (S t) => Some (S t) end.
  (* `self._tmgr._terminate.is_set()` at clock c *)
  Definition term_set (term : option nat) (c : nat) : bool :=
    match term with Some k => k <=? c | None => false end.

  (* ---- Task.wait / Pilot.wait ----------------------------------------- *)
  (* while self.state not in states and self.state not in FINAL:
         sleep; if timeout...: break; if terminate: break
     return self.state *)
  Fixpoint poll1 (fuel : nat) (states : list state) (T : tmo) (term : option nat)
    (tr : traj) (c : nat) : res :=
    let s := at_ tr c in
    if mem s states then Returned (VOne s) c
    else if is_final s then Returned (VOne s) c
    else match fuel with
         | O => Spins
         | S f =>
             let c' := S c in
             if timed_out T c' then Returned (VOne (at_ tr c')) c'
             else if term_set term c' then Returned (VOne (at_ tr c')) c'
             else poll1 f states T term tr c'
         end.

  Definition entity_wait (r : req) (T : tmo) (term : option nat) (fuel : nat) (tr : traj) : res :=
    let states := norm r in
    if is_final (at_ tr 0) then
      (* `if self.state in states: return self.state` / `return self.state` *)
      if mem (at_ tr 0) states then Returned (VOne (at_ tr 0)) 0
      else Returned (VOne (at_ tr 0)) 0
    else poll1 fuel states T term tr 0.

  (* ---- tables of entities --------------------------------------------- *)
  Definition table := list (Z * traj).

  Fixpoint find (u : Z) (t : table) : option traj :=
    match t with
    | [] => None
    | (k, tr) :: t' => if Z.eqb k u then Some tr else find u t'
    end.

  (* [self._tasks[uid] for uid in uids] -- None where the code raises *)
  Fixpoint find_all (t : table) (uids : list Z) : option (list traj) :=
    match uids with
    | [] => Some []
    | u :: us =>
        match find u t, find_all t us with
        | Some tr, Some trs => Some (tr :: trs)
        | _, _ => None
        end
    end.

  Definition states_at (c : nat) (trs : list traj) : list state :=
    map (fun tr => at_ tr c) trs.

  (* `if ret_list: return states / else: return states[0]` *)
  Definition ret_states (ret_list : bool) (sts : list state) (c : nat) : res :=
    if ret_list then Returned (VList sts) c
    else match sts with s :: _ => Returned (VOne s) c | [] => Raised OtherError end.

  (* ---- TaskManager.wait_tasks ----------------------------------------- *)
  (* check_state_val = values[FINAL[-1]]; for state in states: min(...) *)
  Definition check_val (states : list state) : option Z :=
    match rev final with
    | [] => None                                     (* FINAL[-1]: IndexError *)
    | f :: _ => Some (fold_left (fun acc s => Z.min acc (value s)) states (value f))
    end.

  (* a task stays on the watch list: not final and earlier than the check value *)
  Definition wt_keep (v : Z) (c : nat) (tr : traj) : bool :=
    negb (is_final (at_ tr c)) && (value (at_ tr c) <? v)%Z.

  (* the while loop; Some c = left at clock c, None = out of fuel *)
  Fixpoint wt_loop (fuel : nat) (v : Z) (T : tmo) (term : option nat)
    (chk : list traj) (c : nat) : option nat :=
    match chk with
    | [] => Some c
    | _ :: _ =>
        if term_set term c then Some c
        else if timed_out T c then Some c
        else match fuel with
             | O => None
             | S f => wt_loop f v T term (filter (wt_keep v (S c)) chk) (S c)
             end
    end.

  (* (ret_list, uids) after the argument handling at the top of wait_tasks *)
  Definition sel_tasks (tab : table) (u : uidsel) : bool * list Z :=
    match u with
    | UAll | UMany [] => (true, map fst tab)       (* if not uids: all *)
    | UOne x => (false, [x])
    | UMany l => (true, l)
    end.

  Definition wait_tasks (r : req) (T : tmo) (term : option nat) (fuel : nat)
    (tab : table) (u : uidsel) : res :=
    let '(ret_list, uids) := sel_tasks tab u in
    match check_val (norm r) with
    | None => Raised OtherError
    | Some v =>
        match find_all tab uids with
        | None => Raised KeyError
        | Some chk =>
            match wt_loop fuel v T term chk 0 with
            | None => Spins
            | Some c => ret_states ret_list (states_at c chk) c
            end
        end
    end.

  (* ---- PilotManager.wait_pilots --------------------------------------- *)
  Definition wp_keep (states : list state) (c : nat) (tr : traj) : bool :=
    negb (mem (at_ tr c) states) && negb (is_final (at_ tr c)).

  Fixpoint wp_loop (fuel : nat) (states : list state) (T : tmo) (term : option nat)
    (chk : list traj) (c : nat) : option nat :=
    match chk with
    | [] => Some c
    | _ :: _ =>
        if term_set term c then Some c
        else
          let chk' := filter (wp_keep states c) chk in
          if (match chk' with [] => false | _ :: _ => timed_out T c end) then Some c
          else match fuel with
               | O => None
               | S f => wp_loop f states T term chk' (S c)
               end
    end.

  Definition sel_pilots (tab : table) (u : uidsel) : bool * list Z :=
    match u with
    | UAll | UMany [] =>                            (* all pilots not yet final *)
        (true, map fst (filter (fun e => negb (is_final (at_ (snd e) 0))) tab))
    | UOne x => (false, [x])
    | UMany l => (true, l)
    end.

  Definition wait_pilots (r : req) (T : tmo) (term : option nat) (fuel : nat)
    (tab : table) (u : uidsel) : res :=
    let '(ret_list, uids) := sel_pilots tab u in
    match find_all tab uids with
    | None => Raised ValueError
    | Some chk =>
        match wp_loop fuel (norm r) T term chk 0 with
        | None => Spins
        | Some c => ret_states ret_list (states_at c chk) c
        end
    end.
End Wait.

Arguments RNone {state}.
Arguments REmpty {state}.
Arguments VNone {state}.
Arguments Spins {state}.
Arguments Raised {state} e.
