(* The hypotheses of RP.Wait.Proofs discharged for the tables generated from
   states.py (re-checked whenever states.py changes), and the theorems of
   RP.Wait.Proofs instantiated for tasks and pilots. *)
From Coq Require Import ZArith List Bool Arith Lia.
From RP Require Import Gen.StatesTables Wait.Model Wait.Oracle Wait.Inst Wait.Proofs.
Import ListNotations.

Lemma t_beq_spec a b : tstate_beq a b = true <-> a = b.
Proof. split; [apply internal_tstate_dec_bl | apply internal_tstate_dec_lb]. Qed.
Lemma p_beq_spec a b : pstate_beq a b = true <-> a = b.
Proof. split; [apply internal_pstate_dec_bl | apply internal_pstate_dec_lb]. Qed.

(* every state whose value is not below the value of a final state is final *)
Lemma t_final_top f s : In f tfinal -> (tvalue f <= tvalue s)%Z -> is_final tstate_beq tfinal s = true.
Proof.
  intros Hin Hle. destruct s; try reflexivity;
    (exfalso; simpl in Hin; decompose [or] Hin; subst; try contradiction;
     vm_compute in Hle; apply Hle; reflexivity).
Qed.
Lemma p_final_top f s : In f pfinal -> (pvalue f <= pvalue s)%Z -> is_final pstate_beq pfinal s = true.
Proof.
  intros Hin Hle. destruct s; try reflexivity;
    (exfalso; simpl in Hin; decompose [or] Hin; subst; try contradiction;
     vm_compute in Hle; apply Hle; reflexivity).
Qed.
Lemma t_final_ne : tfinal <> [].
Proof. discriminate. Qed.
Lemma p_final_ne : pfinal <> [].
Proof. discriminate. Qed.

(* FINAL is exactly DONE, FAILED, CANCELED *)
Lemma t_final_is s : is_final tstate_beq tfinal s = true <-> s = T_DONE \/ s = T_FAILED \/ s = T_CANCELED.
Proof. destruct s; vm_compute; intuition congruence. Qed.
Lemma p_final_is s : is_final pstate_beq pfinal s = true <-> s = P_DONE \/ s = P_FAILED \/ s = P_CANCELED.
Proof. destruct s; vm_compute; intuition congruence. Qed.
