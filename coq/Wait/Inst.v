(* The wait model instantiated with the state tables generated from
   states.py (task states for Task.wait / wait_tasks, pilot states for
   Pilot.wait / wait_pilots). *)
From Coq Require Import ZArith List Bool.
From RP Require Import Gen.StatesTables Wait.Model.
Import ListNotations.

Definition m_task_wait := entity_wait tstate_beq tfinal.
Definition m_pilot_wait := entity_wait pstate_beq pfinal.
Definition m_wait_tasks := wait_tasks tstate_beq tfinal tvalue.
Definition m_wait_pilots := wait_pilots pstate_beq pfinal.
