(* Proofs about the wait model: every call returns by the tick at which the
   awaited entities show a requested or a final state (+1 for the manager
   calls), returns by timeout+1, never returns without a reason, and returns
   the states shown at the tick of the return.  All statements are for
   arbitrary trajectories, requested sets, timeouts and termination ticks. *)
From Coq Require Import ZArith List Bool Arith Lia.
From RP Require Import Common.Eqb Wait.Model Wait.Oracle.
Import ListNotations.

Section Proofs.
  Context {state : Type}.
  Variable seqb : state -> state -> bool.
  Variable final : list state.
  Variable value : state -> Z.
  Hypothesis seqb_spec : forall a b, seqb a b = true <-> a = b.
  (* no non-final state is as late as a final one (values of FINAL are the top) *)
  Hypothesis final_top :
    forall f s, In f final -> (value f <= value s)%Z -> is_final seqb final s = true.

  Notation mem := (mem seqb).
  Notation is_final := (is_final seqb final).
  Notation poll1 := (poll1 seqb final).
  Notation entity_wait := (entity_wait seqb final).
  Notation wt_loop := (wt_loop seqb final value).
  Notation wt_keep := (wt_keep seqb final value).
  Notation wp_loop := (wp_loop seqb final).
  Notation wp_keep := (wp_keep seqb final).
  Notation traj := (@traj state).
  Notation table := (@Model.table state).

  Lemma seqb_refl s : seqb s s = true.
  Proof. apply seqb_spec; reflexivity. Qed.

  Lemma mem_In s l : mem s l = true <-> In s l.
  Proof.
    unfold Model.mem. rewrite existsb_exists. split.
    - intros [q [Hq Hs]]. apply seqb_spec in Hs. subst. exact Hq.
    - intro H. exists s. split; [exact H | apply seqb_refl].
  Qed.

  (* ------------------------------------------------------------ poll1 *)
  Lemma poll1_eq fuel states T term (tr : traj) c :
    poll1 fuel states T term tr c =
    if mem (at_ tr c) states then Returned (VOne (at_ tr c)) c
    else if is_final (at_ tr c) then Returned (VOne (at_ tr c)) c
    else match fuel with
         | O => Spins
         | S f =>
             if timed_out T (S c) then Returned (VOne (at_ tr (S c))) (S c)
             else if term_set term (S c) then Returned (VOne (at_ tr (S c))) (S c)
             else poll1 f states T term tr (S c)
         end.
  Proof. destruct fuel; reflexivity. Qed.

  (* shape: a return always carries the state shown at the tick of the return *)
  Lemma poll1_shape fuel states T term (tr : traj) : forall c,
    poll1 fuel states T term tr c = Spins \/
    exists t, c <= t /\ poll1 fuel states T term tr c = Returned (VOne (at_ tr t)) t.
  Proof.
    induction fuel as [|f IH]; intro c; rewrite poll1_eq.
    - destruct (mem (at_ tr c) states); [right; exists c; auto|].
      destruct (is_final (at_ tr c)); [right; exists c; auto|]. left; reflexivity.
    - destruct (mem (at_ tr c) states); [right; exists c; auto|].
      destruct (is_final (at_ tr c)); [right; exists c; auto|].
      destruct (timed_out T (S c)); [right; exists (S c); auto|].
      destruct (term_set term (S c)); [right; exists (S c); auto|].
      destruct (IH (S c)) as [H | [t [Ht H]]]; [left; exact H|].
      right. exists t. split; [lia | exact H].
  Qed.

  (* reached-or-final at tick k  ==>  returned by tick k *)
  Lemma poll1_returns_by fuel states T term (tr : traj) k : forall c,
    c <= k -> k - c <= fuel ->
    mem (at_ tr k) states || is_final (at_ tr k) = true ->
    exists t, c <= t <= k /\ poll1 fuel states T term tr c = Returned (VOne (at_ tr t)) t.
  Proof.
    induction fuel as [|f IH]; intros c Hck Hf Hsat; rewrite poll1_eq.
    - assert (c = k) by lia. subst c.
      apply orb_true_iff in Hsat as [H | H]; rewrite H.
      + exists k. split; [lia | reflexivity].
      + destruct (mem (at_ tr k) states); exists k; (split; [lia | reflexivity]).
    - destruct (mem (at_ tr c) states) eqn:Hm; [exists c; split; [lia | reflexivity]|].
      destruct (is_final (at_ tr c)) eqn:Hfi; [exists c; split; [lia | reflexivity]|].
      assert (Hne : c <> k).
      { intro; subst c. rewrite Hm, Hfi in Hsat. discriminate. }
      destruct (timed_out T (S c)); [exists (S c); split; [lia | reflexivity]|].
      destruct (term_set term (S c)); [exists (S c); split; [lia | reflexivity]|].
      destruct (IH (S c)) as [t [Ht H]]; [lia | lia | exact Hsat |].
      exists t. split; [lia | exact H].
  Qed.

  (* the timeout test in terms of the deadline: the first tick at which it holds *)
  Lemma timed_out_deadline T d c : deadline T = Some d -> timed_out T c = (d <=? c).
  Proof.
    destruct T as [| |[|n]]; simpl; try discriminate; intro H; injection H as <-; reflexivity.
  Qed.
  Lemma timed_out_no_deadline T c : deadline T = None -> timed_out T c = false.
  Proof. destruct T as [| |[|n]]; simpl; try discriminate; reflexivity. Qed.

  (* a deadline d (d = T for a timeout of T > 0 ticks, d = 0 for a negative
     timeout) ==> returned by tick max d 1: Task.wait / Pilot.wait test the
     timeout only after the first sleep *)
  Lemma poll1_timeout fuel states T term (tr : traj) d : deadline T = Some d -> forall c,
    c < Nat.max d 1 -> Nat.max d 1 - c <= fuel ->
    exists t, c <= t <= Nat.max d 1 /\
      poll1 fuel states T term tr c = Returned (VOne (at_ tr t)) t.
  Proof.
    intro HD. induction fuel as [|f IH]; intros c Hc Hf; [lia|]. rewrite poll1_eq.
    destruct (mem (at_ tr c) states); [exists c; split; [lia | reflexivity]|].
    destruct (is_final (at_ tr c)); [exists c; split; [lia | reflexivity]|].
    destruct (timed_out T (S c)) eqn:Hto; [exists (S c); split; [lia | reflexivity]|].
    destruct (term_set term (S c)); [exists (S c); split; [lia | reflexivity]|].
    assert (S c < Nat.max d 1).
    { rewrite (timed_out_deadline _ _ _ HD) in Hto. apply Nat.leb_gt in Hto. lia. }
    destruct (IH (S c)) as [t [Ht H']]; [lia | lia |].
    exists t. split; [lia | exact H'].
  Qed.

  (* a return has a reason *)
  Lemma poll1_justified fuel states T term (tr : traj) : forall c v t,
    poll1 fuel states T term tr c = Returned v t ->
    timed_out T t = true \/ term_set term t = true \/
    mem (at_ tr t) states || is_final (at_ tr t) = true.
  Proof.
    induction fuel as [|f IH]; intros c v t; rewrite poll1_eq.
    - destruct (mem (at_ tr c) states) eqn:Hm.
      { intro H; injection H as _ <-. right; right. rewrite Hm. reflexivity. }
      destruct (is_final (at_ tr c)) eqn:Hfi.
      { intro H; injection H as _ <-. right; right. rewrite Hfi. apply orb_true_r. }
      discriminate.
    - destruct (mem (at_ tr c) states) eqn:Hm.
      { intro H; injection H as _ <-. right; right. rewrite Hm. reflexivity. }
      destruct (is_final (at_ tr c)) eqn:Hfi.
      { intro H; injection H as _ <-. right; right. rewrite Hfi. apply orb_true_r. }
      destruct (timed_out T (S c)) eqn:Hto.
      { intro H; injection H as _ <-. left; exact Hto. }
      destruct (term_set term (S c)) eqn:Hte.
      { intro H; injection H as _ <-. right; left; exact Hte. }
      apply IH.
  Qed.

  (* ------------------------------------------------ Task.wait / Pilot.wait *)
  Lemma entity_shape r T term fuel (tr : traj) :
    entity_wait r T term fuel tr = Spins \/
    exists t, entity_wait r T term fuel tr = Returned (VOne (at_ tr t)) t.
  Proof.
    unfold Model.entity_wait. destruct (is_final (at_ tr 0)).
    - right. exists 0. destruct (mem (at_ tr 0) (norm final r)); reflexivity.
    - destruct (poll1_shape fuel (norm final r) T term tr 0) as [H | [t [_ H]]];
        [left; exact H | right; exists t; exact H].
  Qed.

  Lemma entity_returns_by r T term fuel (tr : traj) k :
    k <= fuel ->
    mem (at_ tr k) (norm final r) || is_final (at_ tr k) = true ->
    exists t, t <= k /\ entity_wait r T term fuel tr = Returned (VOne (at_ tr t)) t.
  Proof.
    intros Hf Hsat. unfold Model.entity_wait. destruct (is_final (at_ tr 0)).
    - exists 0. split; [lia|]. destruct (mem (at_ tr 0) (norm final r)); reflexivity.
    - destruct (poll1_returns_by fuel (norm final r) T term tr k 0) as [t [Ht H]];
        [lia | lia | exact Hsat |]. exists t. split; [lia | exact H].
  Qed.

  Lemma entity_timeout r T term fuel (tr : traj) d :
    deadline T = Some d -> Nat.max d 1 <= fuel ->
    exists t, t <= Nat.max d 1 /\
      entity_wait r T term fuel tr = Returned (VOne (at_ tr t)) t.
  Proof.
    intros HD Hf. unfold Model.entity_wait. destruct (is_final (at_ tr 0)).
    - exists 0. split; [lia|]. destruct (mem (at_ tr 0) (norm final r)); reflexivity.
    - destruct (poll1_timeout fuel (norm final r) T term tr d HD 0) as [t [Ht H]];
        [lia | lia |]. exists t. split; [lia | exact H].
  Qed.

  Lemma entity_justified r T term fuel (tr : traj) v t :
    entity_wait r T term fuel tr = Returned v t ->
    timed_out T t = true \/ term_set term t = true \/
    mem (at_ tr t) (norm final r) || is_final (at_ tr t) = true.
  Proof.
    unfold Model.entity_wait. destruct (is_final (at_ tr 0)) eqn:Hfi.
    - destruct (mem (at_ tr 0) (norm final r)); intro H; injection H as _ <-;
        right; right; rewrite Hfi; apply orb_true_r.
    - apply poll1_justified.
  Qed.

  (* ------------------------------------------------ oracle plumbing *)
  Notation sat1 := (fun (states : list state) (tr : traj) (j : nat) =>
                      mem (at_ tr j) states || is_final (at_ tr j)).

  Lemma shown_by_spec p0 states (tr : traj) k :
    shown_by seqb final p0 states tr k = true <->
    exists j, p0 <= j <= k /\ sat1 states tr j = true.
  Proof.
    unfold shown_by. rewrite existsb_exists. split.
    - intros [j [Hj H]]. apply in_seq in Hj. exists j. split; [lia | exact H].
    - intros [j [Hj H]]. exists j. split; [apply in_seq; lia | exact H].
  Qed.

  Lemma ok_timely_intro p0 (lib : bool) states (aw : list traj) o :
    (forall k, k <= horizon aw ->
       sat seqb final states aw k = true -> sat seqb final states aw (S k) = true ->
       ret_by o (S k) = true) ->
    (forall k, k <= S (horizon aw) ->
       (forall tr, In tr aw -> exists j, p0 <= j <= k /\ sat1 states tr j = true) ->
       ret_by o (S k) = true) ->
    (lib = true -> forall k, k <= S (horizon aw) ->
       (forall tr, In tr aw -> exists j, p0 <= j <= k /\
          passed seqb final value states (at_ tr j) = true) ->
       ret_by o (S k) = true) ->
    ok_timely seqb final value p0 lib states aw o = true.
  Proof.
    intros H G L. unfold ok_timely. apply andb_true_iff. split; [apply andb_true_iff; split|].
    3: { destruct lib; [|reflexivity]. unfold ok_timely_reached. apply forallb_forall.
         intros k Hk. apply in_seq in Hk.
         destruct (forallb (fun tr => passed_by seqb final value p0 states tr k) aw) eqn:E; [|reflexivity].
         simpl. apply (L eq_refl); [lia|]. intros tr Htr.
         rewrite forallb_forall in E. specialize (E tr Htr). unfold passed_by in E.
         apply existsb_exists in E as [j [Hj E]]. apply in_seq in Hj. exists j. split; [lia | exact E]. }
    - unfold ok_timely_all. apply forallb_forall. intros k Hk. apply in_seq in Hk.
      destruct (sat seqb final states aw k) eqn:H1; [|reflexivity].
      destruct (sat seqb final states aw (S k)) eqn:H2; [|reflexivity].
      simpl. apply H; [lia | exact H1 | exact H2].
    - unfold ok_timely_each. apply forallb_forall. intros k Hk. apply in_seq in Hk.
      destruct (forallb (fun tr => shown_by seqb final p0 states tr k) aw) eqn:E; [|reflexivity].
      simpl. apply G; [lia|]. intros tr Htr. apply shown_by_spec.
      rewrite forallb_forall in E. apply E; exact Htr.
  Qed.

  Lemma reached_intro states (tr : traj) t j :
    j <= t -> mem (at_ tr j) states || is_final (at_ tr j) = true ->
    reached seqb final value states tr t = true.
  Proof.
    intros Hj H. unfold reached. apply existsb_exists. exists j. split.
    - apply in_seq. lia.
    - cbv zeta. rewrite H. reflexivity.
  Qed.

  Theorem entity_clauses r T term fuel (tr : traj) :
    horizon [tr] + 2 <= fuel ->
    (forall d, deadline T = Some d -> d + 2 <= fuel) ->
    clauses seqb final value 0 false false (norm final r) T term (Some [tr])
            (entity_wait r T term fuel tr) = [true; true; true; true; true].
  Proof.
    intros Hfuel HT. unfold clauses.
    assert (E1 : ok_truthful seqb false [tr] (entity_wait r T term fuel tr) = true).
    { destruct (entity_shape r T term fuel tr) as [H | [t H]]; rewrite H; [reflexivity|].
      simpl. apply seqb_refl. }
    assert (E2 : ok_timely seqb final value 0 false (norm final r) [tr] (entity_wait r T term fuel tr) = true).
    { apply ok_timely_intro.
      - intros k Hk Hs _. unfold sat in Hs. simpl in Hs. rewrite andb_true_r in Hs.
        destruct (entity_returns_by r T term fuel tr k) as [t [Ht H]]; [lia | exact Hs |].
        rewrite H. simpl. apply Nat.leb_le. lia.
      - intros k Hk Hall. destruct (Hall tr (or_introl eq_refl)) as [j [Hj Hs]].
        destruct (entity_returns_by r T term fuel tr j) as [t [Ht H]]; [simpl in *; lia | exact Hs |].
        rewrite H. simpl. apply Nat.leb_le. lia.
      - discriminate. }
    assert (E3 : ok_timeout T (entity_wait r T term fuel tr) = true).
    { unfold ok_timeout. destruct (deadline T) as [d|] eqn:HD; [|reflexivity].
      destruct (entity_timeout r T term fuel tr d HD) as [t [Ht H]].
      { specialize (HT _ eq_refl). lia. }
      rewrite H. simpl. apply Nat.leb_le. lia. }
    assert (E4 : ok_justified seqb final value (norm final r) T term [tr]
                   (entity_wait r T term fuel tr) = true).
    { unfold ok_justified. destruct (entity_wait r T term fuel tr) as [v t| |] eqn:H; try reflexivity.
      destruct (entity_justified _ _ _ _ _ _ _ H) as [H1 | [H1 | H1]].
      - rewrite H1. reflexivity.
      - rewrite H1. rewrite orb_true_r. reflexivity.
      - simpl. rewrite (reached_intro _ tr t t (le_n t) H1). simpl. apply orb_true_r. }
    assert (E5 : ok_no_exception true (entity_wait r T term fuel tr) = true).
    { destruct (entity_shape r T term fuel tr) as [H | [t H]]; rewrite H; reflexivity. }
    rewrite E1, E2, E3, E4, E5. reflexivity.
  Qed.

  (* ------------------------------------------------ wait_tasks loop *)
  Lemma wt_loop_eq fuel v T term (chk : list traj) c :
    wt_loop fuel v T term chk c =
    match chk with
    | [] => Some c
    | _ :: _ =>
        if term_set term c then Some c
        else if timed_out T c then Some c
        else match fuel with
             | O => None
             | S f => wt_loop f v T term (filter (wt_keep v (S c)) chk) (S c)
             end
    end.
  Proof. destruct fuel; reflexivity. Qed.

  Lemma filter_nil_of_all_false {A} (f : A -> bool) l :
    (forall x, In x l -> f x = false) -> filter f l = [].
  Proof.
    induction l as [|x l IH]; intro H; [reflexivity|]. simpl.
    rewrite (H x (or_introl eq_refl)). apply IH. intros y Hy. apply H. right; exact Hy.
  Qed.

  (* no watched task is kept at poll k > c  ==>  the loop is left by tick k *)
  Lemma wt_exit_by fuel v T term k : forall (chk : list traj) c,
    c < k -> k - c <= fuel ->
    (forall tr, In tr chk -> wt_keep v k tr = false) ->
    exists t, c <= t <= k /\ wt_loop fuel v T term chk c = Some t.
  Proof.
    induction fuel as [|f IH]; intros chk c Hck Hf Hall; [lia|]. rewrite wt_loop_eq.
    destruct chk as [|x chk0] eqn:Echk; [exists c; split; [lia | reflexivity]|]. rewrite <- Echk in *.
    destruct (term_set term c); [exists c; split; [lia | reflexivity]|].
    destruct (timed_out T c); [exists c; split; [lia | reflexivity]|].
    destruct (Nat.eq_dec (S c) k) as [E | NE].
    - subst k. rewrite (filter_nil_of_all_false _ _ Hall). rewrite wt_loop_eq.
      exists (S c). split; [lia | reflexivity].
    - destruct (IH (filter (wt_keep v (S c)) chk) (S c)) as [t [Ht H]]; [lia | lia | |].
      + intros tr Htr. apply filter_In in Htr as [Htr _]. apply Hall; exact Htr.
      + exists t. split; [lia | exact H].
  Qed.

  (* wait_tasks tests the timeout BEFORE the first sleep: left by tick d (at
     once for a negative timeout) *)
  Lemma wt_timeout fuel v T term d : deadline T = Some d -> forall (chk : list traj) c,
    c <= d -> d - c <= fuel ->
    exists t, c <= t <= d /\ wt_loop fuel v T term chk c = Some t.
  Proof.
    intro HD. induction fuel as [|f IH]; intros chk c Hc Hf; rewrite wt_loop_eq.
    - destruct chk; [exists c; split; [lia | reflexivity]|].
      destruct (term_set term c); [exists c; split; [lia | reflexivity]|].
      assert (c = d) by lia. subst c. rewrite (timed_out_deadline _ _ _ HD), Nat.leb_refl.
      exists d. split; [lia | reflexivity].
    - destruct chk as [|x chk0] eqn:Echk; [exists c; split; [lia | reflexivity]|]. rewrite <- Echk.
      destruct (term_set term c); [exists c; split; [lia | reflexivity]|].
      destruct (timed_out T c) eqn:Hto; [exists c; split; [lia | reflexivity]|].
      assert (c < d).
      { rewrite (timed_out_deadline _ _ _ HD) in Hto. apply Nat.leb_gt in Hto. lia. }
      destruct (IH (filter (wt_keep v (S c)) chk) (S c)) as [t [Ht H']]; [lia | lia |].
      exists t. split; [lia | exact H'].
  Qed.

  Lemma wt_justified fuel v T term : forall (chk : list traj) c t,
    wt_loop fuel v T term chk c = Some t ->
    c <= t /\
    (term_set term t = true \/ timed_out T t = true \/
     forall tr, In tr chk -> exists j, j <= t /\ wt_keep v j tr = false).
  Proof.
    induction fuel as [|f IH]; intros chk c t; rewrite wt_loop_eq.
    - destruct chk as [|x chk0].
      { intro H; injection H as <-. split; [lia|]. right; right. intros tr []. }
      destruct (term_set term c) eqn:Hte.
      { intro H; injection H as <-. split; [lia|]. left; exact Hte. }
      destruct (timed_out T c) eqn:Hto.
      { intro H; injection H as <-. split; [lia|]. right; left; exact Hto. }
      discriminate.
    - destruct chk as [|x chk0] eqn:Echk.
      { intro H; injection H as <-. split; [lia|]. right; right. intros tr []. }
      rewrite <- Echk.
      destruct (term_set term c) eqn:Hte.
      { intro H; injection H as <-. split; [lia|]. left; exact Hte. }
      destruct (timed_out T c) eqn:Hto.
      { intro H; injection H as <-. split; [lia|]. right; left; exact Hto. }
      intro H. apply IH in H as [Hle [H | [H | H]]]; (split; [lia|]); auto.
      right; right. intros tr Htr.
      destruct (wt_keep v (S c) tr) eqn:Hk.
      + apply H. apply filter_In. split; assumption.
      + exists (S c). split; [lia | exact Hk].
  Qed.

  (* the check value is at most the value of every requested state ... *)
  Lemma fold_min_le (l : list state) : forall a q,
    In q l -> (fold_left (fun acc s => Z.min acc (value s)) l a <= value q)%Z.
  Proof.
    induction l as [|x l IH]; intros a q []; simpl.
    - subst x. clear IH. generalize (Z.min a (value q)) (Z.le_min_r a (value q)).
      induction l as [|y l IH]; intros m Hm; simpl; [exact Hm|].
      apply IH. lia.
    - apply IH. assumption.
  Qed.

  (* ... and is the value of a requested state or of the last final state *)
  Lemma fold_min_cases (l : list state) : forall a,
    fold_left (fun acc s => Z.min acc (value s)) l a = a \/
    exists q, In q l /\ fold_left (fun acc s => Z.min acc (value s)) l a = value q.
  Proof.
    induction l as [|x l IH]; intro a; simpl; [left; reflexivity|].
    destruct (IH (Z.min a (value x))) as [H | [q [Hq H]]].
    - rewrite H. destruct (Z.min_spec a (value x)) as [[_ E] | [_ E]]; rewrite E.
      + left; reflexivity.
      + right. exists x. split; [left; reflexivity | reflexivity].
    - right. exists q. split; [right; exact Hq | exact H].
  Qed.

  Lemma wt_keep_false_of_sat states v (tr : traj) k :
    check_val final value states = Some v ->
    mem (at_ tr k) states || is_final (at_ tr k) = true ->
    wt_keep v k tr = false.
  Proof.
    unfold check_val, Model.wt_keep. intros Hv Hs. destruct (rev final) as [|f fs]; [discriminate|].
    injection Hv as <-.
    destruct (is_final (at_ tr k)) eqn:Hfi; [reflexivity|]. simpl.
    rewrite orb_false_r in Hs. apply mem_In in Hs.
    apply Z.ltb_ge. apply fold_min_le. exact Hs.
  Qed.

  (* a task that has reached (passed) a requested state is dropped from the watch list *)
  Lemma wt_keep_false_of_passed states v (tr : traj) k :
    check_val final value states = Some v ->
    passed seqb final value states (at_ tr k) = true ->
    wt_keep v k tr = false.
  Proof.
    intros Hv Hp. unfold passed in Hp.
    apply orb_true_iff in Hp as [Hp | Hp].
    - apply (wt_keep_false_of_sat _ _ _ _ Hv). rewrite orb_comm. exact Hp.
    - apply existsb_exists in Hp as [q [Hq Hle]]. apply Z.leb_le in Hle.
      unfold check_val in Hv. unfold Model.wt_keep.
      destruct (rev final) as [|f fs]; [discriminate|]. injection Hv as <-.
      destruct (is_final (at_ tr k)); [reflexivity|]. simpl.
      apply Z.ltb_ge. pose proof (fold_min_le states (value f) q Hq). lia.
  Qed.

  Lemma reached_of_wt_keep_false states v (tr : traj) j t :
    check_val final value states = Some v -> j <= t ->
    wt_keep v j tr = false -> reached seqb final value states tr t = true.
  Proof.
    unfold check_val, Model.wt_keep. intros Hv Hj Hk.
    destruct (rev final) as [|f fs] eqn:Hrev; [discriminate|]. injection Hv as <-.
    unfold reached. apply existsb_exists. exists j. split; [apply in_seq; lia|]. cbv zeta.
    destruct (is_final (at_ tr j)) eqn:Hfi; [rewrite orb_true_r; reflexivity|].
    simpl in Hk. apply Z.ltb_ge in Hk.
    destruct (fold_min_cases states (value f)) as [E | [q [Hq E]]]; rewrite E in Hk.
    - assert (Hin : In f final).
      { apply in_rev. rewrite Hrev. left; reflexivity. }
      rewrite (final_top f _ Hin Hk) in Hfi. discriminate.
    - rewrite orb_false_r. apply orb_true_iff. right. apply existsb_exists.
      exists q. split; [exact Hq | apply Z.leb_le; exact Hk].
  Qed.

  (* ------------------------------------------------ wait_pilots loop *)
  Lemma wp_loop_eq fuel states T term (chk : list traj) c :
    wp_loop fuel states T term chk c =
    match chk with
    | [] => Some c
    | _ :: _ =>
        if term_set term c then Some c
        else
          let chk' := filter (wp_keep states c) chk in
          if (match chk' with [] => false | _ :: _ => timed_out T c end) then Some c
          else match fuel with
               | O => None
               | S f => wp_loop f states T term chk' (S c)
               end
    end.
  Proof. destruct fuel; reflexivity. Qed.

  Lemma wp_exit_by fuel states T term k : forall (chk : list traj) c,
    c <= k -> S k - c <= fuel ->
    (forall tr, In tr chk -> wp_keep states k tr = false) ->
    exists t, c <= t <= S k /\ wp_loop fuel states T term chk c = Some t.
  Proof.
    induction fuel as [|f IH]; intros chk c Hck Hf Hall; [lia|]. rewrite wp_loop_eq.
    destruct chk as [|x chk0] eqn:Echk; [exists c; split; [lia | reflexivity]|]. rewrite <- Echk in *.
    destruct (term_set term c); [exists c; split; [lia | reflexivity]|]. cbv zeta.
    destruct (Nat.eq_dec c k) as [E | NE].
    - subst k. rewrite (filter_nil_of_all_false _ _ Hall). rewrite wp_loop_eq.
      exists (S c). split; [lia | reflexivity].
    - destruct (match filter (wp_keep states c) chk with [] => false | _ :: _ => timed_out T c end);
        [exists c; split; [lia | reflexivity]|].
      destruct (IH (filter (wp_keep states c) chk) (S c)) as [t [Ht H]]; [lia | lia | |].
      + intros tr Htr. apply filter_In in Htr as [Htr _]. apply Hall; exact Htr.
      + exists t. split; [lia | exact H].
  Qed.

  (* wait_pilots tests the timeout at every poll, also the first, but only
     while pilots are pending; otherwise it sleeps once more: left by tick d+1 *)
  Lemma wp_timeout fuel states T term d : deadline T = Some d -> forall (chk : list traj) c,
    c <= d -> S d - c <= fuel ->
    exists t, c <= t <= S d /\ wp_loop fuel states T term chk c = Some t.
  Proof.
    intro HD. induction fuel as [|f IH]; intros chk c Hc Hf; [lia|]. rewrite wp_loop_eq.
    destruct chk as [|x chk0] eqn:Echk; [exists c; split; [lia | reflexivity]|]. rewrite <- Echk.
    destruct (term_set term c); [exists c; split; [lia | reflexivity]|]. cbv zeta.
    destruct (filter (wp_keep states c) chk) as [|y l] eqn:Ef.
    - rewrite wp_loop_eq. exists (S c). split; [lia | reflexivity].
    - destruct (timed_out T c) eqn:Hto; [exists c; split; [lia | reflexivity]|].
      assert (c < d).
      { rewrite (timed_out_deadline _ _ _ HD) in Hto. apply Nat.leb_gt in Hto. lia. }
      destruct (IH (y :: l) (S c)) as [t [Ht H']]; [lia | lia |].
      exists t. split; [lia | exact H'].
  Qed.

  Lemma wp_justified fuel states T term : forall (chk : list traj) c t,
    wp_loop fuel states T term chk c = Some t ->
    c <= t /\
    (term_set term t = true \/ timed_out T t = true \/
     forall tr, In tr chk -> exists j, j <= t /\ wp_keep states j tr = false).
  Proof.
    induction fuel as [|f IH]; intros chk c t; rewrite wp_loop_eq.
    - destruct chk as [|x chk0] eqn:Echk.
      { intro H; injection H as <-. split; [lia|]. right; right. intros tr []. }
      rewrite <- Echk.
      destruct (term_set term c) eqn:Hte.
      { intro H; injection H as <-. split; [lia|]. left; exact Hte. }
      cbv zeta. destruct (filter (wp_keep states c) chk); [discriminate|].
      destruct (timed_out T c) eqn:Hto; [|discriminate].
      intro H; injection H as <-. split; [lia|]. right; left; exact Hto.
    - destruct chk as [|x chk0] eqn:Echk.
      { intro H; injection H as <-. split; [lia|]. right; right. intros tr []. }
      rewrite <- Echk.
      destruct (term_set term c) eqn:Hte.
      { intro H; injection H as <-. split; [lia|]. left; exact Hte. }
      cbv zeta.
      destruct (match filter (wp_keep states c) chk with [] => false | _ :: _ => timed_out T c end) eqn:Hb.
      { intro H; injection H as <-. split; [lia|]. right; left.
        destruct (filter (wp_keep states c) chk); [discriminate | exact Hb]. }
      intro H. apply IH in H as [Hle [H | [H | H]]]; (split; [lia|]); auto.
      right; right. intros tr Htr.
      destruct (wp_keep states c tr) eqn:Hk.
      + apply H. apply filter_In. split; assumption.
      + exists c. split; [lia | exact Hk].
  Qed.

  Lemma wp_keep_false_iff states (tr : traj) k :
    wp_keep states k tr = false <-> mem (at_ tr k) states || is_final (at_ tr k) = true.
  Proof.
    unfold Model.wp_keep. destruct (mem (at_ tr k) states), (is_final (at_ tr k)); simpl; intuition congruence.
  Qed.

  (* ------------------------------------------------ per-entity exit lemmas *)
  (* every watched task is dropped at SOME poll j, c < j <= k (not necessarily
     the same one)  ==>  the loop is left by tick k *)
  Lemma wt_exit_each fuel v T term k : forall (chk : list traj) c,
    c < k -> k - c <= fuel ->
    (forall tr, In tr chk -> exists j, c < j <= k /\ wt_keep v j tr = false) ->
    exists t, c <= t <= k /\ wt_loop fuel v T term chk c = Some t.
  Proof.
    induction fuel as [|f IH]; intros chk c Hck Hf Hall; [lia|]. rewrite wt_loop_eq.
    destruct chk as [|x chk0] eqn:Echk; [exists c; split; [lia | reflexivity]|]. rewrite <- Echk in *.
    destruct (term_set term c); [exists c; split; [lia | reflexivity]|].
    destruct (timed_out T c); [exists c; split; [lia | reflexivity]|].
    destruct (Nat.eq_dec (S c) k) as [E | NE].
    - subst k. rewrite (filter_nil_of_all_false (wt_keep v (S c)) chk).
      + rewrite wt_loop_eq. exists (S c). split; [lia | reflexivity].
      + intros tr Htr. destruct (Hall tr Htr) as [j [Hj Hk]].
        assert (j = S c) by lia. subst j. exact Hk.
    - destruct (IH (filter (wt_keep v (S c)) chk) (S c)) as [t [Ht H]]; [lia | lia | |].
      + intros tr Htr. apply filter_In in Htr as [Htr Hkeep].
        destruct (Hall tr Htr) as [j [Hj Hk]]. exists j. split; [|exact Hk].
        assert (j <> S c) by (intro; subst j; rewrite Hkeep in Hk; discriminate). lia.
      + exists t. split; [lia | exact H].
  Qed.

  (* every watched pilot is dropped at SOME poll j, c <= j <= k  ==>  the loop
     is left by tick k+1 *)
  Lemma wp_exit_each fuel states T term k : forall (chk : list traj) c,
    c <= k -> S k - c <= fuel ->
    (forall tr, In tr chk -> exists j, c <= j <= k /\ wp_keep states j tr = false) ->
    exists t, c <= t <= S k /\ wp_loop fuel states T term chk c = Some t.
  Proof.
    induction fuel as [|f IH]; intros chk c Hck Hf Hall; [lia|]. rewrite wp_loop_eq.
    destruct chk as [|x chk0] eqn:Echk; [exists c; split; [lia | reflexivity]|]. rewrite <- Echk in *.
    destruct (term_set term c); [exists c; split; [lia | reflexivity]|]. cbv zeta.
    destruct (Nat.eq_dec c k) as [E | NE].
    - subst k. rewrite (filter_nil_of_all_false (wp_keep states c) chk).
      + rewrite wp_loop_eq. exists (S c). split; [lia | reflexivity].
      + intros tr Htr. destruct (Hall tr Htr) as [j [Hj Hk]].
        assert (j = c) by lia. subst j. exact Hk.
    - destruct (match filter (wp_keep states c) chk with [] => false | _ :: _ => timed_out T c end);
        [exists c; split; [lia | reflexivity]|].
      destruct (IH (filter (wp_keep states c) chk) (S c)) as [t [Ht H]]; [lia | lia | |].
      + intros tr Htr. apply filter_In in Htr as [Htr Hkeep].
        destruct (Hall tr Htr) as [j [Hj Hk]]. exists j. split; [|exact Hk].
        assert (j <> c) by (intro; subst j; rewrite Hkeep in Hk; discriminate). lia.
      + exists t. split; [lia | exact H].
  Qed.

  (* ------------------------------------------------ manager-level calls *)
  Hypothesis final_ne : final <> [].

  Lemma check_val_some states : exists v, check_val final value states = Some v.
  Proof.
    unfold check_val. destruct (rev final) as [|f fs] eqn:E; [|eexists; reflexivity].
    exfalso. apply final_ne. rewrite <- (rev_involutive final), E. reflexivity.
  Qed.

  Lemma eqb_list_refl (l : list state) : eqb_list seqb l l = true.
  Proof. induction l as [|x l IH]; simpl; [reflexivity|]. rewrite seqb_refl, IH. reflexivity. Qed.

  Lemma find_all_one (tab : table) x (aw : list traj) :
    find_all tab [x] = Some aw -> exists tr, aw = [tr].
  Proof.
    simpl. destruct (find x tab) as [tr|]; [|discriminate]. intro H; injection H as <-.
    exists tr; reflexivity.
  Qed.

  Lemma sat_forall states (aw : list traj) k :
    sat seqb final states aw k = true ->
    forall tr, In tr aw -> mem (at_ tr k) states || is_final (at_ tr k) = true.
  Proof. unfold sat. rewrite forallb_forall. auto. Qed.

  (* the common part: from facts about the loop to the oracle clauses *)
  Lemma manager_clauses (p0 : nat) (lib lst : bool) states T term (aw : list traj) (lr : option nat) :
    (lst = false -> exists tr, aw = [tr]) ->
    (forall k, k <= horizon aw ->
       sat seqb final states aw k = true -> sat seqb final states aw (S k) = true ->
       exists t, t <= S k /\ lr = Some t) ->
    (forall k, k <= S (horizon aw) ->
       (forall tr, In tr aw -> exists j, p0 <= j <= k /\ sat1 states tr j = true) ->
       exists t, t <= S k /\ lr = Some t) ->
    (lib = true -> forall k, k <= S (horizon aw) ->
       (forall tr, In tr aw -> exists j, p0 <= j <= k /\
          passed seqb final value states (at_ tr j) = true) ->
       exists t, t <= S k /\ lr = Some t) ->
    (forall d, deadline T = Some d -> exists t, t <= S d /\ lr = Some t) ->
    (forall t, lr = Some t ->
       term_set term t = true \/ timed_out T t = true \/
       forall tr, In tr aw -> reached seqb final value states tr t = true) ->
    clauses seqb final value p0 lib lst states T term (Some aw)
      (match lr with None => Spins | Some c => ret_states lst (states_at c aw) c end)
    = [true; true; true; true; true].
  Proof.
    intros Hone F1 F1b F1c F2 F3.
    assert (Hret : forall c, exists v,
               ret_states lst (states_at c aw) c = Returned v c /\
               ok_truthful seqb lst aw (Returned v c) = true).
    { intro c. unfold ret_states. destruct lst.
      - eexists; split; [reflexivity|]. simpl. apply eqb_list_refl.
      - destruct (Hone eq_refl) as [tr ->]. simpl. eexists; split; [reflexivity|].
        simpl. apply seqb_refl. }
    unfold clauses.
    destruct lr as [c|].
    - destruct (Hret c) as [v [Hv Htr]]. rewrite Hv, Htr.
      assert (E2 : ok_timely seqb final value p0 lib states aw (Returned v c) = true).
      { apply ok_timely_intro.
        - intros k Hk H1 H2.
          destruct (F1 k Hk H1 H2) as [t [Ht E]]. injection E as <-. simpl. apply Nat.leb_le. exact Ht.
        - intros k Hk Hall.
          destruct (F1b k Hk Hall) as [t [Ht E]]. injection E as <-. simpl. apply Nat.leb_le. exact Ht.
        - intros Hl k Hk Hall.
          destruct (F1c Hl k Hk Hall) as [t [Ht E]]. injection E as <-. simpl. apply Nat.leb_le. exact Ht. }
      assert (E3 : ok_timeout T (Returned v c) = true).
      { unfold ok_timeout. destruct (deadline T) as [d|] eqn:HD; [|reflexivity].
        destruct (F2 d eq_refl) as [t [Ht E]]. injection E as <-. simpl ret_by.
        apply Nat.leb_le. exact Ht. }
      assert (E4 : ok_justified seqb final value states T term aw (Returned v c) = true).
      { unfold ok_justified. destruct (F3 c eq_refl) as [H | [H | H]].
        - rewrite H. rewrite orb_true_r. reflexivity.
        - rewrite H. reflexivity.
        - apply orb_true_iff. right. apply forallb_forall. exact H. }
      rewrite E2, E3, E4. reflexivity.
    - assert (E2 : ok_timely seqb final value p0 lib states aw Spins = true).
      { apply ok_timely_intro.
        - intros k Hk H1 H2. destruct (F1 k Hk H1 H2) as [t [_ E]]. discriminate.
        - intros k Hk Hall. destruct (F1b k Hk Hall) as [t [_ E]]. discriminate.
        - intros Hl k Hk Hall. destruct (F1c Hl k Hk Hall) as [t [_ E]]. discriminate. }
      assert (E3 : ok_timeout T (@Spins state) = true).
      { unfold ok_timeout. destruct (deadline T) as [d|] eqn:HD; [|reflexivity].
        destruct (F2 d eq_refl) as [t [_ E]]. discriminate. }
      rewrite E2, E3. reflexivity.
  Qed.

  Lemma sel_tasks_fst (tab : table) u : fst (sel_tasks tab u) = as_list u.
  Proof. destruct u as [|x|[|y l]]; reflexivity. Qed.
  Lemma sel_pilots_fst (tab : table) u : fst (sel_pilots seqb final tab u) = as_list u.
  Proof. destruct u as [|x|[|y l]]; reflexivity. Qed.

  Lemma awaited_one_tasks (tab : table) u (aw : list traj) :
    awaited_tasks tab u = Some aw -> as_list u = false -> exists tr, aw = [tr].
  Proof.
    unfold awaited_tasks. destruct u as [|x|l]; simpl; try discriminate.
    intros H _. exact (find_all_one _ _ _ H).
  Qed.
  Lemma awaited_one_pilots (tab : table) u (aw : list traj) :
    awaited_pilots seqb final tab u = Some aw -> as_list u = false -> exists tr, aw = [tr].
  Proof.
    unfold awaited_pilots. destruct u as [|x|l]; simpl; try discriminate.
    intros H _. exact (find_all_one _ _ _ H).
  Qed.

  Lemma wait_tasks_unfold r T term fuel (tab : table) u (aw : list traj) v :
    awaited_tasks tab u = Some aw -> check_val final value (norm final r) = Some v ->
    wait_tasks seqb final value r T term fuel tab u =
    match wt_loop fuel v T term aw 0 with
    | None => Spins
    | Some c => ret_states (as_list u) (states_at c aw) c
    end.
  Proof.
    unfold awaited_tasks, Model.wait_tasks. intros Ha Hv.
    rewrite <- (sel_tasks_fst tab u).
    destruct (sel_tasks tab u) as [rl uids]. simpl in *. rewrite Hv, Ha. reflexivity.
  Qed.

  Lemma wait_pilots_unfold r T term fuel (tab : table) u (aw : list traj) :
    awaited_pilots seqb final tab u = Some aw ->
    wait_pilots seqb final r T term fuel tab u =
    match wp_loop fuel (norm final r) T term aw 0 with
    | None => Spins
    | Some c => ret_states (as_list u) (states_at c aw) c
    end.
  Proof.
    unfold awaited_pilots, Model.wait_pilots. intros Ha.
    rewrite <- (sel_pilots_fst tab u).
    destruct (sel_pilots seqb final tab u) as [rl uids]. simpl in *. rewrite Ha. reflexivity.
  Qed.

  Theorem wait_tasks_clauses r T term fuel (tab : table) u (aw : list traj) :
    awaited_tasks tab u = Some aw ->
    horizon aw + 2 <= fuel ->
    (forall d, deadline T = Some d -> d + 2 <= fuel) ->
    clauses seqb final value 1 true (as_list u) (norm final r) T term (Some aw)
            (wait_tasks seqb final value r T term fuel tab u) = [true; true; true; true; true].
  Proof.
    intros Ha Hfuel HT. destruct (check_val_some (norm final r)) as [v Hv].
    rewrite (wait_tasks_unfold _ _ _ _ _ _ _ _ Ha Hv).
    apply manager_clauses.
    - apply (awaited_one_tasks _ _ _ Ha).
    - intros k Hk H1 H2.
      destruct k as [|k'].
      + destruct (wt_exit_by fuel v T term 1 aw 0) as [t [Ht E]]; [lia | lia | |].
        * intros tr Htr. apply (wt_keep_false_of_sat _ _ _ _ Hv). apply (sat_forall _ _ _ H2 _ Htr).
        * exists t. split; [lia | exact E].
      + destruct (wt_exit_by fuel v T term (S k') aw 0) as [t [Ht E]]; [lia | lia | |].
        * intros tr Htr. apply (wt_keep_false_of_sat _ _ _ _ Hv). apply (sat_forall _ _ _ H1 _ Htr).
        * exists t. split; [lia | exact E].
    - (* per entity: every awaited task has shown a requested/final state at a poll 1..k *)
      intros k Hk Hall. destruct aw as [|x aw0] eqn:Eaw.
      { exists 0. split; [lia|]. rewrite wt_loop_eq. reflexivity. }
      rewrite <- Eaw in *.
      assert (Hk1 : 1 <= k).
      { destruct (Hall x) as [j [Hj _]]; [rewrite Eaw; left; reflexivity | lia]. }
      destruct (wt_exit_each fuel v T term k aw 0) as [t [Ht E]]; [lia | lia | |].
      + intros tr Htr. destruct (Hall tr Htr) as [j [Hj Hs]]. exists j. split; [lia|].
        apply (wt_keep_false_of_sat _ _ _ _ Hv). exact Hs.
      + exists t. split; [lia | exact E].
    - (* reached: every awaited task shows at a poll 1..k a state that is requested,
         later than a requested one, or final *)
      intros _ k Hk Hall. destruct aw as [|x aw0] eqn:Eaw.
      { exists 0. split; [lia|]. rewrite wt_loop_eq. reflexivity. }
      rewrite <- Eaw in *.
      assert (Hk1 : 1 <= k).
      { destruct (Hall x) as [j [Hj _]]; [rewrite Eaw; left; reflexivity | lia]. }
      destruct (wt_exit_each fuel v T term k aw 0) as [t [Ht E]]; [lia | lia | |].
      + intros tr Htr. destruct (Hall tr Htr) as [j [Hj Hs]]. exists j. split; [lia|].
        apply (wt_keep_false_of_passed _ _ _ _ Hv). exact Hs.
      + exists t. split; [lia | exact E].
    - intros d HD. specialize (HT _ HD).
      destruct (wt_timeout fuel v T term d HD aw 0) as [t [Ht E]]; [lia | lia |].
      exists t. split; [lia | exact E].
    - intros t E. apply wt_justified in E as [_ [E | [E | E]]]; auto.
      right; right. intros tr Htr. destruct (E tr Htr) as [j [Hj Hk]].
      exact (reached_of_wt_keep_false _ _ _ _ _ Hv Hj Hk).
  Qed.

  Theorem wait_pilots_clauses r T term fuel (tab : table) u (aw : list traj) :
    awaited_pilots seqb final tab u = Some aw ->
    horizon aw + 2 <= fuel ->
    (forall d, deadline T = Some d -> d + 2 <= fuel) ->
    clauses seqb final value 0 false (as_list u) (norm final r) T term (Some aw)
            (wait_pilots seqb final r T term fuel tab u) = [true; true; true; true; true].
  Proof.
    intros Ha Hfuel HT. rewrite (wait_pilots_unfold _ _ _ _ _ _ _ Ha).
    apply manager_clauses.
    - apply (awaited_one_pilots _ _ _ Ha).
    - intros k Hk H1 _.
      destruct (wp_exit_by fuel (norm final r) T term k aw 0) as [t [Ht E]]; [lia | lia | |].
      + intros tr Htr. apply wp_keep_false_iff. apply (sat_forall _ _ _ H1 _ Htr).
      + exists t. split; [lia | exact E].
    - (* per entity: every awaited pilot has shown a requested/final state at a poll 0..k *)
      intros k Hk Hall.
      destruct (wp_exit_each fuel (norm final r) T term k aw 0) as [t [Ht E]]; [lia | lia | |].
      + intros tr Htr. destruct (Hall tr Htr) as [j [Hj Hs]]. exists j. split; [lia|].
        apply wp_keep_false_iff. exact Hs.
      + exists t. split; [lia | exact E].
    - discriminate.
    - intros d HD. specialize (HT _ HD).
      destruct (wp_timeout fuel (norm final r) T term d HD aw 0) as [t [Ht E]]; [lia | lia |].
      exists t. split; [lia | exact E].
    - intros t E. apply wp_justified in E as [_ [E | [E | E]]]; auto.
      right; right. intros tr Htr. destruct (E tr Htr) as [j [Hj Hk]].
      apply wp_keep_false_iff in Hk. exact (reached_intro _ _ _ _ Hj Hk).
  Qed.

  (* ------------------------------------------------ readable forms *)
  Lemma ret_states_ok (lst : bool) (aw : list traj) c :
    (lst = false -> exists tr, aw = [tr]) ->
    exists v, ret_states lst (states_at c aw) c = Returned v c /\
              ok_truthful seqb lst aw (Returned v c) = true.
  Proof.
    intro Hone. unfold ret_states. destruct lst.
    - eexists; split; [reflexivity|]. simpl. apply eqb_list_refl.
    - destruct (Hone eq_refl) as [tr ->]. simpl. eexists; split; [reflexivity|].
      simpl. apply seqb_refl.
  Qed.

  (* every awaited task HAS shown a requested or final state at some tick
     1 <= j <= k (each at its own tick; it may have moved on since)
     ==> wait_tasks has returned by tick k, with their actual states *)
  Theorem wait_tasks_returns_by r T term fuel (tab : table) u (aw : list traj) k :
    awaited_tasks tab u = Some aw -> 1 <= k <= fuel ->
    (forall tr, In tr aw -> exists j, 1 <= j <= k /\
        mem (at_ tr j) (norm final r) || is_final (at_ tr j) = true) ->
    exists v t, t <= k /\
      wait_tasks seqb final value r T term fuel tab u = Returned v t /\
      ok_truthful seqb (as_list u) aw (Returned v t) = true.
  Proof.
    intros Ha Hk Hall. destruct (check_val_some (norm final r)) as [cv Hv].
    rewrite (wait_tasks_unfold _ _ _ _ _ _ _ _ Ha Hv).
    destruct (wt_exit_each fuel cv T term k aw 0) as [t [Ht E]]; [lia | lia | |].
    - intros tr Htr. destruct (Hall tr Htr) as [j [Hj Hs]]. exists j. split; [lia|].
      apply (wt_keep_false_of_sat _ _ _ _ Hv). exact Hs.
    - rewrite E. destruct (ret_states_ok (as_list u) aw t (awaited_one_tasks _ _ _ Ha)) as [v [H1 H2]].
      exists v, t. split; [lia|]. split; assumption.
  Qed.

  (* "reached": every awaited task shows at some tick 1 <= j <= k a state that
     is requested, LATER than a requested state, or final (it may have been past
     the awaited state when the call began, or have jumped over it)
     ==> wait_tasks has returned by tick k, with the actual states *)
  Theorem wait_tasks_returns_when_reached r T term fuel (tab : table) u (aw : list traj) k :
    awaited_tasks tab u = Some aw -> 1 <= k <= fuel ->
    (forall tr, In tr aw -> exists j, 1 <= j <= k /\
        passed seqb final value (norm final r) (at_ tr j) = true) ->
    exists v t, t <= k /\
      wait_tasks seqb final value r T term fuel tab u = Returned v t /\
      ok_truthful seqb (as_list u) aw (Returned v t) = true.
  Proof.
    intros Ha Hk Hall. destruct (check_val_some (norm final r)) as [cv Hv].
    rewrite (wait_tasks_unfold _ _ _ _ _ _ _ _ Ha Hv).
    destruct (wt_exit_each fuel cv T term k aw 0) as [t [Ht E]]; [lia | lia | |].
    - intros tr Htr. destruct (Hall tr Htr) as [j [Hj Hs]]. exists j. split; [lia|].
      apply (wt_keep_false_of_passed _ _ _ _ Hv). exact Hs.
    - rewrite E. destruct (ret_states_ok (as_list u) aw t (awaited_one_tasks _ _ _ Ha)) as [v [H1 H2]].
      exists v, t. split; [lia|]. split; assumption.
  Qed.

  (* every awaited pilot HAS shown a requested or final state at some tick
     j <= k (each at its own tick; it may have moved on since)
     ==> wait_pilots has returned by tick k+1, with their actual states *)
  Theorem wait_pilots_returns_by r T term fuel (tab : table) u (aw : list traj) k :
    awaited_pilots seqb final tab u = Some aw -> S k <= fuel ->
    (forall tr, In tr aw -> exists j, j <= k /\
        mem (at_ tr j) (norm final r) || is_final (at_ tr j) = true) ->
    exists v t, t <= S k /\
      wait_pilots seqb final r T term fuel tab u = Returned v t /\
      ok_truthful seqb (as_list u) aw (Returned v t) = true.
  Proof.
    intros Ha Hk Hall. rewrite (wait_pilots_unfold _ _ _ _ _ _ _ Ha).
    destruct (wp_exit_each fuel (norm final r) T term k aw 0) as [t [Ht E]]; [lia | lia | |].
    - intros tr Htr. destruct (Hall tr Htr) as [j [Hj Hs]]. exists j. split; [lia|].
      apply wp_keep_false_iff. exact Hs.
    - rewrite E. destruct (ret_states_ok (as_list u) aw t (awaited_one_pilots _ _ _ Ha)) as [v [H1 H2]].
      exists v, t. split; [lia|]. split; assumption.
  Qed.

  (* timeouts of the manager calls.  wait_tasks tests the timeout before its
     first sleep: with a deadline d (d = T for T > 0 ticks, d = 0 for a negative
     timeout) it has returned by tick d -- at once, without a poll, for a
     negative timeout -- with the tasks' actual states *)
  Theorem wait_tasks_timeout r T term fuel (tab : table) u (aw : list traj) d :
    awaited_tasks tab u = Some aw -> deadline T = Some d -> d <= fuel ->
    exists v t, t <= d /\
      wait_tasks seqb final value r T term fuel tab u = Returned v t /\
      ok_truthful seqb (as_list u) aw (Returned v t) = true.
  Proof.
    intros Ha HD Hf. destruct (check_val_some (norm final r)) as [cv Hv].
    rewrite (wait_tasks_unfold _ _ _ _ _ _ _ _ Ha Hv).
    destruct (wt_timeout fuel cv T term d HD aw 0) as [t [Ht E]]; [lia | lia |].
    rewrite E. destruct (ret_states_ok (as_list u) aw t (awaited_one_tasks _ _ _ Ha)) as [v [H1 H2]].
    exists v, t. split; [lia|]. split; assumption.
  Qed.

  (* wait_pilots: returned by tick d+1 (by tick 1 for a negative timeout) *)
  Theorem wait_pilots_timeout r T term fuel (tab : table) u (aw : list traj) d :
    awaited_pilots seqb final tab u = Some aw -> deadline T = Some d -> S d <= fuel ->
    exists v t, t <= S d /\
      wait_pilots seqb final r T term fuel tab u = Returned v t /\
      ok_truthful seqb (as_list u) aw (Returned v t) = true.
  Proof.
    intros Ha HD Hf. rewrite (wait_pilots_unfold _ _ _ _ _ _ _ Ha).
    destruct (wp_timeout fuel (norm final r) T term d HD aw 0) as [t [Ht E]]; [lia | lia |].
    rewrite E. destruct (ret_states_ok (as_list u) aw t (awaited_one_pilots _ _ _ Ha)) as [v [H1 H2]].
    exists v, t. split; [lia|]. split; assumption.
  Qed.

  (* an unknown uid raises (KeyError / ValueError), nothing is claimed *)
  Theorem wait_tasks_unknown_uid r T term fuel (tab : table) u :
    awaited_tasks tab u = None ->
    wait_tasks seqb final value r T term fuel tab u = Raised KeyError.
  Proof.
    unfold awaited_tasks, Model.wait_tasks. intro Ha.
    destruct (sel_tasks tab u) as [rl uids]. simpl in Ha.
    destruct (check_val_some (norm final r)) as [v Hv]. rewrite Hv, Ha. reflexivity.
  Qed.
  Theorem wait_pilots_unknown_uid r T term fuel (tab : table) u :
    awaited_pilots seqb final tab u = None ->
    wait_pilots seqb final r T term fuel tab u = Raised ValueError.
  Proof.
    unfold awaited_pilots, Model.wait_pilots. intro Ha.
    destruct (sel_pilots seqb final tab u) as [rl uids]. simpl in Ha. rewrite Ha. reflexivity.
  Qed.

  (* ------------------------------------------------ `Spins` means: for ever *)
  (* beyond its horizon a trajectory shows its last state *)
  Lemma last_cons (r : list state) : forall x d, last (x :: r) d = last r x.
  Proof.
    induction r as [|y r IH]; intros x d; [reflexivity|].
    change (last (x :: y :: r) d) with (last (y :: r) d). rewrite (IH y d), (IH y x). reflexivity.
  Qed.

  Lemma nth_length_last (rest : list state) : forall s0 d, nth (length rest) (s0 :: rest) d = last rest s0.
  Proof.
    induction rest as [|x r IH]; intros s0 d; [reflexivity|].
    change (nth (length (x :: r)) (s0 :: x :: r) d) with (nth (length r) (x :: r) d).
    rewrite IH. symmetry. apply last_cons.
  Qed.

  Lemma at_stable (tr : traj) k : length (snd tr) <= k -> at_ tr k = at_ tr (length (snd tr)).
  Proof.
    intro Hk. unfold at_. destruct tr as [s0 rest]. simpl fst in *; simpl snd in *.
    rewrite nth_length_last.
    destruct (Nat.eq_dec k (length rest)) as [-> | NE]; [apply nth_length_last|].
    apply nth_overflow. simpl. lia.
  Qed.

  Lemma timed_out_mono T c c' : c <= c' -> timed_out T c = true -> timed_out T c' = true.
  Proof.
    intros Hc H. destruct (deadline T) as [d|] eqn:HD.
    - rewrite (timed_out_deadline _ _ c HD) in H. rewrite (timed_out_deadline _ _ c' HD).
      apply Nat.leb_le in H. apply Nat.leb_le. lia.
    - rewrite (timed_out_no_deadline _ _ HD) in H. discriminate.
  Qed.
  Lemma term_set_mono term c c' : c <= c' -> term_set term c = true -> term_set term c' = true.
  Proof.
    destruct term as [k|]; simpl; try discriminate. intros Hc H.
    apply Nat.leb_le in H. apply Nat.leb_le. lia.
  Qed.
  Lemma timed_out_at_bound T d c : deadline T = Some d -> d <= c -> timed_out T c = false -> False.
  Proof. intros HD Hc H. rewrite (timed_out_deadline _ _ _ HD) in H. apply Nat.leb_gt in H. lia. Qed.
  Lemma term_set_at_bound term k c : term = Some k -> k <= c -> term_set term c = false -> False.
  Proof. intros -> Hc H. simpl in H. apply Nat.leb_gt in H. lia. Qed.

  (* a run that is out of fuel has seen neither a reason to return ... *)
  Lemma poll1_spins_split f states T term (tr : traj) : forall c g,
    poll1 f states T term tr c = Spins ->
    poll1 (f + g) states T term tr c = poll1 g states T term tr (c + f).
  Proof.
    induction f as [|f IH]; intros c g H.
    - simpl. rewrite Nat.add_0_r. reflexivity.
    - rewrite poll1_eq in H. rewrite (poll1_eq (S f + g)).
      destruct (mem (at_ tr c) states); [discriminate|].
      destruct (is_final (at_ tr c)); [discriminate|].
      simpl plus.
      destruct (timed_out T (S c)); [discriminate|].
      destruct (term_set term (S c)); [discriminate|].
      rewrite (IH (S c) g H). f_equal. lia.
  Qed.

  Lemma poll1_spins_last f states T term (tr : traj) : forall c,
    poll1 f states T term tr c = Spins ->
    mem (at_ tr (c + f)) states = false /\ is_final (at_ tr (c + f)) = false /\
    (1 <= f -> timed_out T (c + f) = false /\ term_set term (c + f) = false).
  Proof.
    induction f as [|f IH]; intros c H; rewrite poll1_eq in H.
    - rewrite Nat.add_0_r.
      destruct (mem (at_ tr c) states); [discriminate|].
      destruct (is_final (at_ tr c)); [discriminate|]. repeat split; lia.
    - destruct (mem (at_ tr c) states); [discriminate|].
      destruct (is_final (at_ tr c)); [discriminate|].
      destruct (timed_out T (S c)) eqn:Hto; [discriminate|].
      destruct (term_set term (S c)) eqn:Hte; [discriminate|].
      destruct (IH (S c) H) as [H1 [H2 H3]].
      replace (c + S f) with (S c + f) by lia. split; [exact H1|]. split; [exact H2|].
      intros _. destruct f as [|f'].
      + rewrite Nat.add_0_r. split; assumption.
      + apply H3. lia.
  Qed.

  (* ... and from a quiet clock on it polls for ever *)
  Lemma poll1_quiet states T term (tr : traj) c0 :
    (forall c, c0 <= c -> mem (at_ tr c) states = false /\ is_final (at_ tr c) = false) ->
    (forall c, timed_out T c = false) -> (forall c, term_set term c = false) ->
    forall g c, c0 <= c -> poll1 g states T term tr c = Spins.
  Proof.
    intros Hq Hto Hte. induction g as [|g IH]; intros c Hc; rewrite poll1_eq;
      destruct (Hq c Hc) as [-> ->]; [reflexivity|].
    rewrite Hto, Hte. apply IH. lia.
  Qed.

  (* Task.wait / Pilot.wait: if the model is out of fuel after polling past
     the end of the trajectory, the timeout and the termination tick, then
     it is out of fuel for every larger amount of fuel -- the call never
     returns *)
  Theorem entity_spins_forever r T term fuel (tr : traj) :
    length (snd tr) + 1 <= fuel ->
    (forall d, deadline T = Some d -> d + 1 <= fuel) ->
    (forall k, term = Some k -> k + 1 <= fuel) ->
    entity_wait r T term fuel tr = Spins ->
    forall fuel', entity_wait r T term fuel' tr = Spins.
  Proof.
    unfold Model.entity_wait. intros Hlen HT Hterm.
    destruct (is_final (at_ tr 0)).
    { destruct (mem (at_ tr 0) (norm final r)); discriminate. }
    intros H fuel'.
    destruct (poll1_spins_last _ _ _ _ _ _ H) as [H1 [H2 H3]]. simpl in H1, H2, H3.
    destruct H3 as [H3 H4]; [lia|].
    assert (Hto : forall c, timed_out T c = false).
    { intro c. destruct (deadline T) as [d|] eqn:HD; [|apply timed_out_no_deadline; exact HD].
      exfalso. apply (timed_out_at_bound T d fuel HD); [specialize (HT _ eq_refl); lia | exact H3]. }
    assert (Hte : forall c, term_set term c = false).
    { destruct term as [k|]; [|reflexivity]. exfalso.
      apply (term_set_at_bound (Some k) k fuel eq_refl); [specialize (Hterm _ eq_refl); lia | exact H4]. }
    assert (Hq : forall c, fuel <= c ->
              mem (at_ tr c) (norm final r) = false /\ is_final (at_ tr c) = false).
    { intros c Hc. rewrite (at_stable tr c) by lia. rewrite <- (at_stable tr fuel) by lia.
      split; assumption. }
    destruct (Nat.le_gt_cases fuel fuel') as [Hle | Hgt].
    - replace fuel' with (fuel + (fuel' - fuel)) by lia.
      rewrite (poll1_spins_split _ _ _ _ _ _ _ H). simpl.
      apply (poll1_quiet _ _ _ _ fuel Hq Hto Hte). lia.
    - (* less fuel: a return with less fuel would be a return with more *)
      destruct (poll1_shape fuel' (norm final r) T term tr 0) as [E | [t [_ E]]]; [exact E|].
      exfalso.
      assert (Hm : forall f states c v t', poll1 f states T term tr c = Returned v t' ->
                     forall g, poll1 (f + g) states T term tr c = Returned v t').
      { clear. induction f as [|f IH]; intros states c v t' Hr g.
        - rewrite poll1_eq in Hr. rewrite poll1_eq.
          destruct (mem (at_ tr c) states); [exact Hr|].
          destruct (is_final (at_ tr c)); [exact Hr | discriminate].
        - rewrite poll1_eq in Hr. rewrite (poll1_eq (S f + g)).
          destruct (mem (at_ tr c) states); [exact Hr|].
          destruct (is_final (at_ tr c)); [exact Hr|]. simpl plus.
          destruct (timed_out T (S c)); [exact Hr|].
          destruct (term_set term (S c)); [exact Hr|].
          apply IH. exact Hr. }
      specialize (Hm _ _ _ _ _ E (fuel - fuel')).
      replace (fuel' + (fuel - fuel')) with fuel in Hm by lia. rewrite H in Hm. discriminate.
  Qed.
End Proofs.
