From Coq Require Import ZArith List Bool.
From RP Require Import CancelReq.Model.
Import ListNotations.
Open Scope Z_scope.

Fixpoint zlist_eqb (a b : list Z) : bool :=
  match a, b with
  | [], [] => true
  | x :: r, y :: s => (x =? y) && zlist_eqb r s
  | _, _ => false
  end.

Fixpoint zmem (x : Z) (l : list Z) : bool :=
  match l with [] => false | y :: r => (y =? x) || zmem x r end.

(* obs: the `uids` field of the published message (None when it is not a list
   of known uids), the cancel list of a component before and after delivery *)
Definition cancelreq_row (all : list Z) (a : carg) (published : option (list Z)) (cl0 cl1 : list Z) : list bool :=
  let want := request_uids all a in
  match published with
  | None => [false; false; false]
  | Some p =>
      [ zlist_eqb p want && zlist_eqb cl1 (register cl0 want);
        (* the message names exactly the tasks the application named *)
        forallb (fun u => zmem u want) p && forallb (fun u => zmem u p) want;
        (* every named task is registered by the component, nothing else is added *)
        forallb (fun u => zmem u cl1) want
        && forallb (fun u => zmem u cl0 || zmem u want) cl1 ]
  end.
