(* The client side of a cancel request: TaskManager.cancel_tasks(uids) --
   task_manager.py -- and what a component registers when the message arrives
   (BaseComponent._control_cb, cmd 'cancel_tasks' -- utils/component.py).

     if not uids: uids = list(self._tasks.keys())
     else: if not isinstance(uids, list): uids = [uids]
     publish({'cmd': 'cancel_tasks', 'arg': {'uids': uids, ...}})

   The message field `uids` is a LIST of uids: the handlers of the agent
   scheduler and executor iterate it. *)
From Coq Require Import ZArith List Bool.
Import ListNotations.
Open Scope Z_scope.

(* what the application passes: nothing, one uid (Task.cancel()), a list *)
Inductive carg := ANone | AOne (u : Z) | AMany (l : list Z).

Definition request_uids (all : list Z) (a : carg) : list Z :=
  match a with
  | ANone | AMany [] => all
  | AOne u => [u]
  | AMany l => l
  end.

(* `self._cancel_list += uids` *)
Definition register (cl uids : list Z) : list Z := cl ++ uids.

Definition named (all : list Z) (a : carg) (u : Z) : Prop :=
  match a with
  | ANone | AMany [] => In u all
  | AOne v => u = v
  | AMany l => In u l
  end.
