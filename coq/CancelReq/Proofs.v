From Coq Require Import ZArith List Bool.
From RP Require Import CancelReq.Model.
Import ListNotations.
Open Scope Z_scope.

Theorem request_names_exactly all a u : In u (request_uids all a) <-> named all a u.
Proof.
  destruct a as [|v|[|x l]]; simpl; try tauto.
  split; [intros [H|[]]; auto|intro H; left; auto].
Qed.

Theorem registered_exactly cl all a u :
  In u (register cl (request_uids all a)) <-> In u cl \/ named all a u.
Proof. unfold register. rewrite in_app_iff, request_names_exactly. tauto. Qed.

(* a request leaves what was registered before in place, in order *)
Theorem register_keeps cl uids : firstn (length cl) (register cl uids) = cl.
Proof.
  unfold register. rewrite firstn_app, Nat.sub_diag, firstn_all. simpl. apply app_nil_r.
Qed.
