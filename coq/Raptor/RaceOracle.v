(* Row evaluated by the harness for the dispatcher / task-process protocol:
   model agreement + property clauses on the IMPLEMENTATION's trace. *)
From Coq Require Import ZArith List Bool.
From RP Require Import Common.Eqb Raptor.Model Raptor.Oracle Raptor.Race.
Import ListNotations.
Open Scope Z_scope.

Definition party_eqb (a b : party) : bool :=
  match a, b with PD, PD | PT, PT => true | _, _ => false end.
Definition rk_eqb (a b : rk) : bool :=
  match a, b with
  | RReal0, RReal0 | RReal1, RReal1 | RTimeout, RTimeout | RDied, RDied | ROther, ROther => true
  | _, _ => false
  end.
Definition rop_eqb (a b : rop) : bool :=
  match a, b with
  | RoStart, RoStart | RoJoin, RoJoin | RoAcquire, RoAcquire | RoTerminate, RoTerminate
  | RoSet, RoSet | RoRelease, RoRelease | RoFn, RoFn | RoExit, RoExit | RoExpire, RoExpire
  | RoOther, RoOther | RoKill, RoKill | RoDie, RoDie | RoExpire2, RoExpire2 => true
  | RoIsAlive x, RoIsAlive y => Bool.eqb x y
  | RoIsSet x, RoIsSet y => Bool.eqb x y
  | RoPut x, RoPut y => rk_eqb x y
  | _, _ => false
  end.

(* what the trace says about the task process *)
Definition t_reported (tr : list (party * rop)) : bool :=
  existsb (fun e => match e with (PT, RoPut _) => true | _ => false end) tr.
Definition t_was_killed (tr : list (party * rop)) : bool :=
  existsb (fun e => match e with (PD, RoTerminate) => true | _ => false end) tr.

(* one queued result is truthful: the call's own result if the task process
   queued it (exit code 0 iff the call returned), a time-out only if the
   process was killed before it reported, 'died' only if it ended by itself
   without reporting *)
Definition truthful_rk (p : pay) (tr : list (party * rop)) (k : rk) : bool :=
  match k with
  | RReal0 => match p with PayReturn => t_reported tr | _ => false end
  | RReal1 => match p with PayRaise => t_reported tr | _ => false end
  | RTimeout => t_was_killed tr && negb (t_reported tr)
  | RDied => negb (t_was_killed tr) && negb (t_reported tr)
  | ROther => false
  end.

(* exactly one result for the request *)
Definition ok_one (q : list rk) : bool := match q with [_] => true | _ => false end.

(* ... and the worker then hands back the request and the later one, its
   watcher thread survives, and every core is free again *)
Definition ok_after (returned : list Z) (alive : bool) (cores : bitmap) : bool :=
  alive && eqb_list Z.eqb returned [1; 2] && forallb negb cores.

Definition c20_race_row (p : pay) (timed : bool) (sg : sigr) (s : list choice)
  (otr : list (party * rop)) (oq : list rk) (ofin : bool)
  (oret : list Z) (oalive : bool) (ocores : bitmap) (orwa : bool) : list bool :=
  let '(c, tr) := race p timed sg s in
  let '(st, evs, alive) := watcher wst2 (feed (c_q c)) in
  [ eqb_list (eqb_prod party_eqb rop_eqb) tr otr && eqb_list rk_eqb (c_q c) oq
    && Bool.eqb (finished c) ofin && eqb_list Z.eqb (returned_uids evs) oret
    && Bool.eqb alive oalive && eqb_list Bool.eqb (w_cb st) ocores && Bool.eqb (c_bad c) orwa ]
  ++ pad 2 ++
  [ forallb negb ocores ]                                  (* quiescent_free *)
  ++
  [ ofin && ok_one oq && oalive && eqb_list Z.eqb oret [1; 2] ]   (* each_once *)
  ++ pad 3 ++
  [ forallb (truthful_rk p otr) oq ]                       (* truthful *)
  ++ pad 3.

(* reported_only_after_process_gone: the dispatcher queued no result while the
   request's task process still existed (measured when the result is queued);
   no_two_live_processes_on_a_core: no later request was started on a core
   (the raced request held core 0) given back while that process still existed *)
Definition c20_race_extra (orwa : bool) (third : option (list Z)) : list bool :=
  [ negb orwa;
    negb (orwa && match third with Some cs => memZ 0 cs | None => false end) ].
