(* The clauses that judge a two-thread outcome (Raptor.Lin) hold for the outcome
   of the sequential model after EVERY operation sequence within the demand
   bound: an observed outcome that equals a sequential one is therefore safe, and
   the clauses can only fail on an outcome no sequential order produces. *)
From Coq Require Import ZArith List Bool Lia Permutation.
From RP Require Import Common.Eqb Raptor.Model Raptor.Oracle Raptor.Proofs Raptor.Lin.
Import ListNotations.
Open Scope Z_scope.

Lemma insert_by_perm {A} (key : A -> Z) x l : Permutation (insert_by key x l) (x :: l).
Proof.
  induction l as [|y r IH]; simpl; [reflexivity|].
  destruct (key x <=? key y); [reflexivity|].
  rewrite IH. apply perm_swap.
Qed.

Lemma isort_perm {A} (key : A -> Z) l : Permutation (isort key l) l.
Proof.
  induction l as [|x r IH]; simpl; [constructor|].
  rewrite insert_by_perm. constructor. exact IH.
Qed.

Lemma concat_perm {A} (l l' : list (list A)) : Permutation l l' -> Permutation (concat l) (concat l').
Proof.
  induction 1; simpl.
  - constructor.
  - apply Permutation_app_head. assumption.
  - rewrite !app_assoc. apply Permutation_app_tail. apply Permutation_app_comm.
  - etransitivity; eassumption.
Qed.

Lemma nodupb_NoDup l : NoDup l -> nodupb l = true.
Proof.
  induction 1 as [|x l Hx Hn IH]; simpl; [reflexivity|].
  rewrite IH, andb_true_r. apply negb_true_iff, memZ_false, Hx.
Qed.

Lemma bm_of_perm n h h' : Permutation h h' -> bm_of n h = bm_of n h'.
Proof.
  intro HP. unfold bm_of. apply map_ext. intro i.
  destruct (memZ (Z.of_nat i) h) eqn:E1; destruct (memZ (Z.of_nat i) h') eqn:E2; try reflexivity.
  - apply memZ_In in E1. apply memZ_false in E2. exfalso. apply E2. eapply Permutation_in; eauto.
  - apply memZ_In in E2. apply memZ_false in E1. exfalso. apply E1.
    eapply Permutation_in; [apply Permutation_sym|]; eauto.
Qed.

Lemma bm_eqb_refl l : bm_eqb l l = true.
Proof. induction l as [|[] r IH]; simpl; auto. Qed.

Lemma all_free_repeat n : all_free (repeat false n) = true.
Proof. induction n as [|n IH]; simpl; auto. Qed.

Lemma in_range_spec n l : (forall k, In k l -> 0 <= k < Z.of_nat n) -> in_range n l = true.
Proof.
  intro H. unfold in_range. apply forallb_forall. intros x Hx. specialize (H x Hx).
  apply andb_true_iff. split; [apply Z.leb_le | apply Z.ltb_lt]; lia.
Qed.

Lemma o_cores_perm st evs : Permutation (o_cores (outcome_of (st, evs))) (hc (w_pool st)).
Proof.
  unfold o_cores, outcome_of, hc. apply concat_perm.
  rewrite (Permutation_map _ (isort_perm _ _)). rewrite map_map. simpl. reflexivity.
Qed.

Lemma o_gpus_perm st evs : Permutation (o_gpus (outcome_of (st, evs))) (hg (w_pool st)).
Proof.
  unfold o_gpus, outcome_of, hg. apply concat_perm.
  rewrite (Permutation_map _ (isort_perm _ _)). rewrite map_map. simpl. reflexivity.
Qed.

Theorem sequential_outcome_ok nc ng ops :
  Forall (op_in_bound nc ng) ops ->
  let o := outcome_of (wrun (winit nc ng) ops) in
  lin_disjoint nc ng o = true /\ lin_accounting nc ng o = true /\ lin_quiescent o = true.
Proof.
  intro Hb. destruct (wrun (winit nc ng) ops) as [st evs] eqn:Hr. cbv zeta.
  destruct (worker_disjoint nc ng ops st evs Hb Hr) as (N1 & N2 & R1 & R2).
  destruct (worker_exact nc ng ops st evs Hb Hr) as [E1 E2].
  pose proof (o_cores_perm st evs) as Pc. pose proof (o_gpus_perm st evs) as Pg.
  split; [|split].
  - unfold lin_disjoint. rewrite !andb_true_iff. repeat split.
    + apply nodupb_NoDup. eapply Permutation_NoDup; [apply Permutation_sym, Pc | exact N1].
    + apply nodupb_NoDup. eapply Permutation_NoDup; [apply Permutation_sym, Pg | exact N2].
    + apply in_range_spec. intros k Hk. apply R1. eapply Permutation_in; eauto.
    + apply in_range_spec. intros k Hk. apply R2. eapply Permutation_in; eauto.
  - unfold lin_accounting. rewrite (bm_of_perm nc _ _ Pc), (bm_of_perm ng _ _ Pg).
    unfold outcome_of. rewrite <- E1, <- E2, !bm_eqb_refl. reflexivity.
  - unfold lin_quiescent, outcome_of.
    destruct (isort (fun x : Z * list Z * list Z => fst (fst x))
                    (map (fun u => (u_uid u, u_cores u, u_gpus u)) (w_pool st))) as [|x r] eqn:Es;
      [|reflexivity].
    assert (Hp : w_pool st = []).
    { pose proof (isort_perm (fun x : Z * list Z * list Z => fst (fst x))
                             (map (fun u => (u_uid u, u_cores u, u_gpus u)) (w_pool st))) as P.
      rewrite Es in P. apply Permutation_nil in P. destruct (w_pool st); [reflexivity|discriminate]. }
    destruct (worker_quiescent nc ng ops st evs Hb Hr Hp) as [Q1 Q2].
    rewrite Q1, Q2, !all_free_repeat. reflexivity.
Qed.
