(* Executable model of the dispatcher / task-process protocol of
   DefaultWorker._dispatch (raptor/worker_default.py) around the request's
   timeout, as two interleaved parties that synchronise through res_lock,
   res_done, the result queue and the process handle.

     dispatcher D                              task process T (_worker_proc)
       worker_proc.start()                       <the request's call ends>
       worker_proc.join(timeout=tout)            with res_lock:          (acquire)
       with res_lock:              (acquire)         result_queue.put(res)
           if res_done.is_set(): pass                res_done.set()
           elif worker_proc.is_alive():                                  (release)
               terminate(); join(grace)           <process exits>
               if is_alive(): kill(); join()
               put(timeout)
           else: put('task process died')
                                   (release)

   Every line above is one step; a schedule chooses which party makes the next
   step (or that the timeout expires).  Definitions only. *)
From Coq Require Import ZArith List Bool.
From RP Require Import Raptor.Model.
Import ListNotations.
Open Scope Z_scope.

Inductive party := PD | PT.
(* how the request's call ends: returns, raises, leaves the process without
   reporting (sys.exit, os._exit, signal), never ends *)
Inductive pay := PayReturn | PayRaise | PayDie | PayHang.
(* results on the queue: the call's own result (exit code 0 / 1), the
   dispatcher's time-out report, its 'task process died' report *)
Inductive rk := RReal0 | RReal1 | RTimeout | RDied | ROther.

(* how the task process reacts to SIGTERM (worker_proc.terminate()): it dies at
   once, it dies some time later (SigDelay: the scheduler decides when -- before
   or after the dispatcher's grace period expires), or never (handler / ignored).
   SIGKILL (worker_proc.kill()) is always effective. *)
Inductive sigr := SigNow | SigDelay | SigNever.

Inductive dpc := DStart | DJoin | DAcq | DIsSet | DAlive | DTerm | DJoinG | DAlive2 | DKill | DJoin3
               | DPutTimeout | DPutDied | DRel | DEnd.
Inductive tpc := TNone | TFn | TAcq | TPut | TSet | TRel | TExit | TDead.

Inductive rop := RoStart | RoJoin | RoAcquire | RoIsAlive (b : bool) | RoTerminate
               | RoPut (k : rk) | RoIsSet (b : bool) | RoSet | RoRelease | RoFn | RoExit
               | RoExpire | RoOther | RoKill | RoDie | RoExpire2.

(* c_term: SIGTERM was delivered and the process has not died yet; c_exp2: the
   grace period of join(timeout=5.0) expired.  c_rep / c_kill / c_bad are
   history flags (the task process queued its result / the dispatcher set out
   to kill it / the dispatcher reported a result while the task process still
   existed); no step reads them *)
Record cfg := mkCfg { c_d : dpc; c_t : tpc; c_lock : option party; c_done : bool;
                      c_exp : bool; c_q : list rk; c_rep : bool; c_kill : bool;
                      c_term : bool; c_exp2 : bool; c_bad : bool }.

(* CK: a process that reacts to SIGTERM with a delay dies now *)
Inductive choice := CD | CT | CX | CK.

Definition cinit : cfg := mkCfg DStart TNone None false false [] false false false false false.

Definition t_dead (t : tpc) : bool := match t with TDead => true | _ => false end.
Definition lock_free (l : option party) : bool := match l with None => true | Some _ => false end.

Definition enabledD (timed : bool) (c : cfg) : bool :=
  match c_d c with
  | DJoin => t_dead (c_t c) || (timed && c_exp c)       (* join(timeout=tout) *)
  | DJoinG => t_dead (c_t c) || c_exp2 c                (* join(timeout=5.0) after terminate() *)
  | DJoin3 => t_dead (c_t c)                            (* join() after kill() *)
  | DAcq => lock_free (c_lock c)
  | DEnd => false
  | _ => true
  end.

Definition enabledT (p : pay) (c : cfg) : bool :=
  match c_t c with
  | TNone | TDead => false
  | TFn => match p with PayHang => false | _ => true end
  | TAcq => lock_free (c_lock c)
  | _ => true
  end.

Definition stepD (sg : sigr) (c : cfg) : cfg * rop :=
  let '(mkCfg d t l dn e q rp kl tm e2 bd) := c in
  let alive := negb (t_dead t) in
  match d with
  | DStart => (mkCfg DJoin TFn l dn e q rp kl tm e2 bd, RoStart)
  | DJoin => (mkCfg DAcq t l dn e q rp kl tm e2 bd, RoJoin)
  | DAcq => (mkCfg DIsSet t (Some PD) dn e q rp kl tm e2 bd, RoAcquire)
  | DIsSet => (mkCfg (if dn then DRel else DAlive) t l dn e q rp kl tm e2 bd, RoIsSet dn)
  | DAlive => (mkCfg (if alive then DTerm else DPutDied) t l dn e q rp kl tm e2 bd, RoIsAlive alive)
  | DTerm =>
      (mkCfg DJoinG (match sg with SigNow => TDead | _ => t end) l dn e q rp true
             (match sg with SigDelay => alive | _ => false end) e2 bd, RoTerminate)
  | DJoinG => (mkCfg DAlive2 t l dn e q rp kl tm e2 bd, RoJoin)
  | DAlive2 => (mkCfg (if alive then DKill else DPutTimeout) t l dn e q rp kl tm e2 bd, RoIsAlive alive)
  | DKill => (mkCfg DJoin3 TDead l dn e q rp kl false e2 bd, RoKill)
  | DJoin3 => (mkCfg DPutTimeout t l dn e q rp kl tm e2 bd, RoJoin)
  | DPutTimeout => (mkCfg DRel t l dn e (q ++ [RTimeout]) rp kl tm e2 (bd || alive), RoPut RTimeout)
  | DPutDied => (mkCfg DRel t l dn e (q ++ [RDied]) rp kl tm e2 (bd || alive), RoPut RDied)
  | DRel => (mkCfg DEnd t None dn e q rp kl tm e2 bd, RoRelease)
  | DEnd => (c, RoOther)
  end.

Definition real_of (p : pay) : rk := match p with PayReturn => RReal0 | _ => RReal1 end.

Definition stepT (p : pay) (c : cfg) : cfg * rop :=
  let '(mkCfg d t l dn e q rp kl tm e2 bd) := c in
  match t with
  | TFn => (mkCfg d (match p with PayDie => TExit | _ => TAcq end) l dn e q rp kl tm e2 bd, RoFn)
  | TAcq => (mkCfg d TPut (Some PT) dn e q rp kl tm e2 bd, RoAcquire)
  | TPut => (mkCfg d TSet l dn e (q ++ [real_of p]) true kl tm e2 bd, RoPut (real_of p))
  | TSet => (mkCfg d TRel l true e q rp kl tm e2 bd, RoSet)
  | TRel => (mkCfg d TExit None dn e q rp kl tm e2 bd, RoRelease)
  | TExit => (mkCfg d TDead l dn e q rp kl false e2 bd, RoExit)
  | TNone | TDead => (c, RoOther)
  end.

(* one scheduler choice; a choice that is not enabled changes nothing *)
Definition sstep (p : pay) (timed : bool) (sg : sigr) (c : cfg) (ch : choice) : cfg * list (party * rop) :=
  match ch with
  | CD => if enabledD timed c then let '(c', o) := stepD sg c in (c', [(PD, o)]) else (c, [])
  | CT => if enabledT p c then let '(c', o) := stepT p c in (c', [(PT, o)]) else (c, [])
  | CX =>
      let '(mkCfg d t l dn e q rp kl tm e2 bd) := c in
      if timed && negb e then (mkCfg d t l dn true q rp kl tm e2 bd, [(PD, RoExpire)])
      else match d with
           | DJoinG => if e2 then (c, []) else (mkCfg d t l dn e q rp kl tm true bd, [(PD, RoExpire2)])
           | _ => (c, [])
           end
  | CK =>
      let '(mkCfg d t l dn e q rp kl tm e2 bd) := c in
      if tm && negb (t_dead t) then (mkCfg d TDead l dn e q rp kl false e2 bd, [(PT, RoDie)]) else (c, [])
  end.

Fixpoint srun_race (p : pay) (timed : bool) (sg : sigr) (c : cfg) (s : list choice)
  : cfg * list (party * rop) :=
  match s with
  | [] => (c, [])
  | ch :: r => let '(c1, t1) := sstep p timed sg c ch in
               let '(c2, t2) := srun_race p timed sg c1 r in (c2, t1 ++ t2)
  end.

(* the completion policy after the schedule: D if it can move, else T, else a
   pending timeout expires, else a pending delayed death happens, else stop *)
Definition policy (p : pay) (timed : bool) (c : cfg) : option choice :=
  if enabledD timed c then Some CD
  else if enabledT p c then Some CT
  else if timed && negb (c_exp c) then Some CX
  else if match c_d c with DJoinG => negb (c_exp2 c) | _ => false end then Some CX
  else if c_term c && negb (t_dead (c_t c)) then Some CK
  else None.

Fixpoint finish (fuel : nat) (p : pay) (timed : bool) (sg : sigr) (c : cfg) : cfg * list (party * rop) :=
  match fuel with
  | O => (c, [])
  | S f =>
      match policy p timed c with
      | None => (c, [])
      | Some ch => let '(c1, t1) := sstep p timed sg c ch in
                   let '(c2, t2) := finish f p timed sg c1 in (c2, t1 ++ t2)
      end
  end.

Definition race_fuel : nat := 80.

Definition race (p : pay) (timed : bool) (sg : sigr) (s : list choice) : cfg * list (party * rop) :=
  let '(c1, t1) := srun_race p timed sg cinit s in
  let '(c2, t2) := finish race_fuel p timed sg c1 in (c2, t1 ++ t2).

Definition finished (c : cfg) : bool :=
  match c_d c, c_t c with DEnd, TDead => true | _, _ => false end.

(* ---- the worker's result watcher on the queued results + one later request ---- *)
Definition rk_code (k : rk) : Z * bool :=
  match k with RReal0 => (0, false) | _ => (1, true) end.

Definition is_raise (e : wev) : bool := match e with EvRaise _ _ => true | _ => false end.

(* DefaultWorker._result_watcher: an exception from _result_cb ends the thread *)
Fixpoint watcher (st : wst) (rs : list (Z * Z * bool)) : wst * list wev * bool :=
  match rs with
  | [] => (st, [], true)
  | (pid, code, exc) :: r =>
      let '(st', evs) := result_cb st pid code exc in
      if existsb is_raise evs then (st', evs, false)
      else let '(st2, e2, a) := watcher st' r in (st2, evs ++ e2, a)
  end.

(* two requests are running: the raced one (uid 1, pid 1, core 0) and a later
   one (uid 2, pid 2, core 1) *)
Definition wst2 : wst := mkW [true; true] [] [mkRun 1 1 [0] []; mkRun 2 2 [1] []] 3.

Definition feed (q : list rk) : list (Z * Z * bool) :=
  map (fun k => (1, fst (rk_code k), snd (rk_code k))) q ++ [(2, 0, false)].

Definition returned_uids (evs : list wev) : list Z :=
  concat (map (fun e => match e with EvResult u _ _ _ _ => [u] | _ => [] end) evs).

Definition race_show (p : pay) (timed : bool) (sg : sigr) (s : list choice) :=
  let '(c, t) := race p timed sg s in
  let '(st, evs, alive) := watcher wst2 (feed (c_q c)) in
  (t, c_q c, finished c, returned_uids evs, alive, w_cb st, c_bad c).
