(* Rows evaluated by the harness for C20: the first bit says that the model
   agrees with the observation of the real code, the others are the property
   clauses evaluated on the IMPLEMENTATION's trace. *)
From Coq Require Import ZArith List Bool.
From RP Require Import Common.Eqb Raptor.Model.
Import ListNotations.
Open Scope Z_scope.

(* pointwise comparison of two lists of different element types *)
Fixpoint all2 {A B} (e : A -> B -> bool) (a : list A) (b : list B) : bool :=
  match a, b with
  | [], [] => true
  | x :: a', y :: b' => e x y && all2 e a' b'
  | _, _ => false
  end.

(* ---- equality on observations ---- *)
Definition rerr_eqb (a b : rerr) : bool :=
  match a, b with
  | AssertionError, AssertionError | KeyError, KeyError | IndexError, IndexError
  | ValueError, ValueError | OtherError, OtherError => true
  | _, _ => false
  end.
Definition zl_eqb := eqb_list Z.eqb.
Definition bm_eqb := eqb_list Bool.eqb.
Definition oz_eqb := eqb_option Z.eqb.

Definition wev_eqb (a b : wev) : bool :=
  match a, b with
  | EvStart u p c g cb gb, EvStart u' p' c' g' cb' gb' =>
      (u =? u') && (p =? p') && zl_eqb c c' && zl_eqb g g' && bm_eqb cb cb' && bm_eqb gb gb'
  | EvResult u c e cb gb, EvResult u' c' e' cb' gb' =>
      (u =? u') && oz_eqb c c' && Bool.eqb e e' && bm_eqb cb cb' && bm_eqb gb gb'
  | EvRaise x e, EvRaise x' e' => (x =? x') && rerr_eqb e e'
  | EvStuck, EvStuck => true
  | _, _ => false
  end.

Definition tgt_eqb (a b : tgt) : bool :=
  match a, b with TDone, TDone | TFailed, TFailed | TCanceled, TCanceled => true | _, _ => false end.
Definition mstate_eqb (a b : mstate) : bool :=
  match a, b with
  | S_STAGING_INPUT_PENDING, S_STAGING_INPUT_PENDING | S_SCHEDULING, S_SCHEDULING
  | S_STAGING_OUTPUT_PENDING, S_STAGING_OUTPUT_PENDING | S_FAILED, S_FAILED => true
  | _, _ => false
  end.
Definition mev_eqb (a b : mev) : bool :=
  match a, b with
  | MInsert u, MInsert u' => u =? u'
  | MAdvance us s p q, MAdvance us' s' p' q' =>
      zl_eqb us us' && mstate_eqb s s' && Bool.eqb p p' && Bool.eqb q q'
  | MReqPut us, MReqPut us' => zl_eqb us us'
  | MRaise e, MRaise e' => rerr_eqb e e'
  | _, _ => false
  end.
Definition sev_eqb (a b : sev) : bool :=
  match a, b with
  | SPut n us, SPut n' us' => (n =? n') && zl_eqb us us'
  | SLocal us, SLocal us' => zl_eqb us us'
  | SFail u, SFail u' => u =? u'
  | SCancel us, SCancel us' => zl_eqb us us'
  | _, _ => false
  end.
Definition dres_eqb (a b : dres) : bool :=
  eqb_option zl_eqb (d_out a) (d_out b) && zl_eqb (d_err a) (d_err b)
  && oz_eqb (d_fail a) (d_fail b) && (d_ret a =? d_ret b)
  && oz_eqb (d_val a) (d_val b) && Bool.eqb (d_exc a) (d_exc b).

(* ========================================================================== *)
(* worker clauses over an observed event trace                                 *)
(* ========================================================================== *)
Definition disjointb (a b : list Z) : bool := forallb (fun x => negb (memZ x b)) a.
Fixpoint nodupb (l : list Z) : bool :=
  match l with [] => true | x :: r => negb (memZ x r) && nodupb r end.
Definition in_range (n : nat) (l : list Z) : bool :=
  forallb (fun x => (0 <=? x) && (x <? Z.of_nat n)) l.

(* occupancy map that marks exactly the indices in `held` *)
Definition bm_of (n : nat) (held : list Z) : bitmap :=
  map (fun i => memZ (Z.of_nat i) held) (seq 0 n).

(* requests currently running, as seen in the trace: (uid, cores, gpus) *)
Definition running := list (Z * list Z * list Z).
Definition held_c (r : running) : list Z := concat (map (fun x => snd (fst x)) r).
Definition held_g (r : running) : list Z := concat (map (fun x => snd x) r).
Definition run_has (u : Z) (r : running) : bool := existsb (fun x => fst (fst x) =? u) r.
Definition run_del (u : Z) (r : running) : running := filter (fun x => negb (fst (fst x) =? u)) r.

(* a started request's cores/GPUs are valid indices of the worker, distinct,
   and held by no other running request *)
Fixpoint ok_disjoint (nc ng : nat) (r : running) (evs : list wev) : bool :=
  match evs with
  | [] => true
  | EvStart u _ c g _ _ :: rest =>
      in_range nc c && in_range ng g && nodupb c && nodupb g
      && disjointb c (held_c r) && disjointb g (held_g r)
      && ok_disjoint nc ng (r ++ [(u, c, g)]) rest
  | EvResult u _ _ _ _ :: rest => ok_disjoint nc ng (run_del u r) rest
  | _ :: rest => ok_disjoint nc ng r rest
  end.

(* after every start and every result, the worker's occupancy marks exactly
   the cores/GPUs of the requests then running: a result (finish, failure,
   time-out, failed start) gives back exactly what the request held *)
Fixpoint ok_accounting (nc ng : nat) (r : running) (evs : list wev) : bool :=
  match evs with
  | [] => true
  | EvStart u _ c g cb gb :: rest =>
      let r' := r ++ [(u, c, g)] in
      bm_eqb cb (bm_of nc (held_c r')) && bm_eqb gb (bm_of ng (held_g r'))
      && ok_accounting nc ng r' rest
  | EvResult u _ _ cb gb :: rest =>
      let r' := run_del u r in
      bm_eqb cb (bm_of nc (held_c r')) && bm_eqb gb (bm_of ng (held_g r'))
      && ok_accounting nc ng r' rest
  | _ :: rest => ok_accounting nc ng r rest
  end.

Definition all_free (bm : bitmap) : bool := forallb negb bm.

(* final state: (cores, gpus, pids in the pool) *)
Definition wfinal := (bitmap * bitmap * list Z)%type.
Definition ok_quiescent (f : wfinal) : bool :=
  let '(cb, gb, pool) := f in
  match pool with [] => all_free cb && all_free gb | _ => true end.

Fixpoint running_after (r : running) (evs : list wev) : running :=
  match evs with
  | [] => r
  | EvStart u _ c g _ _ :: rest => running_after (r ++ [(u, c, g)]) rest
  | EvResult u _ _ _ _ :: rest => running_after (run_del u r) rest
  | _ :: rest => running_after r rest
  end.

Definition requests_of (ops : list wop) : list req :=
  concat (map (fun o => match o with OReq b _ => b | _ => [] end) ops).

(* the quantifier of the property: demands up to the worker's size *)
Definition in_bound (nc ng : nat) (q : req) : bool :=
  let c := dflt 1 (q_cores q) in let g := dflt 0 (q_gpus q) in
  (1 <=? c) && (c <=? Z.of_nat nc) && (0 <=? g) && (g <=? Z.of_nat ng).

Definition count_results (u : Z) (evs : list wev) : Z :=
  Z.of_nat (length (filter (fun e => match e with EvResult v _ _ _ _ => v =? u | _ => false end) evs)).

Definition no_request_failure (evs : list wev) : bool :=
  forallb (fun e => match e with EvRaise 0 _ => false | EvStuck => false | _ => true end) evs.

(* every accepted request is, at the end, either still running or has come
   back exactly once; no request thread raised or hangs *)
Definition ok_once (nc ng : nat) (ops : list wop) (evs : list wev) : bool :=
  let rs := requests_of ops in
  if forallb (in_bound nc ng) rs && nodupb (map q_uid rs) then
    no_request_failure evs
    && forallb (fun q => count_results (q_uid q) evs
                         + (if run_has (q_uid q) (running_after [] evs) then 1 else 0) =? 1) rs
  else true.

Definition results_of (evs : list wev) : list (Z * option Z) :=
  concat (map (fun e => match e with EvResult u c _ _ _ => [(u, c)] | _ => [] end) evs).

(* master side: the k-th result is advanced once, with DONE iff exit code 0 *)
Definition ok_target (res : list (Z * option Z)) (adv : list (Z * tgt)) : bool :=
  all2 (fun (r : Z * option Z) (a : Z * tgt) => (fst r =? fst a)
                       && tgt_eqb (snd a) (match snd r with Some 0 => TDone | _ => TFailed end))
           res adv.

Definition pad (n : nat) : list bool := repeat true n.

(* clause order: disjoint accounting quiescent_free each_once target_state
                 routing forwarding truthful env_python env_process stdio *)
Definition c20_worker_row (nc ng : nat) (ops : list wop) (evs : list wev)
  (fin : wfinal) (adv : list (Z * tgt)) : list bool :=
  let '(st, mevs) := wrun (winit nc ng) ops in
  [ eqb_list wev_eqb mevs evs
    && bm_eqb (w_cb st) (fst (fst fin)) && bm_eqb (w_gb st) (snd (fst fin))
    && zl_eqb (map u_pid (w_pool st)) (snd fin)
    && eqb_list (eqb_prod Z.eqb tgt_eqb)
         (map (fun r => (fst r, target_of (fst r, None, snd r))) (results_of mevs)) adv;
    ok_disjoint nc ng [] evs;
    ok_accounting nc ng [] evs;
    ok_quiescent fin;
    ok_once nc ng ops evs;
    ok_target (results_of evs) adv ] ++ pad 6.

(* ========================================================================== *)
(* master clauses                                                              *)
(* ========================================================================== *)
Definition count_occ_adv (u : Z) (evs : list mev) : Z :=
  Z.of_nat (length (filter (Z.eqb u)
    (concat (map (fun e => match e with
                           | MAdvance us S_STAGING_OUTPUT_PENDING true true => us
                           | _ => [] end) evs)))).

Definition ok_mresult (ts : list rtask) (tg : list (Z * tgt)) (evs : list mev) : bool :=
  all2 (fun (t : rtask) (a : Z * tgt) => let '(u, pre, code) := t in
              (u =? fst a)
              && tgt_eqb (snd a)
                   (match pre with
                    | Some s => s
                    | None => match code with Some 0 => TDone | _ => TFailed end
                    end)) ts tg
  && forallb (fun t => count_occ_adv (fst (fst t)) evs
                       =? Z.of_nat (length (filter (fun t' => fst (fst t') =? fst (fst t)) ts))) ts.

Definition c20_mresult_row (sd : sdata) (ts : list rtask)
  (osd : sdata) (otg : list (Z * tgt)) (oevs : list mev) : list bool :=
  let '(msd, mtg, mevs) := master_result sd ts in
  [ eqb_list (eqb_prod Z.eqb (eqb_prod Z.eqb Bool.eqb)) msd osd
    && eqb_list (eqb_prod Z.eqb tgt_eqb) mtg otg && eqb_list mev_eqb mevs oevs ]
  ++ pad 4 ++ [ ok_mresult ts otg oevs ] ++ pad 6.

Definition agent_path (evs : list mev) : list Z :=
  concat (map (fun e => match e with MAdvance us S_STAGING_INPUT_PENDING _ true => us | _ => [] end) evs).
Definition worker_path (evs : list mev) : list Z :=
  concat (map (fun e => match e with MReqPut us => us | _ => [] end) evs).
Definition countZ (u : Z) (l : list Z) : Z := Z.of_nat (length (filter (Z.eqb u) l)).

(* executable requests go to the pilot's normal execution path (flagged
   raptor_seen when they arrived through _request_cb), all others to the
   workers' request queue; each exactly once *)
Definition ok_routing (via_request : bool) (ts : list itask) (seen : list Z) (evs : list mev) : bool :=
  if forallb (fun t => snd (fst t) && (negb via_request || match snd t with Some _ => true | None => false end)) ts
     && nodupb (map i_uid ts)
  then forallb (fun t =>
         let u := i_uid t in
         if is_executable (submit_mode t)
         then (countZ u (agent_path evs) =? 1) && (countZ u (worker_path evs) =? 0)
              && (negb via_request || memZ u seen)
         else (countZ u (agent_path evs) =? 0) && (countZ u (worker_path evs) =? 1)
              && negb (memZ u seen)) ts
  else true.

Definition c20_mrequest_row (ts : list itask) (oseen : list Z) (oevs : list mev) : list bool :=
  let '(seen, evs) := master_request ts in
  [ zl_eqb seen oseen && eqb_list mev_eqb evs oevs ] ++ pad 5 ++ [ ok_routing true ts oseen oevs ] ++ pad 5.

Definition c20_msubmit_row (ts : list itask) (oevs : list mev) : list bool :=
  [ eqb_list mev_eqb (match submit_tasks ts with inl e => [MRaise e] | inr evs => evs end) oevs ]
  ++ pad 5 ++ [ ok_routing false ts [] oevs ] ++ pad 5.

(* ========================================================================== *)
(* scheduler forwarding clause                                                 *)
(* ========================================================================== *)
Definition s_uid (t : stask) : Z := fst (fst (fst t)).
Definition incoming_of (ops : list sop) : list stask :=
  concat (map (fun o => match o with SIncoming ts => ts | _ => [] end) ops).
Definition put_uids (evs : list sev) : list Z :=
  concat (map (fun e => match e with SPut _ us => us | _ => [] end) evs).
Definition local_uids (evs : list sev) : list Z :=
  concat (map (fun e => match e with SLocal us => us | _ => [] end) evs).
Definition fail_uids (evs : list sev) : list Z :=
  concat (map (fun e => match e with SFail u => [u] | _ => [] end) evs).
Definition cancel_uids (evs : list sev) : list Z :=
  concat (map (fun e => match e with SCancel us => us | _ => [] end) evs).
Definition backlog_uids (b : list (Z * list Z)) : list Z := concat (map snd b).
Definition put_to (u : Z) (evs : list sev) : list Z :=
  concat (map (fun e => match e with SPut n us => if memZ u us then [n] else [] | _ => [] end) evs).

(* every incoming task is accounted for exactly once: scheduled locally,
   forwarded to one raptor queue, kept in the backlog, failed because its
   raptor went away, or canceled; tasks without raptor id / already seen by
   raptor / raptor workers are scheduled locally, the others are not; a task
   naming a raptor is only ever forwarded to that raptor *)
Definition ok_forwarding (ops : list sop) (evs : list sev) (backlog : list (Z * list Z)) : bool :=
  let ts := incoming_of ops in
  if nodupb (map s_uid ts) then
    forallb (fun t =>
      let '(u, rid, is_worker, seen) := t in
      let local := match rid with Some _ => is_worker || seen | None => true end in
      (countZ u (local_uids evs) + countZ u (put_uids evs) + countZ u (fail_uids evs)
       + countZ u (cancel_uids evs) + countZ u (backlog_uids backlog) =? 1)
      && (if local then countZ u (local_uids evs) =? 1 else countZ u (local_uids evs) =? 0)
      && match rid with
         | Some n => (n =? 0) || forallb (Z.eqb n) (put_to u evs)
         | None => true
         end) ts
  else true.

Definition c20_sched_row (q0 : list Z) (ops : list sop) (oevs : list sev)
  (oq : list Z) (ob : list (Z * list Z)) (og : list Z) : list bool :=
  let '(st, evs) := srun (mkS q0 [] []) ops in
  [ eqb_list sev_eqb evs oevs && zl_eqb (s_queues st) oq
    && forallb (fun g => memZ g og) (s_gone st) && forallb (fun g => memZ g (s_gone st)) og
    && eqb_list (eqb_prod Z.eqb zl_eqb) (s_backlog st) ob ]
  ++ pad 6 ++ [ ok_forwarding ops oevs ob ] ++ pad 4.

(* ========================================================================== *)
(* dispatcher clauses                                                          *)
(* ========================================================================== *)
Definition universe : list Z := [0; 1; 2; 3; 4; 5].
Definition view (e : env) : list (option Z) := map (fun k => elookup k e) universe.
Definition view_eqb := eqb_list oz_eqb.

(* observation after one request: result, os.environ view, process
   environment view, os.environ still the write-through mapping, stdio restored *)
Definition dobs := (dres * list (option Z) * list (option Z) * bool * bool)%type.

(* specification of one request's answer: the payload runs in the worker's
   ORIGINAL environment plus its own description.environment *)
Definition expected (tenv : env) (w0 : world) (r : dreq) : dres :=
  let '(m, denv, p) := r in
  match m with
  | DProc | DShell =>
      match denv with
      | None => mkRes None [] (Some 0) 1 None true
      | Some de =>
          let '(out, err) := run_sub (p_acts p) (fold_left (fun a kv => eset (fst kv) (snd kv) a) de tenv) [] [] in
          mkRes (Some out) err None (match p_fin p with FReturn _ => 0 | FRaise m => m end) None false
      end
  | _ =>
      let '(_, out, err) := run_acts (p_acts p)
            (w_update (match denv with Some e => e | None => [] end) w0) [] [] in
      match p_fin p with
      | FReturn v => mkRes (Some out) err None 0 (Some v) false
      | FRaise m => mkRes (Some out) err (Some m) 1 None true
      end
  end.

Definition succeeded (r : dreq) : bool :=
  let '(m, denv, p) := r in
  match m with
  | DProc | DShell => match denv, p_fin p with Some _, FReturn _ => true | Some _, FRaise x => x =? 0 | None, _ => false end
  | _ => match p_fin p with FReturn _ => true | FRaise _ => false end
  end.

Definition ok_truthful (tenv : env) (w0 : world) (rs : list dreq) (obs : list dobs) : bool :=
  all2 (fun (r : dreq) (o : dobs) =>
    let res := fst (fst (fst (fst o))) in
    Bool.eqb (d_ret res =? 0) (succeeded r) && dres_eqb res (expected tenv w0 r)) rs obs.

Definition c20_dispatch_row (tenv : env) (e0 : env) (bnd : bool) (rs : list dreq)
  (obs : list dobs) : list bool :=
  let w0 := mkWorld e0 e0 bnd in
  [ all2 (fun (m : dres * world) (o : dobs) =>
       let '(res, py, pr, b, _) := o in
       dres_eqb (fst m) res && view_eqb (view (py_env (snd m))) py
       && view_eqb (view (pr_env (snd m))) pr && Bool.eqb (bound (snd m)) b)
     (drun tenv w0 rs) obs ]
  ++ pad 7 ++
  [ ok_truthful tenv w0 rs obs;
    forallb (fun o : dobs => view_eqb (snd (fst (fst (fst o)))) (view e0)) obs;
    forallb (fun o : dobs => view_eqb (snd (fst (fst o))) (view e0) && Bool.eqb (snd (fst o)) bnd) obs;
    forallb (fun o : dobs => snd o) obs ].

(* ========================================================================== *)
(* the process wrapper: exactly one result, exit code 0 iff the payload returned *)
(* ========================================================================== *)
Definition c20_procend_row (e : pend) (obs : list (Z * bool)) : list bool :=
  [ eqb_list (eqb_prod Z.eqb Bool.eqb) (proc_results e) obs ] ++ pad 3 ++
  [ match obs with [_] => true | _ => false end ] ++ pad 3 ++
  [ match obs with
    | [(ret, exc)] => Bool.eqb (ret =? 0) (match e with PReturn => true | _ => false end)
                      && Bool.eqb exc (negb (ret =? 0))
    | _ => true
    end ] ++ pad 3.
