(* Two-thread linearizability rows for C20: the outcome observed when two real
   threads run two operations concurrently (one held in the middle) must be the
   outcome of the sequential model (Raptor.Model) in one of the two orders; the
   property clauses judge the observed outcome itself. *)
From Coq Require Import ZArith List Bool.
From RP Require Import Common.Eqb Raptor.Model Raptor.Oracle.
Import ListNotations.
Open Scope Z_scope.

(* insertion sort by a Z key *)
Fixpoint insert_by {A} (key : A -> Z) (x : A) (l : list A) : list A :=
  match l with
  | [] => [x]
  | y :: r => if key x <=? key y then x :: y :: r else y :: insert_by key x r
  end.
Definition isort {A} (key : A -> Z) (l : list A) : list A := fold_right (insert_by key) [] l.

(* ---- worker ---- *)
(* what is left when both threads are done: the occupancy maps, the running
   requests (uid, cores, gpus) by uid, the results handed back (uid, exit code,
   exception) by uid, and the exceptions that escaped *)
Definition outcome := (bitmap * bitmap * list (Z * list Z * list Z)
                       * list (Z * option Z * bool) * list rerr)%type.

Definition ev_errs (evs : list wev) : list rerr :=
  concat (map (fun e => match e with EvRaise _ x => [x] | EvStuck => [OtherError] | _ => [] end) evs).
Definition ev_results (evs : list wev) : list (Z * option Z * bool) :=
  concat (map (fun e => match e with EvResult u c x _ _ => [(u, c, x)] | _ => [] end) evs).

Definition outcome_of (r : wst * list wev) : outcome :=
  let '(st, evs) := r in
  (w_cb st, w_gb st,
   isort (fun x => fst (fst x)) (map (fun u => (u_uid u, u_cores u, u_gpus u)) (w_pool st)),
   isort (fun x => fst (fst x)) (ev_results evs),
   ev_errs evs).

Definition outcome_eqb (a b : outcome) : bool :=
  let '(c1, g1, r1, s1, e1) := a in
  let '(c2, g2, r2, s2, e2) := b in
  bm_eqb c1 c2 && bm_eqb g1 g2
  && eqb_list (eqb_prod (eqb_prod Z.eqb zl_eqb) zl_eqb) r1 r2
  && eqb_list (eqb_prod (eqb_prod Z.eqb oz_eqb) Bool.eqb) s1 s2
  && eqb_list rerr_eqb e1 e2.

Definition o_cores (o : outcome) : list Z :=
  let '(_, _, r, _, _) := o in concat (map (fun x => snd (fst x)) r).
Definition o_gpus (o : outcome) : list Z :=
  let '(_, _, r, _, _) := o in concat (map (fun x => snd x) r).

(* no core / GPU is held twice by the requests left running; all are the worker's *)
Definition lin_disjoint (nc ng : nat) (o : outcome) : bool :=
  nodupb (o_cores o) && nodupb (o_gpus o) && in_range nc (o_cores o) && in_range ng (o_gpus o).
(* the maps mark exactly what the requests left running hold *)
Definition lin_accounting (nc ng : nat) (o : outcome) : bool :=
  let '(cb, gb, _, _, _) := o in
  bm_eqb cb (bm_of nc (o_cores o)) && bm_eqb gb (bm_of ng (o_gpus o)).
Definition lin_quiescent (o : outcome) : bool :=
  let '(cb, gb, r, _, _) := o in
  match r with [] => all_free cb && all_free gb | _ => true end.
(* every request is running or came back exactly once; nothing raised *)
Definition lin_once (uids : list Z) (o : outcome) : bool :=
  let '(_, _, r, s, e) := o in
  match e with [] => true | _ => false end
  && forallb (fun u => countZ u (map (fun x => fst (fst x)) r)
                       + countZ u (map (fun x => fst (fst x)) s) =? 1) uids
  && forallb (fun x => memZ (fst (fst x)) uids) s.

Definition c20_wlin_row (nc ng : nat) (prefix : list wop) (a b : wop) (obs : outcome) : list bool :=
  let uids := map q_uid (requests_of (prefix ++ [a; b])) in
  [ outcome_eqb (outcome_of (wrun (winit nc ng) (prefix ++ [a; b]))) obs
    || outcome_eqb (outcome_of (wrun (winit nc ng) (prefix ++ [b; a]))) obs;
    lin_disjoint nc ng obs; lin_accounting nc ng obs; lin_quiescent obs; lin_once uids obs ] ++ pad 7.

Definition wlin_show (nc ng : nat) (prefix : list wop) (a b : wop) :=
  (outcome_of (wrun (winit nc ng) (prefix ++ [a; b])), outcome_of (wrun (winit nc ng) (prefix ++ [b; a]))).

(* ---- master: _result_cb from two threads ---- *)
Definition sd_sorted (sd : sdata) : sdata := isort fst sd.
Definition tg_sorted (t : list (Z * tgt)) := isort fst t.

Definition c20_mlin_results_row (sd : sdata) (ta tb : list rtask)
  (osd : sdata) (otg : list (Z * tgt)) (oadv : list Z) (errs : list rerr) : list bool :=
  let '(msd, mtg, _) := master_result sd (ta ++ tb) in
  [ (* both orders give the same service data, targets and set of advanced uids *)
    eqb_list (eqb_prod Z.eqb (eqb_prod Z.eqb Bool.eqb)) (sd_sorted msd) osd
    && eqb_list (eqb_prod Z.eqb tgt_eqb) (tg_sorted mtg) otg
    && zl_eqb (isort (fun x => x) (map (fun t => fst (fst t)) (ta ++ tb))) oadv
    && match errs with [] => true | _ => false end ]
  ++ pad 3 ++
  [ (* each_once: every returning task advanced exactly once *)
    forallb (fun t : rtask => countZ (fst (fst t)) oadv =? 1) (ta ++ tb) && (length oadv =? length (ta ++ tb))%nat;
    (* target_state *)
    all2 (fun (t : rtask) (a : Z * tgt) => let '(u, pre, code) := t in
            (u =? fst a) && tgt_eqb (snd a)
              (match pre with Some s => s | None => match code with Some 0 => TDone | _ => TFailed end end))
         (isort (fun t : rtask => fst (fst t)) (ta ++ tb)) otg ]
  ++ pad 6.

(* ---- master: _run_task against the _result_cb that answers it ---- *)
Definition c20_mlin_runtask_row (code : option Z) (sd_left : Z) (returned : bool)
  (target : option tgt) (value_ok : bool) (advanced : Z) (errs : list rerr) : list bool :=
  let want := target_of (1, None, code) in
  [ (sd_left =? 0) && returned && eqb_option tgt_eqb target (Some want) && value_ok && (advanced =? 1)
    && match errs with [] => true | _ => false end ]
  ++ pad 3 ++ [ returned && (advanced =? 1) && (sd_left =? 0);
                eqb_option tgt_eqb target (Some (match code with Some 0 => TDone | _ => TFailed end)) ]
  ++ pad 6.

(* ---- master: the worker table ---- *)
Inductive wstat := WNew | WActive | WDone.
Inductive wtop := WRegister (u : Z) | WUnregister (u : Z) | WStateDone (u : Z) | WHeartbeat (u : Z)
              | WSubmit (u : Z).

Definition wstat_eqb (a b : wstat) : bool :=
  match a, b with WNew, WNew | WActive, WActive | WDone, WDone => true | _, _ => false end.

Fixpoint wt_has (u : Z) (t : list (Z * wstat)) : bool :=
  match t with [] => false | (k, _) :: r => (k =? u) || wt_has u r end.
Fixpoint wt_set (u : Z) (s : wstat) (t : list (Z * wstat)) : list (Z * wstat) :=
  match t with
  | [] => []
  | (k, x) :: r => if k =? u then (k, s) :: r else (k, x) :: wt_set u s r
  end.

(* Master.control_cb (worker_register / worker_unregister / worker_rank_heartbeat)
   and Master._state_cb ('update' to AGENT_STAGING_OUTPUT) on self._workers *)
Definition wt_step (t : list (Z * wstat)) (o : wtop) : list (Z * wstat) :=
  match o with
  | WRegister u => wt_set u WActive (if wt_has u t then t else t ++ [(u, WNew)])
  | WUnregister u => if wt_has u t then wt_set u WDone t else t
  | WStateDone u => if wt_has u t then wt_set u WDone t else t
  | WHeartbeat _ => t
  | WSubmit u =>        (* Master.submit_workers: self._workers[uid] = {status: NEW, ...} *)
      if wt_has u t then wt_set u WNew t else t ++ [(u, WNew)]
  end.
Definition wt_run (t : list (Z * wstat)) (ops : list wtop) : list (Z * wstat) :=
  isort fst (fold_left wt_step ops t).

Definition wt_eqb := eqb_list (eqb_prod Z.eqb wstat_eqb).

Definition c20_mlin_table_row (t : list (Z * wstat)) (a b : wtop) (obs : list (Z * wstat))
  (errs : list rerr) : list bool :=
  [ (wt_eqb (wt_run t [a; b]) obs || wt_eqb (wt_run t [b; a]) obs)
    && match errs with [] => true | _ => false end ] ++ pad 11.

(* ---- master: one heartbeat pass against a table write ----
   the pass does not change the table; it asks for termination (and the cancel
   of the tasks) of exactly the workers whose heartbeat was stale before -- a
   worker that registers or is submitted meanwhile has fresh heartbeats --
   and the heartbeat thread survives *)
Definition c20_mlin_hb_row (t : list (Z * wstat)) (stale : list Z) (b : wtop)
  (otab : list (Z * wstat)) (oterm ocanc : list Z) (alive : bool) (errs : list rerr) : list bool :=
  [ wt_eqb (wt_run t [b]) otab && zl_eqb (isort (fun x => x) stale) oterm && zl_eqb oterm ocanc
    && alive && match errs with [] => true | _ => false end ] ++ pad 11.
