(* Executable model of radical.pilot's raptor request accounting:
     raptor/worker_default.py : DefaultWorker._alloc / _dealloc / _request_cb / _result_cb
     raptor/master.py         : Master._result_cb, _request_cb, _submit_tasks (+ _submit_*_tasks)
     raptor/worker.py         : Worker._dispatch_func/_eval/_exec (python payloads),
                                _dispatch_proc/_shell (sub-process payloads)
     agent/scheduler/base.py  : raptor branch of _schedule_incoming, control_cb
                                register/unregister_raptor_queue, cancel of the backlog
   Definitions only (no proofs), mirroring the code branch by branch. *)
From Coq Require Import ZArith List Bool.
Import ListNotations.
Open Scope Z_scope.

Inductive rerr := AssertionError | KeyError | IndexError | ValueError | OtherError.

(* ========================================================================== *)
(* 1. worker-local occupancy: self._resources['cores'|'gpus']                  *)
(* ========================================================================== *)
Definition bitmap := list bool.          (* true = 1 = busy *)

Definition count_free (bm : bitmap) : Z := Z.of_nat (length (filter negb bm)).

(* the loop
     for n in range(N): if not res[n]: res[n] = 1; alloc.append(n);
                                        if len(alloc) == want: break
   `rem` = want - len(alloc); a value that never reaches 1 (want <= 0) never
   breaks: every free entry is taken. *)
Fixpoint grab (rem idx : Z) (bm : bitmap) : bitmap * list Z :=
  match bm with
  | [] => ([], [])
  | true :: r => let '(r', l) := grab rem (idx + 1) r in (true :: r', l)
  | false :: r =>
      if rem =? 1 then (true :: r, [idx])
      else let '(r', l) := grab (rem - 1) (idx + 1) r in (true :: r', idx :: l)
  end.

(* `if cores:` / `if gpus:` guard *)
Definition take (want : Z) (bm : bitmap) : bitmap * list Z :=
  if want =? 0 then (bm, []) else grab want 0 bm.

(* DefaultWorker._alloc: inl = the assert raised; inr None = returned False *)
Definition alloc (cb gb : bitmap) (cores gpus : Z)
  : rerr + option (bitmap * bitmap * list Z * list Z) :=
  if negb (1 <=? cores) then inl AssertionError
  else if negb (cores <=? Z.of_nat (length cb)) then inl AssertionError
  else if negb (gpus <=? Z.of_nat (length gb)) then inl AssertionError
  else if count_free cb <? cores then inr None
  else if count_free gb <? gpus then inr None
  else let '(cb', lc) := take cores cb in
       let '(gb', lg) := take gpus gb in
       inr (Some (cb', gb', lc, lg)).

Fixpoint set_at (i : nat) (v : bool) (bm : bitmap) : bitmap :=
  match bm, i with
  | [], _ => []
  | _ :: r, O => v :: r
  | b :: r, S k => b :: set_at k v r
  end.

(* for n in l: assert res[n]; res[n] = 0      (python index semantics) *)
Fixpoint release (l : list Z) (bm : bitmap) : bitmap * option rerr :=
  match l with
  | [] => (bm, None)
  | n :: r =>
      let len := Z.of_nat (length bm) in
      let i := if n <? 0 then n + len else n in
      if (i <? 0) || (len <=? i) then (bm, Some IndexError)
      else if nth (Z.to_nat i) bm false
           then release r (set_at (Z.to_nat i) false bm)
           else (bm, Some AssertionError)
  end.

(* ========================================================================== *)
(* 2. DefaultWorker._request_cb / _result_cb bookkeeping                       *)
(* ========================================================================== *)
Record run := mkRun { u_uid : Z; u_pid : Z; u_cores : list Z; u_gpus : list Z }.

Record wst := mkW { w_cb : bitmap; w_gb : bitmap; w_pool : list run; w_pid : Z }.

(* what the worker is seen to do: a process started for a request (with the
   slots it was given and the occupancy at that moment), a result put on the
   result queue (exit code None = key absent), an exception escaping
   _request_cb (ctx 0) or _result_cb in the watcher thread (ctx 1), and a
   request thread spinning forever in `while not self._alloc(task)` *)
Inductive wev :=
| EvStart  (uid pid : Z) (cores gpus : list Z) (cb gb : bitmap)
| EvResult (uid : Z) (code : option Z) (exc : bool) (cb gb : bitmap)
| EvRaise  (ctx : Z) (e : rerr)
| EvStuck.

Record req := mkReq { q_uid : Z; q_cores : option Z; q_gpus : option Z; q_startfail : bool }.

(* a completion chosen by the environment: which running request (index
   modulo the pool size, in start order), exit code, exception present *)
Definition pick := (Z * Z * bool)%type.

Inductive wop :=
| OReq   (batch : list req) (picks : list pick)   (* _request_cb(batch); picks = completions arriving while it waits *)
| OFin   (p : pick)                               (* _result_cb for a running request *)
| OStale (pid : Z).                               (* _result_cb for a pid that is not in the pool *)

Fixpoint pool_remove (pid : Z) (pool : list run) : option (run * list run) :=
  match pool with
  | [] => None
  | r :: rest =>
      if u_pid r =? pid then Some (r, rest)
      else match pool_remove pid rest with
           | None => None
           | Some (x, rest') => Some (x, r :: rest')
           end
  end.

(* DefaultWorker._result_cb([task, out, err, ret, val, exc]) with task['pid'] = pid *)
Definition result_cb (st : wst) (pid code : Z) (exc : bool) : wst * list wev :=
  match pool_remove pid (w_pool st) with
  | None => (st, [EvRaise 1 KeyError])                    (* del self._pool[pid] *)
  | Some (r, pool') =>
      let '(cb', e1) := release (u_cores r) (w_cb st) in
      match e1 with
      | Some e => (mkW cb' (w_gb st) pool' (w_pid st), [EvRaise 1 e])
      | None =>
          let '(gb', e2) := release (u_gpus r) (w_gb st) in
          match e2 with
          | Some e => (mkW cb' gb' pool' (w_pid st), [EvRaise 1 e])
          | None => (mkW cb' gb' pool' (w_pid st),
                     [EvResult (u_uid r) (Some code) exc cb' gb'])
          end
      end
  end.

Definition complete (st : wst) (p : pick) : wst * list wev :=
  let '(k, code, exc) := p in
  match w_pool st with
  | [] => (st, [])
  | r0 :: _ =>
      let r := nth (Z.to_nat (k mod Z.of_nat (length (w_pool st)))) (w_pool st) r0 in
      result_cb st (u_pid r) code exc
  end.

Definition pop_pick (ps : list pick) : pick * list pick :=
  match ps with [] => ((0, 0, false), []) | p :: r => (p, r) end.

Inductive wait_out :=
| WA_Ok (st : wst) (evs : list wev) (ps : list pick) (lc lg : list Z)
| WA_Err (e : rerr) (st : wst) (evs : list wev) (ps : list pick)
| WA_Stuck (st : wst) (evs : list wev)
| WA_Fuel.

(* while not self._alloc(task): time.sleep(0.01)
   while this thread sleeps, the result watcher thread completes running
   requests (one per sleep, chosen by `picks`); with nothing running the loop
   never ends *)
Fixpoint wait_alloc (fuel : nat) (st : wst) (cores gpus : Z) (ps : list pick)
  : wait_out :=
  match alloc (w_cb st) (w_gb st) cores gpus with
  | inl e => WA_Err e st [] ps
  | inr (Some (cb', gb', lc, lg)) =>
      WA_Ok (mkW cb' gb' (w_pool st) (w_pid st)) [] ps lc lg
  | inr None =>
      match fuel with
      | O => WA_Fuel
      | S f =>
          match w_pool st with
          | [] => WA_Stuck st []
          | _ =>
              let '(p, ps') := pop_pick ps in
              let '(st', evs) := complete st p in
              match wait_alloc f st' cores gpus ps' with
              | WA_Ok s e q lc lg => WA_Ok s (evs ++ e) q lc lg
              | WA_Err x s e q => WA_Err x s (evs ++ e) q
              | WA_Stuck s e => WA_Stuck s (evs ++ e)
              | WA_Fuel => WA_Fuel
              end
          end
      end
  end.

Definition dflt (d : Z) (o : option Z) : Z := match o with Some x => x | None => d end.

(* DefaultWorker._request_cb(batch); the boolean says whether the loop ran to
   its end (false: an exception escaped or the thread is stuck -- the rest of
   the batch is never looked at) *)
Fixpoint request_cb (st : wst) (batch : list req) (ps : list pick)
  : wst * list wev * bool :=
  match batch with
  | [] => (st, [], true)
  | q :: rest =>
      match wait_alloc (S (length (w_pool st))) st
                       (dflt 1 (q_cores q)) (dflt 0 (q_gpus q)) ps with
      | WA_Fuel => (st, [EvRaise 0 OtherError], false)
      | WA_Stuck st' evs => (st', evs ++ [EvStuck], false)
      | WA_Err _ st' evs _ =>
          (* except Exception: self._dealloc(task) -> task['slots'] : KeyError *)
          (st', evs ++ [EvRaise 0 KeyError], false)
      | WA_Ok st' evs ps' lc lg =>
          if q_startfail q then
            (* proc.start() raised: free resources again, report the exception *)
            let '(cb', e1) := release lc (w_cb st') in
            match e1 with
            | Some e => (mkW cb' (w_gb st') (w_pool st') (w_pid st'), evs ++ [EvRaise 0 e], false)
            | None =>
                let '(gb', e2) := release lg (w_gb st') in
                match e2 with
                | Some e => (mkW cb' gb' (w_pool st') (w_pid st'), evs ++ [EvRaise 0 e], false)
                | None =>
                    let st2 := mkW cb' gb' (w_pool st') (w_pid st') in
                    let '(st3, evs3, ok) := request_cb st2 rest ps' in
                    (st3, evs ++ EvResult (q_uid q) None true cb' gb' :: evs3, ok)
                end
            end
          else
            let r := mkRun (q_uid q) (w_pid st') lc lg in
            let st2 := mkW (w_cb st') (w_gb st') (w_pool st' ++ [r]) (w_pid st' + 1) in
            let '(st3, evs3, ok) := request_cb st2 rest ps' in
            (st3, evs ++ EvStart (q_uid q) (w_pid st') lc lg (w_cb st') (w_gb st') :: evs3, ok)
      end
  end.

Definition wstep (st : wst) (o : wop) : wst * list wev :=
  match o with
  | OReq b ps => let '(st', evs, _) := request_cb st b ps in (st', evs)
  | OFin p => complete st p
  | OStale pid => result_cb st pid 0 false
  end.

Fixpoint wrun (st : wst) (ops : list wop) : wst * list wev :=
  match ops with
  | [] => (st, [])
  | o :: r => let '(st1, e1) := wstep st o in
              let '(st2, e2) := wrun st1 r in (st2, e1 ++ e2)
  end.

Definition winit (nc ng : nat) : wst := mkW (repeat false nc) (repeat false ng) [] 1000.

(* ========================================================================== *)
(* 3. Master._result_cb / _request_cb / _submit_tasks                          *)
(* ========================================================================== *)
Inductive tgt := TDone | TFailed | TCanceled.

Inductive mstate := S_STAGING_INPUT_PENDING | S_SCHEDULING | S_STAGING_OUTPUT_PENDING | S_FAILED.

(* a returning task: uid, target_state already present (None: absent/empty),
   exit_code (None: absent or None) *)
Definition rtask := (Z * option tgt * option Z)%type.

Definition target_of (t : rtask) : tgt :=
  let '(_, pre, code) := t in
  match pre with
  | Some s => s
  | None => if dflt (-1) code =? 0 then TDone else TFailed
  end.

(* _task_service_data: uid -> [event, task, (appended results ...)]; modelled
   as uid -> (number of appended results, event set) *)
Definition sdata := list (Z * (Z * bool)).

Fixpoint sd_hit (u : Z) (sd : sdata) : sdata :=
  match sd with
  | [] => []
  | (k, (n, s)) :: r => if k =? u then (k, (n + 1, true)) :: r else (k, (n, s)) :: sd_hit u r
  end.

Inductive mev :=
| MInsert  (uid : Z)
| MAdvance (uids : list Z) (s : mstate) (publish push : bool)
| MReqPut  (uids : list Z)
| MRaise   (e : rerr).

(* Master._result_cb(tasks): (service data, [(uid, target_state)], events) *)
Definition master_result (sd : sdata) (ts : list rtask) : sdata * list (Z * tgt) * list mev :=
  (fold_left (fun s t => sd_hit (fst (fst t)) s) ts sd,
   map (fun t => (fst (fst t), target_of t)) ts,
   [MAdvance (map (fun t => fst (fst t)) ts) S_STAGING_OUTPUT_PENDING true true]).

Inductive mode := MExecutable | MFunc | MMeth | MEval | MExec | MProc | MShell | MOtherMode.

Definition is_executable (m : mode) : bool := match m with MExecutable => true | _ => false end.

(* an incoming task: uid, has 'description', mode key (None: key absent) *)
Definition itask := (Z * bool * option mode)%type.
Definition i_uid (t : itask) : Z := fst (fst t).

Definition submit_mode (t : itask) : mode :=         (* .get('mode', TASK_EXECUTABLE) *)
  match snd t with Some m => m | None => MExecutable end.

(* Master._submit_tasks: inl = assert 'description' in task *)
Definition submit_tasks (ts : list itask) : rerr + list mev :=
  match ts with
  | [] => inr []
  | _ =>
    if negb (forallb (fun t => snd (fst t)) ts) then inl AssertionError
    else
      let ex := filter (fun t => is_executable (submit_mode t)) ts in
      let ra := filter (fun t => negb (is_executable (submit_mode t))) ts in
      inr ((match ex with
            | [] => []
            | _ => map (fun t => MInsert (i_uid t)) ex
                   ++ [MAdvance (map i_uid ex) S_STAGING_INPUT_PENDING true true]
            end)
           ++
           (match ra with
            | [] => []
            | _ => [MAdvance (map i_uid ra) S_SCHEDULING true false; MReqPut (map i_uid ra)]
            end))
  end.

(* the loop of Master._request_cb that flags executable tasks:
   task['description']['mode'] raises KeyError when either key is missing *)
Fixpoint mscan (l : list itask) (seen : list Z) : list Z * bool :=
  match l with
  | [] => (seen, true)
  | t :: r =>
      if negb (snd (fst t)) then (seen, false)
      else match snd t with
           | None => (seen, false)
           | Some m => mscan r (if is_executable m then seen ++ [i_uid t] else seen)
           end
  end.

(* Master._request_cb(tasks): (uids flagged raptor_seen, events) *)
Definition master_request (ts : list itask) : list Z * list mev :=
  let '(seen, ok) := mscan ts [] in
  if negb ok then (seen, [MRaise KeyError])
  else match submit_tasks ts with
       | inr evs => (seen, evs)
       | inl _ => (seen, [MAdvance (map i_uid ts) S_FAILED true false])
       end.

(* ========================================================================== *)
(* 4. the dispatchers                                                          *)
(* ========================================================================== *)
Definition env := list (Z * Z).                     (* key -> value *)

Fixpoint elookup (k : Z) (e : env) : option Z :=
  match e with [] => None | (a, v) :: r => if a =? k then Some v else elookup k r end.
Fixpoint eremove (k : Z) (e : env) : env :=
  match e with [] => [] | (a, v) :: r => if a =? k then eremove k r else (a, v) :: eremove k r end.
Definition eset (k v : Z) (e : env) : env := (k, v) :: eremove k e.

(* python-level os.environ, process-level environment (putenv/unsetenv), and
   whether os.environ still is the os._Environ mapping that writes through *)
Record world := mkWorld { py_env : env; pr_env : env; bound : bool }.

Definition w_set (k v : Z) (w : world) : world :=
  mkWorld (eset k v (py_env w)) (if bound w then eset k v (pr_env w) else pr_env w) (bound w).
Definition w_del (k : Z) (w : world) : world :=        (* os.environ.pop(k, None) *)
  match elookup k (py_env w) with
  | None => w
  | Some _ => mkWorld (eremove k (py_env w))
                      (if bound w then eremove k (pr_env w) else pr_env w) (bound w)
  end.
(* os.environ.update(e) / for k, v in e.items(): os.environ[k] = v.  A dict
   has each key once, so the order of application is immaterial; applying the
   list back to front makes the first binding of a key win, as in elookup. *)
Definition w_update (e : env) (w : world) : world :=
  fold_right (fun kv a => w_set (fst kv) (snd kv) a) w e.
Definition w_clear (w : world) : world :=              (* os.environ.clear() *)
  mkWorld [] (if bound w then fold_left (fun a kv => eremove (fst kv) a) (py_env w) (pr_env w)
              else pr_env w) (bound w).

Inductive act := APrint (t : Z) | AErr (t : Z) | ASet (k v : Z) | ADel (k : Z) | AEcho (k : Z).
Inductive fin := FReturn (v : Z) | FRaise (m : Z).
Record payload := mkPayload { p_acts : list act; p_fin : fin }.

(* python payload running inside the worker process; AEcho k prints
   os.environ.get(k) (token -1 when unset) *)
Fixpoint run_acts (l : list act) (w : world) (out err : list Z) : world * list Z * list Z :=
  match l with
  | [] => (w, out, err)
  | APrint t :: r => run_acts r w (out ++ [t]) err
  | AErr t :: r => run_acts r w out (err ++ [t])
  | ASet k v :: r => run_acts r (w_set k v w) out err
  | ADel k :: r => run_acts r (w_del k w) out err
  | AEcho k :: r => run_acts r w (out ++ [dflt (-1) (elookup k (py_env w))]) err
  end.

(* (out, err tokens, failure suffix "\n<mode> failed: m", ret, val, exc present) *)
Record dres := mkRes { d_out : option (list Z); d_err : list Z; d_fail : option Z;
                       d_ret : Z; d_val : option Z; d_exc : bool }.

(* Worker._dispatch_func / _dispatch_eval / _dispatch_exec:
     old_env = os.environ.copy(); apply description.environment;
     capture stdio; run; finally: restore stdio;
     os.environ.clear(); os.environ.update(old_env) *)
Definition dispatch_py (denv : env) (p : payload) (w : world) : dres * world :=
  let old := py_env w in
  let w1 := w_update denv w in
  let '(w2, out, err) := run_acts (p_acts p) w1 [] [] in
  let res := match p_fin p with
             | FReturn v => mkRes (Some out) err None 0 (Some v) false
             | FRaise m => mkRes (Some out) err (Some m) 1 None true
             end in
  (res, w_update old (w_clear w2)).

(* shell payload in a child process with env = task_env + description.environment *)
Fixpoint run_sub (l : list act) (e : env) (out err : list Z) : list Z * list Z :=
  match l with
  | [] => (out, err)
  | APrint t :: r => run_sub r e (out ++ [t]) err
  | AErr t :: r => run_sub r e out (err ++ [t])
  | ASet k v :: r => run_sub r (eset k v e) out err
  | ADel k :: r => run_sub r (eremove k e) out err
  | AEcho k :: r => run_sub r e (out ++ [dflt (-1) (elookup k e)]) err
  end.

(* Worker._dispatch_proc / _dispatch_shell; denv = None: description has no
   'environment' key -> KeyError inside the try; FReturn _ = exit 0,
   FRaise m = exit m *)
Definition dispatch_sub (tenv : env) (denv : option env) (p : payload) (w : world) : dres * world :=
  match denv with
  | None => (mkRes None [] (Some 0) 1 None true, w)
  | Some de =>
      let e := fold_left (fun a kv => eset (fst kv) (snd kv) a) de tenv in
      let '(out, err) := run_sub (p_acts p) e [] [] in
      (mkRes (Some out) err None (match p_fin p with FReturn _ => 0 | FRaise m => m end) None false, w)
  end.

Inductive dmode := DFunc | DEval | DExec | DProc | DShell.

(* a request: mode, description.environment (None = key absent), payload *)
Definition dreq := (dmode * option env * payload)%type.

Definition dispatch (tenv : env) (r : dreq) (w : world) : dres * world :=
  let '(m, denv, p) := r in
  match m with
  | DProc | DShell => dispatch_sub tenv denv p w
  | _ => dispatch_py (match denv with Some e => e | None => [] end) p w
  end.

Fixpoint drun (tenv : env) (w : world) (rs : list dreq) : list (dres * world) :=
  match rs with
  | [] => []
  | r :: rest => let '(res, w') := dispatch tenv r w in (res, w') :: drun tenv w' rest
  end.

(* ========================================================================== *)
(* 5. the agent scheduler's raptor forwarding and backlog                      *)
(* ========================================================================== *)
(* raptor ids: 0 is '*'; queues in registration order (dict order) *)
(* s_gone: raptor masters which unregistered (self._raptor_gone) *)
Record sst := mkS { s_queues : list Z; s_backlog : list (Z * list Z); s_gone : list Z }.

(* incoming task: uid, raptor_id (None: absent/empty), mode is RAPTOR_WORKER, raptor_seen *)
Definition stask := (Z * option Z * bool * bool)%type.

Inductive sev :=
| SPut (name : Z) (uids : list Z)
| SLocal (uids : list Z)
| SFail (uid : Z)
| SCancel (uids : list Z).

Inductive sop :=
| SIncoming (ts : list stask)
| SRegister (name : Z)
| SUnregister (name : Z)
| SCancelOp (uids : list Z).

Fixpoint blookup (k : Z) (b : list (Z * list Z)) : option (list Z) :=
  match b with [] => None | (a, v) :: r => if a =? k then Some v else blookup k r end.
Fixpoint bremove (k : Z) (b : list (Z * list Z)) : list (Z * list Z) :=
  match b with [] => [] | (a, v) :: r => if a =? k then r else (a, v) :: bremove k r end.
(* d[k] = v / d[k] += v : position kept when present, appended otherwise *)
Fixpoint badd (k : Z) (v : list Z) (b : list (Z * list Z)) : list (Z * list Z) :=
  match b with
  | [] => [(k, v)]
  | (a, x) :: r => if a =? k then (a, x ++ v) :: r else (a, x) :: badd k v r
  end.

Definition memZ (x : Z) (l : list Z) : bool := existsb (Z.eqb x) l.

(* defaultdict(list) grouping in first-appearance order *)
Fixpoint group_add (k u : Z) (g : list (Z * list Z)) : list (Z * list Z) :=
  match g with
  | [] => [(k, [u])]
  | (a, x) :: r => if a =? k then (a, x ++ [u]) :: r else (a, x) :: group_add k u r
  end.

Definition classify (ts : list stask) : list Z * list (Z * list Z) :=
  fold_left (fun (acc : list Z * list (Z * list Z)) (t : stask) =>
    let '(u, rid, is_worker, seen) := t in
    let '(loc, rap) := acc in
    match rid with
    | Some name => if negb is_worker
                   then (if seen then (loc ++ [u], rap) else (loc, group_add name u rap))
                   else (loc ++ [u], rap)
    | None => (loc ++ [u], rap)
    end) ts ([], []).

(* round robin: task idx goes to names[idx % n] *)
Fixpoint rr (names : list Z) (n : Z) (idx : Z) (us : list Z) : list sev :=
  match us with
  | [] => []
  | u :: r => SPut (nth (Z.to_nat (idx mod n)) names 0) [u] :: rr names n (idx + 1) r
  end.

Fixpoint forward (st : sst) (groups : list (Z * list Z)) : sst * list sev :=
  match groups with
  | [] => (st, [])
  | (name, us) :: r =>
      if memZ name (s_queues st) then
        let '(st', evs) := forward st r in (st', SPut name us :: evs)
      else if negb (match s_queues st with [] => true | _ => false end) && (name =? 0) then
        let '(st', evs) := forward st r in
        (st', rr (s_queues st) (Z.of_nat (length (s_queues st))) 0 us ++ evs)
      else if memZ name (s_gone st) then
        (* that raptor master unregistered: nobody will ever pick these up *)
        let '(st', evs) := forward st r in (st', map SFail us ++ evs)
      else
        forward (mkS (s_queues st) (badd name us (s_backlog st)) (s_gone st)) r
  end.

(* remove the uids to cancel from every backlog list (lists stay, possibly empty) *)
Definition cancel_backlog (uids : list Z) (b : list (Z * list Z)) : list (Z * list Z) * list Z :=
  (map (fun kv => (fst kv, filter (fun u => negb (memZ u uids)) (snd kv))) b,
   concat (map (fun kv => filter (fun u => memZ u uids) (snd kv)) b)).

Definition sstep (st : sst) (o : sop) : sst * list sev :=
  match o with
  | SIncoming ts =>
      let '(loc, rap) := classify ts in
      let '(st', evs) := forward st rap in
      (st', evs ++ match loc with [] => [] | _ => [SLocal loc] end)
  | SRegister name =>
      let qs := if memZ name (s_queues st) then s_queues st else s_queues st ++ [name] in
      let '(b1, e1) := match blookup name (s_backlog st) with
                       | Some us => (bremove name (s_backlog st), [SPut name us])
                       | None => (s_backlog st, @nil sev) end in
      let '(b2, e2) := match blookup 0 b1 with
                       | Some us => (bremove 0 b1, [SPut name us])
                       | None => (b1, @nil sev) end in
      (mkS qs b2 (filter (fun g => negb (g =? name)) (s_gone st)), e1 ++ e2)
  | SUnregister name =>
      let qs := filter (fun q => negb (q =? name)) (s_queues st) in
      let gn := if memZ name (s_gone st) then s_gone st else s_gone st ++ [name] in
      match blookup name (s_backlog st) with
      | Some us => (mkS qs (bremove name (s_backlog st)) gn, map SFail us)
      | None => (mkS qs (s_backlog st) gn, [])
      end
  | SCancelOp uids =>
      let '(b', c) := cancel_backlog uids (s_backlog st) in
      (mkS (s_queues st) b' (s_gone st), [SCancel c])
  end.

Fixpoint srun (st : sst) (ops : list sop) : sst * list sev :=
  match ops with
  | [] => (st, [])
  | o :: r => let '(s1, e1) := sstep st o in
              let '(s2, e2) := srun s1 r in (s2, e1 ++ e2)
  end.

(* ========================================================================== *)
(* 6. DefaultWorker._dispatch: the process wrapper around one request          *)
(* ========================================================================== *)
(* how the process that runs the payload ends: the payload returns, raises,
   leaves the interpreter (sys.exit / os._exit with a code), is killed by a
   signal, or still runs when the task's timeout expires *)
Inductive pend := PReturn | PRaise | PExit (hard : bool) (code : Z) | PKill | PTimeout.

(* results put on the worker's result queue: (exit code, exception present).
   _worker_proc reports what the dispatcher returned; _dispatch reports a
   time-out for a process it had to terminate, and a failure for a process
   that ended without reporting *)
Definition proc_results (e : pend) : list (Z * bool) :=
  match e with
  | PReturn => [(0, false)]
  | PRaise => [(1, true)]
  | PExit _ _ => [(1, true)]
  | PKill => [(1, true)]
  | PTimeout => [(1, true)]
  end.
