From Coq Require Import ZArith List Bool Lia.
From RP Require Import Raptor.Model Raptor.Oracle.
Import ListNotations.
Open Scope Z_scope.

Lemma target_done_iff : forall u code,
  target_of (u, None, code) = TDone <-> code = Some 0.
Proof.
  intros u [c|]; unfold target_of, dflt; simpl.
  - destruct (c =? 0) eqn:E; split; intro H; try discriminate; try reflexivity.
    + apply Z.eqb_eq in E; subst; reflexivity.
    + injection H as ->. discriminate.
  - split; intro H; discriminate.
Qed.
