(* Proofs about the Raptor model (C20). *)
From Coq Require Import ZArith List Bool Lia Permutation.
From RP Require Import Raptor.Model Raptor.Oracle.
Import ListNotations.
Open Scope Z_scope.

(* ========================================================================== *)
(* bitmaps                                                                     *)
(* ========================================================================== *)
Definition busy (bm : bitmap) (k : Z) : Prop :=
  0 <= k /\ nth_error bm (Z.to_nat k) = Some true.

(* the bitmap marks exactly the indices in `held`, each held once *)
Definition binv (bm : bitmap) (held : list Z) : Prop :=
  NoDup held /\ forall k, busy bm k <-> In k held.

Lemma memZ_In x l : memZ x l = true <-> In x l.
Proof.
  unfold memZ. rewrite existsb_exists. split.
  - intros [y [Hy He]]. apply Z.eqb_eq in He. subst. exact Hy.
  - intro H. exists x. split; [exact H | apply Z.eqb_refl].
Qed.

Lemma memZ_false x l : memZ x l = false <-> ~ In x l.
Proof.
  rewrite <- memZ_In. destruct (memZ x l); split; intro H; try reflexivity; try discriminate.
  exfalso; apply H; reflexivity.
Qed.

Lemma NoDup_app_intro {A} (l1 l2 : list A) :
  NoDup l1 -> NoDup l2 -> (forall x, In x l1 -> In x l2 -> False) -> NoDup (l1 ++ l2).
Proof.
  induction l1 as [|a l1 IH]; intros H1 H2 Hd; simpl; [exact H2|].
  inversion H1 as [|? ? Ha H1']; subst. constructor.
  - rewrite in_app_iff. intros [Hx|Hx]; [contradiction|]. apply (Hd a); [left; reflexivity|exact Hx].
  - apply IH; try assumption. intros x Hx1 Hx2. apply (Hd x); [right; exact Hx1|exact Hx2].
Qed.

Lemma binv_perm bm h h' : Permutation h h' -> binv bm h -> binv bm h'.
Proof.
  intros HP [Hn Hk]. split.
  - eapply Permutation_NoDup; eauto.
  - intro k. rewrite Hk. split; intro H.
    + eapply Permutation_in; eauto.
    + eapply Permutation_in; [apply Permutation_sym|]; eauto.
Qed.

Lemma grab_props : forall bm rem idx bm' l,
  grab rem idx bm = (bm', l) ->
  length bm' = length bm /\
  (forall j, In j l -> idx <= j /\ nth_error bm (Z.to_nat (j - idx)) = Some false) /\
  (forall i b, nth_error bm i = Some b ->
               nth_error bm' i = Some (b || memZ (idx + Z.of_nat i) l)) /\
  NoDup l.
Proof.
  induction bm as [|a r IH]; intros rem idx bm' l H; simpl in H.
  - injection H as <- <-. split; [reflexivity|]. split; [intros j []|].
    split; [|constructor]. intros i b Hi. destruct i; discriminate.
  - destruct a.
    + destruct (grab rem (idx + 1) r) as [r' l'] eqn:E. injection H as <- <-.
      destruct (IH _ _ _ _ E) as (Hl & Hin & Hn & Hd).
      split; [simpl; congruence|]. split; [|split; [|exact Hd]].
      * intros j Hj. destruct (Hin j Hj) as [H1 H2]. split; [lia|].
        replace (Z.to_nat (j - idx)) with (S (Z.to_nat (j - (idx + 1)))) by lia. exact H2.
      * intros i b Hi. destruct i as [|i]; cbn [nth_error] in *.
        -- injection Hi as <-. reflexivity.
        -- rewrite (Hn i b Hi). replace (idx + Z.of_nat (S i)) with (idx + 1 + Z.of_nat i) by lia. reflexivity.
    + destruct (rem =? 1) eqn:E1.
      * injection H as <- <-. split; [reflexivity|]. split; [|split].
        -- intros j [<-|[]]. split; [lia|]. replace (idx - idx) with 0 by lia. reflexivity.
        -- intros i b Hi. destruct i as [|i]; cbn [nth_error] in *.
           ++ injection Hi as <-. unfold memZ. cbn [existsb]. replace (idx + Z.of_nat 0) with idx by lia.
              rewrite Z.eqb_refl. reflexivity.
           ++ rewrite Hi. f_equal. unfold memZ. cbn [existsb].
              destruct (idx + Z.of_nat (S i) =? idx) eqn:E2; [apply Z.eqb_eq in E2; lia|].
              simpl. rewrite ?orb_false_r. reflexivity.
        -- constructor; [intros []|constructor].
      * destruct (grab (rem - 1) (idx + 1) r) as [r' l'] eqn:E. injection H as <- <-.
        destruct (IH _ _ _ _ E) as (Hl & Hin & Hn & Hd).
        split; [simpl; congruence|]. split; [|split].
        -- intros j [<-|Hj].
           ++ split; [lia|]. replace (idx - idx) with 0 by lia. reflexivity.
           ++ destruct (Hin j Hj) as [H1 H2]. split; [lia|].
              replace (Z.to_nat (j - idx)) with (S (Z.to_nat (j - (idx + 1)))) by lia. exact H2.
        -- intros i b Hi. destruct i as [|i]; cbn [nth_error] in *.
           ++ injection Hi as <-. unfold memZ. cbn [existsb]. replace (idx + Z.of_nat 0) with idx by lia.
              rewrite Z.eqb_refl. reflexivity.
           ++ rewrite (Hn i b Hi). f_equal. unfold memZ. cbn [existsb].
              destruct (idx + Z.of_nat (S i) =? idx) eqn:E2; [apply Z.eqb_eq in E2; lia|].
              cbn [orb]. replace (idx + Z.of_nat (S i)) with (idx + 1 + Z.of_nat i) by lia. reflexivity.
        -- constructor; [|exact Hd]. intro Hj. destruct (Hin idx Hj). lia.
Qed.

Lemma count_free_cons_true r : count_free (true :: r) = count_free r.
Proof. reflexivity. Qed.
Lemma count_free_cons_false r : count_free (false :: r) = count_free r + 1.
Proof. unfold count_free. simpl. lia. Qed.
Lemma count_free_le bm : 0 <= count_free bm <= Z.of_nat (length bm).
Proof.
  induction bm as [|[] r IH].
  - unfold count_free; simpl; lia.
  - rewrite count_free_cons_true. simpl length. lia.
  - rewrite count_free_cons_false. simpl length. lia.
Qed.

Lemma grab_count : forall bm rem idx,
  1 <= rem <= count_free bm -> Z.of_nat (length (snd (grab rem idx bm))) = rem.
Proof.
  induction bm as [|a r IH]; intros rem idx H.
  - unfold count_free in H; simpl in H; lia.
  - destruct a; simpl.
    + rewrite count_free_cons_true in H.
      specialize (IH rem (idx + 1) H). destruct (grab rem (idx + 1) r); simpl in *. exact IH.
    + rewrite count_free_cons_false in H. destruct (rem =? 1) eqn:E.
      * apply Z.eqb_eq in E. subst. reflexivity.
      * apply Z.eqb_neq in E.
        assert (H' : 1 <= rem - 1 <= count_free r) by lia.
        specialize (IH (rem - 1) (idx + 1) H'). destruct (grab (rem - 1) (idx + 1) r); simpl in *. lia.
Qed.

Lemma take_binv bm held want bm' l :
  binv bm held -> take want bm = (bm', l) ->
  binv bm' (l ++ held) /\ length bm' = length bm.
Proof.
  intros [Hn Hk] H. unfold take in H. destruct (want =? 0).
  - injection H as <- <-. simpl. split; [split; assumption | reflexivity].
  - destruct (grab_props _ _ _ _ _ H) as (Hl & Hin & Hnth & Hd).
    split; [|exact Hl]. split.
    + apply NoDup_app_intro; try assumption.
      intros j Hj Hh. apply Hk in Hh. destruct Hh as [_ Hb].
      destruct (Hin j Hj) as [_ Hf]. rewrite Z.sub_0_r in Hf. congruence.
    + intro k. rewrite in_app_iff. split.
      * intros [H0 Hb].
        assert (Hlt : (Z.to_nat k < length bm)%nat).
        { rewrite <- Hl. apply nth_error_Some. congruence. }
        destruct (nth_error bm (Z.to_nat k)) as [b|] eqn:Eb;
          [|apply nth_error_None in Eb; lia].
        rewrite (Hnth _ _ Eb) in Hb. injection Hb as Hb.
        apply orb_true_iff in Hb as [Hb|Hb].
        -- right. apply Hk. split; [exact H0|]. subst. exact Eb.
        -- left. apply memZ_In in Hb. rewrite ?Z.add_0_l in Hb. rewrite Z2Nat.id in Hb by lia. exact Hb.
      * intros [Hj|Hh].
        -- destruct (Hin k Hj) as [H0 Hf]. rewrite Z.sub_0_r in Hf. split; [exact H0|].
           rewrite (Hnth _ _ Hf). f_equal. cbn [orb]. apply memZ_In.
           rewrite ?Z.add_0_l. rewrite Z2Nat.id by lia. exact Hj.
        -- apply Hk in Hh. destruct Hh as [H0 Hb]. split; [exact H0|].
           rewrite (Hnth _ _ Hb). reflexivity.
Qed.

Lemma set_at_len : forall bm i v, length (set_at i v bm) = length bm.
Proof. induction bm as [|a r IH]; intros [|i] v; simpl; auto. Qed.

Lemma nth_error_set_at : forall bm i v j,
  nth_error (set_at i v bm) j =
  if Nat.eqb j i then match nth_error bm j with Some _ => Some v | None => None end
  else nth_error bm j.
Proof.
  induction bm as [|a r IH]; intros i v j.
  - destruct i, j; simpl; try reflexivity. destruct (Nat.eqb j i); reflexivity.
  - destruct i as [|i], j as [|j]; simpl; try reflexivity. apply IH.
Qed.

Lemma release_binv : forall l bm rest,
  binv bm (l ++ rest) ->
  exists bm', release l bm = (bm', None) /\ binv bm' rest /\ length bm' = length bm.
Proof.
  induction l as [|n l IH]; intros bm rest Hb.
  - exists bm. simpl. auto.
  - simpl in Hb. destruct Hb as [Hn Hk].
    assert (Hbusy : busy bm n) by (apply Hk; left; reflexivity).
    destruct Hbusy as [H0 Hnth].
    assert (Hlt : (Z.to_nat n < length bm)%nat) by (apply nth_error_Some; congruence).
    simpl. destruct (n <? 0) eqn:E0; [apply Z.ltb_lt in E0; lia|].
    destruct ((n <? 0) || (Z.of_nat (length bm) <=? n)) eqn:E1.
    { apply orb_true_iff in E1 as [E1|E1]; [congruence | apply Z.leb_le in E1; lia]. }
    rewrite (nth_error_nth _ _ false Hnth).
    inversion Hn as [|? ? Hnotin Hn']; subst.
    destruct (IH (set_at (Z.to_nat n) false bm) rest) as (bm' & Hr & Hb' & Hl').
    { split; [exact Hn'|]. intro k. unfold busy. rewrite nth_error_set_at.
      destruct (Nat.eqb (Z.to_nat k) (Z.to_nat n)) eqn:E.
      - apply Nat.eqb_eq in E. split.
        + intros [Hk0 Hx]. destruct (nth_error bm (Z.to_nat k)); discriminate.
        + intro Hin. exfalso. assert (Hb : busy bm k) by (apply Hk; right; exact Hin).
          destruct Hb as [Hk0 _]. assert (k = n) by lia. subst. contradiction.
      - apply Nat.eqb_neq in E. split.
        + intro Hb. apply Hk in Hb. destruct Hb as [->|Hb]; [congruence | exact Hb].
        + intro Hin. apply Hk. right. exact Hin. }
    exists bm'. split; [exact Hr|]. split; [exact Hb'|]. rewrite Hl'. apply set_at_len.
Qed.

(* occupancy is a function of what is held: the oracle's bm_of *)
Lemma binv_bm_of bm held : binv bm held -> bm = bm_of (length bm) held.
Proof.
  intros [_ Hk]. unfold bm_of.
  apply (nth_ext _ _ false false); [rewrite map_length, seq_length; reflexivity|].
  intros i Hi. set (f := fun i : nat => memZ (Z.of_nat i) held).
  rewrite (nth_indep (map f (seq 0 (length bm))) false (f 0%nat))
    by (rewrite map_length, seq_length; exact Hi).
  rewrite map_nth, seq_nth by exact Hi. unfold f. simpl.
  destruct (nth_error bm i) as [b|] eqn:Eb; [|apply nth_error_None in Eb; lia].
  rewrite (nth_error_nth _ _ false Eb).
  destruct b, (memZ (Z.of_nat i) held) eqn:Em; try reflexivity.
  - exfalso. apply memZ_false in Em. apply Em. apply Hk. split; [lia|]. rewrite Nat2Z.id. exact Eb.
  - exfalso. apply memZ_In in Em. apply Hk in Em. destruct Em as [_ Em].
    rewrite Nat2Z.id in Em. congruence.
Qed.

Lemma binv_unique bm1 bm2 held :
  binv bm1 held -> binv bm2 held -> length bm1 = length bm2 -> bm1 = bm2.
Proof.
  intros H1 H2 Hl. rewrite (binv_bm_of _ _ H1), (binv_bm_of _ _ H2), Hl. reflexivity.
Qed.

(* release restores the bitmap: what _alloc took, _dealloc gives back exactly *)
Lemma take_release bm held want bm' l :
  binv bm held -> take want bm = (bm', l) -> release l bm' = (bm, None).
Proof.
  intros Hb Ht. destruct (take_binv _ _ _ _ _ Hb Ht) as [Hb' Hl].
  destruct (release_binv _ _ _ Hb') as (bm'' & Hr & Hb'' & Hl'').
  rewrite Hr. f_equal. apply (binv_unique _ _ held); congruence.
Qed.

Lemma binv_free_count bm : binv bm [] -> count_free bm = Z.of_nat (length bm).
Proof.
  intros [_ Hk].
  assert (H : forall i, nth_error bm i <> Some true).
  { intros i Hi. apply (proj1 (Hk (Z.of_nat i))). split; [lia|]. rewrite Nat2Z.id. exact Hi. }
  clear Hk. induction bm as [|a r IH].
  - reflexivity.
  - destruct a; [exfalso; apply (H 0%nat); reflexivity|].
    rewrite count_free_cons_false, IH; [simpl length; lia|].
    intros i. apply (H (S i)).
Qed.

Lemma binv_in_range bm held k : binv bm held -> In k held -> 0 <= k < Z.of_nat (length bm).
Proof.
  intros [_ Hk] Hin. apply Hk in Hin. destruct Hin as [H0 Hn]. split; [exact H0|].
  assert ((Z.to_nat k < length bm)%nat) by (apply nth_error_Some; congruence). lia.
Qed.

Lemma binv_init n : binv (repeat false n) [].
Proof.
  split; [constructor|]. intro k. split; [|intros []].
  intros [_ H]. apply nth_error_In in H. apply repeat_spec in H. discriminate.
Qed.

(* ========================================================================== *)
(* the worker's bookkeeping                                                    *)
(* ========================================================================== *)
Definition hc (pool : list run) : list Z := concat (map u_cores pool).
Definition hg (pool : list run) : list Z := concat (map u_gpus pool).

Definition WInv (nc ng : nat) (st : wst) : Prop :=
  length (w_cb st) = nc /\ length (w_gb st) = ng /\
  binv (w_cb st) (hc (w_pool st)) /\ binv (w_gb st) (hg (w_pool st)).

Definition clean (e : wev) : Prop :=
  match e with
  | EvStart _ _ _ _ _ _ | EvResult _ _ _ _ _ => True
  | EvRaise 1 KeyError => True         (* a stale result: rejected before anything is freed *)
  | _ => False
  end.

Definition res_uids (evs : list wev) : list Z := map fst (results_of evs).

Lemma res_uids_app a b : res_uids (a ++ b) = res_uids a ++ res_uids b.
Proof. unfold res_uids, results_of. rewrite map_app, concat_app, map_app. reflexivity. Qed.

Lemma winit_inv nc ng : WInv nc ng (winit nc ng).
Proof.
  unfold WInv, winit; simpl. rewrite !repeat_length.
  split; [reflexivity|]. split; [reflexivity|]. split; apply binv_init.
Qed.

Lemma WInv_intro nc ng cb gb pool pid :
  length cb = nc -> length gb = ng -> binv cb (hc pool) -> binv gb (hg pool) ->
  WInv nc ng (mkW cb gb pool pid).
Proof. unfold WInv; simpl; auto. Qed.

Lemma pool_remove_some : forall pool pid r pool',
  pool_remove pid pool = Some (r, pool') ->
  exists p1 p2, pool = p1 ++ r :: p2 /\ pool' = p1 ++ p2.
Proof.
  induction pool as [|x rest IH]; intros pid r pool' H; simpl in H; [discriminate|].
  destruct (u_pid x =? pid).
  - injection H as <- <-. exists [], rest. auto.
  - destruct (pool_remove pid rest) as [[y rest']|] eqn:E; [|discriminate].
    injection H as <- <-. destruct (IH _ _ _ E) as (p1 & p2 & -> & ->).
    exists (x :: p1), p2. auto.
Qed.

Lemma pool_remove_none : forall pool pid,
  pool_remove pid pool = None -> ~ In pid (map u_pid pool).
Proof.
  induction pool as [|x rest IH]; intros pid H; simpl in *; [tauto|].
  destruct (u_pid x =? pid) eqn:E; [discriminate|].
  destruct (pool_remove pid rest) as [[y rest']|] eqn:E2; [discriminate|].
  apply Z.eqb_neq in E. intros [Hx|Hx]; [congruence|]. eapply IH; eauto.
Qed.

Lemma held_split (f : run -> list Z) p1 r p2 :
  Permutation (concat (map f (p1 ++ r :: p2))) (f r ++ concat (map f (p1 ++ p2))).
Proof.
  rewrite !map_app, !concat_app. simpl. apply Permutation_app_swap_app.
Qed.

Lemma result_cb_spec nc ng st pid code exc st' evs :
  WInv nc ng st -> result_cb st pid code exc = (st', evs) ->
  WInv nc ng st' /\ Forall clean evs /\
  Permutation (res_uids evs ++ map u_uid (w_pool st')) (map u_uid (w_pool st)) /\
  (In pid (map u_pid (w_pool st)) -> S (length (w_pool st')) = length (w_pool st)).
Proof.
  intros (Hlc & Hlg & Hbc & Hbg) H. unfold result_cb in H.
  destruct (pool_remove pid (w_pool st)) as [[r pool']|] eqn:E.
  - destruct (pool_remove_some _ _ _ _ E) as (p1 & p2 & Hp & Hp').
    assert (Hbc' : binv (w_cb st) (u_cores r ++ hc pool')).
    { eapply binv_perm; [|exact Hbc]. unfold hc. rewrite Hp, Hp'. apply held_split. }
    assert (Hbg' : binv (w_gb st) (u_gpus r ++ hg pool')).
    { eapply binv_perm; [|exact Hbg]. unfold hg. rewrite Hp, Hp'. apply held_split. }
    destruct (release_binv _ _ _ Hbc') as (cb' & Hr1 & Hb1 & Hl1).
    destruct (release_binv _ _ _ Hbg') as (gb' & Hr2 & Hb2 & Hl2).
    rewrite Hr1, Hr2 in H. injection H as <- <-. simpl.
    split; [apply WInv_intro; try assumption; congruence|].
    split; [repeat constructor|]. split.
    + rewrite Hp, Hp'. unfold res_uids. simpl. rewrite !map_app. simpl.
      apply Permutation_cons_app. reflexivity.
    + intros _. rewrite Hp, Hp'. rewrite !app_length. simpl. lia.
  - injection H as <- <-. split; [unfold WInv; auto|]. split; [repeat constructor|].
    split; [reflexivity|]. intro Hin. exfalso. eapply pool_remove_none; eauto.
Qed.

Lemma complete_spec nc ng st p st' evs :
  WInv nc ng st -> complete st p = (st', evs) ->
  WInv nc ng st' /\ Forall clean evs /\
  Permutation (res_uids evs ++ map u_uid (w_pool st')) (map u_uid (w_pool st)) /\
  (w_pool st <> [] -> S (length (w_pool st')) = length (w_pool st)).
Proof.
  intros Hinv H. unfold complete in H. destruct p as [[k code] exc].
  destruct (w_pool st) as [|r0 rest] eqn:Ep.
  - injection H as <- <-. rewrite Ep. split; [exact Hinv|]. split; [constructor|].
    split; [reflexivity|]. intro Hx; congruence.
  - rewrite <- Ep in H.
    destruct (result_cb_spec _ _ _ _ _ _ _ _ Hinv H) as (H1 & H2 & H3 & H4).
    rewrite <- Ep. split; [exact H1|]. split; [exact H2|]. split; [exact H3|].
    intros _. apply H4. apply in_map. apply nth_In.
    assert (Hpos : 0 < Z.of_nat (length (w_pool st))) by (rewrite Ep; simpl length; lia).
    pose proof (Z.mod_pos_bound k (Z.of_nat (length (w_pool st))) Hpos). lia.
Qed.

Lemma alloc_spec cb gb c g hcs hgs :
  binv cb hcs -> binv gb hgs ->
  match alloc cb gb c g with
  | inr (Some (cb', gb', lc, lg)) =>
      binv cb' (lc ++ hcs) /\ binv gb' (lg ++ hgs) /\
      length cb' = length cb /\ length gb' = length gb
  | _ => True
  end.
Proof.
  intros Hc Hg. unfold alloc.
  destruct (negb (1 <=? c)); [exact I|].
  destruct (negb (c <=? Z.of_nat (length cb))); [exact I|].
  destruct (negb (g <=? Z.of_nat (length gb))); [exact I|].
  destruct (count_free cb <? c); [exact I|].
  destruct (count_free gb <? g); [exact I|].
  destruct (take c cb) as [cb' lc] eqn:E1. destruct (take g gb) as [gb' lg] eqn:E2.
  destruct (take_binv _ _ _ _ _ Hc E1). destruct (take_binv _ _ _ _ _ Hg E2). auto.
Qed.

(* within the demand bound, _alloc neither raises nor refuses on an idle worker *)
Lemma alloc_in_bound cb gb c g :
  1 <= c <= Z.of_nat (length cb) -> 0 <= g <= Z.of_nat (length gb) ->
  (exists x, alloc cb gb c g = inr x) /\
  (binv cb [] -> binv gb [] -> exists y, alloc cb gb c g = inr (Some y)).
Proof.
  intros Hc Hg. unfold alloc.
  replace (1 <=? c) with true by (symmetry; apply Z.leb_le; lia).
  replace (c <=? Z.of_nat (length cb)) with true by (symmetry; apply Z.leb_le; lia).
  replace (g <=? Z.of_nat (length gb)) with true by (symmetry; apply Z.leb_le; lia).
  simpl. split.
  - destruct (count_free cb <? c); [eauto|]. destruct (count_free gb <? g); [eauto|].
    destruct (take c cb), (take g gb). eauto.
  - intros Hbc Hbg. rewrite (binv_free_count _ Hbc), (binv_free_count _ Hbg).
    replace (Z.of_nat (length cb) <? c) with false by (symmetry; apply Z.ltb_ge; lia).
    replace (Z.of_nat (length gb) <? g) with false by (symmetry; apply Z.ltb_ge; lia).
    destruct (take c cb), (take g gb). eauto.
Qed.

Definition WMid (nc ng : nat) (st : wst) (lc lg : list Z) : Prop :=
  length (w_cb st) = nc /\ length (w_gb st) = ng /\
  binv (w_cb st) (lc ++ hc (w_pool st)) /\ binv (w_gb st) (lg ++ hg (w_pool st)).

Lemma wait_alloc_spec nc ng c g :
  1 <= c <= Z.of_nat nc -> 0 <= g <= Z.of_nat ng ->
  forall fuel st ps, WInv nc ng st -> (length (w_pool st) < fuel)%nat ->
  exists st' evs ps' lc lg,
    wait_alloc fuel st c g ps = WA_Ok st' evs ps' lc lg /\
    WMid nc ng st' lc lg /\ Forall clean evs /\
    Permutation (res_uids evs ++ map u_uid (w_pool st')) (map u_uid (w_pool st)).
Proof.
  intros Hc Hg. induction fuel as [|f IH]; intros st ps Hinv Hf; [lia|].
  pose proof Hinv as (Hlc & Hlg & Hbc & Hbg).
  assert (Hc' : 1 <= c <= Z.of_nat (length (w_cb st))) by (rewrite Hlc; exact Hc).
  assert (Hg' : 0 <= g <= Z.of_nat (length (w_gb st))) by (rewrite Hlg; exact Hg).
  destruct (alloc_in_bound _ _ _ _ Hc' Hg') as [[x Hx] Hidle].
  pose proof (alloc_spec _ _ c g _ _ Hbc Hbg) as Hspec.
  simpl. rewrite Hx in *. destruct x as [[[[cb' gb'] lc] lg]|].
  - destruct Hspec as (H1 & H2 & H3 & H4).
    exists (mkW cb' gb' (w_pool st) (w_pid st)), [], ps, lc, lg.
    split; [reflexivity|]. split; [unfold WMid; simpl; split; [congruence|]; split; [congruence|]; split; assumption|].
    split; [constructor|reflexivity].
  - destruct (w_pool st) as [|r0 rest] eqn:Ep.
    + exfalso. unfold hc, hg in Hbc, Hbg. rewrite ?Ep in Hbc, Hbg. simpl in Hbc, Hbg.
      destruct (Hidle Hbc Hbg) as [y Hy]. congruence.
    + rewrite <- Ep. destruct (pop_pick ps) as [p ps'].
      destruct (complete st p) as [st1 evs1] eqn:Ec.
      destruct (complete_spec _ _ _ _ _ _ Hinv Ec) as (Hi1 & Hcl1 & Hp1 & Hlen1).
      assert (Hne : w_pool st <> []) by (rewrite Ep; discriminate).
      specialize (Hlen1 Hne).
      destruct (IH st1 ps' Hi1) as (st' & evs & ps'' & lc & lg & Hw & Hm & Hcl & Hp);
        [rewrite ?Ep in *; simpl length in *; lia|].
      rewrite Hw. exists st', (evs1 ++ evs), ps'', lc, lg.
      split; [reflexivity|]. split; [exact Hm|]. split; [apply Forall_app; auto|].
      rewrite res_uids_app, <- app_assoc. rewrite <- Hp1.
      apply Permutation_app_head. exact Hp.
Qed.

Lemma permA {A} (R1 R P' Q P1 P0 : list A) u :
  Permutation (R1 ++ P1) P0 -> Permutation (R ++ P') (Q ++ P1) ->
  Permutation ((R1 ++ u :: R) ++ P') (u :: Q ++ P0).
Proof.
  intros H1 H2. rewrite <- H1, <- app_assoc. simpl. rewrite H2.
  apply Permutation_sym, Permutation_cons_app, Permutation_app_swap_app.
Qed.

Lemma permB {A} (R1 R P' Q P1 P0 : list A) u :
  Permutation (R1 ++ P1) P0 -> Permutation (R ++ P') (Q ++ P1 ++ [u]) ->
  Permutation ((R1 ++ R) ++ P') (u :: Q ++ P0).
Proof.
  intros H1 H2. rewrite <- H1, <- app_assoc, H2.
  etransitivity; [|apply perm_skip, Permutation_app_swap_app].
  replace (R1 ++ Q ++ P1 ++ [u]) with ((R1 ++ Q ++ P1) ++ [u]) by (rewrite <- !app_assoc; reflexivity).
  apply Permutation_sym, Permutation_cons_append.
Qed.

Lemma permC {A} (R1 R2 P2 Q1 Q2 P1 P0 : list A) :
  Permutation (R1 ++ P1) (Q1 ++ P0) -> Permutation (R2 ++ P2) (Q2 ++ P1) ->
  Permutation ((R1 ++ R2) ++ P2) ((Q1 ++ Q2) ++ P0).
Proof.
  intros H1 H2. rewrite <- app_assoc, H2.
  rewrite (Permutation_app_swap_app R1 Q2 P1), H1, app_assoc.
  apply Permutation_app_tail, Permutation_app_comm.
Qed.

Definition req_in_bound (nc ng : nat) (q : req) : Prop := in_bound nc ng q = true.

Lemma in_bound_spec nc ng q : req_in_bound nc ng q ->
  1 <= dflt 1 (q_cores q) <= Z.of_nat nc /\ 0 <= dflt 0 (q_gpus q) <= Z.of_nat ng.
Proof.
  unfold req_in_bound, in_bound. intro H.
  apply andb_true_iff in H as [H H4]. apply andb_true_iff in H as [H H3].
  apply andb_true_iff in H as [H1 H2].
  apply Z.leb_le in H1, H2, H3, H4. lia.
Qed.

Lemma hc_snoc pool r : Permutation (u_cores r ++ hc pool) (hc (pool ++ [r])).
Proof. unfold hc. rewrite map_app, concat_app. simpl. rewrite app_nil_r. apply Permutation_app_comm. Qed.
Lemma hg_snoc pool r : Permutation (u_gpus r ++ hg pool) (hg (pool ++ [r])).
Proof. unfold hg. rewrite map_app, concat_app. simpl. rewrite app_nil_r. apply Permutation_app_comm. Qed.

Lemma request_cb_spec nc ng : forall batch st ps,
  Forall (req_in_bound nc ng) batch -> WInv nc ng st ->
  exists st' evs,
    request_cb st batch ps = (st', evs, true) /\ WInv nc ng st' /\ Forall clean evs /\
    Permutation (res_uids evs ++ map u_uid (w_pool st'))
                (map q_uid batch ++ map u_uid (w_pool st)).
Proof.
  induction batch as [|q rest IH]; intros st ps Hb Hinv.
  - exists st, []. simpl. auto.
  - inversion Hb as [|? ? Hq Hrest]; subst.
    destruct (in_bound_spec _ _ _ Hq) as [Hc Hg].
    destruct (wait_alloc_spec nc ng _ _ Hc Hg (S (length (w_pool st))) st ps Hinv)
      as (st1 & evs1 & ps1 & lc & lg & Hw & (Hlc & Hlg & Hbc & Hbg) & Hcl1 & Hp1); [lia|].
    cbn [request_cb]. rewrite Hw. destruct (q_startfail q).
    + destruct (release_binv _ _ _ Hbc) as (cb' & Hr1 & Hb1 & Hl1).
      destruct (release_binv _ _ _ Hbg) as (gb' & Hr2 & Hb2 & Hl2).
      rewrite Hr1, Hr2.
      destruct (IH (mkW cb' gb' (w_pool st1) (w_pid st1)) ps1 Hrest)
        as (st' & evs & Hreq & Hi & Hcl & Hp).
      { apply WInv_intro; try assumption; congruence. }
      rewrite Hreq. eexists _, _. split; [reflexivity|]. split; [exact Hi|].
      split; [apply Forall_app; split; [exact Hcl1 | constructor; [exact I | exact Hcl]]|].
      rewrite res_uids_app. change (res_uids (EvResult (q_uid q) None true cb' gb' :: evs))
        with (q_uid q :: res_uids evs).
      simpl in Hp. simpl map. apply (permA _ _ _ _ _ _ _ Hp1 Hp).
    + set (r := mkRun (q_uid q) (w_pid st1) lc lg).
      destruct (IH (mkW (w_cb st1) (w_gb st1) (w_pool st1 ++ [r]) (w_pid st1 + 1)) ps1 Hrest)
        as (st' & evs & Hreq & Hi & Hcl & Hp).
      { apply WInv_intro; try assumption.
        - eapply binv_perm; [apply (hc_snoc _ r)|exact Hbc].
        - eapply binv_perm; [apply (hg_snoc _ r)|exact Hbg]. }
      rewrite Hreq. eexists _, _. split; [reflexivity|]. split; [exact Hi|].
      split; [apply Forall_app; split; [exact Hcl1 | constructor; [exact I | exact Hcl]]|].
      rewrite res_uids_app.
      change (res_uids (EvStart (q_uid q) (w_pid st1) lc lg (w_cb st1) (w_gb st1) :: evs))
        with (res_uids evs).
      simpl in Hp. rewrite map_app in Hp. simpl in Hp. simpl map.
      apply (permB _ _ _ _ _ _ _ Hp1 Hp).
Qed.

Definition op_in_bound (nc ng : nat) (o : wop) : Prop :=
  match o with OReq b _ => Forall (req_in_bound nc ng) b | _ => True end.

Lemma requests_of_cons o ops :
  requests_of (o :: ops) = (match o with OReq b _ => b | _ => [] end) ++ requests_of ops.
Proof. reflexivity. Qed.

Lemma wstep_spec nc ng st o st' evs :
  op_in_bound nc ng o -> WInv nc ng st -> wstep st o = (st', evs) ->
  WInv nc ng st' /\ Forall clean evs /\
  Permutation (res_uids evs ++ map u_uid (w_pool st'))
              (map q_uid (match o with OReq b _ => b | _ => [] end) ++ map u_uid (w_pool st)).
Proof.
  intros Hb Hinv H. destruct o as [b ps|p|pid]; simpl in *.
  - destruct (request_cb_spec nc ng b st ps Hb Hinv) as (s & e & Hr & H1 & H2 & H3).
    rewrite Hr in H. injection H as <- <-. auto.
  - destruct (complete_spec _ _ _ _ _ _ Hinv H) as (H1 & H2 & H3 & _). auto.
  - destruct (result_cb_spec _ _ _ _ _ _ _ _ Hinv H) as (H1 & H2 & H3 & _). auto.
Qed.

Theorem wrun_spec nc ng : forall ops st st' evs,
  Forall (op_in_bound nc ng) ops -> WInv nc ng st -> wrun st ops = (st', evs) ->
  WInv nc ng st' /\ Forall clean evs /\
  Permutation (res_uids evs ++ map u_uid (w_pool st'))
              (map q_uid (requests_of ops) ++ map u_uid (w_pool st)).
Proof.
  induction ops as [|o ops IH]; intros st st' evs Hb Hinv H; simpl in H.
  - injection H as <- <-. simpl. auto.
  - inversion Hb as [|? ? Ho Hops]; subst.
    destruct (wstep st o) as [st1 e1] eqn:E1. destruct (wrun st1 ops) as [st2 e2] eqn:E2.
    injection H as <- <-.
    destruct (wstep_spec _ _ _ _ _ _ Ho Hinv E1) as (Hi1 & Hc1 & Hp1).
    destruct (IH _ _ _ Hops Hi1 E2) as (Hi2 & Hc2 & Hp2).
    split; [exact Hi2|]. split; [apply Forall_app; auto|].
    rewrite res_uids_app, requests_of_cons, map_app.
    apply (permC _ _ _ _ _ _ _ Hp1 Hp2).
Qed.

(* consequences of the invariant *)
Lemma winv_disjoint nc ng st : WInv nc ng st ->
  NoDup (hc (w_pool st)) /\ NoDup (hg (w_pool st)) /\
  (forall k, In k (hc (w_pool st)) -> 0 <= k < Z.of_nat nc) /\
  (forall k, In k (hg (w_pool st)) -> 0 <= k < Z.of_nat ng).
Proof.
  intros (Hlc & Hlg & Hbc & Hbg). split; [apply Hbc|]. split; [apply Hbg|]. split; intros k Hk.
  - rewrite <- Hlc. eapply binv_in_range; eauto.
  - rewrite <- Hlg. eapply binv_in_range; eauto.
Qed.

Lemma winv_exact nc ng st : WInv nc ng st ->
  w_cb st = bm_of nc (hc (w_pool st)) /\ w_gb st = bm_of ng (hg (w_pool st)).
Proof.
  intros (Hlc & Hlg & Hbc & Hbg). split.
  - rewrite <- Hlc. apply binv_bm_of, Hbc.
  - rewrite <- Hlg. apply binv_bm_of, Hbg.
Qed.

Lemma bm_of_nil n : bm_of n [] = repeat false n.
Proof.
  unfold bm_of. simpl. generalize 0%nat. induction n as [|n IH]; intro s; simpl; [reflexivity|].
  f_equal. apply IH.
Qed.

Lemma winv_quiescent nc ng st : WInv nc ng st -> w_pool st = [] ->
  w_cb st = repeat false nc /\ w_gb st = repeat false ng.
Proof.
  intros Hinv Hp. destruct (winv_exact _ _ _ Hinv) as [H1 H2].
  rewrite Hp in H1, H2. unfold hc, hg in *. simpl in *. rewrite bm_of_nil in H1, H2. auto.
Qed.

(* ========================================================================== *)
(* master                                                                      *)
(* ========================================================================== *)
Lemma target_done_iff : forall u code,
  target_of (u, None, code) = TDone <-> code = Some 0.
Proof.
  intros u [c|]; unfold target_of, dflt; simpl.
  - destruct (c =? 0) eqn:E; split; intro H; try discriminate; try reflexivity.
    + apply Z.eqb_eq in E; subst; reflexivity.
    + injection H as ->. discriminate.
  - split; intro H; discriminate.
Qed.

Lemma target_failed_otherwise : forall u code,
  code <> Some 0 -> target_of (u, None, code) = TFailed.
Proof.
  intros u code H. destruct (target_of (u, None, code)) eqn:E; try reflexivity.
  - apply target_done_iff in E. contradiction.
  - unfold target_of in E. destruct (dflt (-1) code =? 0); discriminate.
Qed.

(* ========================================================================== *)
(* dispatchers                                                                 *)
(* ========================================================================== *)
Definition eeq (a b : env) : Prop := forall k, elookup k a = elookup k b.
Definition weq (a b : world) : Prop :=
  eeq (py_env a) (py_env b) /\ eeq (pr_env a) (pr_env b) /\ bound a = bound b.
(* the process environment agrees with os.environ while it writes through *)
Definition sync (w : world) : Prop := bound w = true -> eeq (pr_env w) (py_env w).

Lemma eeq_refl a : eeq a a. Proof. intro; reflexivity. Qed.
Lemma eeq_sym a b : eeq a b -> eeq b a. Proof. intros H k; symmetry; apply H. Qed.
Lemma eeq_trans a b c : eeq a b -> eeq b c -> eeq a c.
Proof. intros H1 H2 k; rewrite H1; apply H2. Qed.
Lemma weq_refl a : weq a a. Proof. repeat split; apply eeq_refl. Qed.
Lemma weq_trans a b c : weq a b -> weq b c -> weq a c.
Proof.
  intros (A1 & A2 & A3) (B1 & B2 & B3). split; [eapply eeq_trans; eauto|].
  split; [eapply eeq_trans; eauto | congruence].
Qed.

Lemma elookup_eremove k a e :
  elookup k (eremove a e) = if k =? a then None else elookup k e.
Proof.
  induction e as [|[x v] r IH]; simpl.
  - destruct (k =? a); reflexivity.
  - destruct (x =? a) eqn:E1.
    + rewrite IH. apply Z.eqb_eq in E1. subst. destruct (k =? a) eqn:E2; [reflexivity|].
      rewrite Z.eqb_sym, E2. reflexivity.
    + simpl. destruct (x =? k) eqn:E2.
      * apply Z.eqb_eq in E2. subst. rewrite E1. reflexivity.
      * exact IH.
Qed.

Lemma elookup_eset k a v e :
  elookup k (eset a v e) = if k =? a then Some v else elookup k e.
Proof.
  unfold eset. simpl. rewrite Z.eqb_sym. destruct (k =? a) eqn:E; [reflexivity|].
  rewrite elookup_eremove, E. reflexivity.
Qed.

Lemma eset_ext a v e1 e2 : eeq e1 e2 -> eeq (eset a v e1) (eset a v e2).
Proof. intros H k. rewrite !elookup_eset, H. reflexivity. Qed.
Lemma eremove_ext a e1 e2 : eeq e1 e2 -> eeq (eremove a e1) (eremove a e2).
Proof. intros H k. rewrite !elookup_eremove, H. reflexivity. Qed.

Lemma w_set_ext k v w1 w2 : weq w1 w2 -> weq (w_set k v w1) (w_set k v w2).
Proof.
  intros (H1 & H2 & H3). unfold w_set, weq; simpl. rewrite H3.
  split; [apply eset_ext, H1|]. split; [|reflexivity].
  destruct (bound w2); [apply eset_ext, H2 | exact H2].
Qed.

Lemma w_del_ext k w1 w2 : weq w1 w2 -> weq (w_del k w1) (w_del k w2).
Proof.
  intros (H1 & H2 & H3). unfold w_del. rewrite (H1 k).
  destruct (elookup k (py_env w2)); [|repeat split; assumption].
  unfold weq; simpl. rewrite H3. split; [apply eremove_ext, H1|]. split; [|reflexivity].
  destruct (bound w2); [apply eremove_ext, H2 | exact H2].
Qed.

Lemma w_set_sync k v w : sync w -> sync (w_set k v w).
Proof.
  intros H Hb. unfold w_set in *; simpl in *. rewrite Hb. apply eset_ext, H, Hb.
Qed.

Lemma w_del_sync k w : sync w -> sync (w_del k w).
Proof.
  intros H. unfold w_del. destruct (elookup k (py_env w)); [|exact H].
  intros Hb; simpl in *. rewrite Hb. apply eremove_ext, H, Hb.
Qed.

Lemma w_update_ext e : forall w1 w2, weq w1 w2 -> weq (w_update e w1) (w_update e w2).
Proof.
  induction e as [|[k v] r IH]; intros w1 w2 H; simpl; [exact H|].
  apply w_set_ext, IH, H.
Qed.

Lemma w_update_sync e w : sync w -> sync (w_update e w).
Proof. induction e as [|[k v] r IH]; intro H; simpl; [exact H | apply w_set_sync, IH, H]. Qed.

Lemma w_update_bound e w : bound (w_update e w) = bound w.
Proof. induction e as [|[k v] r IH]; simpl; [reflexivity | exact IH]. Qed.

Lemma w_update_py e w k :
  elookup k (py_env (w_update e w)) =
  match elookup k e with Some v => Some v | None => elookup k (py_env w) end.
Proof.
  induction e as [|[a v] r IH]; [reflexivity|].
  change (w_update ((a, v) :: r) w) with (w_set a v (w_update r w)).
  unfold w_set at 1. cbn [py_env elookup]. rewrite elookup_eset, IH, (Z.eqb_sym a k).
  destruct (k =? a); reflexivity.
Qed.

Lemma w_update_pr e w k :
  elookup k (pr_env (w_update e w)) =
  if bound w then match elookup k e with Some v => Some v | None => elookup k (pr_env w) end
  else elookup k (pr_env w).
Proof.
  induction e as [|[a v] r IH]; [simpl; destruct (bound w); reflexivity|].
  change (w_update ((a, v) :: r) w) with (w_set a v (w_update r w)).
  unfold w_set at 1. cbn [pr_env elookup]. rewrite w_update_bound. destruct (bound w) eqn:Eb.
  - rewrite elookup_eset, IH, (Z.eqb_sym a k). destruct (k =? a); reflexivity.
  - exact IH.
Qed.

Lemma run_acts_ext : forall l w1 w2 out err,
  weq w1 w2 ->
  weq (fst (fst (run_acts l w1 out err))) (fst (fst (run_acts l w2 out err))) /\
  snd (fst (run_acts l w1 out err)) = snd (fst (run_acts l w2 out err)) /\
  snd (run_acts l w1 out err) = snd (run_acts l w2 out err).
Proof.
  induction l as [|a r IH]; intros w1 w2 out err H; simpl; [auto|].
  destruct a; try (apply IH; assumption).
  - apply IH, w_set_ext, H.
  - apply IH, w_del_ext, H.
  - destruct H as (H1 & H2 & H3). rewrite (H1 k). apply IH. repeat split; assumption.
Qed.

Lemma run_acts_sync : forall l w out err,
  sync w -> sync (fst (fst (run_acts l w out err))).
Proof.
  induction l as [|a r IH]; intros w out err H; simpl; [exact H|].
  destruct a; try (apply IH; assumption).
  - apply IH, w_set_sync, H.
  - apply IH, w_del_sync, H.
Qed.

Lemma run_acts_bound : forall l w out err,
  bound (fst (fst (run_acts l w out err))) = bound w.
Proof.
  induction l as [|a r IH]; intros w out err; simpl; [reflexivity|].
  destruct a; rewrite IH; try reflexivity.
  unfold w_del. destruct (elookup k (py_env w)); reflexivity.
Qed.

Lemma run_acts_unbound_pr : forall l w out err,
  bound w = false -> pr_env (fst (fst (run_acts l w out err))) = pr_env w.
Proof.
  induction l as [|a r IH]; intros w out err H; simpl; [reflexivity|].
  destruct a; try (apply IH; assumption).
  - rewrite IH; unfold w_set; simpl; rewrite H; reflexivity.
  - rewrite IH; unfold w_del; destruct (elookup k (py_env w)); simpl; rewrite ?H; reflexivity.
Qed.

Lemma fold_eremove_lookup k : forall keys e,
  elookup k (fold_left (fun a kv => eremove (fst kv) a) keys e) =
  if existsb (fun kv : Z * Z => k =? fst kv) keys then None else elookup k e.
Proof.
  induction keys as [|[a v] r IH]; intro e; simpl; [reflexivity|].
  rewrite IH, elookup_eremove. destruct (k =? a); simpl; [|reflexivity].
  destruct (existsb _ r); reflexivity.
Qed.

Lemma elookup_none_keys k : forall e,
  existsb (fun kv : Z * Z => k =? fst kv) e = false -> elookup k e = None.
Proof.
  induction e as [|[a v] r IH]; simpl; [reflexivity|]. intro H.
  apply orb_false_iff in H as [H1 H2]. rewrite Z.eqb_sym, H1. apply IH, H2.
Qed.

(* os.environ.clear() empties the process environment too (of everything
   os.environ knew about), provided the two were in agreement *)
Lemma w_clear_pr w : sync w -> bound w = true -> eeq (pr_env (w_clear w)) [].
Proof.
  intros Hs Hb k. unfold w_clear; simpl. rewrite Hb, fold_eremove_lookup.
  destruct (existsb _ (py_env w)) eqn:E; [reflexivity|].
  rewrite (Hs Hb k). apply elookup_none_keys, E.
Qed.

Theorem dispatch_py_restores denv p w :
  sync w -> weq (snd (dispatch_py denv p w)) w /\ sync (snd (dispatch_py denv p w)).
Proof.
  intro Hs. unfold dispatch_py.
  destruct (run_acts (p_acts p) (w_update denv w) [] []) as [[w2 out] err] eqn:E. simpl.
  assert (Hw2 : w2 = fst (fst (run_acts (p_acts p) (w_update denv w) [] []))) by (rewrite E; reflexivity).
  assert (Hs2 : sync w2) by (rewrite Hw2; apply run_acts_sync, w_update_sync, Hs).
  assert (Hb2 : bound w2 = bound w) by (rewrite Hw2, run_acts_bound, w_update_bound; reflexivity).
  assert (Hbc : bound (w_clear w2) = bound w) by (simpl; exact Hb2).
  assert (Hweq : weq (w_update (py_env w) (w_clear w2)) w).
  { split; [|split].
    - intro k. rewrite w_update_py. simpl. destruct (elookup k (py_env w)); reflexivity.
    - intro k. rewrite w_update_pr, Hbc. destruct (bound w) eqn:Eb.
      + rewrite (w_clear_pr w2 Hs2) by congruence. simpl.
        rewrite (Hs Eb k). destruct (elookup k (py_env w)); reflexivity.
      + unfold w_clear; simpl. rewrite Hb2, ?Eb. rewrite Hw2.
        rewrite run_acts_unbound_pr by (rewrite w_update_bound; exact Eb).
        rewrite w_update_pr, Eb. reflexivity.
    - rewrite w_update_bound. exact Hbc. }
  split; [exact Hweq|].
  intros Hb k. destruct Hweq as (H1 & H2 & H3). rewrite H1, H2.
  apply Hs. congruence.
Qed.

Lemma dispatch_restores tenv r w :
  sync w -> weq (snd (dispatch tenv r w)) w /\ sync (snd (dispatch tenv r w)).
Proof.
  intro Hs. destruct r as [[m denv] p]. unfold dispatch.
  destruct m; try apply dispatch_py_restores; try exact Hs;
    unfold dispatch_sub; destruct denv; simpl;
    try (destruct (run_sub (p_acts p) _ [] [])); simpl; split; try apply weq_refl; exact Hs.
Qed.

Lemma dispatch_ext tenv r w1 w2 :
  weq w1 w2 -> fst (dispatch tenv r w1) = fst (dispatch tenv r w2).
Proof.
  intro H. destruct r as [[m denv] p]. unfold dispatch.
  assert (Hpy : forall de, fst (dispatch_py de p w1) = fst (dispatch_py de p w2)).
  { intro de. unfold dispatch_py.
    destruct (run_acts_ext (p_acts p) _ _ [] [] (w_update_ext de _ _ H)) as (_ & Ho & He).
    destruct (run_acts (p_acts p) (w_update de w1) [] []) as [[a1 o1] e1].
    destruct (run_acts (p_acts p) (w_update de w2) [] []) as [[a2 o2] e2].
    simpl in *. subst. reflexivity. }
  destruct m; try apply Hpy; unfold dispatch_sub; destruct denv; simpl; try reflexivity;
    destruct (run_sub (p_acts p) _ [] []); reflexivity.
Qed.

(* the model's answer to one request is the oracle's `expected` answer *)
Lemma dispatch_expected tenv r w : fst (dispatch tenv r w) = expected tenv w r.
Proof.
  destruct r as [[m denv] p]. unfold dispatch, expected.
  destruct m; unfold dispatch_py, dispatch_sub;
    try (destruct (run_acts (p_acts p) _ [] []) as [[a o] e]; destruct (p_fin p); reflexivity);
    destruct denv; try reflexivity; destruct (run_sub (p_acts p) _ [] []); reflexivity.
Qed.

Lemma expected_ext tenv r w1 w2 : weq w1 w2 -> expected tenv w1 r = expected tenv w2 r.
Proof. intro H. rewrite <- !dispatch_expected. apply dispatch_ext, H. Qed.

(* every request of a sequence is answered as on a fresh worker, and leaves
   the worker's environment as it found it *)
Theorem drun_isolated tenv : forall rs w0 w,
  sync w -> weq w w0 ->
  map fst (drun tenv w rs) = map (expected tenv w0) rs /\
  Forall (fun x : dres * world => weq (snd x) w0) (drun tenv w rs).
Proof.
  induction rs as [|r rs IH]; intros w0 w Hs Hw; simpl; [split; constructor|].
  destruct (dispatch tenv r w) as [res w'] eqn:E.
  destruct (dispatch_restores tenv r w Hs) as [Hr Hs']. rewrite E in Hr, Hs'. simpl in Hr, Hs'.
  assert (Hw' : weq w' w0) by (eapply weq_trans; eauto).
  destruct (IH w0 w' Hs' Hw') as [H1 H2]. simpl. split.
  - f_equal; [|exact H1].
    change res with (fst (res, w')). rewrite <- E, dispatch_expected. apply expected_ext, Hw.
  - constructor; [exact Hw' | exact H2].
Qed.

Lemma weq_view a b : eeq a b -> view a = view b.
Proof. intro H. unfold view. apply map_ext. intro k. apply H. Qed.

(* ========================================================================== *)
(* master routing                                                              *)
(* ========================================================================== *)
Definition is_exec_task (t : itask) : bool := is_executable (submit_mode t).

Lemma agent_path_app a b : agent_path (a ++ b) = agent_path a ++ agent_path b.
Proof. unfold agent_path. rewrite map_app, concat_app. reflexivity. Qed.
Lemma worker_path_app a b : worker_path (a ++ b) = worker_path a ++ worker_path b.
Proof. unfold worker_path. rewrite map_app, concat_app. reflexivity. Qed.
Lemma agent_path_inserts l : agent_path (map (fun t => MInsert (i_uid t)) l) = [].
Proof. induction l as [|a r IH]; [reflexivity | exact IH]. Qed.
Lemma worker_path_inserts l : worker_path (map (fun t => MInsert (i_uid t)) l) = [].
Proof. induction l as [|a r IH]; [reflexivity | exact IH]. Qed.

Lemma routing_body (ex ra : list itask) :
  let evs := (match ex with
              | [] => []
              | _ => map (fun t => MInsert (i_uid t)) ex
                     ++ [MAdvance (map i_uid ex) S_STAGING_INPUT_PENDING true true]
              end)
             ++
             (match ra with
              | [] => []
              | _ => [MAdvance (map i_uid ra) S_SCHEDULING true false; MReqPut (map i_uid ra)]
              end) in
  agent_path evs = map i_uid ex /\ worker_path evs = map i_uid ra.
Proof.
  intro evs. subst evs. rewrite agent_path_app, worker_path_app.
  destruct ex as [|e es]; destruct ra as [|r rs];
    rewrite ?agent_path_app, ?worker_path_app, ?agent_path_inserts, ?worker_path_inserts;
    simpl; rewrite ?app_nil_r; auto; unfold agent_path, worker_path; simpl; rewrite ?app_nil_r; auto.
Qed.

(* executable requests take the agent path (advance with push to
   AGENT_STAGING_INPUT_PENDING), all others the workers' request queue *)
Lemma submit_routing ts evs :
  submit_tasks ts = inr evs ->
  agent_path evs = map i_uid (filter is_exec_task ts) /\
  worker_path evs = map i_uid (filter (fun t => negb (is_exec_task t)) ts).
Proof.
  unfold submit_tasks. destruct ts as [|t0 ts']; [intro H; injection H as <-; auto|].
  destruct (negb (forallb (fun t => snd (fst t)) (t0 :: ts'))); [discriminate|].
  intro H. injection H as <-. apply routing_body.
Qed.

Lemma filter_partition {A} (f : A -> bool) (g : A -> Z) l :
  Permutation (map g (filter f l) ++ map g (filter (fun x => negb (f x)) l)) (map g l).
Proof.
  induction l as [|a r IH]; simpl; [constructor|].
  destruct (f a); simpl.
  - constructor. exact IH.
  - apply Permutation_sym, Permutation_cons_app, Permutation_sym, IH.
Qed.

Lemma submit_accepts ts :
  forallb (fun t : itask => snd (fst t)) ts = true -> exists evs, submit_tasks ts = inr evs.
Proof.
  intro H. unfold submit_tasks. destruct ts as [|t0 ts']; [eauto|].
  match goal with |- context [negb ?x] => replace x with true by (symmetry; exact H) end.
  eexists; reflexivity.
Qed.

Lemma mscan_spec : forall ts acc,
  forallb (fun t : itask => snd (fst t) && match snd t with Some _ => true | None => false end) ts = true ->
  mscan ts acc = (acc ++ map i_uid (filter is_exec_task ts), true).
Proof.
  induction ts as [|t r IH]; intros acc H; simpl in *; [rewrite app_nil_r; reflexivity|].
  apply andb_true_iff in H as [H1 H2]. apply andb_true_iff in H1 as [Hd Hm].
  rewrite Hd. simpl. unfold is_exec_task, submit_mode. destruct (snd t) as [m|]; [|discriminate].
  rewrite (IH _ H2). destruct (is_executable m); simpl; rewrite <- ?app_assoc; reflexivity.
Qed.

(* ========================================================================== *)
(* statements used by Props/C20.v                                              *)
(* ========================================================================== *)
Lemma worker_disjoint nc ng ops st evs :
  Forall (op_in_bound nc ng) ops -> wrun (winit nc ng) ops = (st, evs) ->
  NoDup (hc (w_pool st)) /\ NoDup (hg (w_pool st)) /\
  (forall k, In k (hc (w_pool st)) -> 0 <= k < Z.of_nat nc) /\
  (forall k, In k (hg (w_pool st)) -> 0 <= k < Z.of_nat ng).
Proof.
  intros Hb Hr.
  exact (winv_disjoint _ _ _ (proj1 (wrun_spec nc ng ops _ _ _ Hb (winit_inv nc ng) Hr))).
Qed.

Lemma worker_exact nc ng ops st evs :
  Forall (op_in_bound nc ng) ops -> wrun (winit nc ng) ops = (st, evs) ->
  w_cb st = bm_of nc (hc (w_pool st)) /\ w_gb st = bm_of ng (hg (w_pool st)).
Proof.
  intros Hb Hr.
  exact (winv_exact _ _ _ (proj1 (wrun_spec nc ng ops _ _ _ Hb (winit_inv nc ng) Hr))).
Qed.

Lemma worker_quiescent nc ng ops st evs :
  Forall (op_in_bound nc ng) ops -> wrun (winit nc ng) ops = (st, evs) ->
  w_pool st = [] -> w_cb st = repeat false nc /\ w_gb st = repeat false ng.
Proof.
  intros Hb Hr.
  exact (winv_quiescent _ _ _ (proj1 (wrun_spec nc ng ops _ _ _ Hb (winit_inv nc ng) Hr))).
Qed.

Lemma worker_no_failure nc ng ops st evs :
  Forall (op_in_bound nc ng) ops -> wrun (winit nc ng) ops = (st, evs) -> Forall clean evs.
Proof.
  intros Hb Hr. exact (proj1 (proj2 (wrun_spec nc ng ops _ _ _ Hb (winit_inv nc ng) Hr))).
Qed.

Lemma worker_each_once nc ng ops st evs :
  Forall (op_in_bound nc ng) ops -> wrun (winit nc ng) ops = (st, evs) ->
  Permutation (res_uids evs ++ map u_uid (w_pool st)) (map q_uid (requests_of ops)).
Proof.
  intros Hb Hr.
  pose proof (proj2 (proj2 (wrun_spec nc ng ops _ _ _ Hb (winit_inv nc ng) Hr))) as H.
  simpl in H. rewrite app_nil_r in H. exact H.
Qed.

Lemma master_advances sd ts :
  snd (master_result sd ts) =
    [MAdvance (map (fun t => fst (fst t)) ts) S_STAGING_OUTPUT_PENDING true true] /\
  snd (fst (master_result sd ts)) = map (fun t => (fst (fst t), target_of t)) ts.
Proof. split; reflexivity. Qed.

Lemma routing_by_mode ts evs :
  submit_tasks ts = inr evs ->
  agent_path evs = map i_uid (filter is_exec_task ts) /\
  worker_path evs = map i_uid (filter (fun t => negb (is_exec_task t)) ts) /\
  Permutation (agent_path evs ++ worker_path evs) (map i_uid ts).
Proof.
  intro H. destruct (submit_routing ts evs H) as [H1 H2].
  split; [exact H1|]. split; [exact H2|]. rewrite H1, H2. apply filter_partition.
Qed.

Lemma routing_seen ts :
  forallb (fun t : itask => snd (fst t) && match snd t with Some _ => true | None => false end) ts = true ->
  fst (master_request ts) = map i_uid (filter is_exec_task ts).
Proof.
  intro H. unfold master_request. rewrite (mscan_spec ts [] H). simpl.
  destruct (submit_tasks ts); reflexivity.
Qed.

Lemma dispatch_seq_truthful tenv rs w0 :
  sync w0 -> map fst (drun tenv w0 rs) = map (expected tenv w0) rs.
Proof. intro Hs. exact (proj1 (drun_isolated tenv rs w0 w0 Hs (weq_refl w0))). Qed.

Lemma dispatch_seq_restores tenv rs w0 :
  sync w0 -> Forall (fun x : dres * world => weq (snd x) w0) (drun tenv w0 rs).
Proof. intro Hs. exact (proj2 (drun_isolated tenv rs w0 w0 Hs (weq_refl w0))). Qed.

Definition py_mode (m : dmode) : Prop := m = DFunc \/ m = DEval \/ m = DExec.

Lemma expected_truthful tenv w0 r :
  (d_ret (expected tenv w0 r) =? 0) = succeeded r /\
  (forall m denv acts v, r = (m, denv, mkPayload acts (FReturn v)) -> py_mode m ->
     d_val (expected tenv w0 r) = Some v /\ d_exc (expected tenv w0 r) = false
     /\ d_fail (expected tenv w0 r) = None) /\
  (forall m denv acts x, r = (m, denv, mkPayload acts (FRaise x)) -> py_mode m ->
     d_ret (expected tenv w0 r) = 1 /\ d_val (expected tenv w0 r) = None
     /\ d_exc (expected tenv w0 r) = true /\ d_fail (expected tenv w0 r) = Some x).
Proof.
  split; [|split].
  - destruct r as [[m denv] p]. unfold expected, succeeded.
    destruct m;
      try (destruct (run_acts (p_acts p) _ [] []) as [[a o] e]; destruct (p_fin p); reflexivity);
      destruct denv; try reflexivity; destruct (run_sub (p_acts p) _ [] []); destruct (p_fin p); reflexivity.
  - intros m denv acts v Hr Hm. subst r. unfold expected. simpl.
    destruct Hm as [Hm|[Hm|Hm]]; subst m;
      destruct (run_acts acts _ [] []) as [[a o] e]; simpl; auto.
  - intros m denv acts x Hr Hm. subst r. unfold expected. simpl.
    destruct Hm as [Hm|[Hm|Hm]]; subst m;
      destruct (run_acts acts _ [] []) as [[a o] e]; simpl; auto.
Qed.

(* ========================================================================== *)
(* scheduler forwarding: conservation of tasks                                 *)
(* ========================================================================== *)
Definition sev_uids (e : sev) : list Z :=
  match e with SPut _ us => us | SLocal us => us | SFail u => [u] | SCancel us => us end.
Definition evs_uids (evs : list sev) : list Z := concat (map sev_uids evs).
Definition sop_uids (o : sop) : list Z :=
  match o with SIncoming ts => map s_uid ts | _ => [] end.

Lemma evs_uids_app a b : evs_uids (a ++ b) = evs_uids a ++ evs_uids b.
Proof. unfold evs_uids. rewrite map_app, concat_app. reflexivity. Qed.

Lemma badd_perm k v : forall b,
  Permutation (backlog_uids (badd k v b)) (v ++ backlog_uids b).
Proof.
  unfold backlog_uids. induction b as [|[a x] r IH]; simpl.
  - reflexivity.
  - destruct (a =? k); simpl.
    + rewrite <- app_assoc. apply Permutation_app_swap_app.
    + rewrite IH. apply Permutation_app_swap_app.
Qed.

Lemma group_add_badd k u : forall g, group_add k u g = badd k [u] g.
Proof. induction g as [|[a x] r IH]; simpl; [reflexivity|]. rewrite IH. reflexivity. Qed.

Lemma bremove_perm k us : forall b,
  blookup k b = Some us ->
  Permutation (backlog_uids b) (us ++ backlog_uids (bremove k b)).
Proof.
  unfold backlog_uids. induction b as [|[a x] r IH]; simpl; [discriminate|].
  destruct (a =? k).
  - intro H. injection H as <-. reflexivity.
  - intro H. simpl. rewrite (IH H). apply Permutation_app_swap_app.
Qed.

Lemma rr_uids names n : forall us idx, evs_uids (rr names n idx us) = us.
Proof.
  induction us as [|u r IH]; intro idx; simpl; [reflexivity|].
  unfold evs_uids in *. simpl. rewrite IH. reflexivity.
Qed.

Lemma classify_perm_acc : forall ts loc rap,
  Permutation (fst (fold_left
     (fun (acc : list Z * list (Z * list Z)) (t : stask) =>
        let '(u, rid, is_worker, seen) := t in
        let '(loc, rap) := acc in
        match rid with
        | Some name => if negb is_worker
                       then (if seen then (loc ++ [u], rap) else (loc, group_add name u rap))
                       else (loc ++ [u], rap)
        | None => (loc ++ [u], rap)
        end) ts (loc, rap))
   ++ backlog_uids (snd (fold_left
     (fun (acc : list Z * list (Z * list Z)) (t : stask) =>
        let '(u, rid, is_worker, seen) := t in
        let '(loc, rap) := acc in
        match rid with
        | Some name => if negb is_worker
                       then (if seen then (loc ++ [u], rap) else (loc, group_add name u rap))
                       else (loc ++ [u], rap)
        | None => (loc ++ [u], rap)
        end) ts (loc, rap))))
  (map s_uid ts ++ loc ++ backlog_uids rap).
Proof.
  induction ts as [|t ts IH]; intros loc rap; [reflexivity|].
  destruct t as [[[u rid] w] seen]. cbn [fold_left map s_uid fst].
  assert (Hloc : forall l r, Permutation (map s_uid ts ++ (l ++ [u]) ++ r) (u :: map s_uid ts ++ l ++ r)).
  { intros l r. rewrite <- app_assoc. simpl.
    apply Permutation_sym. rewrite !app_assoc. apply Permutation_middle. }
  destruct rid as [name|]; [destruct (negb w); [destruct seen|]|];
    try (rewrite IH; apply Hloc).
  rewrite IH, group_add_badd, badd_perm. simpl.
  apply Permutation_sym. rewrite !app_assoc. apply Permutation_middle.
Qed.

Lemma classify_perm ts :
  Permutation (fst (classify ts) ++ backlog_uids (snd (classify ts))) (map s_uid ts).
Proof.
  unfold classify. rewrite classify_perm_acc. simpl. rewrite app_nil_r. reflexivity.
Qed.

Lemma backlog_uids_cons k us r : backlog_uids ((k, us) :: r) = us ++ backlog_uids r.
Proof. reflexivity. Qed.

Lemma fail_uids_map us : evs_uids (map SFail us) = us.
Proof. induction us as [|u r IH]; [reflexivity|]. unfold evs_uids in *. simpl. rewrite IH. reflexivity. Qed.

Lemma forward_perm : forall groups st,
  Permutation (evs_uids (snd (forward st groups)) ++ backlog_uids (s_backlog (fst (forward st groups))))
              (backlog_uids groups ++ backlog_uids (s_backlog st)).
Proof.
  induction groups as [|[name us] r IH]; intro st; [reflexivity|].
  cbn [forward]. rewrite backlog_uids_cons.
  destruct (memZ name (s_queues st)).
  - specialize (IH st). destruct (forward st r) as [st' evs]. cbn [fst snd] in *.
    unfold evs_uids. cbn [map concat sev_uids]. fold (evs_uids evs).
    rewrite <- !app_assoc. apply Permutation_app_head. exact IH.
  - destruct (negb match s_queues st with [] => true | _ => false end && (name =? 0)).
    + specialize (IH st). destruct (forward st r) as [st' evs]. cbn [fst snd] in *.
      rewrite evs_uids_app, rr_uids. rewrite <- !app_assoc. apply Permutation_app_head. exact IH.
    + destruct (memZ name (s_gone st)).
      * specialize (IH st). destruct (forward st r) as [st' evs]. cbn [fst snd] in *.
        rewrite evs_uids_app, fail_uids_map. rewrite <- !app_assoc. apply Permutation_app_head. exact IH.
      * rewrite IH. cbn [s_backlog]. rewrite badd_perm. rewrite <- !app_assoc.
        apply Permutation_app_swap_app.
Qed.

Lemma filter_split {A} (f : A -> bool) l :
  Permutation (filter f l ++ filter (fun x => negb (f x)) l) l.
Proof.
  induction l as [|a r IH]; simpl; [constructor|]. destruct (f a); simpl.
  - constructor. exact IH.
  - apply Permutation_sym, Permutation_cons_app, Permutation_sym, IH.
Qed.

Lemma perm4 {A} (a b c d x y : list A) :
  Permutation (a ++ c) x -> Permutation (b ++ d) y ->
  Permutation ((a ++ b) ++ (c ++ d)) (x ++ y).
Proof.
  intros H1 H2. rewrite <- H1, <- H2, <- !app_assoc. apply Permutation_app_head.
  apply Permutation_app_swap_app.
Qed.

Lemma cancel_perm uids : forall b,
  Permutation (snd (cancel_backlog uids b) ++ backlog_uids (fst (cancel_backlog uids b)))
              (backlog_uids b).
Proof.
  unfold cancel_backlog, backlog_uids. cbn [fst snd].
  induction b as [|[k l] r IH]; [reflexivity|]. cbn [map concat fst snd].
  apply perm4; [apply filter_split | exact IH].
Qed.


Lemma sstep_perm st o :
  Permutation (evs_uids (snd (sstep st o)) ++ backlog_uids (s_backlog (fst (sstep st o))))
              (sop_uids o ++ backlog_uids (s_backlog st)).
Proof.
  destruct o as [ts|name|name|uids]; cbn [sstep sop_uids].
  - pose proof (classify_perm ts) as Hc. destruct (classify ts) as [loc rap]. cbn [fst snd] in Hc.
    pose proof (forward_perm rap st) as Hf. destruct (forward st rap) as [st' evs]. cbn [fst snd] in *.
    rewrite evs_uids_app.
    assert (Hl : evs_uids (match loc with [] => [] | _ => [SLocal loc] end) = loc).
    { destruct loc; [reflexivity|]. unfold evs_uids. simpl. rewrite app_nil_r. reflexivity. }
    rewrite Hl, <- Hc. rewrite <- app_assoc.
    rewrite (Permutation_app_swap_app (evs_uids evs) loc). rewrite Hf.
    rewrite <- app_assoc. reflexivity.
  - destruct (blookup name (s_backlog st)) as [us|] eqn:E1.
    + destruct (blookup 0 (bremove name (s_backlog st))) as [us2|] eqn:E2; cbn [fst snd s_backlog].
      * rewrite (bremove_perm _ _ _ E1), (bremove_perm _ _ _ E2).
        unfold evs_uids. simpl. rewrite app_nil_r, <- app_assoc. reflexivity.
      * rewrite (bremove_perm _ _ _ E1). unfold evs_uids. simpl. rewrite app_nil_r. reflexivity.
    + destruct (blookup 0 (s_backlog st)) as [us2|] eqn:E2; cbn [fst snd s_backlog].
      * rewrite (bremove_perm _ _ _ E2). unfold evs_uids. simpl. rewrite app_nil_r. reflexivity.
      * reflexivity.
  - destruct (blookup name (s_backlog st)) as [us|] eqn:E1; cbn [fst snd s_backlog].
    + rewrite fail_uids_map, (bremove_perm _ _ _ E1). reflexivity.
    + reflexivity.
  - pose proof (cancel_perm uids (s_backlog st)) as Hc.
    destruct (cancel_backlog uids (s_backlog st)) as [b' c]. cbn [fst snd s_backlog] in *.
    unfold evs_uids. simpl. rewrite app_nil_r. exact Hc.
Qed.

(* every task that ever came in is, at any time, in exactly one place: handed
   to the local scheduler, put on a raptor queue, failed (raptor gone),
   canceled, or waiting in the backlog *)
Theorem srun_conservation : forall ops st,
  Permutation (evs_uids (snd (srun st ops)) ++ backlog_uids (s_backlog (fst (srun st ops))))
              (concat (map sop_uids ops) ++ backlog_uids (s_backlog st)).
Proof.
  induction ops as [|o ops IH]; intro st; [reflexivity|].
  cbn [srun map concat].
  pose proof (sstep_perm st o) as H1. destruct (sstep st o) as [s1 e1]. cbn [fst snd] in H1.
  specialize (IH s1). destruct (srun s1 ops) as [s2 e2]. cbn [fst snd] in *.
  rewrite evs_uids_app. apply (permC _ _ _ _ _ _ _ H1 IH).
Qed.

(* the routing decision for one task: scheduled here iff it names no raptor,
   is a raptor worker itself, or has already been seen by its raptor *)
Lemma classify_one u rid w seen :
  classify [(u, rid, w, seen)] =
  match rid with
  | Some name => if negb w && negb seen then ([], [(name, [u])]) else ([u], [])
  | None => ([u], [])
  end.
Proof. destruct rid as [n|]; destruct w, seen; reflexivity. Qed.

(* ========================================================================== *)
(* the process wrapper                                                         *)
(* ========================================================================== *)
Lemma proc_results_once e :
  exists ret exc, proc_results e = [(ret, exc)] /\
                  (ret = 0 <-> e = PReturn) /\ exc = negb (ret =? 0).
Proof.
  destruct e; simpl; eexists _, _; (split; [reflexivity|]); (split; [|reflexivity]);
    split; intro H; try discriminate; reflexivity.
Qed.
