(* However a request ends, the worker's state afterwards is the state before. *)
From Coq Require Import ZArith List Bool Lia.
From RP Require Import Common.Eqb Raptor.Model Raptor.Oracle Raptor.Proofs Raptor.Endings Raptor.EndingsOracle.
Import ListNotations.
Open Scope Z_scope.

Lemma guarded_restores denv acts w : sync w -> weq (guarded denv acts w) w /\ sync (guarded denv acts w).
Proof. intro Hs. unfold guarded. apply dispatch_py_restores, Hs. Qed.

Lemma dispatch_x_restores tenv r w :
  sync w -> weq (snd (fst (dispatch_x tenv r w))) w /\ sync (snd (fst (dispatch_x tenv r w))).
Proof.
  intro Hs. destruct r as [[[m denv] p] e]. unfold dispatch_x.
  pose proof (dispatch_restores tenv (m, denv, p) w Hs) as Hn.
  pose proof (guarded_restores denv [] w Hs) as Hg0.
  pose proof (guarded_restores denv (p_acts p) w Hs) as Hg.
  assert (Hw : weq w w /\ sync w) by (split; [apply weq_refl | exact Hs]).
  set (rw := dispatch tenv (m, denv, p) w) in *.
  destruct m, e; cbn [fst snd]; first [exact Hw | exact Hg0 | exact Hg | exact Hn].
Qed.

Lemma dispatch_x_ext tenv r w1 w2 :
  weq w1 w2 -> fst (fst (dispatch_x tenv r w1)) = fst (fst (dispatch_x tenv r w2)).
Proof.
  intro H. destruct r as [[[m denv] p] e]. unfold dispatch_x.
  pose proof (dispatch_ext tenv (m, denv, p) w1 w2 H) as Hn.
  set (rw1 := dispatch tenv (m, denv, p) w1) in *. set (rw2 := dispatch tenv (m, denv, p) w2) in *.
  destruct m, e; cbn [fst snd]; first [reflexivity | exact Hn].
Qed.

(* one task on a persistent rank *)
Theorem rank_request_restores r s :
  sync (r_w s) -> r_cwd s = 0 ->
  weq (r_w (snd (rank_request r s))) (r_w s) /\ sync (r_w (snd (rank_request r s))) /\
  r_cwd (snd (rank_request r s)) = 0 /\ r_tenv (snd (rank_request r s)) = r_tenv s /\
  r_stdio (snd (rank_request r s)) = r_stdio s.
Proof.
  intros Hs Hc. unfold rank_request, direct_request. simpl.
  pose proof (dispatch_x_restores (r_tenv s) r (r_w s) Hs) as [H1 H2].
  destruct (dispatch_x (r_tenv s) r (r_w s)) as [[res w'] moved]. simpl in *. auto.
Qed.

Definition rs_eq (a b : rstate) : Prop :=
  weq (r_w a) (r_w b) /\ r_cwd a = r_cwd b /\ r_tenv a = r_tenv b /\ r_stdio a = r_stdio b.

(* every request of every sequence on a persistent rank, whatever its kind and
   however it ends, is answered as on the original state and leaves that state *)
Theorem xrun_rank_isolated : forall rs s0 s,
  sync (r_w s) -> r_cwd s0 = 0 -> rs_eq s s0 ->
  map fst (xrun true s rs) = map (expected_x (r_tenv s0) (r_w s0)) rs /\
  Forall (fun x : dres * rstate => rs_eq (snd x) s0) (xrun true s rs).
Proof.
  induction rs as [|r rs IH]; intros s0 s Hs Hc0 (Hw & Hc & Ht & Hio); simpl; [split; constructor|].
  assert (Hcs : r_cwd s = 0) by congruence.
  destruct (rank_request_restores r s Hs Hcs) as (A1 & A2 & A3 & A4 & A5).
  assert (Hres : fst (rank_request r s) = expected_x (r_tenv s0) (r_w s0) r).
  { unfold rank_request, direct_request, expected_x. simpl. rewrite Ht.
    rewrite <- (dispatch_x_ext (r_tenv s0) r (r_w s) (r_w s0) Hw).
    destruct (dispatch_x (r_tenv s0) r (r_w s)) as [[res w'] moved]. reflexivity. }
  destruct (rank_request r s) as [res s'] eqn:E. simpl in *.
  assert (Heq : rs_eq s' s0).
  { split; [eapply weq_trans; eauto|]. split; [congruence|]. split; congruence. }
  destruct (IH s0 s' A2 Hc0 Heq) as [I1 I2].
  split; [f_equal; assumption | constructor; assumption].
Qed.

(* the table kinds x endings: exit code 0 exactly for the two endings in which
   the call itself succeeded *)
Lemma expected_x_truthful tenv w0 r :
  (d_ret (expected_x tenv w0 r) =? 0) = succeeded_x r.
Proof.
  destruct r as [[[m denv] p] e]. unfold expected_x, succeeded_x, dispatch_x.
  pose proof (proj1 (expected_truthful tenv w0 (m, denv, p))) as Hn.
  rewrite <- dispatch_expected in Hn.
  set (rw := dispatch tenv (m, denv, p) w0) in *.
  destruct m, e; cbn [fst snd applicable]; first [exact Hn | reflexivity].
Qed.

Lemma xrun_rank_isolated0 rs s0 :
  sync (r_w s0) -> r_cwd s0 = 0 ->
  map fst (xrun true s0 rs) = map (expected_x (r_tenv s0) (r_w s0)) rs /\
  Forall (fun x : dres * rstate => rs_eq (snd x) s0) (xrun true s0 rs).
Proof.
  intros Hs Hc.
  exact (xrun_rank_isolated rs s0 s0 Hs Hc (conj (weq_refl _) (conj eq_refl (conj eq_refl eq_refl)))).
Qed.
