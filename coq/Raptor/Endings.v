(* Every way a raptor request can END in Worker._dispatch_func/_eval/_exec/
   _proc/_shell (raptor/worker.py), and the per-task loop of a persistent rank
   (MPIWorkerRank.run, raptor/worker_mpi.py) around it.  Definitions only.

   endings that refuse the request before anything is touched:
     empty function name / empty code (assert), missing 'function' / 'method' /
     'code' key (KeyError), PythonTask with extra args (ValueError),
     communicator that cannot be injected (RuntimeError), callable that cannot
     be resolved or deserialized (returned as a failure)
   endings inside the guarded section (environment applied, stdio captured,
   then undone by the finally): refused environment entry, syntax error,
   failing pre_exec, missing code (exec), payload that closes the captured
   stdout (ValueError escapes), payload that leaves the interpreter
   (SystemExit escapes), payload that changes the working directory
   proc / shell: missing executable / command, bad arguments, refused
   environment entry -- all reported from inside their try, nothing touched *)
From Coq Require Import ZArith List Bool.
From RP Require Import Raptor.Model.
Import ListNotations.
Open Scope Z_scope.

Inductive ending := ENormal | EEmptyName | EMissingKey | EUnresolvable | EBadArgs | ECommInject
                  | ESyntax | EPreExec | EBadEnv | ECloseStdout | EExit | EChdir.

Definition xreq := (dreq * ending)%type.

(* which endings exist for which kind of request (others behave like ENormal) *)
Definition applicable (m : dmode) (e : ending) : bool :=
  match m, e with
  | _, ENormal => true
  | DFunc, (ESyntax | EPreExec) => false
  | DFunc, _ => true
  | DEval, (EUnresolvable | EBadArgs | ECommInject | EPreExec) => false
  | DEval, _ => true
  | DExec, (EEmptyName | EUnresolvable | EBadArgs | ECommInject) => false
  | DExec, _ => true
  | (DProc | DShell), (EMissingKey | EBadArgs | EBadEnv) => true
  | (DProc | DShell), _ => false
  end.

(* an exception that escapes the dispatcher: AssertionError 101, KeyError 102,
   ValueError 103, RuntimeError 104, SystemExit 198 *)
Definition raised (code : Z) : dres := mkRes None [] (Some code) (-1) None true.
(* a failure reported by the dispatcher itself (exit code 1 + exception) *)
Definition reported (out : option (list Z)) : dres := mkRes out [] (Some (-2)) 1 None true.

Definition denv_of (d : option env) : env := match d with Some e => e | None => [] end.

(* world after a python-mode request that got into the guarded section *)
Definition guarded (denv : option env) (acts : list act) (w : world) : world :=
  snd (dispatch_py (denv_of denv) (mkPayload acts (FRaise 0)) w).

(* one request at dispatcher level: (result, world, working directory changed) *)
Definition dispatch_x (tenv : env) (r : xreq) (w : world) : dres * world * bool :=
  let '((m, denv, p), e) := r in
  let rw := dispatch tenv (m, denv, p) w in
  let normal := (fst rw, snd rw, false) in
  match m with
  | DFunc =>
      match e with
      | EEmptyName => (raised 101, w, false)
      | EMissingKey => (raised 102, w, false)
      | EUnresolvable => (reported None, w, false)
      | EBadArgs => (raised 103, w, false)
      | ECommInject => (raised 104, w, false)
      | EBadEnv => (reported (Some []), guarded denv [] w, false)
      | ECloseStdout => (raised 103, guarded denv (p_acts p) w, false)
      | EExit => (raised 198, guarded denv (p_acts p) w, false)
      | EChdir => (fst rw, snd rw, true)
      | _ => normal
      end
  | DEval =>
      match e with
      | EEmptyName => (raised 101, w, false)
      | EMissingKey => (raised 102, w, false)
      | ESyntax | EBadEnv => (reported (Some []), guarded denv [] w, false)
      | ECloseStdout => (raised 103, guarded denv (p_acts p) w, false)
      | EExit => (raised 198, guarded denv (p_acts p) w, false)
      | EChdir => (fst rw, snd rw, true)
      | _ => normal
      end
  | DExec =>
      match e with
      | EMissingKey | ESyntax | EPreExec | EBadEnv => (reported (Some []), guarded denv [] w, false)
      | ECloseStdout => (raised 103, guarded denv (p_acts p) w, false)
      | EExit => (raised 198, guarded denv (p_acts p) w, false)
      | EChdir => (fst rw, snd rw, true)
      | _ => normal
      end
  | DProc | DShell =>
      match e with
      | EMissingKey | EBadArgs | EBadEnv => (reported None, w, false)
      | _ => normal
      end
  end.

(* ---- the persistent rank ---- *)
(* cwd: 0 = the worker's sandbox, 1 = the task's sandbox, 2 = elsewhere;
   r_tenv = Worker._task_env; r_stdio = sys.stdout / sys.stderr are the
   process's own streams *)
Record rstate := mkR { r_w : world; r_cwd : Z; r_tenv : env; r_stdio : bool }.

(* direct call of the dispatcher (what a rank does between its chdir's) *)
Definition direct_request (r : xreq) (s : rstate) : dres * rstate :=
  let '(res, w', moved) := dispatch_x (r_tenv s) r (r_w s) in
  (res, mkR w' (if moved then 2 else r_cwd s) (r_tenv s) (r_stdio s)).

(* MPIWorkerRank.run for one task: chdir(task sandbox); try: dispatch
   (an escaping Exception is reported as exit code -1) finally: chdir(worker
   sandbox) *)
Definition rank_request (r : xreq) (s : rstate) : dres * rstate :=
  let '(res, s1) := direct_request r (mkR (r_w s) 1 (r_tenv s) (r_stdio s)) in
  (res, mkR (r_w s1) 0 (r_tenv s1) (r_stdio s1)).

Fixpoint xrun (via_rank : bool) (s : rstate) (rs : list xreq) : list (dres * rstate) :=
  match rs with
  | [] => []
  | r :: rest =>
      let '(res, s') := (if via_rank then rank_request r s else direct_request r s) in
      (res, s') :: xrun via_rank s' rest
  end.
