(* Row for sequences [request x ending] ... [probe] on one persistent worker:
   model agreement + clauses on the implementation's observations. *)
From Coq Require Import ZArith List Bool.
From RP Require Import Common.Eqb Raptor.Model Raptor.Oracle Raptor.Endings.
Import ListNotations.
Open Scope Z_scope.

(* observation after one request: result, os.environ view, process environment
   view, os.environ still writes through, sys.stdout/stderr are the process's
   own, working directory (0 worker sandbox / 1 task sandbox / 2 elsewhere),
   view of Worker._task_env, no RP_TASK_ID left in the environment *)
Definition xobs := (dres * list (option Z) * list (option Z) * bool * bool * Z
                    * list (option Z) * bool)%type.

Definition succeeded_x (r : xreq) : bool :=
  let '((m, denv, p), e) := r in
  if applicable m e
  then match e with ENormal | EChdir => succeeded (m, denv, p) | _ => false end
  else succeeded (m, denv, p).

(* the specified answer: as on a fresh worker in the ORIGINAL environment *)
Definition expected_x (tenv : env) (w0 : world) (r : xreq) : dres := fst (fst (dispatch_x tenv r w0)).

Definition c20_endseq_row (via_rank : bool) (tenv e0 : env) (rs : list xreq) (obs : list xobs) : list bool :=
  let w0 := mkWorld e0 e0 true in
  let s0 := mkR w0 0 tenv true in
  [ all2 (fun (m : dres * rstate) (o : xobs) =>
       let '(res, py, pr, b, io, cwd, tv, _) := o in
       dres_eqb (fst m) res && view_eqb (view (py_env (r_w (snd m)))) py
       && view_eqb (view (pr_env (r_w (snd m)))) pr && Bool.eqb (bound (r_w (snd m))) b
       && Bool.eqb (r_stdio (snd m)) io && (r_cwd (snd m) =? cwd)
       && view_eqb (view (r_tenv (snd m))) tv)
     (xrun via_rank s0 rs) obs ]
  ++ pad 7 ++
  [ (* truthful: every request, however it ends, is answered as specified on the original state *)
    all2 (fun (r : xreq) (o : xobs) =>
       let '(res, _, _, _, _, _, _, _) := o in
       Bool.eqb (d_ret res =? 0) (succeeded_x r) && dres_eqb res (expected_x tenv w0 r)) rs obs;
    (* env_python *)
    forallb (fun o : xobs => let '(_, py, _, _, _, _, _, extra) := o in view_eqb py (view e0) && extra) obs;
    (* env_process: process environment, write-through binding, Worker._task_env and (for a
       rank, which owns it) the working directory are what they were *)
    forallb (fun o : xobs => let '(_, _, pr, b, _, cwd, tv, _) := o in
               view_eqb pr (view e0) && b && view_eqb tv (view tenv) && (negb via_rank || (cwd =? 0))) obs;
    (* stdio *)
    forallb (fun o : xobs => let '(_, _, _, _, io, _, _, _) := o in io) obs ].
