(* Proofs about the dispatcher / task-process protocol (Raptor.Race): every
   schedule ends with exactly one truthful result.  The state space of the two
   parties is finite; the set of reachable configurations is computed, shown
   closed under every scheduler choice (vm_compute), and the property is
   checked on it; induction over the schedule lifts this to all schedules. *)
From Coq Require Import ZArith List Bool Lia.
From RP Require Import Common.Eqb Raptor.Model Raptor.Oracle Raptor.Race Raptor.RaceOracle.
Import ListNotations.
Open Scope Z_scope.

Definition dpc_eqb (a b : dpc) : bool :=
  match a, b with
  | DStart, DStart | DJoin, DJoin | DAcq, DAcq | DIsSet, DIsSet | DAlive, DAlive | DTerm, DTerm
  | DJoinG, DJoinG | DAlive2, DAlive2 | DKill, DKill | DJoin3, DJoin3
  | DPutTimeout, DPutTimeout | DPutDied, DPutDied | DRel, DRel | DEnd, DEnd => true
  | _, _ => false
  end.
Definition tpc_eqb (a b : tpc) : bool :=
  match a, b with
  | TNone, TNone | TFn, TFn | TAcq, TAcq | TPut, TPut | TSet, TSet | TRel, TRel | TExit, TExit
  | TDead, TDead => true
  | _, _ => false
  end.

Definition cfg_eqb (a b : cfg) : bool :=
  dpc_eqb (c_d a) (c_d b) && tpc_eqb (c_t a) (c_t b) && eqb_option party_eqb (c_lock a) (c_lock b)
  && Bool.eqb (c_done a) (c_done b) && Bool.eqb (c_exp a) (c_exp b)
  && eqb_list rk_eqb (c_q a) (c_q b) && Bool.eqb (c_rep a) (c_rep b) && Bool.eqb (c_kill a) (c_kill b)
  && Bool.eqb (c_term a) (c_term b) && Bool.eqb (c_exp2 a) (c_exp2 b) && Bool.eqb (c_bad a) (c_bad b).

Lemma dpc_eqb_eq a b : dpc_eqb a b = true <-> a = b.
Proof. destruct a, b; simpl; split; intro H; try reflexivity; discriminate. Qed.
Lemma tpc_eqb_eq a b : tpc_eqb a b = true <-> a = b.
Proof. destruct a, b; simpl; split; intro H; try reflexivity; discriminate. Qed.
Lemma party_eqb_eq a b : party_eqb a b = true <-> a = b.
Proof. destruct a, b; simpl; split; intro H; try reflexivity; discriminate. Qed.
Lemma rk_eqb_eq a b : rk_eqb a b = true <-> a = b.
Proof. destruct a, b; simpl; split; intro H; try reflexivity; discriminate. Qed.

Lemma cfg_eqb_eq a b : cfg_eqb a b = true -> a = b.
Proof.
  destruct a, b. unfold cfg_eqb. simpl. intro H.
  repeat (apply andb_true_iff in H; destruct H as [H ?]).
  apply dpc_eqb_eq in H.
  match goal with X : tpc_eqb _ _ = true |- _ => apply tpc_eqb_eq in X end.
  match goal with X : eqb_option _ _ _ = true |- _ =>
    apply (eqb_option_spec party_eqb party_eqb_eq) in X end.
  match goal with X : eqb_list _ _ _ = true |- _ =>
    apply (eqb_list_spec rk_eqb rk_eqb_eq) in X end.
  repeat match goal with X : Bool.eqb _ _ = true |- _ => apply eqb_prop in X end.
  subst. reflexivity.
Qed.

Definition memc (c : cfg) (l : list cfg) : bool := existsb (cfg_eqb c) l.

Lemma memc_In c l : memc c l = true -> In c l.
Proof.
  unfold memc. rewrite existsb_exists. intros [x [Hx He]].
  apply cfg_eqb_eq in He. subst. exact Hx.
Qed.

Definition choices : list choice := [CD; CT; CX; CK].

Definition succs (p : pay) (timed : bool) (sg : sigr) (c : cfg) : list cfg :=
  map (fun ch => fst (sstep p timed sg c ch)) choices.

Definition add_all (l seen : list cfg) : list cfg :=
  fold_left (fun acc c => if memc c acc then acc else acc ++ [c]) l seen.

Fixpoint explore (fuel : nat) (p : pay) (timed : bool) (sg : sigr) (frontier seen : list cfg) : list cfg :=
  match fuel with
  | O => seen
  | S f =>
      let seen' := add_all (concat (map (succs p timed sg) frontier)) seen in
      match skipn (length seen) seen' with
      | [] => seen
      | new => explore f p timed sg new seen'
      end
  end.

(* every configuration any schedule can reach *)
Definition reach (p : pay) (timed : bool) (sg : sigr) : list cfg := explore 200 p timed sg [cinit] [cinit].

Definition closedb (p : pay) (timed : bool) (sg : sigr) : bool :=
  forallb (fun c => forallb (fun ch => memc (fst (sstep p timed sg c ch)) (reach p timed sg)) choices)
          (reach p timed sg).

Lemma reach_closed_b : forall p timed sg, closedb p timed sg = true.
Proof. intros [] [] []; vm_compute; reflexivity. Qed.

Lemma reach_init : forall p timed sg, In cinit (reach p timed sg).
Proof. intros p timed sg. apply memc_In. destruct p, timed, sg; vm_compute; reflexivity. Qed.

Lemma reach_step p timed sg c ch :
  In c (reach p timed sg) -> In (fst (sstep p timed sg c ch)) (reach p timed sg).
Proof.
  intro H. pose proof (reach_closed_b p timed sg) as Hc. unfold closedb in Hc.
  rewrite forallb_forall in Hc. specialize (Hc c H). rewrite forallb_forall in Hc.
  apply memc_In, Hc. destruct ch; simpl; auto.
Qed.

Lemma reach_srun p timed sg : forall s c,
  In c (reach p timed sg) -> In (fst (srun_race p timed sg c s)) (reach p timed sg).
Proof.
  induction s as [|ch r IH]; intros c H; simpl; [exact H|].
  pose proof (reach_step p timed sg c ch H) as H1.
  destruct (sstep p timed sg c ch) as [c1 t1]. simpl in H1.
  specialize (IH c1 H1). destruct (srun_race p timed sg c1 r) as [c2 t2]. exact IH.
Qed.

(* history flags agree with the trace *)
Lemma sstep_flags p timed sg c ch :
  c_rep (fst (sstep p timed sg c ch)) = c_rep c || t_reported (snd (sstep p timed sg c ch)) /\
  c_kill (fst (sstep p timed sg c ch)) = c_kill c || t_was_killed (snd (sstep p timed sg c ch)).
Proof.
  destruct c as [d t l dn e q rp kl tm e2 bd]. destruct ch; simpl.
  - destruct (enabledD timed _); [|simpl; rewrite !orb_false_r; auto].
    destruct d; simpl; try destruct dn; try destruct (negb (t_dead t)); simpl;
      rewrite ?orb_false_r, ?orb_true_r; auto.
  - destruct (enabledT p _); [|simpl; rewrite !orb_false_r; auto].
    destruct t; simpl; rewrite ?orb_false_r, ?orb_true_r; auto.
  - destruct (timed && negb e); simpl; [rewrite !orb_false_r; auto|].
    destruct d; simpl; try destruct e2; simpl; rewrite !orb_false_r; auto.
  - destruct (tm && negb (t_dead t)); simpl; rewrite !orb_false_r; auto.
Qed.

Lemma t_reported_app a b : t_reported (a ++ b) = t_reported a || t_reported b.
Proof. unfold t_reported. apply existsb_app. Qed.
Lemma t_was_killed_app a b : t_was_killed (a ++ b) = t_was_killed a || t_was_killed b.
Proof. unfold t_was_killed. apply existsb_app. Qed.

Lemma srun_flags p timed sg : forall s c,
  c_rep (fst (srun_race p timed sg c s)) = c_rep c || t_reported (snd (srun_race p timed sg c s)) /\
  c_kill (fst (srun_race p timed sg c s)) = c_kill c || t_was_killed (snd (srun_race p timed sg c s)).
Proof.
  induction s as [|ch r IH]; intro c; simpl; [rewrite !orb_false_r; auto|].
  destruct (sstep_flags p timed sg c ch) as [A1 A2].
  destruct (sstep p timed sg c ch) as [c1 t1]. simpl in A1, A2.
  destruct (IH c1) as [B1 B2]. destruct (srun_race p timed sg c1 r) as [c2 t2]. simpl in *.
  rewrite t_reported_app, t_was_killed_app, B1, B2, A1, A2, !orb_assoc. auto.
Qed.

Lemma finish_flags p timed sg : forall fuel c,
  c_rep (fst (finish fuel p timed sg c)) = c_rep c || t_reported (snd (finish fuel p timed sg c)) /\
  c_kill (fst (finish fuel p timed sg c)) = c_kill c || t_was_killed (snd (finish fuel p timed sg c)).
Proof.
  induction fuel as [|f IH]; intro c; simpl; [rewrite !orb_false_r; auto|].
  destruct (policy p timed c) as [ch|]; [|simpl; rewrite !orb_false_r; auto].
  destruct (sstep_flags p timed sg c ch) as [A1 A2].
  destruct (sstep p timed sg c ch) as [c1 t1]. simpl in A1, A2.
  destruct (IH c1) as [B1 B2]. destruct (finish f p timed sg c1) as [c2 t2]. simpl in *.
  rewrite t_reported_app, t_was_killed_app, B1, B2, A1, A2, !orb_assoc. auto.
Qed.

(* the property on a final configuration, in terms of the history flags *)
Definition truthful_state (p : pay) (c : cfg) (k : rk) : bool :=
  match k with
  | RReal0 => match p with PayReturn => c_rep c | _ => false end
  | RReal1 => match p with PayRaise => c_rep c | _ => false end
  | RTimeout => c_kill c && negb (c_rep c)
  | RDied => negb (c_kill c) && negb (c_rep c)
  | ROther => false
  end.

Definition ok_cfg (p : pay) (c : cfg) : bool :=
  finished c && ok_one (c_q c) && forallb (truthful_state p c) (c_q c).

(* a request whose call never ends needs a timeout *)
Definition allowed (p : pay) (timed : bool) : bool :=
  match p with PayHang => timed | _ => true end.

(* from every reachable configuration the completion policy ends in a good one *)
Definition finish_ok_b (p : pay) (timed : bool) (sg : sigr) : bool :=
  forallb (fun c => ok_cfg p (fst (finish race_fuel p timed sg c))) (reach p timed sg).

Lemma finish_ok : forall p timed sg, allowed p timed = true -> finish_ok_b p timed sg = true.
Proof. intros [] [] [] H; try discriminate H; vm_compute; reflexivity. Qed.

(* in NO reachable configuration has the dispatcher reported a result while the
   task process still existed -- with or without a timeout, whatever the payload
   does and however it reacts to SIGTERM *)
Definition never_bad_b (p : pay) (timed : bool) (sg : sigr) : bool :=
  forallb (fun c => negb (c_bad c)) (reach p timed sg).

Lemma never_bad : forall p timed sg, never_bad_b p timed sg = true.
Proof. intros [] [] []; vm_compute; reflexivity. Qed.

Lemma reach_finish p timed sg : forall fuel c,
  In c (reach p timed sg) -> In (fst (finish fuel p timed sg c)) (reach p timed sg).
Proof.
  induction fuel as [|f IH]; intros c H; simpl; [exact H|].
  destruct (policy p timed c) as [ch|]; [|exact H].
  pose proof (reach_step p timed sg c ch H) as H1.
  destruct (sstep p timed sg c ch) as [c1 t1]. simpl in H1.
  specialize (IH c1 H1). destruct (finish f p timed sg c1) as [c2 t2]. exact IH.
Qed.

Theorem race_reachable p timed sg s : In (fst (race p timed sg s)) (reach p timed sg).
Proof.
  unfold race. pose proof (reach_srun p timed sg s cinit (reach_init p timed sg)) as Hr.
  destruct (srun_race p timed sg cinit s) as [c1 t1]. simpl in Hr.
  pose proof (reach_finish p timed sg race_fuel c1 Hr) as Hf.
  destruct (finish race_fuel p timed sg c1) as [c2 t2]. exact Hf.
Qed.

(* reported only after the process is gone: at every point of every schedule
   (every prefix of a schedule is a schedule) *)
Theorem race_never_reported_while_alive p timed sg s :
  c_bad (fst (srun_race p timed sg cinit s)) = false /\ c_bad (fst (race p timed sg s)) = false.
Proof.
  pose proof (never_bad p timed sg) as Hb. unfold never_bad_b in Hb. rewrite forallb_forall in Hb.
  split; apply negb_true_iff, Hb.
  - apply reach_srun, reach_init.
  - apply race_reachable.
Qed.

Theorem race_ok p timed sg s :
  allowed p timed = true ->
  finished (fst (race p timed sg s)) = true /\
  ok_one (c_q (fst (race p timed sg s))) = true /\
  forallb (truthful_rk p (snd (race p timed sg s))) (c_q (fst (race p timed sg s))) = true.
Proof.
  intro Ha. unfold race.
  pose proof (reach_srun p timed sg s cinit (reach_init p timed sg)) as Hr.
  destruct (srun_flags p timed sg s cinit) as [F1 F2].
  destruct (srun_race p timed sg cinit s) as [c1 t1]. simpl in Hr, F1, F2.
  pose proof (finish_ok p timed sg Ha) as Hf. unfold finish_ok_b in Hf.
  rewrite forallb_forall in Hf. specialize (Hf c1 Hr).
  destruct (finish_flags p timed sg race_fuel c1) as [G1 G2].
  destruct (finish race_fuel p timed sg c1) as [c2 t2]. simpl in *.
  unfold ok_cfg in Hf. apply andb_true_iff in Hf as [Hf H3]. apply andb_true_iff in Hf as [H1 H2].
  split; [exact H1|]. split; [exact H2|].
  rewrite forallb_forall in H3. apply forallb_forall. intros k Hk. specialize (H3 k Hk).
  assert (Hrep : t_reported (t1 ++ t2) = c_rep c2)
    by (rewrite t_reported_app, G1, F1; reflexivity).
  assert (Hkil : t_was_killed (t1 ++ t2) = c_kill c2)
    by (rewrite t_was_killed_app, G2, F2; reflexivity).
  unfold truthful_rk, truthful_state in *. rewrite Hrep, Hkil. exact H3.
Qed.

(* one truthful result, then the later request's result: the watcher thread
   survives, both requests are handed back, everything is free *)
Lemma watcher_after_one k : k <> ROther ->
  watcher wst2 (feed [k]) =
  (mkW [false; false] [] [] 3,
   [EvResult 1 (Some (fst (rk_code k))) (snd (rk_code k)) [false; true] [];
    EvResult 2 (Some 0) false [false; false] []], true).
Proof. destruct k; intro H; try (exfalso; apply H; reflexivity); vm_compute; reflexivity. Qed.

Theorem race_then_watcher p timed sg s :
  allowed p timed = true ->
  let '(st, evs, alive) := watcher wst2 (feed (c_q (fst (race p timed sg s)))) in
  alive = true /\ returned_uids evs = [1; 2] /\ w_cb st = [false; false] /\ w_pool st = [].
Proof.
  intro Ha. destruct (race_ok p timed sg s Ha) as (_ & H1 & H2).
  destruct (c_q (fst (race p timed sg s))) as [|k [|k2 r]]; try discriminate H1.
  assert (Hk : k <> ROther).
  { intro; subst. simpl in H2. discriminate. }
  rewrite (watcher_after_one k Hk). auto.
Qed.
