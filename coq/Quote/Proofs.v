(* C10 / Quote: sh_quote followed by bash's word parsing is the identity on
   every byte string without $, backtick and NUL -- unbounded, by induction. *)
From Coq Require Import ZArith String List Bool Lia.
From RP Require Import Quote.Model.
Import ListNotations.
Open Scope Z_scope.

Lemma bytes_eqb_refl a : bytes_eqb a a = true.
Proof. induction a as [|x a IH]; simpl; [reflexivity|]. now rewrite Z.eqb_refl. Qed.

Lemma bytes_eqb_eq a : forall b, bytes_eqb a b = true <-> a = b.
Proof.
  induction a as [|x a IH]; intros [|y b]; simpl; split; intro H; try reflexivity; try discriminate.
  - apply andb_true_iff in H as [H1 H2]. apply Z.eqb_eq in H1. apply IH in H2. congruence.
  - injection H as -> ->. rewrite Z.eqb_refl. now apply IH.
Qed.

(* ---- sh_escape, character by character ------------------------------------ *)
Definition esc1 (c : Z) : bytes :=
  if c =? c_bs then [c_bs; c_bs] else if c =? c_dq then [c_bs; c_dq] else [c].

Lemma sh_escape_cons c d : sh_escape (c :: d) = esc1 c ++ sh_escape d.
Proof.
  unfold sh_escape, replace1, esc1. simpl flat_map at 2.
  rewrite flat_map_app. f_equal.
  destruct (Z.eqb_spec c c_bs) as [->|Hbs]; [reflexivity|].
  simpl. rewrite app_nil_r. reflexivity.
Qed.

Lemma sh_escape_nil : sh_escape [] = [].
Proof. reflexivity. Qed.

(* ---- the body of a double-quoted word -------------------------------------- *)
Lemma bw_dq_body e d : safe d = true -> forall s cur acc,
  bw_run e (sh_escape d ++ c_dq :: s) (MQ, Some cur, acc) = bw_run e s (MU, Some (rev d ++ cur), acc).
Proof.
  induction d as [|c d IH]; intros Hs s cur acc.
  - rewrite sh_escape_nil. reflexivity.
  - simpl in Hs. apply andb_true_iff in Hs as [Hc Hd].
    rewrite sh_escape_cons. unfold esc1.
    unfold safe_byte in Hc. apply negb_true_iff in Hc.
    apply orb_false_iff in Hc as [Hc H0]. apply orb_false_iff in Hc as [Hdol Hbt].
    replace (rev (c :: d) ++ cur) with (rev d ++ c :: cur) by (simpl; now rewrite <- app_assoc).
    destruct (Z.eqb_spec c c_bs) as [->|Hbs].
    + simpl app. cbn [bw_run step_char step_base]. cbn. apply (IH Hd).
    + destruct (Z.eqb_spec c c_dq) as [->|Hdq].
      * simpl app. cbn [bw_run step_char step_base]. cbn. apply (IH Hd).
      * simpl app. cbn [bw_run step_char step_base].
        apply Z.eqb_neq in Hbs, Hdq. rewrite Hdq, Hbs, Hdol, Hbt, H0. cbn [orb]; unfold push; cbn iota.
        apply (IH Hd).
Qed.

Definition cur_bytes (cur : option bytes) : bytes := match cur with Some w => w | None => [] end.

Lemma bw_quote e a : safe a = true -> forall s cur acc,
  bw_run e (sh_quote a ++ s) (MU, cur, acc) = bw_run e s (MU, Some (rev a ++ cur_bytes cur), acc).
Proof.
  intros Hs s cur acc. destruct a as [|c a].
  - reflexivity.
  - unfold sh_quote. set (d := c :: a) in *.
    change ((c_dq :: sh_escape d ++ [c_dq]) ++ s) with (c_dq :: (sh_escape d ++ [c_dq]) ++ s).
    rewrite <- app_assoc. cbn [bw_run step_char step_base]. cbn [is_blank].
    change (c_dq =? c_sp) with false. change (c_dq =? c_tab) with false. cbn [orb].
    rewrite Z.eqb_refl. unfold pushes. cbn [rev app].
    apply (bw_dq_body e d Hs).
Qed.

(* ---- unquoted plain characters ---------------------------------------------- *)
Lemma plain_not_special c : is_plain c = true ->
  is_blank c = false /\ (c =? c_dq) = false /\ (c =? c_dol) = false /\ is_pyspace c = false.
Proof.
  intro H. unfold is_plain, is_ident_char, is_alpha_, is_digit in H.
  unfold is_blank, is_pyspace, c_sp, c_tab, c_dq, c_dol.
  repeat split;
    repeat match goal with
           | |- (_ || _) = false => apply orb_false_iff; split
           | |- (_ && _) = false => apply andb_false_iff
           end; try (apply Z.eqb_neq; intro; subst c; discriminate H).
  - destruct (Z.leb_spec c 13); [|now right]. left. apply Z.leb_gt.
    destruct (Z.ltb_spec c 9); [assumption|].
    assert (Hc : c = 9 \/ c = 10 \/ c = 11 \/ c = 12 \/ c = 13) by lia.
    destruct Hc as [->|[->|[->|[->| ->]]]]; discriminate H.
  - destruct (Z.leb_spec c 32); [|now right]. left. apply Z.leb_gt.
    destruct (Z.ltb_spec c 28); [assumption|].
    assert (Hc : c = 28 \/ c = 29 \/ c = 30 \/ c = 31 \/ c = 32) by lia.
    destruct Hc as [->|[->|[->|[->| ->]]]]; discriminate H.
Qed.

Lemma bw_plain_some e w : forallb is_plain w = true -> forall s u acc,
  bw_run e (w ++ s) (MU, Some u, acc) = bw_run e s (MU, Some (rev w ++ u), acc).
Proof.
  induction w as [|c w IH]; intros Hp s u acc; [reflexivity|].
  simpl in Hp. apply andb_true_iff in Hp as [Hc Hw].
  destruct (plain_not_special c Hc) as (Hb & Hq & Hd & _).
  simpl app. cbn [bw_run step_char step_base]. rewrite Hb, Hq, Hd, Hc. unfold push; cbn iota.
  rewrite (IH Hw). simpl. now rewrite <- app_assoc.
Qed.

Lemma bw_plain e w : plain_word w = true -> forall s acc,
  bw_run e (w ++ s) (MU, None, acc) = bw_run e s (MU, Some (rev w), acc).
Proof.
  intros Hp s acc. destruct w as [|c w]; [discriminate|].
  unfold plain_word in Hp. simpl in Hp. apply andb_true_iff in Hp as [Hc Hw].
  destruct (plain_not_special c Hc) as (Hb & Hq & Hd & _).
  simpl app. cbn [bw_run step_char step_base]. rewrite Hb, Hq, Hd, Hc. unfold push; cbn iota.
  rewrite (bw_plain_some e w Hw). reflexivity.
Qed.

(* ---- a list of quoted words ---------------------------------------------------- *)
Lemma bw_args e args : forallb safe args = true -> args <> [] -> forall acc,
  bw_run e (join [c_sp] (map sh_quote args)) (MU, None, acc) = Some (rev acc ++ args).
Proof.
  induction args as [|a args IH]; intros Hs Hne acc; [congruence|].
  simpl in Hs. apply andb_true_iff in Hs as [Ha Hr].
  destruct args as [|b args].
  - simpl. rewrite <- (app_nil_r (sh_quote a)). rewrite (bw_quote e a Ha).
    simpl. rewrite app_nil_r, rev_involutive. reflexivity.
  - change (join [c_sp] (map sh_quote (a :: b :: args)))
      with (sh_quote a ++ [c_sp] ++ join [c_sp] (map sh_quote (b :: args))).
    rewrite (bw_quote e a Ha). simpl app at 1.
    cbn [bw_run step_char step_base]. change (is_blank c_sp) with true. cbn iota.
    cbn [flush cur_bytes]. rewrite app_nil_r, rev_involutive.
    rewrite (IH Hr ltac:(discriminate)). simpl. now rewrite <- app_assoc.
Qed.

(* ---- rstrip leaves the command line alone ------------------------------------------ *)
Lemma rstrip_last x c : is_pyspace c = false -> rstrip (x ++ [c]) = x ++ [c].
Proof.
  intro H. unfold rstrip. rewrite rev_app_distr. simpl. rewrite H. simpl. now rewrite rev_involutive.
Qed.

Lemma sh_quote_last a : exists x, sh_quote a = x ++ [c_dq].
Proof.
  destruct a as [|c a]; [exists [c_dq]; reflexivity|].
  exists (c_dq :: sh_escape (c :: a)). reflexivity.
Qed.

Lemma join_quote_last args : args <> [] -> exists x, join [c_sp] (map sh_quote args) = x ++ [c_dq].
Proof.
  induction args as [|a args IH]; intro Hne; [congruence|].
  destruct args as [|b args].
  - simpl. apply sh_quote_last.
  - destruct (IH ltac:(discriminate)) as [x Hx].
    exists (sh_quote a ++ [c_sp] ++ x).
    change (join [c_sp] (map sh_quote (a :: b :: args)))
      with (sh_quote a ++ [c_sp] ++ join [c_sp] (map sh_quote (b :: args))).
    rewrite Hx. now rewrite !app_assoc.
Qed.

Lemma plain_last w : plain_word w = true -> exists x c, w = x ++ [c] /\ is_plain c = true.
Proof.
  intro H. destruct w as [|c0 w]; [discriminate|]. unfold plain_word in H.
  destruct (exists_last (l := c0 :: w) ltac:(discriminate)) as (x & c & E).
  exists x, c. split; [exact E|].
  rewrite forallb_forall in H. apply H. rewrite E. apply in_or_app. right. now left.
Qed.

Lemma rstrip_sp w : plain_word w = true -> rstrip (w ++ [c_sp]) = w.
Proof.
  intro Hw. destruct (plain_last w Hw) as (x & c & -> & Hc).
  destruct (plain_not_special c Hc) as (_ & _ & _ & Hsp).
  unfold rstrip. rewrite rev_app_distr. simpl rev at 1. simpl app.
  change (is_pyspace c_sp) with true. cbn iota.
  rewrite rev_app_distr. simpl. rewrite Hsp. simpl. now rewrite rev_involutive.
Qed.

(* ---- the theorems ------------------------------------------------------------------- *)
(* the command line written by LaunchMethod.get_exec, read by bash, is the
   described command word followed by exactly the described arguments *)
Theorem argv_roundtrip_lemma e exe args :
  plain_word exe = true -> forallb safe args = true ->
  bash_words e (get_exec exe args) = Some (exe :: args).
Proof.
  intros He Hs. unfold bash_words, get_exec.
  destruct args as [|a args].
  - simpl arg_string. rewrite app_nil_r. rewrite (rstrip_sp exe He).
    rewrite <- (app_nil_r exe). rewrite (bw_plain e exe He). simpl.
    now rewrite rev_involutive, app_nil_r.
  - destruct (join_quote_last (a :: args) ltac:(discriminate)) as [x Hx].
    unfold arg_string. rewrite Hx.
    replace (exe ++ [c_sp] ++ x ++ [c_dq]) with ((exe ++ [c_sp] ++ x) ++ [c_dq]) by now rewrite <- !app_assoc.
    rewrite rstrip_last by reflexivity.
    rewrite <- !app_assoc. rewrite <- Hx.
    rewrite (bw_plain e exe He). simpl app at 1.
    cbn [bw_run step_char step_base]. change (is_blank c_sp) with true. cbn iota. cbn [flush].
    rewrite rev_involutive.
    rewrite (bw_args e (a :: args) Hs ltac:(discriminate)). reflexivity.
Qed.

(* a value written with sh_quote is read back unchanged *)
Theorem quoted_word_roundtrip e v : safe v = true -> bash_word e (sh_quote v) = Some v.
Proof.
  intro Hs. unfold bash_word, bash_words.
  rewrite <- (app_nil_r (sh_quote v)). rewrite (bw_quote e v Hs). simpl.
  now rewrite app_nil_r, rev_involutive.
Qed.

(* the line  export K=<sh_quote v>  is the two words  export  and  K=v *)
Theorem env_roundtrip_lemma e k v :
  plain_word k = true -> safe v = true ->
  bash_words e (B "export" ++ [c_sp] ++ k ++ [61] ++ sh_quote v) = Some [B "export"; k ++ [61] ++ v].
Proof.
  intros Hk Hs. unfold bash_words.
  rewrite (bw_plain e (B "export") eq_refl). simpl app at 1.
  cbn [bw_run step_char step_base]. change (is_blank c_sp) with true. cbn iota. cbn [flush].
  rewrite (bw_plain e k Hk). simpl app at 1.
  cbn [bw_run step_char step_base]. change (is_blank 61) with false. change (61 =? c_dq) with false.
  change (61 =? c_dol) with false. change (is_plain 61) with true. cbn iota. unfold push; cbn iota.
  rewrite <- (app_nil_r (sh_quote v)). rewrite (bw_quote e v Hs). simpl.
  rewrite rev_app_distr. simpl. rewrite !rev_involutive. rewrite <- app_assoc. reflexivity.
Qed.

Lemma ident_plain k : is_ident k = true -> plain_word k = true.
Proof.
  destruct k as [|c k]; [discriminate|]. unfold is_ident, plain_word. intro H.
  apply andb_true_iff in H as [Hc Hk]. simpl. apply andb_true_iff. split.
  - unfold is_plain, is_ident_char. now rewrite Hc.
  - rewrite forallb_forall in *. intros x Hx. unfold is_plain. now rewrite (Hk x Hx).
Qed.

(* a literal between plain double quotes (the way _get_rp_env writes ids and
   addresses: no escaping at all) is read back unchanged when it has no
   double quote, backslash, $, backtick or NUL *)
Definition literal_byte (c : Z) : bool := safe_byte c && negb (c =? c_dq) && negb (c =? c_bs).
Definition literal (v : bytes) : bool := match v with [] => false | _ => forallb literal_byte v end.

Lemma literal_escape v : forallb literal_byte v = true -> sh_escape v = v /\ safe v = true.
Proof.
  induction v as [|c v IH]; intro H; [split; reflexivity|].
  simpl in H. apply andb_true_iff in H as [Hc Hv]. destruct (IH Hv) as [E S].
  unfold literal_byte in Hc. apply andb_true_iff in Hc as [Hc Hbs]. apply andb_true_iff in Hc as [Hs Hdq].
  apply negb_true_iff in Hbs, Hdq. split.
  - rewrite sh_escape_cons, E. unfold esc1. now rewrite Hbs, Hdq.
  - simpl. now rewrite Hs, S.
Qed.

Theorem literal_roundtrip e v : literal v = true -> bash_word e (c_dq :: v ++ [c_dq]) = Some v.
Proof.
  intro H. destruct v as [|c v]; [discriminate|]. unfold literal in H.
  destruct (literal_escape (c :: v) H) as [E S].
  rewrite <- (quoted_word_roundtrip e (c :: v) S). unfold sh_quote. now rewrite E.
Qed.

Lemma argv_dollar_refuted : exists a, bash_words [] (get_exec (B "x") [a]) <> Some [B "x"; a].
Proof. exists (B "$HOME"). vm_compute. discriminate. Qed.
