(* C10 / Quote: byte strings, radical.utils.sh_quote as used by
   LaunchMethod._create_arg_string / get_exec, and bash's word parsing for the
   fragment of the shell language the script generator emits:
     - unquoted words made of ''plain'' characters,
     - double-quoted segments with bash's backslash rule
       (inside ''...'', a backslash is removed only before $ ` '' \ and newline),
     - $NAME parameter expansion (needed for the RP_* sandbox variables),
     - blanks (space, tab) separating words.
   Anything else (single quotes, globs, command substitution, ${..}, $(..),
   unquoted backslash, comments, operators, an unterminated quote, a NUL byte)
   is OUTSIDE the fragment: the parser answers None.
   Executable definitions only. *)
From Coq Require Import ZArith List Bool String Ascii.
From Coq Require DecimalZ Decimal.
Import ListNotations.
Open Scope Z_scope.

Definition bytes := list Z.

Definition B (s : string) : bytes :=
  map (fun a => Z.of_nat (nat_of_ascii a)) (list_ascii_of_string s).

Definition c_dq  := 34.   (* '' *)
Definition c_bs  := 92.   (* \ *)
Definition c_dol := 36.   (* $ *)
Definition c_bt  := 96.   (* ` *)
Definition c_nl  := 10.
Definition c_sp  := 32.
Definition c_tab := 9.

Fixpoint bytes_eqb (a b : bytes) : bool :=
  match a, b with
  | [], [] => true
  | x :: a', y :: b' => (x =? y) && bytes_eqb a' b'
  | _, _ => false
  end.

(* ---- python: str.replace(<one char>, rep), str.join, str.rstrip --------- *)
Definition replace1 (ch : Z) (rep : bytes) (d : bytes) : bytes :=
  flat_map (fun c => if c =? ch then rep else [c]) d.

Fixpoint join (sep : bytes) (l : list bytes) : bytes :=
  match l with
  | [] => []
  | [x] => x
  | x :: l' => x ++ sep ++ join sep l'
  end.

(* ASCII whitespace of str.rstrip() (the multi-byte unicode spaces are not modelled) *)
Definition is_pyspace (c : Z) : bool :=
  ((9 <=? c) && (c <=? 13)) || ((28 <=? c) && (c <=? 32)).

Fixpoint dropwhile {A} (p : A -> bool) (l : list A) : list A :=
  match l with
  | [] => []
  | x :: l' => if p x then dropwhile p l' else l
  end.

Definition rstrip (d : bytes) : bytes := rev (dropwhile is_pyspace (rev d)).

(* ---- radical.utils.sh_quote ---------------------------------------------
     if not data: return ''''''
     data = data.replace('\\', '\\\\')
     data = data.replace('''',  '\\''')
     return '''%s''' % data                                                     *)
Definition sh_escape (d : bytes) : bytes :=
  replace1 c_dq [c_bs; c_dq] (replace1 c_bs [c_bs; c_bs] d).

Definition sh_quote (d : bytes) : bytes :=
  match d with
  | [] => [c_dq; c_dq]
  | _ => c_dq :: sh_escape d ++ [c_dq]
  end.

(* LaunchMethod._create_arg_string *)
Definition arg_string (args : list bytes) : bytes :=
  match args with
  | [] => []
  | _ => join [c_sp] (map sh_quote args)
  end.

(* LaunchMethod.get_exec:  ('%s %s' % (exe, argstr)).rstrip() *)
Definition get_exec (exe : bytes) (args : list bytes) : bytes :=
  rstrip (exe ++ [c_sp] ++ arg_string args).

(* ---- decimal rendering ('%d' % n) ---------------------------------------- *)
Fixpoint bytes_of_uint (u : Decimal.uint) : bytes :=
  match u with
  | Decimal.Nil => []
  | Decimal.D0 u => 48 :: bytes_of_uint u | Decimal.D1 u => 49 :: bytes_of_uint u
  | Decimal.D2 u => 50 :: bytes_of_uint u | Decimal.D3 u => 51 :: bytes_of_uint u
  | Decimal.D4 u => 52 :: bytes_of_uint u | Decimal.D5 u => 53 :: bytes_of_uint u
  | Decimal.D6 u => 54 :: bytes_of_uint u | Decimal.D7 u => 55 :: bytes_of_uint u
  | Decimal.D8 u => 56 :: bytes_of_uint u | Decimal.D9 u => 57 :: bytes_of_uint u
  end.

Definition dec (n : Z) : bytes :=
  match Z.to_int n with
  | Decimal.Pos u => bytes_of_uint u
  | Decimal.Neg u => 45 :: bytes_of_uint u
  end.

(* ---- bash word parsing ---------------------------------------------------- *)
Definition is_alpha_ (c : Z) : bool :=
  ((65 <=? c) && (c <=? 90)) || ((97 <=? c) && (c <=? 122)) || (c =? 95).
Definition is_digit (c : Z) : bool := (48 <=? c) && (c <=? 57).
Definition is_ident_char (c : Z) : bool := is_alpha_ c || is_digit c.

(* characters that stand for themselves in an unquoted word:
   letters digits _ % + , - . / : = @                                          *)
Definition is_plain (c : Z) : bool :=
  is_ident_char c || (c =? 37) || ((43 <=? c) && (c <=? 47)) || (c =? 58) || (c =? 61) || (c =? 64).

Definition is_blank (c : Z) : bool := (c =? c_sp) || (c =? c_tab).

Definition envmap := list (bytes * bytes).

Fixpoint lookup (k : bytes) (e : envmap) : option bytes :=
  match e with
  | [] => None
  | (k', v) :: e' => if bytes_eqb k k' then Some v else lookup k e'
  end.

Definition getenv (k : bytes) (e : envmap) : bytes :=
  match lookup k e with Some v => v | None => [] end.

Inductive mode :=
| MU                          (* unquoted *)
| MQ                          (* inside ''...'' *)
| MQB                         (* inside ''...'', just after a backslash *)
| MV (quoted : bool) (name : bytes).  (* reading the NAME of $NAME (name reversed) *)

(* parser state: mode, word in progress (reversed; None = between words), finished words (reversed) *)
Definition pst := (mode * option bytes * list bytes)%type.

Definition push (c : Z) (cur : option bytes) : option bytes :=
  Some (c :: match cur with Some w => w | None => [] end).
Definition pushes (v : bytes) (cur : option bytes) : option bytes :=
  Some (rev v ++ match cur with Some w => w | None => [] end).
Definition flush (cur : option bytes) (acc : list bytes) : list bytes :=
  match cur with Some w => rev w :: acc | None => acc end.

(* one character in the modes MU / MQ / MQB *)
Definition step_base (c : Z) (m : mode) (cur : option bytes) (acc : list bytes) : option pst :=
  match m with
  | MU =>
      if is_blank c then Some (MU, None, flush cur acc)
      else if c =? c_dq then Some (MQ, pushes [] cur, acc)
      else if c =? c_dol then Some (MV false [], cur, acc)
      else if is_plain c then Some (MU, push c cur, acc)
      else None
  | MQ =>
      if c =? c_dq then Some (MU, cur, acc)
      else if c =? c_bs then Some (MQB, cur, acc)
      else if c =? c_dol then Some (MV true [], cur, acc)
      else if (c =? c_bt) || (c =? 0) then None
      else Some (MQ, push c cur, acc)
  | MQB =>
      if (c =? c_dol) || (c =? c_bt) || (c =? c_dq) || (c =? c_bs) then Some (MQ, push c cur, acc)
      else if c =? c_nl then Some (MQ, cur, acc)
      else if c =? 0 then None
      else Some (MQ, push c (push c_bs cur), acc)
  | MV _ _ => None
  end.

(* the end of a $NAME: substitute.  Unquoted, the value must consist of plain
   characters (no field splitting / globbing inside the fragment). *)
Definition close_var (e : envmap) (quoted : bool) (name : bytes) (cur : option bytes)
  : option (mode * option bytes) :=
  match name with
  | [] => None                                  (* ''$'' not followed by a name *)
  | _ =>
      let v := getenv (rev name) e in
      if quoted then Some (MQ, pushes v cur)
      else if forallb is_plain v
           then Some (MU, match v with [] => cur | _ => pushes v cur end)
           else None
  end.

Definition step_char (e : envmap) (c : Z) (st : pst) : option pst :=
  let '(m, cur, acc) := st in
  match m with
  | MV q name =>
      if match name with [] => is_alpha_ c | _ => is_ident_char c end
      then Some (MV q (c :: name), cur, acc)
      else match close_var e q name cur with
           | Some (m', cur') => step_base c m' cur' acc
           | None => None
           end
  | _ => step_base c m cur acc
  end.

Definition finish (e : envmap) (st : pst) : option (list bytes) :=
  let '(m, cur, acc) := st in
  match m with
  | MU => Some (rev (flush cur acc))
  | MV false name =>
      match close_var e false name cur with
      | Some (_, cur') => Some (rev (flush cur' acc))
      | None => None
      end
  | _ => None                                   (* unterminated quote *)
  end.

Fixpoint bw_run (e : envmap) (s : bytes) (st : pst) : option (list bytes) :=
  match s with
  | [] => finish e st
  | c :: s' =>
      match step_char e c st with
      | Some st' => bw_run e s' st'
      | None => None
      end
  end.

(* the words bash obtains from one line of the fragment, in environment e *)
Definition bash_words (e : envmap) (s : bytes) : option (list bytes) :=
  bw_run e s (MU, None, []).

(* exactly one word (an assignment value, a redirection target) *)
Definition bash_word (e : envmap) (s : bytes) : option bytes :=
  match bash_words e s with
  | Some [w] => Some w
  | Some [] => Some []
  | _ => None
  end.

(* inputs for which the generator's quoting promises a round trip: sh_quote's
   docstring leaves $ and ` to the shell; a NUL byte cannot be in argv *)
Definition safe_byte (c : Z) : bool := negb ((c =? c_dol) || (c =? c_bt) || (c =? 0)).
Definition safe (d : bytes) : bool := forallb safe_byte d.
Definition plain_word (d : bytes) : bool :=
  match d with [] => false | _ => forallb is_plain d end.
Definition is_ident (d : bytes) : bool :=
  match d with [] => false | c :: d' => is_alpha_ c && forallb is_ident_char d' end.
