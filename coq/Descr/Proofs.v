(* C19 -- lemmas and invariants. *)
From Coq Require Import ZArith List String Bool Lia.
From RP Require Import Common.Eqb Descr.Types Descr.Model Descr.Oracle.
Import ListNotations.
Open Scope Z_scope.

(* ================================================================== *)
(* association lists                                                    *)

Lemma lookup_set_same {A} k (v : A) d : lookup k (set k v d) = Some v.
Proof.
  induction d as [|[k' v'] r IH]; simpl.
  - rewrite String.eqb_refl; reflexivity.
  - destruct (String.eqb k k') eqn:E; simpl.
    + rewrite String.eqb_refl; reflexivity.
    + rewrite E; exact IH.
Qed.

Lemma lookup_set_other {A} k k' (v : A) d : k <> k' -> lookup k' (set k v d) = lookup k' d.
Proof.
  intros Hne; induction d as [|[k2 v2] r IH]; simpl.
  - destruct (String.eqb_spec k' k) as [->|]; [congruence|reflexivity].
  - destruct (String.eqb_spec k k2) as [->|Hk]; simpl.
    + destruct (String.eqb_spec k' k2) as [->|]; [congruence|reflexivity].
    + destruct (String.eqb k' k2); [reflexivity|exact IH].
Qed.

Lemma getv_set_same k v d : getv k (set k v d) = v.
Proof. unfold getv; rewrite lookup_set_same; reflexivity. Qed.

Lemma getv_set_other k k' v d : k <> k' -> getv k' (set k v d) = getv k' d.
Proof. intros H; unfold getv; rewrite lookup_set_other by exact H; reflexivity. Qed.

Lemma mem_str_In s l : mem_str s l = true <-> In s l.
Proof.
  unfold mem_str; rewrite existsb_exists; split.
  - intros [x [Hx He]]. apply String.eqb_eq in He; subst; exact Hx.
  - intros H; exists s; split; [exact H|apply String.eqb_refl].
Qed.

Lemma mem_str_false s l : mem_str s l = false <-> ~ In s l.
Proof.
  rewrite <- mem_str_In. destruct (mem_str s l); split; intro H; try congruence; try reflexivity.
Qed.

Lemma nodup_str_NoDup l : nodup_str l = true -> NoDup l.
Proof.
  induction l as [|x r IH]; simpl; intro H; [constructor|].
  apply andb_true_iff in H as [H1 H2]. apply negb_true_iff in H1. apply mem_str_false in H1.
  constructor; [exact H1|apply IH; exact H2].
Qed.

Lemma disjoint_str_spec a b : disjoint_str a b = true -> forall x, In x a -> ~ In x b.
Proof.
  unfold disjoint_str; rewrite forallb_forall; intros H x Hx.
  apply H in Hx. apply negb_true_iff in Hx. apply mem_str_false in Hx; exact Hx.
Qed.

Lemma keys_set {A} k (v : A) d :
  map fst (set k v d) = if mem_str k (map fst d) then map fst d else map fst d ++ [k].
Proof.
  induction d as [|[k' v'] r IH]; simpl; [reflexivity|].
  destruct (String.eqb_spec k k') as [->|Hne]; simpl; [reflexivity|].
  rewrite IH. unfold mem_str. destruct (existsb (String.eqb k) (map fst r)); reflexivity.
Qed.

Lemma keys_set_in {A} k (v : A) d : In k (map fst d) -> map fst (set k v d) = map fst d.
Proof. intros H; rewrite keys_set. apply mem_str_In in H; rewrite H; reflexivity. Qed.

(* ================================================================== *)
(* the dict round trip                                                  *)

Lemma copy_val_id v : copy_val v = v.
Proof.
  destruct v as [a|l|l]; simpl; [reflexivity| |].
  - rewrite map_id; reflexivity.
  - f_equal. induction l as [|[k a] r IH]; simpl; [reflexivity|]. rewrite IH; reflexivity.
Qed.

Lemma as_dict_id d : as_dict d = d.
Proof.
  unfold as_dict. induction d as [|[k v] r IH]; simpl; [reflexivity|].
  rewrite copy_val_id, IH; reflexivity.
Qed.

Definition NoDupKeys {A} (d : list (string * A)) := NoDup (map fst d).

Lemma update_cons_other k v d items :
  (forall i, In i items -> fst i <> k) ->
  update ((k, v) :: d) items = (k, v) :: update d items.
Proof.
  revert d v; induction items as [|[k' v'] r IH]; intros d v H; [reflexivity|].
  unfold update in *; simpl.
  assert (Hk : k' <> k) by (apply (H (k', v')); left; reflexivity).
  destruct (String.eqb_spec k' k) as [->|_]; [congruence|].
  apply IH. intros i Hi; apply H; right; exact Hi.
Qed.

Lemma update_nil q : NoDupKeys q -> update [] q = q.
Proof.
  induction q as [|[k v] r IH]; intro H; [reflexivity|].
  inversion H as [|? ? Hn Hr]; subst.
  change (update [] ((k, v) :: r)) with (update [(k, v)] r).
  rewrite update_cons_other.
  - rewrite IH by exact Hr; reflexivity.
  - intros i Hi He. apply Hn. rewrite <- He. apply in_map; exact Hi.
Qed.

(* a dict whose keys start with the keys of b, in b's order, absorbs b *)
Lemma update_absorb b : forall r,
  NoDupKeys r -> (exists e, map fst r = map fst b ++ e) -> update b r = r.
Proof.
  induction b as [|[k v0] b' IH]; intros r Hnd [e He].
  - apply update_nil; exact Hnd.
  - destruct r as [|[k' v] r']; simpl in He; [discriminate|].
    injection He as Hk Hr; subst k'.
    inversion Hnd as [|? ? Hn Hr']; subst.
    change (update ((k, v0) :: b') ((k, v) :: r')) with (update (set k v ((k, v0) :: b')) r').
    simpl. rewrite String.eqb_refl.
    rewrite update_cons_other.
    + rewrite IH; [reflexivity|exact Hr'|exists e; exact Hr].
    + intros i Hi Hf. apply Hn. rewrite <- Hf. apply in_map; exact Hi.
Qed.

Lemma set_NoDupKeys {A} k (v : A) d : NoDupKeys d -> NoDupKeys (set k v d).
Proof.
  unfold NoDupKeys; intro H. rewrite keys_set.
  destruct (mem_str k (map fst d)) eqn:E; [exact H|].
  apply mem_str_false in E.
  apply NoDup_rev in H. rewrite <- (rev_involutive (map fst d ++ [k])).
  apply NoDup_rev. rewrite rev_app_distr; simpl. constructor; [|exact H].
  rewrite <- in_rev; exact E.
Qed.

Lemma update_keys x : forall d,
  NoDupKeys d -> NoDupKeys (update d x) /\ exists e, map fst (update d x) = map fst d ++ e.
Proof.
  induction x as [|[k v] r IH]; intros d Hd.
  - split; [exact Hd|exists []; rewrite app_nil_r; reflexivity].
  - change (update d ((k, v) :: r)) with (update (set k v d) r).
    destruct (IH (set k v d) (set_NoDupKeys k v d Hd)) as [H1 [e He]].
    split; [exact H1|].
    rewrite He, keys_set. destruct (mem_str k (map fst d)).
    + exists e; reflexivity.
    + exists ([k] ++ e). rewrite <- app_assoc; reflexivity.
Qed.

Lemma construct_keys T x :
  NoDupKeys (construct T x) /\
  exists e, map fst (construct T x) = map fst (update [] (t_defaults T)) ++ e.
Proof.
  unfold construct. apply update_keys.
  apply (update_keys (t_defaults T) []). constructor.
Qed.

(* converted to a plain dictionary and back: equal to the original *)
Lemma dict_roundtrip T x :
  construct T (as_dict (construct T x)) = construct T x.
Proof.
  rewrite as_dict_id. unfold construct at 1.
  destruct (construct_keys T x) as [Hnd He].
  apply update_absorb; assumption.
Qed.

Lemma dict_roundtrip_keys T d :
  NoDupKeys d -> (exists e, map fst d = map fst (update [] (t_defaults T)) ++ e) ->
  construct T (as_dict d) = d.
Proof. intros H1 H2. rewrite as_dict_id. apply update_absorb; assumption. Qed.

(* ================================================================== *)
(* casts are idempotent                                                 *)

Lemma cast_atom_idem t a a' : cast_atom t a = Some a' -> cast_atom t a' = Some a'.
Proof.
  destruct a as [|b|z|h|s], t; simpl; intro H; try (injection H as <-; reflexivity);
    try (destruct (parse_int s); simpl in H; [injection H as <-; reflexivity|discriminate]);
    try (destruct (parse_float s); simpl in H; [injection H as <-; reflexivity|discriminate]);
    match type of H with
    | option_map ABool ?x = _ => destruct x; simpl in H; [injection H as <-; reflexivity|discriminate]
    end.
Qed.

Lemma cast_elem_idem t a a' : cast_elem t a = Some a' -> cast_elem t a' = Some a'.
Proof. destruct t as [t|]; simpl; [apply cast_atom_idem|intro H; injection H as <-; reflexivity]. Qed.

Lemma cast_elems_idem t l : forall l', cast_elems t l = Some l' -> cast_elems t l' = Some l'.
Proof.
  induction l as [|a r IH]; simpl; intros l' H; [injection H as <-; reflexivity|].
  destruct (cast_elem t a) as [a'|] eqn:Ea; [|discriminate].
  destruct (cast_elems t r) as [r'|] eqn:Er; [|discriminate].
  injection H as <-. simpl. rewrite (cast_elem_idem _ _ _ Ea), (IH _ eq_refl); reflexivity.
Qed.

Lemma cast_items_idem t l : forall l', cast_items t l = Some l' -> cast_items t l' = Some l'.
Proof.
  induction l as [|[k a] r IH]; simpl; intros l' H; [injection H as <-; reflexivity|].
  destruct (cast_elem t a) as [a'|] eqn:Ea; [|discriminate].
  destruct (cast_items t r) as [r'|] eqn:Er; [|discriminate].
  injection H as <-. simpl. rewrite (cast_elem_idem _ _ _ Ea), (IH _ eq_refl); reflexivity.
Qed.

Lemma cast_none t : cast t (VA ANone) = inr (VA ANone).
Proof. reflexivity. Qed.

Lemma cast_FAtom t a :
  cast (FAtom t) (VA a) = match cast_atom t a with Some a' => inr (VA a') | None => inl TypeError end.
Proof. destruct a; reflexivity. Qed.

Lemma cast_FList_VL t l :
  cast (FList t) (VL l) = match cast_elems t l with Some l' => inr (VL l') | None => inl TypeError end.
Proof. reflexivity. Qed.

Lemma cast_FList_VA t a : a <> ANone ->
  cast (FList t) (VA a) = match cast_elems t [a] with Some l' => inr (VL l') | None => inl TypeError end.
Proof. destruct a; intro H; try reflexivity; congruence. Qed.

Lemma cast_idem t v v' : cast t v = inr v' -> cast t v' = inr v'.
Proof.
  destruct t as [t'|t'|tk tv|c].
  - destruct v as [a|l|l].
    + rewrite cast_FAtom. destruct (cast_atom t' a) as [a'|] eqn:E; [|discriminate].
      intro H; injection H as <-. rewrite cast_FAtom, (cast_atom_idem _ _ _ E); reflexivity.
    + destruct t'; discriminate.
    + destruct t'; discriminate.
  - destruct v as [a|l|l].
    + destruct a as [|b|z|h|s]; [intro H; injection H as <-; reflexivity| | | |];
        (rewrite cast_FList_VA by discriminate;
         destruct (cast_elems t' _) as [l'|] eqn:E; [|discriminate];
         intro H; injection H as <-; rewrite cast_FList_VL, (cast_elems_idem _ _ _ E); reflexivity).
    + rewrite cast_FList_VL. destruct (cast_elems t' l) as [l'|] eqn:E; [|discriminate].
      intro H; injection H as <-; rewrite cast_FList_VL, (cast_elems_idem _ _ _ E); reflexivity.
    + discriminate.
  - destruct v as [a|l|l].
    + destruct a; [intro H; injection H as <-; reflexivity| | | |]; discriminate.
    + discriminate.
    + destruct tk as [[| | |]|]; try discriminate;
        (unfold cast; destruct (cast_items tv l) as [l'|] eqn:E; [|discriminate];
         intro H; injection H as <-; rewrite (cast_items_idem _ _ _ E); reflexivity).
  - destruct v as [a|l|l].
    + destruct a; [intro H; injection H as <-; reflexivity| | | |]; discriminate.
    + destruct l; [intro H; injection H as <-; reflexivity|discriminate].
    + discriminate.
Qed.

(* ================================================================== *)
(* the type pass                                                        *)

Lemma typecheck_cons sch k v r d' :
  typecheck sch ((k, v) :: r) = inr d' ->
  exists t v' r', lookup k sch = Some t /\ cast t v = inr v' /\ typecheck sch r = inr r'
                  /\ d' = (k, v') :: r'.
Proof.
  simpl. destruct (lookup k sch) as [t|]; [|discriminate].
  destruct (cast t v) as [e|v'] eqn:Ec; [discriminate|].
  destruct (typecheck sch r) as [e|r'] eqn:Er; [discriminate|].
  intro H; injection H as <-. exists t, v', r'; repeat split; assumption.
Qed.

Definition stable (sch : list (string * ftype)) (d : descr) : Prop := typecheck sch d = inr d.

Lemma typecheck_idem sch d : forall d1, typecheck sch d = inr d1 -> stable sch d1.
Proof.
  unfold stable. induction d as [|[k v] r IH]; intros d1 H.
  - injection H as <-; reflexivity.
  - apply typecheck_cons in H as (t & v' & r' & Hl & Hc & Hr & ->).
    simpl. rewrite Hl, (cast_idem _ _ _ Hc), (IH _ Hr); reflexivity.
Qed.

Lemma typecheck_keys sch d : forall d1, typecheck sch d = inr d1 -> map fst d1 = map fst d.
Proof.
  induction d as [|[k v] r IH]; intros d1 H.
  - injection H as <-; reflexivity.
  - apply typecheck_cons in H as (t & v' & r' & Hl & Hc & Hr & ->).
    simpl. rewrite (IH _ Hr); reflexivity.
Qed.

(* the value of k after the type pass is the cast of its value before *)
Lemma typecheck_getv sch d : forall d1 k t,
  typecheck sch d = inr d1 -> lookup k sch = Some t -> cast t (getv k d) = inr (getv k d1).
Proof.
  induction d as [|[k0 v] r IH]; intros d1 k t H Hk.
  - injection H as <-. reflexivity.
  - apply typecheck_cons in H as (t0 & v' & r' & Hl & Hc & Hr & ->).
    unfold getv; simpl. destruct (String.eqb_spec k k0) as [->|Hne].
    + rewrite Hl in Hk; injection Hk as <-. exact Hc.
    + apply (IH _ _ _ Hr Hk).
Qed.

Lemma stable_getv sch d k t :
  stable sch d -> lookup k sch = Some t -> cast t (getv k d) = inr (getv k d).
Proof. intros H Hk. apply (typecheck_getv sch d d k t H Hk). Qed.

Lemma stable_set sch k t v : forall d,
  stable sch d -> lookup k sch = Some t -> cast t v = inr v -> stable sch (set k v d).
Proof.
  unfold stable. induction d as [|[k0 v0] r IH]; intros H Hk Hc.
  - simpl. rewrite Hk, Hc; reflexivity.
  - pose proof H as H'. apply typecheck_cons in H' as (t0 & v' & r' & Hl & Hc0 & Hr & He).
    injection He as <- <-.
    simpl. destruct (String.eqb_spec k k0) as [->|Hne].
    + simpl. rewrite Hk, Hc, Hr; reflexivity.
    + simpl. rewrite Hl, Hc0, (IH Hr Hk Hc); reflexivity.
Qed.

(* ================================================================== *)
(* what wf_table gives                                                  *)

Lemma atom_eqb_eq a b : atom_eqb a b = true -> a = b.
Proof.
  destruct a, b; simpl; intro H; try discriminate; try reflexivity.
  - apply Bool.eqb_prop in H; congruence.
  - apply Z.eqb_eq in H; congruence.
  - apply Z.eqb_eq in H; congruence.
  - apply String.eqb_eq in H; congruence.
Qed.

Lemma atom_eqb_refl a : atom_eqb a a = true.
Proof.
  destruct a; simpl; try reflexivity.
  - apply Bool.eqb_reflx. - apply Z.eqb_refl. - apply Z.eqb_refl. - apply String.eqb_refl.
Qed.

Lemma atype_eqb_eq a b : atype_eqb a b = true -> a = b.
Proof. destruct a, b; simpl; intro H; try discriminate; reflexivity. Qed.

Lemma ftype_is_spec t o : ftype_is t o = true -> o = Some (FAtom t).
Proof.
  destruct o as [[t'| | |]|]; simpl; intro H; try discriminate.
  apply atype_eqb_eq in H; subst; reflexivity.
Qed.

Section WithTable.
  Variable T : table.
  Let sch := t_schema T.
  Let srcs := map a_src (t_aliases T).
  Let dsts := map a_dst (t_aliases T).
  Let f := fst (t_derive T).
  Let g := snd (t_derive T).
  Let fixed := mode_key :: f :: rule_fields T.

  Record WF : Prop := mkWF {
    wf_rfld  : forall a, In a (t_aliases T) -> a_rfld a = a_src a;
    wf_rval  : forall a, In a (t_aliases T) -> truthy_atom (a_rval a) = false;
    wf_types : forall a, In a (t_aliases T) -> exists ts td,
        lookup (a_src a) sch = Some (FAtom ts) /\ lookup (a_dst a) sch = Some (FAtom td)
        /\ cast_atom ts (a_rval a) = Some (a_rval a)
        /\ match a_conv a with CId => ts = td | CFloat => ts = TInt /\ td = TFloat end;
    wf_srcs  : NoDup srcs;
    wf_dsts  : NoDup dsts;
    wf_sd    : forall x, In x srcs -> ~ In x dsts;
    wf_fix_s : forall x, In x fixed -> ~ In x srcs;
    wf_fix_d : forall x, In x fixed -> ~ In x dsts;
    wf_mode_t: lookup mode_key sch = Some (FAtom TStr);
    wf_f_t   : lookup f sch = Some (FAtom TBool);
    wf_g_t   : lookup g sch = Some (FAtom TInt);
    wf_f_mode: f <> mode_key;
    wf_f_rule: ~ In f (rule_fields T);
    wf_m_rule: ~ In mode_key (rule_fields T);
    wf_dflt  : t_mode_dflt T <> EmptyString;
    wf_dkeys : NoDup (map fst (t_defaults T));
    wf_indef : forall k, In k (fixed ++ srcs ++ dsts) -> In k (map fst (t_defaults T));
    wf_pos   : t_derive_pos T = Some (List.length (t_aliases T));
    wf_g_src : ~ In g srcs }.

  Lemma alias_ok_spec a : alias_ok sch a = true ->
    a_rfld a = a_src a /\ truthy_atom (a_rval a) = false /\
    exists ts td, lookup (a_src a) sch = Some (FAtom ts) /\ lookup (a_dst a) sch = Some (FAtom td)
        /\ cast_atom ts (a_rval a) = Some (a_rval a)
        /\ match a_conv a with CId => ts = td | CFloat => ts = TInt /\ td = TFloat end.
  Proof.
    unfold alias_ok. intro H.
    apply andb_true_iff in H as [H H3]. apply andb_true_iff in H as [H1 H2].
    apply String.eqb_eq in H1. apply negb_true_iff in H2.
    split; [exact H1|split; [exact H2|]].
    destruct (lookup (a_src a) sch) as [[ts| | |]|]; try discriminate.
    destruct (lookup (a_dst a) sch) as [[td| | |]|]; try discriminate.
    apply andb_true_iff in H3 as [H3 H4].
    exists ts, td. repeat split.
    - destruct (cast_atom ts (a_rval a)) as [r|]; [|discriminate].
      apply atom_eqb_eq in H3; subst; reflexivity.
    - destruct (a_conv a).
      + apply atype_eqb_eq; exact H4.
      + apply andb_true_iff in H4 as [H4 H5]. split; apply atype_eqb_eq; assumption.
  Qed.

  Lemma wf_table_WF : wf_table T = true -> WF.
  Proof.
    unfold wf_table. fold sch srcs dsts f g. fold fixed. intro H.
    repeat match type of H with
           | (_ && _)%bool = true => let H' := fresh "C" in apply andb_true_iff in H as [H H']
           end.
    rewrite forallb_forall in H.
    constructor.
    - intros a Ha. apply (alias_ok_spec a (H a Ha)).
    - intros a Ha. apply (alias_ok_spec a (H a Ha)).
    - intros a Ha. apply (alias_ok_spec a (H a Ha)).
    - apply nodup_str_NoDup; assumption.
    - apply nodup_str_NoDup; assumption.
    - apply disjoint_str_spec; assumption.
    - apply disjoint_str_spec; assumption.
    - apply disjoint_str_spec; assumption.
    - apply ftype_is_spec; assumption.
    - apply ftype_is_spec; assumption.
    - apply ftype_is_spec; assumption.
    - match goal with X : negb (String.eqb f mode_key) = true |- _ =>
        apply negb_true_iff in X; apply String.eqb_neq in X; exact X end.
    - match goal with X : negb (mem_str f (rule_fields T)) = true |- _ =>
        apply negb_true_iff in X; apply mem_str_false in X; exact X end.
    - match goal with X : negb (mem_str mode_key (rule_fields T)) = true |- _ =>
        apply negb_true_iff in X; apply mem_str_false in X; exact X end.
    - match goal with X : negb (String.eqb (t_mode_dflt T) EmptyString) = true |- _ =>
        apply negb_true_iff in X; apply String.eqb_neq in X; exact X end.
    - apply nodup_str_NoDup; assumption.
    - match goal with X : forallb _ (fixed ++ srcs ++ dsts) = true |- _ =>
        rewrite forallb_forall in X; intros k Hk; apply mem_str_In; apply X; exact Hk end.
    - destruct (t_derive_pos T) as [n|]; [|discriminate].
      match goal with X : Nat.eqb n _ = true |- _ => apply Nat.eqb_eq in X; rewrite X; reflexivity end.
    - match goal with X : negb (mem_str g srcs) = true |- _ =>
        apply negb_true_iff in X; apply mem_str_false in X; exact X end.
  Qed.
End WithTable.

(* ================================================================== *)
(* the alias pass                                                       *)

Definition good (l : list alias) : Prop :=
  NoDup (map a_src l) /\ NoDup (map a_dst l)
  /\ (forall a b, In a l -> In b l -> a_src a <> a_dst b)
  /\ (forall a, In a l -> a_rfld a = a_src a).

Lemma good_tail a l : good (a :: l) -> good l.
Proof.
  intros (H1 & H2 & H3 & H4). simpl in H1, H2. inversion H1; inversion H2; subst.
  repeat split; try assumption.
  - intros x y Hx Hy; apply H3; right; assumption.
  - intros x Hx; apply H4; right; assumption.
Qed.

Lemma alias_step_other d a k :
  k <> a_dst a -> k <> a_rfld a -> getv k (alias_step d a) = getv k d.
Proof.
  intros H1 H2. unfold alias_step. destruct (truthy (getv (a_src a) d)); [|reflexivity].
  rewrite getv_set_other by congruence. rewrite getv_set_other by congruence. reflexivity.
Qed.

Lemma fold_other l : forall d k,
  (forall a, In a l -> k <> a_dst a /\ k <> a_rfld a) ->
  getv k (fold_left alias_step l d) = getv k d.
Proof.
  induction l as [|a r IH]; intros d k H; [reflexivity|]. simpl.
  rewrite IH by (intros b Hb; apply H; right; exact Hb).
  apply alias_step_other; apply (H a); left; reflexivity.
Qed.

(* a deprecated name that is set ends up in its replacement, converted, and is reset *)
Lemma fold_alias_spec l : forall d a,
  good l -> In a l -> truthy (getv (a_src a) d) = true ->
  getv (a_dst a) (fold_left alias_step l d) = conv_val (a_conv a) (getv (a_src a) d)
  /\ getv (a_src a) (fold_left alias_step l d) = VA (a_rval a).
Proof.
  induction l as [|b r IH]; intros d a Hg Ha Ht; [destruct Ha|].
  pose proof Hg as (H1 & H2 & H3 & H4). simpl in H1, H2.
  inversion H1 as [|? ? Hn1 Hr1]; inversion H2 as [|? ? Hn2 Hr2]; subst.
  simpl. destruct Ha as [->|Ha].
  - (* the step of a itself *)
    assert (Hsd : a_src a <> a_dst a) by (apply H3; left; reflexivity).
    assert (Hrf : a_rfld a = a_src a) by (apply H4; left; reflexivity).
    assert (Hd : getv (a_dst a) (alias_step d a) = conv_val (a_conv a) (getv (a_src a) d)).
    { unfold alias_step; rewrite Ht, Hrf. rewrite getv_set_other by exact Hsd. apply getv_set_same. }
    assert (Hs : getv (a_src a) (alias_step d a) = VA (a_rval a)).
    { unfold alias_step; rewrite Ht, Hrf. apply getv_set_same. }
    split.
    + rewrite fold_other; [exact Hd|].
      intros c Hc; split.
      * intro He. apply Hn2. rewrite He. apply in_map; exact Hc.
      * rewrite (H4 c) by (right; exact Hc). intro He. apply (H3 c a); [right; exact Hc|left; reflexivity|].
        symmetry; exact He.
    + rewrite fold_other; [exact Hs|].
      intros c Hc; split.
      * apply H3; [left; reflexivity|right; exact Hc].
      * rewrite (H4 c) by (right; exact Hc). intro He. apply Hn1. rewrite He. apply in_map; exact Hc.
  - (* an earlier block b does not touch a's source *)
    assert (Hsame : getv (a_src a) (alias_step d b) = getv (a_src a) d).
    { apply alias_step_other.
      - apply H3; [right; exact Ha|left; reflexivity].
      - rewrite (H4 b) by (left; reflexivity). intro He. apply Hn1. rewrite <- He. apply in_map; exact Ha. }
    destruct (IH (alias_step d b) a (good_tail _ _ Hg) Ha) as [E1 E2]; [rewrite Hsame; exact Ht|].
    rewrite Hsame in E1. split; assumption.
Qed.

(* after the pass every deprecated name is unset *)
Lemma fold_src_falsy l : forall d a,
  good l -> (forall a, In a l -> truthy_atom (a_rval a) = false) -> In a l ->
  truthy (getv (a_src a) (fold_left alias_step l d)) = false.
Proof.
  induction l as [|b r IH]; intros d a Hg Hv Ha; [destruct Ha|].
  pose proof Hg as (H1 & H2 & H3 & H4). simpl in H1.
  inversion H1 as [|? ? Hn1 Hr1]; subst.
  simpl. destruct Ha as [->|Ha].
  - rewrite fold_other.
    + unfold alias_step. destruct (truthy (getv (a_src a) d)) eqn:Et; [|exact Et].
      rewrite (H4 a) by (left; reflexivity). rewrite getv_set_same. simpl. apply Hv; left; reflexivity.
    + intros c Hc; split.
      * apply H3; [left; reflexivity|right; exact Hc].
      * rewrite (H4 c) by (right; exact Hc). intro He. apply Hn1. rewrite He. apply in_map; exact Hc.
  - apply IH; [exact (good_tail _ _ Hg)|intros c Hc; apply Hv; right; exact Hc|exact Ha].
Qed.

Lemma fold_noop l : forall d,
  (forall a, In a l -> truthy (getv (a_src a) d) = false) -> fold_left alias_step l d = d.
Proof.
  induction l as [|a r IH]; intros d H; [reflexivity|]. simpl.
  assert (E : alias_step d a = d) by (unfold alias_step; rewrite (H a) by (left; reflexivity); reflexivity).
  rewrite E. apply IH. intros b Hb; apply H; right; exact Hb.
Qed.

Lemma alias_step_keys d a :
  In (a_dst a) (map fst d) -> In (a_rfld a) (map fst d) -> map fst (alias_step d a) = map fst d.
Proof.
  intros H1 H2. unfold alias_step. destruct (truthy (getv (a_src a) d)); [|reflexivity].
  rewrite keys_set_in; rewrite keys_set_in; auto.
Qed.

Lemma fold_keys l : forall d,
  (forall a, In a l -> In (a_dst a) (map fst d) /\ In (a_rfld a) (map fst d)) ->
  map fst (fold_left alias_step l d) = map fst d.
Proof.
  induction l as [|a r IH]; intros d H; [reflexivity|]. simpl.
  assert (E : map fst (alias_step d a) = map fst d)
    by (apply alias_step_keys; apply (H a); left; reflexivity).
  rewrite IH; [exact E|]. intros b Hb. rewrite E. apply H; right; exact Hb.
Qed.

(* ================================================================== *)
(* verify                                                               *)

Lemma forallb_ext_In {A} (p q : A -> bool) l :
  (forall x, In x l -> p x = q x) -> forallb p l = forallb q l.
Proof.
  induction l as [|x r IH]; intro H; [reflexivity|]. simpl.
  rewrite (H x) by (left; reflexivity). rewrite IH; [reflexivity|].
  intros y Hy; apply H; right; exact Hy.
Qed.

Lemma rule_for_fields m rs c :
  In c (rule_for m rs) -> In (fst c) (List.concat (map (fun r => map fst (snd r)) rs)).
Proof.
  induction rs as [|[ms cs] r IH]; simpl; intro H; [destruct H|].
  apply in_or_app. destruct (mem_str m ms).
  - left. apply in_map; exact H.
  - right. apply IH; exact H.
Qed.

Lemma derive_step_inv fg d d' :
  derive_step fg d = inr d' ->
  (d' = d /\ getv (fst fg) d <> VA ANone)
  \/ (exists b, d' = set (fst fg) (VA (ABool b)) d /\ getv (fst fg) d = VA ANone).
Proof.
  unfold derive_step. destruct (getv (fst fg) d) as [[|b|z|h|s]|l|l] eqn:E; intro H;
    try (left; injection H as <-; split; [reflexivity|discriminate]).
  right. destruct (getv (snd fg) d) as [[|b|z|h|s]|l|l]; try discriminate;
    injection H as <-; eexists; split; reflexivity.
Qed.

Section Verify.
  Variable T : table.
  Hypothesis W : WF T.
  Let sch := t_schema T.
  Let f := fst (t_derive T).

  Lemma good_aliases : good (t_aliases T).
  Proof.
    repeat split.
    - apply (wf_srcs T W). - apply (wf_dsts T W).
    - intros a b Ha Hb He. apply (wf_sd T W (a_src a)).
      + apply in_map; exact Ha.
      + rewrite He. apply in_map; exact Hb.
    - apply (wf_rfld T W).
  Qed.

  Lemma cast_conv_stable a v :
    In a (t_aliases T) -> forall ts td,
    lookup (a_src a) sch = Some (FAtom ts) -> lookup (a_dst a) sch = Some (FAtom td) ->
    match a_conv a with CId => ts = td | CFloat => ts = TInt /\ td = TFloat end ->
    cast (FAtom ts) v = inr v -> cast (FAtom td) (conv_val (a_conv a) v) = inr (conv_val (a_conv a) v).
  Proof.
    intros Ha ts td Hs Hd Hc Hv. destruct (a_conv a); simpl.
    - subst; exact Hv.
    - destruct Hc as [-> ->]. destruct v as [x|l|l]; try discriminate.
      rewrite cast_FAtom in Hv. destruct x as [|b|z|h|s]; simpl in *; try reflexivity; try discriminate.
      destruct (parse_int s); discriminate.
  Qed.

  Lemma stable_alias_step d a : In a (t_aliases T) -> stable sch d -> stable sch (alias_step d a).
  Proof.
    intros Ha Hd. unfold alias_step. destruct (truthy (getv (a_src a) d)); [|exact Hd].
    destruct (wf_types T W a Ha) as (ts & td & Hs & Hdst & Hr & Hc). fold sch in Hs, Hdst.
    apply stable_set with (t := FAtom ts).
    - apply stable_set with (t := FAtom td); [exact Hd|exact Hdst|].
      apply (cast_conv_stable a _ Ha ts td Hs Hdst Hc). apply (stable_getv sch d (a_src a) (FAtom ts) Hd Hs).
    - rewrite (wf_rfld T W a Ha); exact Hs.
    - rewrite cast_FAtom, Hr; reflexivity.
  Qed.

  Lemma stable_fold l : forall d,
    (forall a, In a l -> In a (t_aliases T)) -> stable sch d -> stable sch (fold_left alias_step l d).
  Proof.
    induction l as [|a r IH]; intros d H Hd; [exact Hd|]. simpl.
    apply IH; [intros b Hb; apply H; right; exact Hb|].
    apply stable_alias_step; [apply H; left; reflexivity|exact Hd].
  Qed.

  Lemma stable_set_mode d : stable sch d -> stable sch (set_mode T d).
  Proof.
    intro H. unfold set_mode. destruct (truthy (getv mode_key d)); [exact H|].
    apply stable_set with (t := FAtom TStr); [exact H|apply (wf_mode_t T W)|reflexivity].
  Qed.

  Lemma mode_truthy d : truthy (getv mode_key (set_mode T d)) = true.
  Proof.
    unfold set_mode. destruct (truthy (getv mode_key d)) eqn:E; [exact E|].
    rewrite getv_set_same. simpl. apply negb_true_iff. apply String.eqb_neq. apply (wf_dflt T W).
  Qed.

  Lemma not_src_dst_fold k d :
    ~ In k (map a_src (t_aliases T)) -> ~ In k (map a_dst (t_aliases T)) ->
    getv k (alias_pass T d) = getv k d.
  Proof.
    intros H1 H2. unfold alias_pass. apply fold_other. intros a Ha; split.
    - intro He; apply H2; rewrite He; apply in_map; exact Ha.
    - rewrite (wf_rfld T W a Ha). intro He; apply H1; rewrite He; apply in_map; exact Ha.
  Qed.

  Lemma fixed_fold k d :
    In k (mode_key :: f :: rule_fields T) -> getv k (alias_pass T d) = getv k d.
  Proof.
    intro H. apply not_src_dst_fold; [apply (wf_fix_s T W)|apply (wf_fix_d T W)]; exact H.
  Qed.

  Lemma rules_ok_ext d e :
    getv mode_key d = getv mode_key e ->
    (forall k, In k (rule_fields T) -> getv k d = getv k e) -> rules_ok T d = rules_ok T e.
  Proof.
    intros Hm Hk. unfold rules_ok, mode_of. rewrite Hm.
    destruct (getv mode_key e) as [[| | | |m]| |]; try reflexivity.
    apply forallb_ext_In. intros c Hc. unfold check_ok.
    rewrite (Hk (fst c)); [reflexivity|]. apply (rule_for_fields m _ c Hc).
  Qed.

  (* with the use_mpi block after all alias blocks, _verify is: mode default, mode
     checks, alias pass, use_mpi *)
  Lemma vfy_wf d :
    vfy T d = if rules_ok T (set_mode T d)
              then derive_step (t_derive T) (alias_pass T (set_mode T d)) else inl ValueError.
  Proof.
    unfold vfy. rewrite (wf_pos T W), firstn_all, skipn_all. fold (alias_pass T (set_mode T d)).
    destruct (rules_ok T (set_mode T d)); [|reflexivity].
    destruct (derive_step (t_derive T) (alias_pass T (set_mode T d))); reflexivity.
  Qed.

  (* everything verify does, in one place *)
  Lemma verify_inv d d' :
    verify T d = inr d' ->
    exists d1, typecheck sch d = inr d1
      /\ rules_ok T (set_mode T d1) = true
      /\ derive_step (t_derive T) (alias_pass T (set_mode T d1)) = inr d'.
  Proof.
    unfold verify. fold sch. destruct (typecheck sch d) as [e|d1]; [discriminate|]. rewrite vfy_wf.
    destruct (rules_ok T (set_mode T d1)) eqn:E; [|discriminate].
    intro H. exists d1; repeat split; assumption.
  Qed.

  Lemma derive_other fg d d' k : derive_step fg d = inr d' -> k <> fst fg -> getv k d' = getv k d.
  Proof.
    intros H Hk. apply derive_step_inv in H as [[-> _]|[b [-> _]]]; [reflexivity|].
    apply getv_set_other; congruence.
  Qed.

  Lemma verify_stable d d' : verify T d = inr d' -> stable sch d'.
  Proof.
    intro H. apply verify_inv in H as (d1 & H1 & H2 & H3).
    assert (S2 : stable sch (alias_pass T (set_mode T d1))).
    { apply stable_fold; [auto|]. apply stable_set_mode. apply (typecheck_idem _ _ _ H1). }
    apply derive_step_inv in H3 as [[-> _]|[b [-> _]]]; [exact S2|].
    apply stable_set with (t := FAtom TBool); [exact S2|apply (wf_f_t T W)|reflexivity].
  Qed.

  Theorem verify_idempotent d d' : verify T d = inr d' -> verify T d' = inr d'.
  Proof.
    intro H. pose proof (verify_stable _ _ H) as Hs.
    apply verify_inv in H as (d1 & H1 & H2 & H3).
    set (dm := set_mode T d1) in *. set (d2 := alias_pass T dm) in *.
    assert (Fo : forall k, k <> f -> getv k d' = getv k d2)
      by (intros k Hk; apply (derive_other _ _ _ _ H3 Hk)).
    assert (Ffix : forall k, In k (mode_key :: rule_fields T) -> getv k d' = getv k dm).
    { intros k Hk. rewrite Fo.
      - apply fixed_fold. destruct Hk as [<-|Hk]; [left; reflexivity|right; right; exact Hk].
      - intro He; subst k. destruct Hk as [Hk|Hk].
        + apply (wf_f_mode T W); symmetry; exact Hk.
        + apply (wf_f_rule T W); exact Hk. }
    unfold verify. fold sch. rewrite Hs. rewrite vfy_wf.
    assert (Em : set_mode T d' = d').
    { unfold set_mode. rewrite (Ffix mode_key) by (left; reflexivity).
      unfold dm; rewrite mode_truthy; reflexivity. }
    rewrite Em.
    assert (Er : rules_ok T d' = true).
    { rewrite <- H2. apply rules_ok_ext.
      - apply Ffix; left; reflexivity.
      - intros k Hk; apply Ffix; right; exact Hk. }
    rewrite Er.
    assert (Ea : alias_pass T d' = d').
    { unfold alias_pass. apply fold_noop. intros a Ha.
      rewrite Fo.
      - unfold d2, alias_pass. apply fold_src_falsy; [apply good_aliases|apply (wf_rval T W)|exact Ha].
      - intro He. apply (wf_fix_s T W f); [right; left; reflexivity|].
        fold f. rewrite <- He. apply in_map; exact Ha. }
    rewrite Ea.
    apply derive_step_inv in H3 as [[-> Hn]|[b [-> Hn]]].
    - unfold derive_step. fold f in Hn |- *.
      destruct (getv f d2) as [[| | | |]| |]; try reflexivity. congruence.
    - unfold derive_step. rewrite getv_set_same. reflexivity.
  Qed.

  (* required attributes are enforced, and there is a mode *)
  Theorem verify_mode_ok d d' : verify T d = inr d' -> ok_mode T d' = true.
  Proof.
    intro H. pose proof (verify_stable _ _ H) as Hs. pose proof (verify_idempotent _ _ H) as Hi.
    unfold ok_mode. apply andb_true_iff; split.
    - apply verify_inv in Hi as (d1 & H1 & H2 & H3).
      unfold stable in Hs. fold sch in H1. rewrite Hs in H1. injection H1 as <-.
      assert (Em : set_mode T d' = d').
      { apply verify_inv in H as (d0 & G1 & G2 & G3).
        unfold set_mode. erewrite (derive_other _ _ _ mode_key G3).
        - rewrite fixed_fold by (left; reflexivity). rewrite mode_truthy; reflexivity.
        - intro He. apply (wf_f_mode T W). symmetry; exact He. }
      rewrite Em in H2; exact H2.
    - apply verify_inv in H as (d0 & G1 & G2 & G3).
      assert (Eg : getv mode_key d' = getv mode_key (set_mode T d0)).
      { erewrite (derive_other _ _ _ mode_key G3).
        - apply fixed_fold; left; reflexivity.
        - intro He. apply (wf_f_mode T W). symmetry; exact He. }
      pose proof (mode_truthy d0) as Ht. rewrite <- Eg in Ht.
      pose proof (stable_getv sch d' mode_key _ Hs (wf_mode_t T W)) as Hc.
      unfold mode_of. destruct (getv mode_key d') as [a|l|l]; try discriminate.
      rewrite cast_FAtom in Hc. destruct a as [|b|z|h|s]; simpl in *; try discriminate.
      exact Ht.
  Qed.

  (* a missing required (or present forbidden) attribute is rejected *)
  Theorem verify_mode_rejects d d1 :
    typecheck sch d = inr d1 -> rules_ok T (set_mode T d1) = false -> verify T d = inl ValueError.
  Proof. intros H1 H2. unfold verify. fold sch. rewrite H1, vfy_wf, H2. reflexivity. Qed.

  (* deprecated names are mapped onto their replacements with the same values *)
  Theorem verify_alias a d d' t sv :
    verify T d = inr d' -> In a (t_aliases T) ->
    lookup (a_src a) sch = Some t -> cast t (getv (a_src a) d) = inr sv -> truthy sv = true ->
    getv (a_dst a) d' = conv_val (a_conv a) sv /\ getv (a_src a) d' = VA (a_rval a).
  Proof.
    intros H Ha Ht Hc Htr. apply verify_inv in H as (d1 & H1 & H2 & H3).
    pose proof (typecheck_getv _ _ _ _ _ H1 Ht) as Hg. rewrite Hc in Hg. injection Hg as Hg.
    assert (Hsf : In (a_src a) (map a_src (t_aliases T))) by (apply in_map; exact Ha).
    assert (Hdf : In (a_dst a) (map a_dst (t_aliases T))) by (apply in_map; exact Ha).
    assert (Hsm : getv (a_src a) (set_mode T d1) = sv).
    { unfold set_mode. destruct (truthy (getv mode_key d1)); [symmetry; exact Hg|].
      rewrite getv_set_other; [symmetry; exact Hg|].
      intro He. apply (wf_fix_s T W mode_key); [left; reflexivity|rewrite He; exact Hsf]. }
    destruct (fold_alias_spec (t_aliases T) (set_mode T d1) a good_aliases Ha) as [E1 E2];
      [rewrite Hsm; exact Htr|].
    rewrite Hsm in E1. split.
    - rewrite (derive_other _ _ _ _ H3); [exact E1|].
      intro He. apply (wf_fix_d T W f); [right; left; reflexivity|]. unfold f. rewrite <- He; exact Hdf.
    - rewrite (derive_other _ _ _ _ H3); [exact E2|].
      intro He. apply (wf_fix_s T W f); [right; left; reflexivity|]. unfold f. rewrite <- He; exact Hsf.
  Qed.

  (* nothing else is lost: every other attribute keeps its type-normalised value *)
  Theorem verify_untouched k t d d' :
    verify T d = inr d' -> ~ In k (touched T) -> lookup k sch = Some t ->
    cast t (getv k d) = inr (getv k d').
  Proof.
    intros H Hk Ht. apply verify_inv in H as (d1 & H1 & H2 & H3).
    unfold touched in Hk. fold f in Hk.
    assert (K1 : k <> mode_key) by (intro; apply Hk; left; congruence).
    assert (K2 : k <> f) by (intro; apply Hk; right; left; congruence).
    assert (K3 : ~ In k (map a_src (t_aliases T))) by (intro; apply Hk; right; right; apply in_or_app; left; assumption).
    assert (K4 : ~ In k (map a_dst (t_aliases T))) by (intro; apply Hk; right; right; apply in_or_app; right; assumption).
    rewrite (derive_other _ _ _ _ H3 K2). rewrite not_src_dst_fold by assumption.
    assert (E : getv k (set_mode T d1) = getv k d1).
    { unfold set_mode. destruct (truthy (getv mode_key d1)); [reflexivity|].
      apply getv_set_other; congruence. }
    rewrite E. apply (typecheck_getv _ _ _ _ _ H1 Ht).
  Qed.

  (* no key appears or disappears (for descriptions built by the constructor) *)
  Theorem verify_keys d d' :
    verify T d = inr d' -> (forall k, In k (touched T) -> In k (map fst d)) -> map fst d' = map fst d.
  Proof.
    intros H Hin. apply verify_inv in H as (d1 & H1 & H2 & H3).
    pose proof (typecheck_keys _ _ _ H1) as K1.
    assert (Km : map fst (set_mode T d1) = map fst d).
    { unfold set_mode. destruct (truthy (getv mode_key d1)); [exact K1|].
      rewrite keys_set_in; [exact K1|]. rewrite K1. apply Hin. left; reflexivity. }
    assert (Ka : map fst (alias_pass T (set_mode T d1)) = map fst d).
    { unfold alias_pass. rewrite fold_keys; [exact Km|]. intros a Ha. rewrite Km. split.
      - apply Hin. right; right. apply in_or_app; right. apply in_map; exact Ha.
      - rewrite (wf_rfld T W a Ha). apply Hin. right; right. apply in_or_app; left. apply in_map; exact Ha. }
    apply derive_step_inv in H3 as [[-> _]|[b [-> _]]]; [exact Ka|].
    rewrite keys_set_in; [exact Ka|]. rewrite Ka. apply Hin. right; left; reflexivity.
  Qed.
End Verify.

(* ================================================================== *)
(* the boolean oracle clauses hold of the model                         *)

Lemma eqb_list_refl {A} (e : A -> A -> bool) (H : forall x, e x x = true) l : eqb_list e l l = true.
Proof. induction l as [|x r IH]; simpl; [reflexivity|]. rewrite H, IH; reflexivity. Qed.

Lemma val_eqb_refl v : val_eqb v v = true.
Proof.
  destruct v as [a|l|l]; simpl.
  - apply atom_eqb_refl.
  - apply eqb_list_refl, atom_eqb_refl.
  - apply eqb_list_refl. intros [k a]. unfold eqb_prod; simpl.
    rewrite String.eqb_refl, atom_eqb_refl; reflexivity.
Qed.

Theorem verify_ok_alias T (W : WF T) c v : verify T c = inr v -> ok_alias T c v = true.
Proof.
  intro H. unfold ok_alias. apply forallb_forall. intros a Ha.
  unfold ok_alias1, cast_of.
  destruct (lookup (a_src a) (t_schema T)) as [t|] eqn:Et; [|reflexivity].
  destruct (cast t (getv (a_src a) c)) as [e|sv] eqn:Ec; [reflexivity|].
  destruct (truthy sv) eqn:Es; [|reflexivity].
  destruct (verify_alias T W a c v t sv H Ha Et Ec Es) as [E1 E2].
  rewrite E1, E2, val_eqb_refl. simpl. rewrite (wf_rval T W a Ha). reflexivity.
Qed.

(* ================================================================== *)
(* slots                                                                *)

Definition no_lists (r : rspec) : bool := match r with RLists (_ :: _) => false | _ => true end.

Definition slot_no_lists (s : slot) : bool :=
  version_ge1 s || (no_lists (s_cores s) && no_lists (s_gpus s)).

Definition placement1 (s : slot) := (s_nidx s, s_nname s, indices (s_cores s), indices (s_gpus s)).

Lemma placement_map ss : placement ss = map placement1 ss.
Proof. reflexivity. Qed.

Lemma map_fst_busy l : map fst (map (fun i : Z => (i, busy)) l) = l.
Proof. induction l as [|x r IH]; simpl; [reflexivity|rewrite IH; reflexivity]. Qed.

Lemma res_to_new_indices r r' :
  res_to_new r = inr r' -> no_lists r = true -> indices r' = indices r.
Proof.
  unfold res_to_new. destruct (rspec_empty r) eqn:E; [intro H; injection H as <-; reflexivity|].
  destruct r as [l|l|l|l|l]; intros H Hn; try (injection H as <-; simpl; try reflexivity).
  - apply map_fst_busy.
  - destruct l; [discriminate E|discriminate Hn].
Qed.

Lemma slot_to_new_placement s s' :
  slot_to_new s = inr s' -> slot_no_lists s = true -> placement1 s' = placement1 s.
Proof.
  unfold slot_to_new, slot_no_lists. destruct (version_ge1 s); [intros H _; injection H as <-; reflexivity|].
  simpl. destruct (res_to_new (s_cores s)) as [e|c] eqn:Ec; [discriminate|].
  destruct (res_to_new (s_gpus s)) as [e|g] eqn:Eg; [discriminate|].
  intros H Hn; injection H as <-. apply andb_true_iff in Hn as [N1 N2].
  unfold placement1; simpl.
  rewrite (res_to_new_indices _ _ Ec N1), (res_to_new_indices _ _ Eg N2); reflexivity.
Qed.

Lemma map_err_map {A B C} (fn : A -> perr + B) (p : A -> C) (q : B -> C) (P : A -> bool) :
  (forall x y, fn x = inr y -> P x = true -> q y = p x) ->
  forall l l', map_err fn l = inr l' -> forallb P l = true -> map q l' = map p l.
Proof.
  intros Hf. induction l as [|x r IH]; simpl; intros l' H Hp; [injection H as <-; reflexivity|].
  destruct (fn x) as [e|y] eqn:Ex; [discriminate|].
  destruct (map_err fn r) as [e|r'] eqn:Er; [discriminate|].
  injection H as <-. apply andb_true_iff in Hp as [P1 P2].
  simpl. rewrite (Hf _ _ Ex P1), (IH _ eq_refl P2); reflexivity.
Qed.

(* converting old encodings (ints, dicts, ROs, tuples) to the new format keeps
   nodes, core and GPU indices *)
Theorem slots_to_new_placement ss ss' :
  slots_to_new ss = inr ss' -> forallb slot_no_lists ss = true -> placement ss' = placement ss.
Proof.
  intros H Hn. rewrite !placement_map.
  apply (map_err_map slot_to_new placement1 placement1 slot_no_lists slot_to_new_placement _ _ H Hn).
Qed.

Lemma concat_singletons {A} (p : A -> Z) l : List.concat (map (fun x => [p x]) l) = map p l.
Proof. induction l as [|x r IH]; simpl; [reflexivity|rewrite IH; reflexivity]. Qed.

Lemma res_to_old_indices r r' : res_to_old r = inr r' -> indices r' = indices r.
Proof.
  unfold res_to_old. destruct (rspec_empty r) eqn:E; [intro H; injection H as <-; reflexivity|].
  destruct r as [l|l|l|l|l]; intro H; try discriminate; injection H as <-; simpl.
  - rewrite (concat_singletons (fun c => c)). apply map_id.
  - apply (concat_singletons fst).
  - apply (concat_singletons fst).
Qed.

Lemma slot_to_old_placement s s' : slot_to_old s = inr s' -> placement1 s' = placement1 s.
Proof.
  unfold slot_to_old. destruct (negb (version_truthy s)); [intro H; injection H as <-; reflexivity|].
  destruct (res_to_old (s_cores s)) as [e|c] eqn:Ec; [discriminate|].
  destruct (res_to_old (s_gpus s)) as [e|g] eqn:Eg; [discriminate|].
  intro H; injection H as <-. unfold placement1; simpl.
  rewrite (res_to_old_indices _ _ Ec), (res_to_old_indices _ _ Eg); reflexivity.
Qed.

(* converting to the old format keeps nodes, core and GPU indices *)
Theorem slots_to_old_placement ss ss' : slots_to_old ss = inr ss' -> placement ss' = placement ss.
Proof.
  intro H. rewrite !placement_map.
  apply (map_err_map slot_to_old placement1 placement1 (fun _ => true)
           (fun x y Hx _ => slot_to_old_placement x y Hx) _ _ H).
  apply forallb_forall; reflexivity.
Qed.

(* old -> new -> old *)
Theorem slots_old_new_old ss n o :
  forallb slot_no_lists ss = true ->
  slots_to_new ss = inr n -> slots_to_old n = inr o -> placement o = placement ss.
Proof.
  intros Hn H1 H2. rewrite (slots_to_old_placement _ _ H2). apply slots_to_new_placement; assumption.
Qed.

(* new -> old -> new: whenever it returns, nothing is lost ... *)
Lemma slot_to_old_no_lists_out s s' :
  slot_to_old s = inr s' -> slot_no_lists s = true -> True.
Proof. trivial. Qed.

(* ... but it does not return for any placement that holds a core *)
Theorem slots_new_old_new_raises s x l g :
  version_truthy s = true -> s_cores s = RROs (x :: l) -> s_gpus s = RROs g ->
  exists o, slots_to_old [s] = inr o /\ slots_to_new o = inl ValueError.
Proof.
  intros Hv Hc Hg. unfold slots_to_old; simpl. unfold slot_to_old. rewrite Hv, Hc, Hg. simpl.
  destruct g as [|y g']; simpl; eexists; (split; [reflexivity|]);
    unfold slots_to_new; simpl; unfold slot_to_new; simpl; reflexivity.
Qed.

(* the part of the round trip that does hold: placements without cores and GPUs *)
Theorem slots_new_old_new_empty ss o n :
  forallb (fun s => rspec_empty (s_cores s) && rspec_empty (s_gpus s)) ss = true ->
  slots_to_old ss = inr o -> slots_to_new o = inr n -> placement n = placement ss.
Proof.
  intros He H1 H2. rewrite <- (slots_to_old_placement _ _ H1).
  apply slots_to_new_placement; [exact H2|].
  clear H2 n. unfold slots_to_old in H1. revert o H1.
  induction ss as [|s r IH]; intros o H1; simpl in H1; [injection H1 as <-; reflexivity|].
  simpl in He. apply andb_true_iff in He as [E1 E2]. apply andb_true_iff in E1 as [Ec Eg].
  destruct (slot_to_old s) as [e|s'] eqn:Es; [discriminate|].
  destruct (map_err slot_to_old r) as [e|r'] eqn:Er; [discriminate|].
  injection H1 as <-. simpl. rewrite (IH E2 _ eq_refl), andb_true_r.
  unfold slot_to_old in Es. destruct (negb (version_truthy s)).
  - injection Es as <-. unfold slot_no_lists.
    destruct (s_cores s) as [[|]|[|]|[|]|[|]|[|]]; try discriminate;
      destruct (s_gpus s) as [[|]|[|]|[|]|[|]|[|]]; try discriminate; simpl; apply orb_true_r.
  - unfold res_to_old in Es. rewrite Ec, Eg in Es. injection Es as <-.
    unfold slot_no_lists; simpl.
    destruct (s_cores s) as [[|]|[|]|[|]|[|]|[|]]; try discriminate;
      destruct (s_gpus s) as [[|]|[|]|[|]|[|]|[|]]; try discriminate; reflexivity.
Qed.

Lemma ros_eqb_refl l : ros_eqb l l = true.
Proof.
  apply eqb_list_refl. intros [i o]. unfold eqb_prod; simpl. rewrite Z.eqb_refl. simpl.
  destruct o as [z|]; simpl; [apply Z.eqb_refl|reflexivity].
Qed.

(* Slot(from_dict=slot.as_dict()) is the slot again (an empty list has no element type) *)
Theorem slot_ctor_as_dict s c g v :
  s_typed s = true -> s_version s = Some v -> s_cores s = RROs c -> s_gpus s = RROs g ->
  slot_eqb (slot_ctor (slot_as_dict s)) s = true.
Proof.
  intros Ht Hv Hc Hg. unfold slot_eqb, slot_ctor, slot_as_dict; simpl.
  rewrite Hc, Hg, Hv, Ht; simpl. rewrite !Z.eqb_refl, String.eqb_refl.
  destruct c, g; simpl; rewrite ?ros_eqb_refl; reflexivity.
Qed.

(* ================================================================== *)
(* envelopes                                                            *)

Section EnvelopeProofs.
  Variables func blob wire : Type.
  Variable ser_obj    : func -> blob.
  Variable deser_obj  : blob -> option func.
  Variable ser_bson   : envelope blob -> wire.
  Variable deser_bson : wire -> option (envelope blob).
  Hypothesis obj_inverse  : forall fn, deser_obj (ser_obj fn) = Some fn.
  Hypothesis bson_inverse : forall e, deser_bson (ser_bson e) = Some e.

  Lemma transport_roundtrip fn args kw :
    transport func blob wire ser_obj deser_obj ser_bson deser_bson true fn args kw
    = inr (fn, args, Some (match kw with Some l => l | None => [] end)).
  Proof.
    unfold transport, python_task, get_func_attr. rewrite bson_inverse. simpl. rewrite obj_inverse.
    destruct kw as [[|x l]|]; reflexivity.
  Qed.

  (* the decorator path and the constructor path yield the same envelope for the same
     function value; the value at decoration time plays no role *)
  Lemma decorated_is_constructor c f_dec fn args kw :
    decorated_call func blob wire ser_obj ser_bson c f_dec fn args kw
    = python_task func blob wire ser_obj ser_bson c fn args (Some kw).
  Proof. unfold decorated_call, python_task. destruct c; [|reflexivity]. destruct kw; reflexivity. Qed.

  Lemma encode_step_decor_irrelevant c f_dec f_dec' s :
    encode_step func blob wire ser_obj ser_bson true c f_dec s
    = encode_step func blob wire ser_obj ser_bson true c f_dec' s.
  Proof. reflexivity. Qed.

  Lemma encode_step_paths_agree c f_dec s :
    encode_step func blob wire ser_obj ser_bson true c f_dec s
    = encode_step func blob wire ser_obj ser_bson false c f_dec s.
  Proof.
    unfold encode_step. rewrite decorated_is_constructor. unfold python_task, kw_or_empty.
    destruct c; [|reflexivity]. destruct (st_kw s) as [[|x l]|]; reflexivity.
  Qed.

  (* every task of a sequence decodes to the function value it had when THAT task was
     created, with its arguments -- on both paths *)
  Lemma transport_seq_roundtrip decor f_dec steps :
    transport_seq func blob wire ser_obj deser_obj ser_bson deser_bson decor true f_dec steps
    = map (fun s => inr (st_f s, st_args s, Some (kw_or_empty (st_kw s)))) steps.
  Proof.
    unfold transport_seq. apply map_ext. intro s.
    assert (E : encode_step func blob wire ser_obj ser_bson decor true f_dec s
                = inr (ser_bson (mkEnv (ser_obj (st_f s)) (st_args s) (Some (kw_or_empty (st_kw s)))))).
    { destruct decor; [rewrite encode_step_paths_agree|]; unfold encode_step, python_task, kw_or_empty;
        destruct (st_kw s) as [[|x l]|]; reflexivity. }
    rewrite E. unfold get_func_attr. rewrite bson_inverse. simpl. rewrite obj_inverse. reflexivity.
  Qed.

  Lemma transport_not_callable fn args kw :
    transport func blob wire ser_obj deser_obj ser_bson deser_bson false fn args kw = inl ValueError.
  Proof. reflexivity. Qed.
End EnvelopeProofs.

(* ================================================================== *)
(* the dict round trip of a verified description                        *)

Lemma set_has_key {A} k (v : A) d : In k (map fst (set k v d)).
Proof.
  rewrite keys_set. destruct (mem_str k (map fst d)) eqn:E.
  - apply mem_str_In; exact E.
  - apply in_or_app; right; left; reflexivity.
Qed.

Lemma set_keeps_key {A} k k' (v : A) d : In k' (map fst d) -> In k' (map fst (set k v d)).
Proof.
  intro H. rewrite keys_set. destruct (mem_str k (map fst d)); [exact H|].
  apply in_or_app; left; exact H.
Qed.

Lemma update_keeps_key x : forall d k, In k (map fst d) -> In k (map fst (update d x)).
Proof.
  induction x as [|[k0 v0] r IH]; intros d k H; [exact H|].
  change (update d ((k0, v0) :: r)) with (update (set k0 v0 d) r).
  apply IH. apply set_keeps_key; exact H.
Qed.

Lemma update_has_keys x : forall d k, In k (map fst x) -> In k (map fst (update d x)).
Proof.
  induction x as [|[k0 v0] r IH]; intros d k H; [destruct H|].
  change (update d ((k0, v0) :: r)) with (update (set k0 v0 d) r).
  simpl in H. destruct H as [<-|H].
  - apply update_keeps_key. apply set_has_key.
  - apply IH; exact H.
Qed.

Lemma construct_has_defaults T x k :
  In k (map fst (t_defaults T)) -> In k (map fst (construct T x)).
Proof.
  intro H. unfold construct. apply update_keeps_key. apply update_has_keys; exact H.
Qed.

Lemma touched_in_defaults T (W : WF T) k : In k (touched T) -> In k (map fst (t_defaults T)).
Proof.
  intro H. apply (wf_indef T W). unfold touched in H.
  destruct H as [<-|[<-|H]].
  - apply in_or_app; left; left; reflexivity.
  - apply in_or_app; left; right; left; reflexivity.
  - apply in_or_app; right; exact H.
Qed.

Theorem verified_roundtrip T (W : WF T) x v :
  verify T (construct T x) = inr v ->
  construct T (as_dict v) = v /\ verify T (construct T (as_dict v)) = inr v.
Proof.
  intro H.
  assert (K : map fst v = map fst (construct T x)).
  { apply (verify_keys T W _ _ H). intros k Hk. apply construct_has_defaults.
    apply (touched_in_defaults T W); exact Hk. }
  destruct (construct_keys T x) as [Hnd He].
  assert (R : construct T (as_dict v) = v).
  { apply dict_roundtrip_keys; [unfold NoDupKeys; rewrite K; exact Hnd|rewrite K; exact He]. }
  split; [exact R|]. rewrite R. apply (verify_idempotent T W _ _ H).
Qed.

Theorem verify_alias_full T (W : WF T) a d d' t sv :
  verify T d = inr d' -> In a (t_aliases T) ->
  lookup (a_src a) (t_schema T) = Some t -> cast t (getv (a_src a) d) = inr sv -> truthy sv = true ->
  getv (a_dst a) d' = conv_val (a_conv a) sv /\ getv (a_src a) d' = VA (a_rval a)
  /\ truthy (getv (a_src a) d') = false.
Proof.
  intros H Ha Ht Hc Hs. destruct (verify_alias T W a d d' t sv H Ha Ht Hc Hs) as [E1 E2].
  repeat split; [exact E1|exact E2|]. rewrite E2. simpl. apply (wf_rval T W a Ha).
Qed.

Theorem verify_keys_construct T (W : WF T) x d' :
  verify T (construct T x) = inr d' -> map fst d' = map fst (construct T x).
Proof.
  intro H. apply (verify_keys T W _ _ H). intros k Hk. apply construct_has_defaults.
  apply (touched_in_defaults T W); exact Hk.
Qed.

(* ================================================================== *)
(* pilot descriptions                                                   *)

Theorem pd_verify_idempotent T d d' : pd_verify T d = inr d' -> pd_verify T d' = inr d'.
Proof.
  unfold pd_verify. destruct (typecheck (t_schema T) d) as [e|d1] eqn:E; [discriminate|].
  destruct (pd_rules d1) eqn:R; [|discriminate]. intro H; injection H as <-.
  rewrite (typecheck_idem _ _ _ E), R. reflexivity.
Qed.

Theorem pd_verify_rules T d d' : pd_verify T d = inr d' -> pd_rules d' = true.
Proof.
  unfold pd_verify. destruct (typecheck (t_schema T) d) as [e|d1]; [discriminate|].
  destruct (pd_rules d1) eqn:R; [|discriminate]. intro H; injection H as <-. exact R.
Qed.

Theorem pd_verify_untouched T k t d d' :
  pd_verify T d = inr d' -> lookup k (t_schema T) = Some t -> cast t (getv k d) = inr (getv k d')
  /\ map fst d' = map fst d.
Proof.
  unfold pd_verify. destruct (typecheck (t_schema T) d) as [e|d1] eqn:E; [discriminate|].
  destruct (pd_rules d1); [|discriminate]. intros H Hk; injection H as <-.
  split; [apply (typecheck_getv _ _ _ _ _ E Hk)|apply (typecheck_keys _ _ _ E)].
Qed.

(* ================================================================== *)
(* deprecated spelling and current spelling verify to the same thing    *)

Lemma alias_step_agree m a d d' :
  a_src a <> m -> a_dst a <> m -> a_rfld a <> m ->
  (forall k, k <> m -> getv k d = getv k d') ->
  forall k, k <> m -> getv k (alias_step d a) = getv k (alias_step d' a).
Proof.
  intros Hs Hd Hr H k Hk. unfold alias_step. rewrite <- (H (a_src a) Hs).
  destruct (truthy (getv (a_src a) d)); [|apply H; exact Hk].
  destruct (String.eqb_spec (a_rfld a) k) as [->|N1].
  - rewrite !getv_set_same; reflexivity.
  - rewrite (getv_set_other (a_rfld a) k) by exact N1.
    rewrite (getv_set_other (a_rfld a) k) by exact N1.
    destruct (String.eqb_spec (a_dst a) k) as [->|N2].
    + rewrite !getv_set_same; reflexivity.
    + rewrite !getv_set_other by exact N2. apply H; exact Hk.
Qed.

Lemma fold_agree m l : forall d d',
  (forall a, In a l -> a_src a <> m /\ a_dst a <> m /\ a_rfld a <> m) ->
  (forall k, k <> m -> getv k d = getv k d') ->
  forall k, k <> m -> getv k (fold_left alias_step l d) = getv k (fold_left alias_step l d').
Proof.
  induction l as [|a r IH]; intros d d' Ha H k Hk; [apply H; exact Hk|]. simpl.
  apply IH; [intros b Hb; apply Ha; right; exact Hb| |exact Hk].
  destruct (Ha a (or_introl eq_refl)) as (A1 & A2 & A3).
  apply alias_step_agree; assumption.
Qed.

Lemma derive_step_cases fg x y :
  getv (fst fg) x = getv (fst fg) y -> getv (snd fg) x = getv (snd fg) y ->
  match derive_step fg x, derive_step fg y with
  | inl e, inl e' => e = e'
  | inr x', inr y' =>
      (x' = x /\ y' = y) \/ exists b, x' = set (fst fg) (VA (ABool b)) x /\ y' = set (fst fg) (VA (ABool b)) y
  | _, _ => False
  end.
Proof.
  intros Hf Hg. unfold derive_step. rewrite <- Hf, <- Hg.
  destruct (getv (fst fg) x) as [[|b|z|h|s]|l|l]; try (left; split; reflexivity).
  destruct (getv (snd fg) x) as [[|b|z|h|s]|l|l]; try reflexivity; right; eexists; split; reflexivity.
Qed.

Section Twin.
  Variable T : table.
  Hypothesis W : WF T.
  Let sch := t_schema T.
  Let srcs := map a_src (t_aliases T).
  Let f := fst (t_derive T).
  Let g := snd (t_derive T).

  (* t is a twin of the type-checked description d1: it carries no deprecated name, and every
     other attribute has the value the alias mapping gives it (the replacement of a set
     deprecated name holds its converted value, everything else is as in d1) *)
  Definition twin_of (d1 t : descr) : Prop :=
    stable sch t
    /\ (forall k, ~ In k srcs -> getv k t = getv k (alias_pass T d1))
    /\ (forall k, In k srcs -> truthy (getv k t) = false).

  (* same exception, or accepted descriptions equal on every attribute except the deprecated
     names themselves, which are unset in both *)
  Definition res_sim (r r' : perr + descr) : Prop :=
    match r, r' with
    | inl e, inl e' => e = e'
    | inr v, inr v' =>
        (forall k, ~ In k srcs -> getv k v = getv k v')
        /\ (forall k, In k srcs -> truthy (getv k v) = false /\ truthy (getv k v') = false)
    | _, _ => False
    end.

  Lemma aliases_avoid_mode a :
    In a (t_aliases T) -> a_src a <> mode_key /\ a_dst a <> mode_key /\ a_rfld a <> mode_key.
  Proof.
    intro Ha.
    assert (S1 : a_src a <> mode_key).
    { intro He. apply (wf_fix_s T W mode_key); [left; reflexivity|]. rewrite <- He. apply in_map; exact Ha. }
    repeat split; [exact S1| |rewrite (wf_rfld T W a Ha); exact S1].
    intro He. apply (wf_fix_d T W mode_key); [left; reflexivity|]. rewrite <- He. apply in_map; exact Ha.
  Qed.

  Lemma set_mode_other d k : k <> mode_key -> getv k (set_mode T d) = getv k d.
  Proof.
    intro H. unfold set_mode. destruct (truthy (getv mode_key d)); [reflexivity|].
    apply getv_set_other. congruence.
  Qed.

  Lemma set_mode_fold d k :
    k <> mode_key -> getv k (alias_pass T (set_mode T d)) = getv k (alias_pass T d).
  Proof.
    intro Hk. unfold alias_pass. apply (fold_agree mode_key); [apply aliases_avoid_mode| |exact Hk].
    intros k' Hk'. apply set_mode_other; exact Hk'.
  Qed.

  Lemma set_mode_mode d d' :
    getv mode_key d = getv mode_key d' -> getv mode_key (set_mode T d) = getv mode_key (set_mode T d').
  Proof.
    intro H. unfold set_mode. rewrite <- H. destruct (truthy (getv mode_key d)); [exact H|].
    rewrite !getv_set_same; reflexivity.
  Qed.

  Lemma mode_not_src : ~ In mode_key srcs.
  Proof. apply (wf_fix_s T W); left; reflexivity. Qed.

  Theorem twin_verify d d1 t :
    typecheck sch d = inr d1 -> twin_of d1 t -> res_sim (verify T t) (verify T d).
  Proof.
    intros Hd (Ht & Hout & Hsrc).
    unfold verify. fold sch. rewrite Hd. unfold stable in Ht. rewrite Ht.
    rewrite !(vfy_wf T W).
    set (tm := set_mode T t). set (dm := set_mode T d1). set (d2 := alias_pass T dm).
    (* the twin after the mode default agrees with the mapped original outside the deprecated names *)
    assert (Hm : getv mode_key tm = getv mode_key dm).
    { apply set_mode_mode. rewrite (Hout _ mode_not_src). apply (fixed_fold T W); left; reflexivity. }
    assert (Hagree : forall k, ~ In k srcs -> getv k tm = getv k d2).
    { intros k Hk. destruct (String.eqb_spec k mode_key) as [->|Hn].
      - rewrite Hm. unfold d2. symmetry. apply (fixed_fold T W); left; reflexivity.
      - unfold tm, d2, dm. rewrite set_mode_other by exact Hn. rewrite set_mode_fold by exact Hn.
        apply Hout; exact Hk. }
    assert (Hfalsy : forall k, In k srcs -> truthy (getv k tm) = false).
    { intros k Hk. unfold tm. rewrite set_mode_other; [apply Hsrc; exact Hk|].
      intro He; subst k. exact (mode_not_src Hk). }
    assert (Hnoop : alias_pass T tm = tm).
    { unfold alias_pass. apply fold_noop. intros a Ha. apply Hfalsy. apply in_map; exact Ha. }
    assert (Hfix : forall k, In k (mode_key :: f :: rule_fields T) -> ~ In k srcs)
      by (intros k Hk; apply (wf_fix_s T W); exact Hk).
    assert (Hrules : rules_ok T tm = rules_ok T dm).
    { apply rules_ok_ext; [exact Hm|]. intros k Hk.
      rewrite Hagree by (apply Hfix; right; right; exact Hk).
      unfold d2. apply (fixed_fold T W). right; right; exact Hk. }
    rewrite Hrules, Hnoop. destruct (rules_ok T dm); [|reflexivity].
    assert (Hf : ~ In f srcs) by (apply Hfix; right; left; reflexivity).
    pose proof (derive_step_cases (t_derive T) tm d2 (Hagree _ Hf) (Hagree _ (wf_g_src T W))) as Hc.
    assert (Hd2 : forall k, In k srcs -> truthy (getv k d2) = false).
    { intros k Hk. apply in_map_iff in Hk as (a & <- & Ha).
      unfold d2, alias_pass. apply fold_src_falsy; [apply (good_aliases T W)|apply (wf_rval T W)|exact Ha]. }
    destruct (derive_step (t_derive T) tm) as [e|x'], (derive_step (t_derive T) d2) as [e'|y']; try exact Hc.
    destruct Hc as [[-> ->]|[b [-> ->]]].
    - split; [exact Hagree|]. intros k Hk; split; [apply Hfalsy|apply Hd2]; exact Hk.
    - fold f. split.
      + intros k Hk. destruct (String.eqb_spec f k) as [<-|Hn].
        * rewrite !getv_set_same; reflexivity.
        * rewrite !getv_set_other by exact Hn. apply Hagree; exact Hk.
      + intros k Hk. assert (Hn : f <> k) by (intro; subst k; exact (Hf Hk)).
        rewrite !getv_set_other by exact Hn. split; [apply Hfalsy|apply Hd2]; exact Hk.
  Qed.

  (* such twins exist: the mapped description itself is one *)
  Lemma alias_pass_is_twin d d1 : typecheck sch d = inr d1 -> twin_of d1 (alias_pass T d1).
  Proof.
    intro Hd. repeat split.
    - apply (stable_fold T W); [auto|]. apply (typecheck_idem _ _ _ Hd).
    - intros k Hk. apply in_map_iff in Hk as (a & <- & Ha).
      unfold alias_pass. apply fold_src_falsy; [apply (good_aliases T W)|apply (wf_rval T W)|exact Ha].
  Qed.
End Twin.

(* ================================================================== *)
(* serialize_obj: by value, else by reference, else error               *)

Section SerializeProofs.
  Variables func blob wire res : Type.
  Variable dumps_val dumps_ref : func -> option blob.
  Variable loads : blob -> option func.
  Variable ser_bson : envelope blob -> wire.
  Variable deser_bson : wire -> option (envelope blob).
  Variable call : func -> list atom -> kwargs -> res.

  (* the decoded callable behaves like the original *)
  Definition obs_eq (f f' : func) : Prop := forall a k, call f' a k = call f a k.

  (* what is trusted of dill: whatever either attempt writes, loads reads back as a callable
     that behaves like the original (by value: a copy; by reference: the named object) *)
  Hypothesis val_sound : forall f b, dumps_val f = Some b -> exists f', loads b = Some f' /\ obs_eq f f'.
  Hypothesis ref_sound : forall f b, dumps_ref f = Some b -> exists f', loads b = Some f' /\ obs_eq f f'.
  Hypothesis bson_inverse : forall e, deser_bson (ser_bson e) = Some e.

  Lemma serialize_error_iff f :
    (exists e, serialize_obj func blob dumps_val dumps_ref f = inl e)
    <-> dumps_val f = None /\ dumps_ref f = None.
  Proof.
    unfold serialize_obj. destruct (dumps_val f) as [b|]; [|destruct (dumps_ref f) as [b|]].
    - split; [intros [e H]; discriminate|intros [H _]; discriminate].
    - split; [intros [e H]; discriminate|intros [_ H]; discriminate].
    - split; [intros _; split; reflexivity|intros _; exists SerError; reflexivity].
  Qed.

  Lemma serialize_error_kind f e :
    serialize_obj func blob dumps_val dumps_ref f = inl e -> e = SerError.
  Proof.
    unfold serialize_obj. destruct (dumps_val f); [discriminate|].
    destruct (dumps_ref f); [discriminate|]. intro H; injection H as <-; reflexivity.
  Qed.

  Lemma serialize_decodes f b :
    serialize_obj func blob dumps_val dumps_ref f = inr b ->
    exists f', loads b = Some f' /\ obs_eq f f'.
  Proof.
    unfold serialize_obj. destruct (dumps_val f) as [b1|] eqn:E1.
    - intro H; injection H as <-. apply (val_sound _ _ E1).
    - destruct (dumps_ref f) as [b2|] eqn:E2; [|discriminate].
      intro H; injection H as <-. apply (ref_sound _ _ E2).
  Qed.

  (* transport of a callable: an error only if BOTH attempts fail (and then it is
     SerializationError); any success decodes to the given arguments and a callable that
     behaves like the original *)
  Lemma transport_s_spec f args kw :
    match transport_s func blob wire dumps_val dumps_ref loads ser_bson deser_bson true f args kw with
    | inl e => e = SerError /\ dumps_val f = None /\ dumps_ref f = None
    | inr (f', a', k') => a' = args /\ k' = Some (kw_or_empty kw) /\ obs_eq f f'
    end.
  Proof.
    unfold transport_s, python_task_s.
    destruct (serialize_obj func blob dumps_val dumps_ref f) as [e|b] eqn:E.
    - split; [apply (serialize_error_kind _ _ E)|]. apply serialize_error_iff. exists e; exact E.
    - destruct (serialize_decodes _ _ E) as (f' & Hl & Ho).
      unfold get_func_attr. rewrite bson_inverse. simpl. rewrite Hl.
      repeat split; [|exact Ho]. destruct kw as [[|x l]|]; reflexivity.
  Qed.

  Lemma transport_s_succeeds f args kw :
    (dumps_val f <> None \/ dumps_ref f <> None) ->
    exists f', transport_s func blob wire dumps_val dumps_ref loads ser_bson deser_bson true f args kw
               = inr (f', args, Some (kw_or_empty kw)) /\ obs_eq f f'.
  Proof.
    intro H. pose proof (transport_s_spec f args kw) as S.
    destruct (transport_s func blob wire dumps_val dumps_ref loads ser_bson deser_bson true f args kw)
      as [e|[[f' a'] k']].
    - destruct S as (_ & H1 & H2). destruct H as [H|H]; contradiction.
    - destruct S as (-> & -> & Ho). exists f'; split; [reflexivity|exact Ho].
  Qed.
End SerializeProofs.

(* ================================================================== *)
(* sequences of descriptions: no state is carried from one to the next *)

Lemma slot_get_set_same i d st : slot_get i (slot_set i d st) = Some d.
Proof.
  induction st as [|[j d'] r IH]; simpl.
  - rewrite Nat.eqb_refl; reflexivity.
  - destruct (Nat.eqb i j) eqn:E; simpl; [rewrite Nat.eqb_refl; reflexivity|rewrite E; exact IH].
Qed.

Lemma slot_get_set_other i j d st : i <> j -> slot_get j (slot_set i d st) = slot_get j st.
Proof.
  intro H. induction st as [|[k d'] r IH]; simpl.
  - destruct (Nat.eqb_spec j i); [congruence|reflexivity].
  - destruct (Nat.eqb_spec i k) as [->|N]; simpl.
    + destruct (Nat.eqb_spec j k); [congruence|reflexivity].
    + destruct (Nat.eqb j k); [reflexivity|exact IH].
Qed.

Section Sequences.
  Variable mk : descr -> descr.
  Variable vf : descr -> perr + descr.

  (* an operation on another description leaves this one alone *)
  Lemma dstep_frame st o i : op_slot o <> i -> slot_get i (dstep mk vf st o) = slot_get i st.
  Proof.
    intro H. destruct o as [j x|j|j k key e|j]; simpl in *.
    - apply slot_get_set_other; exact H.
    - destruct (slot_get j st) as [d|]; [|reflexivity].
      destruct (vf d); [reflexivity|apply slot_get_set_other; exact H].
    - destruct (slot_get j st) as [d|]; [|reflexivity]. apply slot_get_set_other; exact H.
    - reflexivity.
  Qed.

  (* what an operation does to its description depends on that description only *)
  Lemma dstep_local st st' o :
    slot_get (op_slot o) st = slot_get (op_slot o) st' ->
    slot_get (op_slot o) (dstep mk vf st o) = slot_get (op_slot o) (dstep mk vf st' o).
  Proof.
    intro H. destruct o as [j x|j|j k key e|j]; simpl in *.
    - rewrite !slot_get_set_same; reflexivity.
    - destruct (slot_get j st) as [d|] eqn:E; rewrite <- H.
      + destruct (vf d); [rewrite E; exact H|rewrite !slot_get_set_same; reflexivity].
      + rewrite E; exact H.
    - destruct (slot_get j st) as [d|] eqn:E; rewrite <- H.
      + rewrite !slot_get_set_same; reflexivity.
      + rewrite E; exact H.
    - exact H.
  Qed.

  Lemma drun_agree i ops : forall st st',
    slot_get i st = slot_get i st' ->
    slot_get i (drun mk vf ops st) = slot_get i (drun mk vf (filter (touches i) ops) st').
  Proof.
    induction ops as [|o r IH]; intros st st' H; [exact H|].
    unfold drun in *. simpl. unfold touches at 1. destruct (Nat.eqb_spec (op_slot o) i) as [E|N].
    - simpl. apply IH. subst i. apply dstep_local; exact H.
    - apply IH. rewrite dstep_frame by exact N. exact H.
  Qed.

  (* every description of a sequence ends up exactly as if the operations on the other
     descriptions had never happened *)
  Theorem drun_independent i ops st :
    slot_get i (drun mk vf ops st) = slot_get i (drun mk vf (filter (touches i) ops) st).
  Proof. apply drun_agree; reflexivity. Qed.

  (* in particular a description built (and verified) after any history is a function of its
     own input *)
  Theorem drun_fresh ops st j x :
    slot_get j (drun mk vf (ops ++ [DConstruct j x; DVerify j]) st)
    = Some (match vf (mk x) with inr v => v | inl _ => mk x end).
  Proof.
    unfold drun. rewrite fold_left_app. simpl. rewrite slot_get_set_same.
    destruct (vf (mk x)); [apply slot_get_set_same|].
    rewrite slot_get_set_same. reflexivity.
  Qed.
End Sequences.

(* ================================================================== *)
(* one string decoded several times                                     *)

Lemma run_fresh_returns x ops : forall store, Forall (eq x) (snd (run_fresh x ops store)).
Proof.
  induction ops as [|[|i m] r IH]; intro store; simpl.
  - constructor.
  - specialize (IH (store ++ [x])). destruct (run_fresh x r (store ++ [x])) as [st rets]. simpl in *.
    constructor; [reflexivity|exact IH].
  - apply IH.
Qed.

Lemma run_fresh_count x ops : forall store,
  List.length (snd (run_fresh x ops store))
  = List.length (filter (fun o => match o with RDecode => true | _ => false end) ops).
Proof.
  induction ops as [|[|i m] r IH]; intro store; simpl.
  - reflexivity.
  - specialize (IH (store ++ [x])). destruct (run_fresh x r (store ++ [x])) as [st rets]. simpl in *.
    rewrite IH; reflexivity.
  - apply IH.
Qed.

(* what the earlier results went through in the caller's hands does not matter *)
Lemma run_fresh_store_irrelevant x ops : forall st st', snd (run_fresh x ops st) = snd (run_fresh x ops st').
Proof.
  induction ops as [|[|i m] r IH]; intros st st'; simpl.
  - reflexivity.
  - specialize (IH (st ++ [x]) (st' ++ [x])).
    destruct (run_fresh x r (st ++ [x])) as [s1 r1], (run_fresh x r (st' ++ [x])) as [s2 r2]. simpl in *.
    rewrite IH; reflexivity.
  - apply IH.
Qed.

(* a decoder that keeps and shares the decoded object does not have the property *)
Lemma run_cached_refuted :
  exists x ops, ~ Forall (eq x) (run_cached x ops).
Proof.
  exists (mkDres 0 [VL [AStr "a"]] [("comm"%string, VA ANone)]),
         [RDecode; RMutate 0 (MKwDel "comm"); RDecode].
  simpl. intro H. inversion H as [|? ? _ H2]; subst. inversion H2 as [|? ? E _]; subst. discriminate E.
Qed.

(* ================================================================== *)
(* submit_tasks: every description of a bulk ends as its own normal form *)

Section Bulk.
  Variable T : table.
  Hypothesis W : WF T.
  Hypothesis uid_type : lookup uid_key (t_schema T) = Some (FAtom TStr).
  Hypothesis uid_untouched : ~ In uid_key (touched T).

  (* d' is d, or the normal form of d -- with the uid d has, or with some generated one if
     it has none.  Nothing but d occurs in it: no other element of any bulk. *)
  Definition nf_of (d d' : descr) : Prop :=
    d' = d \/ exists u0 u, uid_str (with_uid d u0) = Some u /\ u <> EmptyString
                           /\ verify T (with_uid d u0) = inr d'.

  Lemma uid_str_getv d u : uid_str d = Some u -> getv uid_key d = VA (AStr u).
  Proof.
    unfold uid_str. destruct (getv uid_key d) as [[| | | |s]| |]; try discriminate.
    intro H; injection H as ->; reflexivity.
  Qed.

  Lemma verified_uid d u d' :
    uid_str d = Some u -> verify T d = inr d' -> getv uid_key d' = VA (AStr u).
  Proof.
    intros Hu Hv. pose proof (verify_untouched T W uid_key _ d d' Hv uid_untouched uid_type) as Hc.
    rewrite (uid_str_getv _ _ Hu) in Hc. simpl in Hc. injection Hc as Hc. symmetry; exact Hc.
  Qed.

  Lemma nf_of_step d d' u0 u d'' :
    nf_of d d' -> uid_str (with_uid d' u0) = Some u -> u <> EmptyString ->
    verify T (with_uid d' u0) = inr d'' -> nf_of d d''.
  Proof.
    intros [->|(v0 & v & Hs & Hne & Hv)] Hu Hn Hv2.
    - right. exists u0, u. repeat split; assumption.
    - (* d' is verified already: it has its uid, a second verify changes nothing *)
      assert (Hg : getv uid_key d' = VA (AStr v)) by (apply (verified_uid _ _ _ Hs Hv)).
      assert (Hw : with_uid d' u0 = d').
      { unfold with_uid. rewrite Hg. simpl.
        destruct (String.eqb_spec v EmptyString) as [->|_]; [congruence|reflexivity]. }
      rewrite Hw in Hv2. rewrite (verify_idempotent T W _ _ Hv) in Hv2. injection Hv2 as <-.
      right. exists v0, v. repeat split; assumption.
  Qed.

  Lemma gen_uid_nonempty n : gen_uid n <> EmptyString.
  Proof. unfold gen_uid. simpl. discriminate. Qed.

  (* invariant: every slot that was not the refused one of some call is the normal form of
     what it was at the start *)
  Definition bulk_inv (st0 : dstore) (bad : list nat) (st : dstore) : Prop :=
    forall i d', ~ In i bad -> slot_get i st = Some d' ->
                 exists d, slot_get i st0 = Some d /\ nf_of d d'.

  Lemma submit_loop_inv st0 ids : forall s made s' out made' bad,
    submit_loop (verify T) ids s made = (s', out, made') ->
    bulk_inv st0 bad (ss_store s) -> bulk_inv st0 (out_slot out ++ bad) (ss_store s').
  Proof.
    induction ids as [|i r IH]; intros s made s' out made' bad H Inv.
    - simpl in H. injection H as <- <- _. exact Inv.
    - simpl in H.
      destruct (slot_get i (ss_store s)) as [d|] eqn:Ed.
      2:{ injection H as <- <- _. intros k d' Hk. apply Inv. intro; apply Hk; right; assumption. }
      destruct (uid_str (with_uid d (gen_uid (ss_gen s)))) as [u|] eqn:Eu.
      2:{ injection H as <- <- _. intros k d' Hk. apply Inv. intro; apply Hk; right; assumption. }
      destruct (negb (negb (truthy (getv uid_key d))) && mem_str u (ss_known s)) eqn:Edup.
      { injection H as <- <- _. intros k d' Hk. apply Inv. intro; apply Hk; right; assumption. }
      destruct (verify T (with_uid d (gen_uid (ss_gen s)))) as [e|v] eqn:Ev.
      + injection H as <- <- _. simpl. intros k d' Hk Hg.
        assert (Hki : i <> k) by (intro; subst k; apply Hk; left; reflexivity).
        rewrite slot_get_set_other in Hg by exact Hki. apply Inv; [|exact Hg].
        intro; apply Hk; right; assumption.
      + apply (IH _ _ _ _ _ bad H). simpl. intros k d' Hk Hg.
        destruct (Nat.eq_dec i k) as [<-|Hki].
        * rewrite slot_get_set_same in Hg. injection Hg as <-.
          destruct (Inv i d Hk Ed) as (d0 & H0 & Hn). exists d0; split; [exact H0|].
          apply (nf_of_step d0 d (gen_uid (ss_gen s)) u v Hn Eu); [|exact Ev].
          unfold with_uid in Eu. destruct (truthy (getv uid_key d)) eqn:Et.
          -- intro He; subst u. rewrite (uid_str_getv _ _ Eu) in Et. discriminate Et.
          -- unfold uid_str in Eu. rewrite getv_set_same in Eu. injection Eu as <-. apply gen_uid_nonempty.
        * rewrite slot_get_set_other in Hg by exact Hki. apply Inv; assumption.
  Qed.

  Lemma submit_calls_inv st0 calls : forall s s' res bad,
    submit_calls (verify T) calls s = (s', res) ->
    bulk_inv st0 bad (ss_store s) ->
    bulk_inv st0 (List.concat (map (fun r => out_slot (fst (fst r))) res) ++ bad) (ss_store s').
  Proof.
    induction calls as [|ids r IH]; intros s s' res bad H Inv.
    - simpl in H. injection H as <- <-. exact Inv.
    - simpl in H. unfold submit_call in H.
      destruct (submit_loop (verify T) ids s []) as [[s1 out] made] eqn:E1.
      destruct (submit_calls (verify T) r s1) as [s2 rest] eqn:E2.
      injection H as <- <-. simpl.
      pose proof (submit_loop_inv st0 ids _ _ _ _ _ bad E1 Inv) as Inv1.
      pose proof (IH _ _ _ _ E2 Inv1) as Inv2.
      intros k d' Hk. apply Inv2. intro Hin. apply Hk.
      apply in_app_or in Hin as [Hin|Hin]; [|apply in_app_or in Hin as [Hin|Hin]].
      + apply in_or_app; left. apply in_or_app; right; exact Hin.
      + apply in_or_app; left. apply in_or_app; left; exact Hin.
      + apply in_or_app; right; exact Hin.
  Qed.

  (* bulk independence: after any sequence of submit calls, on any bulks, every description
     object that was not itself refused is its own source or the normal form of its own
     source -- whatever the other elements were, refused or not *)
  Theorem submit_bulk_independent st0 known gen calls s' res :
    submit_calls (verify T) calls (mkSub st0 known gen) = (s', res) ->
    forall i d', ~ In i (List.concat (map (fun r => out_slot (fst (fst r))) res)) ->
                 slot_get i (ss_store s') = Some d' ->
                 exists d, slot_get i st0 = Some d /\ nf_of d d'.
  Proof.
    intros H i d' Hi Hg.
    assert (Inv0 : bulk_inv st0 [] st0) by (intros k dk _ Hk; exists dk; split; [exact Hk|left; reflexivity]).
    pose proof (submit_calls_inv st0 calls _ _ _ [] H Inv0) as Inv.
    apply (Inv i d'); [rewrite app_nil_r; exact Hi|exact Hg].
  Qed.
End Bulk.

Theorem submit_bulk_independent_b T :
  wf_table T = true ->
  ftype_is TStr (lookup uid_key (t_schema T)) = true ->
  mem_str uid_key (touched T) = false ->
  forall st0 known gen calls s' res,
    submit_calls (verify T) calls (mkSub st0 known gen) = (s', res) ->
    forall i d', ~ In i (List.concat (map (fun r => out_slot (fst (fst r))) res)) ->
                 slot_get i (ss_store s') = Some d' ->
                 exists d, slot_get i st0 = Some d /\ nf_of T d d'.
Proof.
  intros Hw Ht Hm. apply (submit_bulk_independent T (wf_table_WF T Hw)).
  - apply ftype_is_spec; exact Ht.
  - apply mem_str_false; exact Hm.
Qed.

(* ================================================================== *)
(* the client reads a placement                                         *)

Lemma res_ctor_indices r : indices (res_ctor r) = indices r.
Proof.
  destruct r as [[|x l]|[|x l]|l|l|l]; simpl; try reflexivity.
  rewrite map_fst_busy; reflexivity.
Qed.

Lemma pslot_ctor_placement s : pplacement1 (pslot_ctor s) = pplacement1 s.
Proof. unfold pplacement1, pslot_ctor; simpl. rewrite !res_ctor_indices. reflexivity. Qed.

(* whatever list of slots a writer left -- new format, complete old format, or only cores and
   gpus -- Task.slots does not fail and names the same nodes, cores, GPUs, lfs and mem *)
Theorem client_slots_placement l :
  exists r, client_slots (CSlots l) = inr r /\ pplacement r = pplacement l.
Proof.
  destruct l as [|s r]; simpl; [exists []; split; reflexivity|].
  destruct (pversion_falsy s).
  - eexists; split; [reflexivity|]. unfold pplacement. simpl. rewrite pslot_ctor_placement. f_equal.
    rewrite map_map. apply map_ext. intro a; apply pslot_ctor_placement.
  - eexists; split; reflexivity.
Qed.

Lemma res_ctor_idem r : res_ctor (res_ctor r) = res_ctor r.
Proof. destruct r as [[|x l]|[|x l]|l|l|l]; reflexivity. Qed.

Lemma pslot_ctor_idem s : pslot_ctor (pslot_ctor s) = pslot_ctor s.
Proof. unfold pslot_ctor; simpl. rewrite !res_ctor_idem. reflexivity. Qed.

(* reading a second time (the first read stored the upgraded slots) changes nothing *)
Theorem client_slots_again l r :
  client_slots (CSlots l) = inr r -> client_slots (CSlots r) = inr r.
Proof.
  destruct l as [|s t]; simpl; [intro H; injection H as <-; reflexivity|].
  destruct (pversion_falsy s) eqn:E; intro H; injection H as <-; simpl.
  - destruct (pversion_falsy (pslot_ctor s)); [|reflexivity].
    rewrite pslot_ctor_idem. f_equal. f_equal. rewrite map_map. apply map_ext. intro a; apply pslot_ctor_idem.
  - rewrite E; reflexivity.
Qed.
