From Coq Require Import ZArith List String Bool Lia.
From RP Require Import Common.Eqb Descr.Types Descr.Model Descr.Oracle.
Import ListNotations.
