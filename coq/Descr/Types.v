(* C19 -- data types shared by the generated table (Gen/Descr.v) and the model.
   Definitions only. *)
From Coq Require Import ZArith List String.
Import ListNotations.

(* Python scalars that occur in descriptions.  A float is kept as an exact
   number of halves (AFlt h denotes h/2): every float the harness generates
   is a small multiple of 0.5, for which IEEE arithmetic is exact. *)
Inductive atom :=
| ANone
| ABool (b : bool)
| AInt  (z : Z)
| AFlt  (h : Z)
| AStr  (s : string).

(* attribute values: a scalar, a list of scalars, a dict with string keys *)
Inductive val :=
| VA (a : atom)
| VL (l : list atom)
| VD (l : list (string * atom)).

(* schema types of ru.TypedDict:  str/int/float/bool, [t], {tk: tv}, [Class];
   `None` in a schema (= unchecked) is `None` here *)
Inductive atype := TStr | TInt | TFloat | TBool.

Inductive ftype :=
| FAtom  (t : atype)
| FList  (t : option atype)
| FDict  (tk tv : option atype)
| FTyped (cls : string).            (* [Slot], [TaskDescription] *)

(* one `if self.SRC: self.DST = conv(self.SRC); self.RF = RV` block *)
Inductive conv := CId | CFloat.

Record alias := mkAlias {
  a_src   : string;
  a_dst   : string;
  a_conv  : conv;
  a_rfld  : string;
  a_rval  : atom }.

(* what translators/descr.py reads from a description class *)
Record table := mkTable {
  t_schema   : list (string * ftype);
  t_defaults : list (string * val);
  t_mode_dflt: string;
  (* the if/elif chain: modes of the branch, then (attribute, required?) --
     required = raise if not set, otherwise raise if set *)
  t_rules    : list (list string * list (string * bool));
  t_aliases  : list alias;
  t_derive   : string * string;       (* (use_mpi, ranks): if F is None: F = bool(G - 1) *)
  (* where that block stands: None = right after the mode default (before the mode
     checks), Some n = after the mode checks and the first n alias blocks *)
  t_derive_pos : option nat;
  t_ignored  : list string }.

Inductive perr := KeyError | TypeError | ValueError | AttributeError | OutOfModel | OtherError
  | SerError.     (* utils.serializer.SerializationError *)

Definition descr := list (string * val).
