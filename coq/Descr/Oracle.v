(* C19 -- boolean checkers (the ok_ functions) and the rows evaluated by the harness:
   [model agrees with the observation; idempotent; alias_preserved; mode_enforced;
    untouched_preserved; dict_roundtrip; twin_same; slots_preserved; envelope_roundtrip;
    sequence_independent; decode_independent_of_earlier_results;
    bulk_descriptions_keep_normal_form; refusal_leaves_siblings;
    client_slots_readable; client_slots_keep_placement] *)
From Coq Require Import ZArith List String Bool.
From RP Require Import Common.Eqb Descr.Types Descr.Model.
Import ListNotations.
Open Scope Z_scope.

(* ---- equality on observations ---- *)
Definition val_eqb (a b : val) : bool :=
  match a, b with
  | VA x, VA y => atom_eqb x y
  | VL x, VL y => eqb_list atom_eqb x y
  | VD x, VD y => eqb_list (eqb_prod String.eqb atom_eqb) x y
  | _, _ => false
  end.

Definition descr_eqb : descr -> descr -> bool := eqb_list (eqb_prod String.eqb val_eqb).

Definition perr_eqb (a b : perr) : bool :=
  match a, b with
  | KeyError, KeyError | TypeError, TypeError | ValueError, ValueError
  | AttributeError, AttributeError | OutOfModel, OutOfModel | OtherError, OtherError
  | SerError, SerError => true
  | _, _ => false
  end.

Definition res_eqb : perr + descr -> perr + descr -> bool := eqb_sum perr_eqb descr_eqb.

(* ---- descriptions ---- *)

(* the value a source attribute has after the type pass *)
Definition cast_of (T : table) (k : string) (c : descr) : option val :=
  match lookup k (t_schema T) with
  | Some t => match cast t (getv k c) with inr v => Some v | inl _ => None end
  | None => None
  end.

(* deprecated names are mapped onto their replacements with the same values *)
Definition ok_alias1 (T : table) (c v : descr) (a : alias) : bool :=
  match cast_of T (a_src a) c with
  | Some sv =>
      if truthy sv
      then val_eqb (getv (a_dst a) v) (conv_val (a_conv a) sv) && negb (truthy (getv (a_src a) v))
      else true
  | None => true
  end.
Definition ok_alias (T : table) (c v : descr) : bool := forallb (ok_alias1 T c v) (t_aliases T).

(* required attributes of the mode are set (forbidden ones are not), and there is a mode *)
Definition ok_mode (T : table) (v : descr) : bool :=
  rules_ok T v && match mode_of v with Some m => negb (String.eqb m EmptyString) | None => false end.

(* every attribute that is neither a deprecated name, a replacement, the mode nor the
   derived flag keeps its (type-normalised) value; no key appears or disappears;
   mode and derived flag keep a value the user gave *)
Definition touched (T : table) : list string :=
  mode_key :: fst (t_derive T) :: map a_src (t_aliases T) ++ map a_dst (t_aliases T).

Definition ok_untouched (T : table) (c v : descr) : bool :=
  eqb_list String.eqb (map fst c) (map fst v)
  && forallb (fun kv =>
       if mem_str (fst kv) (touched T) then true
       else match cast_of T (fst kv) c with
            | Some x => val_eqb (getv (fst kv) v) x
            | None => false
            end) c
  && match cast_of T mode_key c with
     | Some m => if truthy m then val_eqb (getv mode_key v) m
                 else val_eqb (getv mode_key v) (VA (AStr (t_mode_dflt T)))
     | None => false
     end
  && match cast_of T (fst (t_derive T)) c with
     | Some (VA ANone) => match getv (fst (t_derive T)) v with VA (ABool _) => true | _ => false end
     | Some f => val_eqb (getv (fst (t_derive T)) v) f
     | None => false
     end.

(* deprecated and current spelling normalise to the same description: the result of
   verifying a description equals the result of verifying its twin (every set deprecated
   attribute moved to its replacement, converted) -- same exception, or the same value for
   every attribute except the deprecated names themselves, which are unset in both; this
   includes derived attributes such as use_mpi *)
Definition srcs_of (T : table) : list string := map a_src (t_aliases T).

Definition same_outside (S : list string) (a b : descr) : bool :=
  eqb_list String.eqb (map fst a) (map fst b)
  && forallb (fun kv => mem_str (fst kv) S || val_eqb (getv (fst kv) b) (getv (fst kv) a)) a.

Definition ok_twin (T : table) (r r' : perr + descr) : bool :=
  match r, r' with
  | inl e, inl e' => perr_eqb e e'
  | inr v, inr v' =>
      same_outside (srcs_of T) v v'
      && forallb (fun s => negb (truthy (getv s v)) && negb (truthy (getv s v'))) (srcs_of T)
  | _, _ => false
  end.

(* the twin built by the harness is a twin in the sense of the theorem (Proofs.twin_of) *)
Definition twin_tie (T : table) (c t : descr) : bool :=
  match typecheck (t_schema T) c with
  | inl _ => true
  | inr d1 =>
      match typecheck (t_schema T) t with
      | inl _ => false
      | inr t1 => same_outside (srcs_of T) (alias_pass T d1) t1
                  && forallb (fun s => negb (truthy (getv s t1))) (srcs_of T)
      end
  end.

Record td_obs := mkTdObs {
  o_c   : descr;                        (* TaskDescription(from_dict=x)._data *)
  o_rt  : descr;                        (* TaskDescription(from_dict=c.as_dict())._data *)
  o_v1  : perr + descr;                 (* after verify() *)
  o_v2  : option (perr + descr);        (* after a second verify() *)
  o_rtv : option descr;                 (* TaskDescription(from_dict=v1.as_dict())._data *)
  o_twx : option descr;                 (* the twin given to the constructor (None: no deprecated name used) *)
  o_tw  : option (perr + descr) }.      (* TaskDescription(from_dict=twin).verify() *)

Definition pad_slots_env : list bool := [true; true; true; true; true; true; true; true].

Definition c19_td_row (T : table) (x : descr) (o : td_obs) : list bool :=
  [ descr_eqb (construct T x) (o_c o)
    && descr_eqb (construct T (as_dict (o_c o))) (o_rt o)
    && res_eqb (verify T (o_c o)) (o_v1 o)
    && match o_v1 o with
       | inr v => eqb_option res_eqb (Some (verify T v)) (o_v2 o)
                  && eqb_option descr_eqb (Some (construct T (as_dict v))) (o_rtv o)
       | inl _ => true
       end
    && match o_twx o, o_tw o with
       | Some x', Some tw => res_eqb (verify T (construct T x')) tw && twin_tie T (o_c o) (construct T x')
       | None, None => true
       | _, _ => false
       end;
    match o_v1 o with
    | inr v => match o_v2 o with Some (inr v') => descr_eqb v v' | _ => false end
    | inl _ => true
    end;
    match o_v1 o with inr v => ok_alias T (o_c o) v | inl _ => true end;
    match o_v1 o with inr v => ok_mode T v | inl _ => true end;
    match o_v1 o with inr v => ok_untouched T (o_c o) v | inl _ => true end;
    descr_eqb (o_rt o) (o_c o)
    && match o_v1 o, o_rtv o with inr v, Some r => descr_eqb r v | _, _ => true end;
    (* only for descriptions that pass the type pass: a bad value of a replacement that the
       deprecated name overrides is not the twin's business *)
    match o_tw o, typecheck (t_schema T) (o_c o) with
    | Some tw, inr _ => ok_twin T (o_v1 o) tw
    | _, _ => true
    end ]
  ++ pad_slots_env.

(* ---- pilot descriptions: same observation, no aliases ---- *)
Definition ok_pd_untouched (T : table) (c v : descr) : bool :=
  eqb_list String.eqb (map fst c) (map fst v)
  && forallb (fun kv => match cast_of T (fst kv) c with
                        | Some x => val_eqb (getv (fst kv) v) x
                        | None => false
                        end) c.

Definition c19_pd_row (T : table) (x : descr) (o : td_obs) : list bool :=
  [ descr_eqb (construct T x) (o_c o)
    && descr_eqb (construct T (as_dict (o_c o))) (o_rt o)
    && res_eqb (pd_verify T (o_c o)) (o_v1 o)
    && match o_v1 o with
       | inr v => eqb_option res_eqb (Some (pd_verify T v)) (o_v2 o)
                  && eqb_option descr_eqb (Some (construct T (as_dict v))) (o_rtv o)
       | inl _ => true
       end;
    match o_v1 o with
    | inr v => match o_v2 o with Some (inr v') => descr_eqb v v' | _ => false end
    | inl _ => true
    end;
    true;
    match o_v1 o with inr v => pd_rules v | inl _ => true end;
    match o_v1 o with inr v => ok_pd_untouched T (o_c o) v | inl _ => true end;
    descr_eqb (o_rt o) (o_c o)
    && match o_v1 o, o_rtv o with inr v, Some r => descr_eqb r v | _, _ => true end;
    true ]
  ++ pad_slots_env.

(* ---- slots ---- *)
Definition occ_eqb := eqb_option Z.eqb.
Definition ros_eqb := eqb_list (eqb_prod Z.eqb occ_eqb).

Definition rspec_eqb (a b : rspec) : bool :=
  match a, b with
  | RInts x, RInts y => eqb_list Z.eqb x y
  | RDicts x, RDicts y | RROs x, RROs y | RPairs x, RPairs y => ros_eqb x y
  | RLists x, RLists y => eqb_list (eqb_list Z.eqb) x y
  | _, _ => rspec_empty a && rspec_empty b     (* an empty list has no element type *)
  end.

Definition slot_eqb (a b : slot) : bool :=
  Bool.eqb (s_typed a) (s_typed b) && eqb_option Z.eqb (s_version a) (s_version b)
  && rspec_eqb (s_cores a) (s_cores b) && rspec_eqb (s_gpus a) (s_gpus b)
  && (s_lfs a =? s_lfs b) && (s_mem a =? s_mem b) && (s_nidx a =? s_nidx b)
  && String.eqb (s_nname a) (s_nname b).

Definition stage_eqb : perr + list slot -> perr + list slot -> bool :=
  eqb_sum perr_eqb (eqb_list slot_eqb).

Definition placement_eqb :=
  eqb_list (eqb_prod (eqb_prod (eqb_prod Z.eqb String.eqb) (eqb_list Z.eqb)) (eqb_list Z.eqb)).

(* nodes, core and GPU indices survive every conversion; a conversion of a
   well-formed placement does not raise *)
Definition ok_placement (ss : list slot) (stages : list (perr + list slot)) : bool :=
  forallb (fun st => match st with
                     | inr ss' => placement_eqb (placement ss') (placement ss)
                     | inl _ => false
                     end) stages.

Definition c19_slots_row (os : list sop) (ss : list slot) (obs : list (perr + list slot))
  (input_after : list slot) (rerun_same : bool) : list bool :=
  [ eqb_list stage_eqb (run_sops os ss) obs; true; true; true; true; true; true;
    ok_placement ss obs; true;
    (* the conversions leave their input alone (measured after the outputs were mutated) and
       give the same result when applied to it again *)
    eqb_list slot_eqb ss input_after && rerun_same; true ; true; true; true; true ].

(* ---- envelopes ---- *)
Definition kwargs_eqb : kwargs -> kwargs -> bool := eqb_list (eqb_prod String.eqb atom_eqb).

(* serialisers instantiated by the identity for evaluating the glue code *)
Definition transport_id (callable : bool) (args : list atom) (kw : option kwargs) :=
  transport Z Z (envelope Z) (fun f => f) (fun b => Some b) (fun e => e) (fun w => Some w)
            callable 0 args kw.

Definition env_obs := (perr + (list atom * option kwargs * bool))%type.

(* decoded arguments are the given ones, the keyword arguments are a mapping equal
   to the given one (empty if none was given), and calling the decoded function
   gave the same result as calling the original (measured by the harness) *)
Definition ok_envelope (callable : bool) (args : list atom) (kw : option kwargs) (o : env_obs) : bool :=
  match o with
  | inr (a, k, same) =>
      callable && same && eqb_list atom_eqb a args
      && eqb_option kwargs_eqb k (Some (match kw with Some l => l | None => [] end))
  | inl _ => negb callable
  end.

Definition c19_env_row (callable : bool) (args : list atom) (kw : option kwargs) (o : env_obs) : list bool :=
  [ match transport_id callable args kw, o with
    | inl e, inl e' => perr_eqb e e'
    | inr (_, a, k), inr (a', k', _) => eqb_list atom_eqb a a' && eqb_option kwargs_eqb k k'
    | _, _ => false
    end; true; true; true; true; true; true; true;
    ok_envelope callable args kw o; true; true ; true; true; true; true ].

(* ---- sequences of task creations from one stateful callable ----
   a function value is identified by the state it carries (an integer the callable reports
   as part of its result); observed per step: the state the DECODED callable carries, the
   decoded arguments, and whether calling the decoded triple gave the result that calling
   the original gave at encode time *)
Definition seq_obs := (perr + (Z * list atom * option kwargs * bool))%type.

Definition transport_seq_id (decor : bool) (f_dec : Z) (steps : list (step Z)) :=
  transport_seq Z Z (envelope Z) (fun f => f) (fun b => Some b) (fun e => e) (fun w => Some w)
                decor true f_dec steps.

Definition ok_envelope_step (s : step Z) (o : seq_obs) : bool :=
  match o with
  | inr (f', a, k, same) =>
      same && (f' =? st_f s) && eqb_list atom_eqb a (st_args s)
      && eqb_option kwargs_eqb k (Some (kw_or_empty (st_kw s)))
  | inl _ => false
  end.

Fixpoint forallb2 {A B} (p : A -> B -> bool) (l : list A) (m : list B) : bool :=
  match l, m with
  | [], [] => true
  | x :: l', y :: m' => p x y && forallb2 p l' m'
  | _, _ => false
  end.

Definition c19_envseq_row (decor : bool) (f_dec : Z) (steps : list (step Z)) (obs : list seq_obs)
  : list bool :=
  [ forallb2 (fun m o => match m, o with
                         | inl e, inl e' => perr_eqb e e'
                         | inr (f', a, k), inr (f'', a', k', _) =>
                             (f' =? f'') && eqb_list atom_eqb a a' && eqb_option kwargs_eqb k k'
                         | _, _ => false
                         end) (transport_seq_id decor f_dec steps) obs;
    true; true; true; true; true; true; true;
    forallb2 ok_envelope_step steps obs; true; true ; true; true; true; true ].

(* ---- serialize_obj on callables of every kind ----
   inputs measured by the harness on the callable itself: does dill.dumps(f) succeed (by
   value), does dill.dumps(f, byref=True) succeed (by reference), does stdlib pickle
   round-trip it.  Observed: the outcome of the real serialize_obj + deserialize_obj (error, or
   "decoded callable gives the same result"), and of the real PythonTask transport. *)
Definition dumps_of (ok : bool) (f : Z) : option Z := if ok then Some f else None.

Definition serialize_id (val_ok ref_ok : bool) : perr + Z :=
  serialize_obj Z Z (dumps_of val_ok) (dumps_of ref_ok) 0.

Definition transport_s_id (val_ok ref_ok callable : bool) (args : list atom) (kw : option kwargs) :=
  transport_s Z Z (envelope Z) (dumps_of val_ok) (dumps_of ref_ok) (fun b => Some b)
              (fun e => e) (fun w => Some w) callable 0 args kw.

(* encoding succeeds whenever the callable can be represented at all (by value, by
   reference, or by stdlib pickle), and whatever was encoded decodes to a callable that
   gives the same result on the same arguments *)
Definition ok_serialize (val_ok ref_ok pk_ok : bool) (o : perr + bool) : bool :=
  match o with
  | inr same => same
  | inl _ => negb (val_ok || ref_ok || pk_ok)
  end.

Definition ok_envelope_k (val_ok ref_ok pk_ok callable : bool) (args : list atom) (kw : option kwargs)
  (o : env_obs) : bool :=
  match o with
  | inr _ => ok_envelope callable args kw o
  | inl _ => negb callable || negb (val_ok || ref_ok || pk_ok)
  end.

Definition c19_envk_row (val_ok ref_ok pk_ok callable : bool) (args : list atom) (kw : option kwargs)
  (so : perr + bool) (o : env_obs) : list bool :=
  [ match serialize_id val_ok ref_ok, so with
    | inl e, inl e' => perr_eqb e e'
    | inr _, inr _ => true
    | _, _ => false
    end
    && match transport_s_id val_ok ref_ok callable args kw, o with
       | inl e, inl e' => perr_eqb e e'
       | inr (_, a, k), inr (a', k', _) => eqb_list atom_eqb a a' && eqb_option kwargs_eqb k k'
       | _, _ => false
       end;
    true; true; true; true; true; true; true;
    ok_serialize val_ok ref_ok pk_ok so && ok_envelope_k val_ok ref_ok pk_ok callable args kw o; true; true ; true; true; true; true ].

(* ---- sequences of descriptions in one process ----
   observed: the final _data of every description of the sequence.  Each must be what the
   per-description model gives when ONLY the operations on that description are run: it is
   what it would be if it were the only one ever built. *)
Definition dseq_funs (pd : bool) (T : table) : (descr -> descr) * (descr -> perr + descr) :=
  (construct T, if pd then pd_verify T else verify T).

Definition ok_independent (pd : bool) (T : table) (ops : list dop) (obs : list (nat * descr)) : bool :=
  let '(mk, vf) := dseq_funs pd T in
  forallb (fun o => eqb_option descr_eqb
                      (slot_get (fst o) (drun mk vf (filter (touches (fst o)) ops) []))
                      (Some (snd o))) obs.

Definition c19_dseq_row (pd : bool) (T : table) (ops : list dop) (obs : list (nat * descr)) : list bool :=
  let '(mk, vf) := dseq_funs pd T in
  [ forallb (fun o => eqb_option descr_eqb (slot_get (fst o) (drun mk vf ops [])) (Some (snd o))) obs;
    true; true; true; true; true; true; true; true;
    ok_independent pd T ops obs; true ; true; true; true; true ].

(* ---- fresh Slot() objects after earlier ones were mutated in place ----
   observed: every Slot() as it was right after its construction *)
Definition default_slot : slot := mkSlot true (Some 1) (RInts []) (RInts []) 0 0 0 EmptyString.

Definition c19_slotdefault_row (obs : list slot) : list bool :=
  [ forallb (fun s => slot_eqb s default_slot) obs;
    true; true; true; true; true; true; true; true;
    forallb (fun s => slot_eqb s default_slot) obs; true ; true; true; true; true ].

(* ---- the same transport string decoded several times, earlier results mutated in between ----
   observed: what every get_func_attr call returned, looked at right when it returned (the
   state the decoded callable carries, the argument list with its nested lists/dicts, the
   keyword dict), and whether calling a deep copy of it gave the encode-time result *)
Definition dres_eqb (a b : dres) : bool :=
  (r_func a =? r_func b) && eqb_list val_eqb (r_args a) (r_args b)
  && eqb_list (eqb_prod String.eqb val_eqb) (r_kw a) (r_kw b).

(* decode is a function of the string alone: every decode gives the encoded original *)
Definition ok_decodes (x : dres) (obs : list (dres * bool)) : bool :=
  forallb (fun o => dres_eqb (fst o) x && snd o) obs.

Definition c19_decseq_row (x : dres) (ops : list rop) (obs : list (dres * bool)) : list bool :=
  [ eqb_list dres_eqb (snd (run_fresh x ops [])) (map fst obs);
    true; true; true; true; true; true; true; true; true;
    ok_decodes x obs ; true; true; true; true ].

(* the real worker: the same function string dispatched k times (MPI communicator injected
   into kwargs['comm'] or args[0]); observed per run: did it return the expected value *)
Definition c19_dispatch_row (obs : list bool) : list bool :=
  [ forallb (fun b => b) obs; true; true; true; true; true; true; true; true; true;
    forallb (fun b => b) obs ; true; true; true; true ].

(* ---- TaskManager.submit_tasks on bulks of description objects ----
   observed per call: the exception kind (or none), the objects whose tasks were handed on,
   and the _data of EVERY description object of the case after the call *)
Definition init_store (T : table) (srcs : list descr) : dstore :=
  combine (seq 0 (List.length srcs)) (map (construct T) srcs).

Definition out_kind (o : sub_outcome) : option perr := match o with SubOk => None | SubErr e _ => Some e end.
Definition out_slot (o : sub_outcome) : list nat := match o with SubOk => [] | SubErr _ i => [i] end.

(* a description object the caller passed is, after the call, either untouched or the normal
   form of ITS OWN source -- verify's result with the uid the application chose, or with a
   generated one if it chose none -- whatever else was in the bulk.  (A description that
   verify refuses is not judged.) *)
Definition ok_bulk_nf (T : table) (src o : descr) : bool :=
  let c := construct T src in
  match verify T c with
  | inl _ => true
  | inr _ =>
      descr_eqb o c
      || match uid_str o with
         | Some u => match verify T (with_uid c u) with inr v => descr_eqb v o | inl _ => false end
         | None => false
         end
  end.

Definition bulk_obs := (option perr * list nat * list descr)%type.

Fixpoint bulk_corr (model : list (sub_outcome * list nat * dstore)) (obs : list bulk_obs) (skip : list nat)
  : bool :=
  match model, obs with
  | [], [] => true
  | (o, h, st) :: mr, (e, h', snap) :: orr =>
      let skip' := out_slot o ++ skip in
      eqb_option perr_eqb (out_kind o) e && eqb_list Nat.eqb h h'
      && forallb (fun id => existsb (Nat.eqb (fst id)) skip'
                            || eqb_option descr_eqb (slot_get (fst id) st) (Some (snd id)))
                 (combine (seq 0 (List.length snap)) snap)
      && bulk_corr mr orr skip'
  | _, _ => false
  end.

(* a refused call: the siblings handled before the refusal are exactly what they are after the
   same call without the refused element and what follows it (reference run of the real code) *)
Definition ok_siblings (r : list nat * list descr * list descr) : bool :=
  let '(pre, snap, ref) := r in
  forallb (fun i => match nth_error snap i, nth_error ref i with
                    | Some a, Some b => descr_eqb a b
                    | _, _ => false
                    end) pre.

Definition c19_bulk_row (T : table) (srcs : list descr) (calls : list (list nat)) (obs : list bulk_obs)
  (refs : list (list nat * list descr * list descr)) : list bool :=
  [ bulk_corr (snd (submit_calls (verify T) calls (mkSub (init_store T srcs) [] 0))) obs [];
    true; true; true; true; true; true; true; true; true; true;
    forallb (fun o => forallb2 (ok_bulk_nf T) srcs (snd o)) obs;
    forallb ok_siblings refs; true; true ].

(* ---- the client reads a placement: Task._update, then Task.slots / Task.as_dict ----
   observed: what Task.slots returned (or the exception), whether as_dict() raised, and whether
   the second read gave the same as the first *)
Definition opt_z_eqb := eqb_option Z.eqb.

Definition pslot_eqb (a b : pslot) : bool :=
  Bool.eqb (p_typed a) (p_typed b) && opt_z_eqb (p_version a) (p_version b)
  && rspec_eqb (p_cores a) (p_cores b) && rspec_eqb (p_gpus a) (p_gpus b)
  && opt_z_eqb (p_lfs a) (p_lfs b) && opt_z_eqb (p_mem a) (p_mem b) && opt_z_eqb (p_nidx a) (p_nidx b)
  && eqb_option String.eqb (p_nname a) (p_nname b).

Definition pplacement_eqb :=
  eqb_list (eqb_prod (eqb_prod (eqb_prod (eqb_prod (eqb_prod Z.eqb String.eqb) (eqb_list Z.eqb))
                                         (eqb_list Z.eqb)) Z.eqb) Z.eqb).

Definition written (c : cinput) : list pslot := match c with CSlots l => l | _ => [] end.

Definition c19_client_row (c : cinput) (obs : perr + list pslot) (as_dict_ok again_same : bool) : list bool :=
  [ eqb_sum perr_eqb (eqb_list pslot_eqb) (client_slots c) obs
    && Bool.eqb as_dict_ok (match client_slots c with inr _ => true | inl _ => false end);
    true; true; true; true; true; true; true; true; true; true; true; true;
    (* readable: neither Task.slots nor Task.as_dict raises, and reading twice gives the same *)
    match obs with inr _ => as_dict_ok && again_same | inl _ => false end;
    (* the placement the writer meant: same nodes, cores, GPUs, lfs, mem *)
    match obs with inr l => pplacement_eqb (pplacement l) (pplacement (written c)) | inl _ => true end ].
