(* C19 -- executable model of
     ru.TypedDict.__init__/update/as_dict/verify      (as used by FastTypedDict)
     TaskDescription._verify                           (driven by the generated table)
     convert_slots_to_new / convert_slots_to_old / Slot.__init__ / Slot.as_dict
     PythonTask.__new__ / pythontask / get_func_attr
   Definitions only. *)
From Coq Require Import ZArith List String Ascii Bool DecimalString.
From RP Require Import Descr.Types.
Import ListNotations.
Open Scope Z_scope.

(* ------------------------------------------------------------------ *)
(* Python dicts: insertion-ordered association lists                   *)

Fixpoint lookup {A} (k : string) (d : list (string * A)) : option A :=
  match d with
  | [] => None
  | (k', v) :: r => if String.eqb k k' then Some v else lookup k r
  end.

(* d[k] = v : in place if the key exists, appended otherwise *)
Fixpoint set {A} (k : string) (v : A) (d : list (string * A)) : list (string * A) :=
  match d with
  | [] => [(k, v)]
  | (k', v') :: r => if String.eqb k k' then (k, v) :: r else (k', v') :: set k v r
  end.

(* attribute access self.k / self.get(k): None when absent *)
Definition getv (k : string) (d : descr) : val :=
  match lookup k d with Some v => v | None => VA ANone end.

(* TypedDict.update(other): for k, v in other.items(): self[k] = v *)
Definition update (d other : descr) : descr :=
  fold_left (fun acc kv => set (fst kv) (snd kv) acc) other d.

(* TypedDict.__init__(from_dict): update(defaults); update(from_dict) *)
Definition construct (T : table) (x : descr) : descr :=
  update (update [] (t_defaults T)) x.

(* as_dict: a fresh plain copy, value by value *)
Definition copy_val (v : val) : val :=
  match v with
  | VA a => VA a
  | VL l => VL (map (fun a => a) l)
  | VD l => VD (map (fun kv => (fst kv, snd kv)) l)
  end.
Definition as_dict (d : descr) : descr := map (fun kv => (fst kv, copy_val (snd kv))) d.

(* ------------------------------------------------------------------ *)
(* truthiness                                                          *)

Definition truthy_atom (a : atom) : bool :=
  match a with
  | ANone => false
  | ABool b => b
  | AInt z => negb (z =? 0)
  | AFlt h => negb (h =? 0)
  | AStr s => negb (String.eqb s EmptyString)
  end.

Definition truthy (v : val) : bool :=
  match v with
  | VA a => truthy_atom a
  | VL l => match l with [] => false | _ => true end
  | VD l => match l with [] => false | _ => true end
  end.

(* ------------------------------------------------------------------ *)
(* str(), int(), float(), bool-cast on scalars                         *)

Definition dec (z : Z) : string := NilZero.string_of_int (Z.to_int z).

Definition str_of_flt (h : Z) : string :=
  let m := Z.abs h in
  append (if h <? 0 then "-"%string else ""%string)
         (append (dec (m / 2)) (if m mod 2 =? 0 then ".0"%string else ".5"%string)).

Definition str_of_atom (a : atom) : string :=
  match a with
  | ANone => "None"%string
  | ABool b => if b then "True"%string else "False"%string
  | AInt z => dec z
  | AFlt h => str_of_flt h
  | AStr s => s
  end.

Definition is_digit (c : ascii) : bool :=
  let n := nat_of_ascii c in (Nat.leb 48 n && Nat.leb n 57)%bool.

Fixpoint all_digits (s : string) : bool :=
  match s with
  | EmptyString => true
  | String c r => is_digit c && all_digits r
  end.

(* canonical decimal integers only: -?[0-9]+ *)
Definition parse_nat (s : string) : option Z :=
  match s with
  | EmptyString => None
  | _ => if all_digits s
         then match NilZero.uint_of_string s with Some u => Some (Z.of_uint u) | None => None end
         else None
  end.

Definition parse_int (s : string) : option Z :=
  match s with
  | String "-"%char r => option_map Z.opp (parse_nat r)
  | _ => parse_nat s
  end.

(* split at the first '.' *)
Fixpoint split_dot (s : string) : string * option string :=
  match s with
  | EmptyString => (EmptyString, None)
  | String c r =>
      if Ascii.eqb c "."%char then (EmptyString, Some r)
      else let '(a, b) := split_dot r in (String c a, b)
  end.

(* -?[0-9]+(.0|.5)?  -> halves *)
Definition parse_half (s : string) : option Z :=
  let '(ip, fp) := split_dot s in
  match parse_nat ip with
  | None => None
  | Some n =>
      match fp with
      | None => Some (2 * n)
      | Some f => if String.eqb f "0" then Some (2 * n)
                  else if String.eqb f "5" then Some (2 * n + 1) else None
      end
  end.

Definition parse_float (s : string) : option Z :=
  match s with
  | String "-"%char r => option_map Z.opp (parse_half r)
  | _ => parse_half s
  end.

Definition lower_char (c : ascii) : ascii :=
  let n := nat_of_ascii c in
  if (Nat.leb 65 n && Nat.leb n 90)%bool then ascii_of_nat (n + 32) else c.

Fixpoint lower (s : string) : string :=
  match s with
  | EmptyString => EmptyString
  | String c r => String (lower_char c) (lower r)
  end.

Definition bool_of_text (s : string) : option bool :=
  if (String.eqb s "true" || String.eqb s "yes" || String.eqb s "1")%bool then Some true
  else if (String.eqb s "false" || String.eqb s "no" || String.eqb s "0")%bool then Some false
  else None.

(* TypedDict._verify_kvt on a scalar type; None = TDTypeError *)
Definition cast_atom (t : atype) (a : atom) : option atom :=
  match a with
  | ANone => Some ANone
  | _ =>
      match t with
      | TStr => Some (AStr (str_of_atom a))
      | TInt =>
          match a with
          | ABool _ | AInt _ => Some a
          | AFlt h => Some (AInt (Z.quot h 2))
          | AStr s => option_map AInt (parse_int s)
          | ANone => Some a
          end
      | TFloat =>
          match a with
          | AFlt _ => Some a
          | ABool b => Some (AFlt (if b then 2 else 0))
          | AInt z => Some (AFlt (2 * z))
          | AStr s => option_map AFlt (parse_float s)
          | ANone => Some a
          end
      | TBool =>
          match a with
          | ABool _ => Some a
          | _ => option_map ABool (bool_of_text (lower (str_of_atom a)))
          end
      end
  end.

Definition cast_elem (t : option atype) (a : atom) : option atom :=
  match t with None => Some a | Some t' => cast_atom t' a end.

Fixpoint cast_elems (t : option atype) (l : list atom) : option (list atom) :=
  match l with
  | [] => Some []
  | a :: r =>
      match cast_elem t a, cast_elems t r with
      | Some a', Some r' => Some (a' :: r')
      | _, _ => None
      end
  end.

Fixpoint cast_items (t : option atype) (l : list (string * atom)) : option (list (string * atom)) :=
  match l with
  | [] => Some []
  | (k, a) :: r =>
      match cast_elem t a, cast_items t r with
      | Some a', Some r' => Some ((k, a') :: r')
      | _, _ => None
      end
  end.

(* TypedDict._verify_kvt(k, v, schema[k]) *)
Definition cast (t : ftype) (v : val) : perr + val :=
  match v with
  | VA ANone => inr v
  | _ =>
      match t with
      | FAtom t' =>
          match v with
          | VA a => match cast_atom t' a with Some a' => inr (VA a') | None => inl TypeError end
          | _ => match t' with TStr => inl OutOfModel | _ => inl TypeError end
          end
      | FList t' =>
          match v with
          | VA a => match cast_elems t' [a] with Some l => inr (VL l) | None => inl TypeError end
          | VL l => match cast_elems t' l with Some l' => inr (VL l') | None => inl TypeError end
          | VD _ => inl OutOfModel
          end
      | FDict tk tv =>
          match v with
          | VD l =>
              match tk with
              | None | Some TStr =>
                  match cast_items tv l with Some l' => inr (VD l') | None => inl TypeError end
              | _ => inl OutOfModel
              end
          | _ => inl AttributeError
          end
      | FTyped _ =>
          match v with
          | VL [] => inr v
          | _ => inl OutOfModel
          end
      end
  end.

(* TypedDict.verify, first half: every item is cast in place, in order *)
Fixpoint typecheck (sch : list (string * ftype)) (d : descr) : perr + descr :=
  match d with
  | [] => inr []
  | (k, v) :: r =>
      match lookup k sch with
      | None => inl KeyError
      | Some t =>
          match cast t v with
          | inl e => inl e
          | inr v' =>
              match typecheck sch r with
              | inl e => inl e
              | inr r' => inr ((k, v') :: r')
              end
          end
      end
  end.

(* ------------------------------------------------------------------ *)
(* TaskDescription._verify                                             *)

Definition mode_key : string := "mode"%string.

Definition set_mode (T : table) (d : descr) : descr :=
  if truthy (getv mode_key d) then d else set mode_key (VA (AStr (t_mode_dflt T))) d.

Definition check_ok (d : descr) (c : string * bool) : bool :=
  if snd c then truthy (getv (fst c) d) else negb (truthy (getv (fst c) d)).

Definition mem_str (s : string) (l : list string) : bool := existsb (String.eqb s) l.

(* the if/elif chain: only the first branch whose modes contain the mode is evaluated *)
Fixpoint rule_for (m : string) (rs : list (list string * list (string * bool))) : list (string * bool) :=
  match rs with
  | [] => []
  | (ms, cs) :: r => if mem_str m ms then cs else rule_for m r
  end.

Definition mode_of (d : descr) : option string :=
  match getv mode_key d with VA (AStr m) => Some m | _ => None end.

Definition rules_ok (T : table) (d : descr) : bool :=
  match mode_of d with
  | Some m => forallb (check_ok d) (rule_for m (t_rules T))
  | None => true
  end.

Definition conv_val (c : conv) (v : val) : val :=
  match c with
  | CId => v
  | CFloat =>
      match v with
      | VA (AInt z) => VA (AFlt (2 * z))
      | VA (ABool b) => VA (AFlt (if b then 2 else 0))
      | _ => v          (* float(float) ; other types cannot reach this under wf_table *)
      end
  end.

Definition alias_step (d : descr) (a : alias) : descr :=
  if truthy (getv (a_src a) d)
  then set (a_rfld a) (VA (a_rval a)) (set (a_dst a) (conv_val (a_conv a) (getv (a_src a) d)) d)
  else d.

Definition alias_pass (T : table) (d : descr) : descr := fold_left alias_step (t_aliases T) d.

(* if self.F is None: self.F = bool(self.G - 1) *)
Definition derive_step (fg : string * string) (d : descr) : perr + descr :=
  match getv (fst fg) d with
  | VA ANone =>
      match getv (snd fg) d with
      | VA (AInt z) => inr (set (fst fg) (VA (ABool (negb (z - 1 =? 0)))) d)
      | VA (ABool b) => inr (set (fst fg) (VA (ABool (negb b))) d)
      | VA (AFlt h) => inr (set (fst fg) (VA (ABool (negb (h - 2 =? 0)))) d)
      | _ => inl TypeError
      end
  | _ => inr d
  end.

(* the body of _verify with the use_mpi block where the source has it *)
Definition vfy (T : table) (d : descr) : perr + descr :=
  let d1 := set_mode T d in
  match t_derive_pos T with
  | None =>
      match derive_step (t_derive T) d1 with
      | inl e => inl e
      | inr d2 => if rules_ok T d2 then inr (alias_pass T d2) else inl ValueError
      end
  | Some n =>
      if rules_ok T d1
      then match derive_step (t_derive T) (fold_left alias_step (firstn n (t_aliases T)) d1) with
           | inl e => inl e
           | inr d3 => inr (fold_left alias_step (skipn n (t_aliases T)) d3)
           end
      else inl ValueError
  end.

(* TypedDict.verify *)
Definition verify (T : table) (d : descr) : perr + descr :=
  match typecheck (t_schema T) d with
  | inl e => inl e
  | inr d1 => vfy T d1
  end.

(* ------------------------------------------------------------------ *)
(* PilotDescription._verify -- written by hand; translators/descr.py stops if the
   source text of the method is no longer the one modelled here *)

Definition pd_rules (d : descr) : bool :=
  let isset := fun k : string => truthy (getv k d) in
  isset "resource"%string
  && negb (isset "backup_nodes"%string && negb (isset "nodes"%string))
  && (if isset "nodes"%string
      then negb (isset "cores"%string) && negb (isset "gpus"%string)
      else isset "cores"%string).

Definition pd_verify (T : table) (d : descr) : perr + descr :=
  match typecheck (t_schema T) d with
  | inl e => inl e
  | inr d1 => if pd_rules d1 then inr d1 else inl ValueError
  end.

(* ------------------------------------------------------------------ *)
(* well-formedness of a table: what the general theorems need          *)

Definition atype_eqb (a b : atype) : bool :=
  match a, b with
  | TStr, TStr | TInt, TInt | TFloat, TFloat | TBool, TBool => true
  | _, _ => false
  end.

Definition ftype_is (t : atype) (f : option ftype) : bool :=
  match f with Some (FAtom t') => atype_eqb t t' | _ => false end.

Fixpoint nodup_str (l : list string) : bool :=
  match l with
  | [] => true
  | x :: r => negb (mem_str x r) && nodup_str r
  end.

Definition disjoint_str (a b : list string) : bool := forallb (fun x => negb (mem_str x b)) a.

Definition atom_eqb (a b : atom) : bool :=
  match a, b with
  | ANone, ANone => true
  | ABool x, ABool y => Bool.eqb x y
  | AInt x, AInt y => x =? y
  | AFlt x, AFlt y => x =? y
  | AStr x, AStr y => String.eqb x y
  | _, _ => false
  end.

Definition alias_ok (sch : list (string * ftype)) (a : alias) : bool :=
  String.eqb (a_rfld a) (a_src a)
  && negb (truthy_atom (a_rval a))
  && match lookup (a_src a) sch, lookup (a_dst a) sch with
     | Some (FAtom ts), Some (FAtom td) =>
         match cast_atom ts (a_rval a) with Some r => atom_eqb r (a_rval a) | None => false end
         && match a_conv a with
            | CId => atype_eqb ts td
            | CFloat => atype_eqb ts TInt && atype_eqb td TFloat
            end
     | _, _ => false
     end.

Definition rule_fields (T : table) : list string :=
  List.concat (map (fun r => map fst (snd r)) (t_rules T)).

Definition wf_table (T : table) : bool :=
  let srcs := map a_src (t_aliases T) in
  let dsts := map a_dst (t_aliases T) in
  let sch := t_schema T in
  let f := fst (t_derive T) in
  let g := snd (t_derive T) in
  let fixed := mode_key :: f :: rule_fields T in
  forallb (alias_ok sch) (t_aliases T)
  && nodup_str srcs && nodup_str dsts && disjoint_str srcs dsts
  && disjoint_str fixed srcs && disjoint_str fixed dsts
  && ftype_is TStr (lookup mode_key sch)
  && ftype_is TBool (lookup f sch)
  && ftype_is TInt (lookup g sch)
  && negb (String.eqb f mode_key) && negb (mem_str f (rule_fields T)) && negb (mem_str mode_key (rule_fields T))
  && negb (String.eqb (t_mode_dflt T) EmptyString)
  (* the derived flag is computed after every deprecated name has been mapped *)
  && match t_derive_pos T with Some n => Nat.eqb n (List.length (t_aliases T)) | None => false end
  && negb (mem_str g srcs)
  && nodup_str (map fst sch) && nodup_str (map fst (t_defaults T))
  && forallb (fun k => mem_str k (map fst sch)) (map fst (t_defaults T))
  && forallb (fun k => mem_str k (map fst (t_defaults T))) (fixed ++ srcs ++ dsts).

(* ------------------------------------------------------------------ *)
(* several descriptions built, mutated and normalised one after the other *)

(* list.append(e)  /  dict[key] = e  on the value of an attribute *)
Definition app_val (v : val) (key : string) (e : atom) : val :=
  match v with
  | VL l => VL (l ++ [e])
  | VD l => VD (set key e l)
  | VA a => VA a
  end.

Inductive dop :=
| DConstruct (i : nat) (x : descr)                       (* slot i := Class(from_dict=x) *)
| DVerify    (i : nat)                                   (* slot i .verify() *)
| DAppend    (i : nat) (k key : string) (e : atom)       (* the user mutates attribute k of slot i *)
| DForeign   (i : nat).                                  (* a mutation of something that is NOT the description:
                                                            the constructor's input after verify(), the result of as_dict() *)

Definition op_slot (o : dop) : nat :=
  match o with DConstruct i _ | DVerify i | DAppend i _ _ _ | DForeign i => i end.

Definition dstore := list (nat * descr).

Fixpoint slot_get (i : nat) (st : dstore) : option descr :=
  match st with
  | [] => None
  | (j, d) :: r => if Nat.eqb i j then Some d else slot_get i r
  end.

Fixpoint slot_set (i : nat) (d : descr) (st : dstore) : dstore :=
  match st with
  | [] => [(i, d)]
  | (j, d') :: r => if Nat.eqb i j then (i, d) :: r else (j, d') :: slot_set i d r
  end.

(* every description has its own state: no operation reads or writes another slot, and
   there is no state outside the slots (no shared defaults) *)
Definition dstep (mk : descr -> descr) (vf : descr -> perr + descr) (st : dstore) (o : dop) : dstore :=
  match o with
  | DConstruct i x => slot_set i (mk x) st
  | DVerify i =>
      match slot_get i st with
      | Some d => match vf d with inr v => slot_set i v st | inl _ => st end
      | None => st
      end
  | DAppend i k key e =>
      match slot_get i st with
      | Some d => slot_set i (set k (app_val (getv k d) key e) d) st
      | None => st
      end
  | DForeign _ => st
  end.

Definition drun (mk : descr -> descr) (vf : descr -> perr + descr) (ops : list dop) (st : dstore) : dstore :=
  fold_left (dstep mk vf) ops st.

Definition touches (i : nat) (o : dop) : bool := Nat.eqb (op_slot o) i.

(* ------------------------------------------------------------------ *)
(* TaskManager.submit_tasks on a bulk of description objects             *)

Definition uid_key : string := "uid"%string.

(* ru.generate_id('task.%(item_counter)06d'): the harness renames the n-th generated uid GEN<n> *)
Definition gen_uid (n : nat) : string := append "GEN" (dec (Z.of_nat n)).

(* `if not td.uid: td.uid = <generated>` -- written into the caller's object *)
Definition with_uid (d : descr) (u : string) : descr :=
  if truthy (getv uid_key d) then d else set uid_key (VA (AStr u)) d.

Definition uid_str (d : descr) : option string :=
  match getv uid_key d with VA (AStr s) => Some s | _ => None end.

Record sub_state := mkSub { ss_store : dstore; ss_known : list string; ss_gen : nat }.

Inductive sub_outcome := SubOk | SubErr (e : perr) (slot : nat).

(* The loop over the bulk (objects are named by their slot; one object may be listed twice).
   Per description: reserve its uid (generate one if it has none; an application-chosen uid that
   is already known ends the call with ValueError), then Task(descr) verifies it in place; a
   refusal ends the call -- the uids reserved so far STAY reserved and the descriptions handled
   so far stay as verify left them.  `made`: the tasks constructed in this call. *)
Fixpoint submit_loop (vf : descr -> perr + descr) (ids : list nat) (s : sub_state) (made : list nat)
  : sub_state * sub_outcome * list nat :=
  match ids with
  | [] => (s, SubOk, made)
  | i :: r =>
      match slot_get i (ss_store s) with
      | None => (s, SubErr OtherError i, made)
      | Some d =>
          let fresh := negb (truthy (getv uid_key d)) in
          let d1 := with_uid d (gen_uid (ss_gen s)) in
          match uid_str d1 with
          | None => (s, SubErr OutOfModel i, made)
          | Some u =>
              if negb fresh && mem_str u (ss_known s) then (s, SubErr ValueError i, made)
              else
                let known' := u :: ss_known s in
                let gen' := if fresh then S (ss_gen s) else ss_gen s in
                match vf d1 with
                | inl e => (mkSub (slot_set i d1 (ss_store s)) known' gen', SubErr e i, made)
                | inr v => submit_loop vf r (mkSub (slot_set i v (ss_store s)) known' gen') (made ++ [i])
                end
          end
      end
  end.

(* one call: the tasks handed on (advance to TMGR_SCHEDULING_PENDING) are all or none *)
Definition submit_call (vf : descr -> perr + descr) (ids : list nat) (s : sub_state)
  : sub_state * sub_outcome * list nat :=
  let '(s', out, made) := submit_loop vf ids s [] in
  (s', out, match out with SubOk => made | SubErr _ _ => [] end).

Fixpoint submit_calls (vf : descr -> perr + descr) (calls : list (list nat)) (s : sub_state)
  : sub_state * list (sub_outcome * list nat * dstore) :=
  match calls with
  | [] => (s, [])
  | ids :: r =>
      let '(s', out, handed) := submit_call vf ids s in
      let '(s'', rest) := submit_calls vf r s' in
      (s'', (out, handed, ss_store s') :: rest)
  end.

(* ------------------------------------------------------------------ *)
(* slots                                                               *)

(* how the `cores` / `gpus` list of a slot is written; occupations are kept
   in quarters (4 = 1.0 = BUSY), None = Python None *)
Inductive rspec :=
| RInts  (l : list Z)
| RDicts (l : list (Z * option Z))     (* plain dicts {'index':, 'occupation':} *)
| RROs   (l : list (Z * option Z))     (* RO objects *)
| RPairs (l : list (Z * option Z))     (* tuples (index, occupation) *)
| RLists (l : list (list Z)).          (* lists of ints: the old per-rank maps *)

Record slot := mkSlot {
  s_typed   : bool;                    (* a Slot object (true) or a plain dict *)
  s_version : option Z;
  s_cores   : rspec;
  s_gpus    : rspec;
  s_lfs     : Z;
  s_mem     : Z;
  s_nidx    : Z;
  s_nname   : string }.

Definition rspec_empty (r : rspec) : bool :=
  match r with
  | RInts [] | RDicts [] | RROs [] | RPairs [] | RLists [] => true
  | _ => false
  end.

Definition busy : option Z := Some 4.

Fixpoint pairs_of_lists (l : list (list Z)) : option (list (Z * option Z)) :=
  match l with
  | [] => Some []
  | [i; o] :: r => match pairs_of_lists r with Some r' => Some ((i, Some (4 * o)) :: r') | None => None end
  | _ :: _ => None                     (* for i,o in ...: wrong number of values to unpack *)
  end.

(* the cores / gpus branch of convert_slots_to_new *)
Definition res_to_new (r : rspec) : perr + rspec :=
  if rspec_empty r then inr r else
  match r with
  | RROs l => inr (RROs l)
  | RInts l => inr (RROs (map (fun i => (i, busy)) l))
  | RDicts l => inr (RROs l)
  | RPairs l => inr (RROs l)
  | RLists l => match pairs_of_lists l with Some p => inr (RROs p) | None => inl ValueError end
  end.

Definition version_ge1 (s : slot) : bool :=
  match s_version s with Some v => 1 <=? v | None => false end.

Definition slot_to_new (s : slot) : perr + slot :=
  if version_ge1 s then inr s else
  match res_to_new (s_cores s), res_to_new (s_gpus s) with
  | inl e, _ => inl e
  | _, inl e => inl e
  | inr c, inr g => inr (mkSlot true (Some 1) c g (s_lfs s) (s_mem s) (s_nidx s) (s_nname s))
  end.

Fixpoint map_err {A B} (f : A -> perr + B) (l : list A) : perr + list B :=
  match l with
  | [] => inr []
  | x :: r =>
      match f x with
      | inl e => inl e
      | inr y => match map_err f r with inl e => inl e | inr r' => inr (y :: r') end
      end
  end.

Definition slots_to_new (ss : list slot) : perr + list slot := map_err slot_to_new ss.

(* the cores / gpus branch of convert_slots_to_old *)
Definition res_to_old (r : rspec) : perr + rspec :=
  if rspec_empty r then inr r else
  match r with
  | RInts l => inr (RLists (map (fun c => [c]) l))
  | RDicts l | RROs l => inr (RLists (map (fun ro => [fst ro]) l))
  | RPairs _ | RLists _ => inl OutOfModel     (* `.index` of a tuple / list is a bound method *)
  end.

Definition version_truthy (s : slot) : bool :=
  match s_version s with Some v => negb (v =? 0) | None => false end.

Definition slot_to_old (s : slot) : perr + slot :=
  if negb (version_truthy s) then inr s else
  match res_to_old (s_cores s), res_to_old (s_gpus s) with
  | inl e, _ => inl e
  | _, inl e => inl e
  | inr c, inr g => inr (mkSlot false None c g (s_lfs s) (s_mem s) (s_nidx s) (s_nname s))
  end.

Definition slots_to_old (ss : list slot) : perr + list slot := map_err slot_to_old ss.

(* Slot.__init__(from_dict) on a plain dict, and Slot.as_dict *)
Definition res_ctor (r : rspec) : rspec :=
  match r with
  | RDicts (x :: l) => RROs (x :: l)
  | RInts (x :: l) => RROs (map (fun i => (i, busy)) (x :: l))
  | _ => r
  end.

Definition slot_ctor (s : slot) : slot :=
  mkSlot true (match s_version s with None => Some 1 | v => v end)
         (res_ctor (s_cores s)) (res_ctor (s_gpus s)) (s_lfs s) (s_mem s) (s_nidx s) (s_nname s).

Definition res_plain (r : rspec) : rspec :=
  match r with RROs l => RDicts l | _ => r end.

Definition slot_as_dict (s : slot) : slot :=
  mkSlot false (s_version s) (res_plain (s_cores s)) (res_plain (s_gpus s))
         (s_lfs s) (s_mem s) (s_nidx s) (s_nname s).

Inductive sop := OpNew | OpOld | OpCtor | OpAsDict.

Definition run_sop (o : sop) (ss : list slot) : perr + list slot :=
  match o with
  | OpNew => slots_to_new ss
  | OpOld => slots_to_old ss
  | OpCtor => inr (map slot_ctor ss)
  | OpAsDict => inr (map slot_as_dict ss)
  end.

(* the stages reached by a pipeline of conversions; stops at the first exception *)
Fixpoint run_sops (os : list sop) (ss : list slot) : list (perr + list slot) :=
  match os with
  | [] => []
  | o :: r =>
      match run_sop o ss with
      | inl e => [inl e]
      | inr ss' => inr ss' :: run_sops r ss'
      end
  end.

(* what must survive *)
Definition indices (r : rspec) : list Z :=
  match r with
  | RInts l => l
  | RDicts l | RROs l | RPairs l => map fst l
  | RLists l => List.concat l
  end.

Definition placement (ss : list slot) : list (Z * string * list Z * list Z) :=
  map (fun s => (s_nidx s, s_nname s, indices (s_cores s), indices (s_gpus s))) ss.

(* ------------------------------------------------------------------ *)
(* the client reads the placement a task was given: Task.slots           *)

(* slots as their writers leave them: every key but cores/gpus may be missing *)
Record pslot := mkPSlot {
  p_typed   : bool;
  p_version : option Z;
  p_cores   : rspec;
  p_gpus    : rspec;
  p_lfs     : option Z;
  p_mem     : option Z;
  p_nidx    : option Z;
  p_nname   : option string }.

Definition odflt {A} (o : option A) (d : A) : A := match o with Some x => x | None => d end.

(* Slot(from_dict): missing keys get the class defaults, ints and plain dicts become ROs *)
Definition pslot_ctor (s : pslot) : pslot :=
  mkPSlot true (Some (odflt (p_version s) 1)) (res_ctor (p_cores s)) (res_ctor (p_gpus s))
          (Some (odflt (p_lfs s) 0)) (Some (odflt (p_mem s) 0)) (Some (odflt (p_nidx s) 0))
          (Some (odflt (p_nname s) EmptyString)).

Definition pversion_falsy (s : pslot) : bool :=
  match p_version s with Some v => v =? 0 | None => true end.

(* what reached Task._update as task['slots'] *)
Inductive cinput :=
| CNothing                       (* None, or no 'slots' key: the attribute keeps its value (None) *)
| CSlots (l : list pslot)        (* a list of slot dicts *)
| CRanksDict.                    (* the hombre scheduler's dict {'ranks': [...], 'ncblocks': ..} *)

(* Task.slots: an old-format list (first slot without version) is upgraded slot by slot with
   Slot(...); anything else is handed out as it is.  A dict is indexed with 0: KeyError. *)
Definition client_slots (c : cinput) : perr + list pslot :=
  match c with
  | CNothing => inr []
  | CSlots [] => inr []
  | CSlots (s :: r) => if pversion_falsy s then inr (map pslot_ctor (s :: r)) else inr (s :: r)
  | CRanksDict => inl KeyError
  end.

(* what the writer meant: node, core and GPU indices, lfs, mem -- absent keys mean the defaults *)
Definition pplacement1 (s : pslot) :=
  (odflt (p_nidx s) 0, odflt (p_nname s) EmptyString, indices (p_cores s), indices (p_gpus s),
   odflt (p_lfs s) 0, odflt (p_mem s) 0).

Definition pplacement (l : list pslot) := map pplacement1 l.

(* ------------------------------------------------------------------ *)
(* function envelopes                                                  *)

Definition kwargs := list (string * atom).

Section Envelope.
  Variables func blob wire : Type.

  Record envelope := mkEnv { e_func : blob; e_args : list atom; e_kwargs : option kwargs }.

  Variable ser_obj    : func -> blob.                 (* serialize_obj   (dill.dumps) *)
  Variable deser_obj  : blob -> option func.          (* deserialize_obj (dill.loads) *)
  Variable ser_bson   : envelope -> wire.             (* serialize_bson   (pickle + base64) *)
  Variable deser_bson : wire -> option envelope.      (* deserialize_bson *)

  (* PythonTask.__new__(func, args, kwargs) -- kwargs=None is the default;
     the decorator form pythontask(f) is the same with kwargs always a dict *)
  Definition python_task (callable : bool) (f : func) (args : list atom) (kw : option kwargs)
    : perr + wire :=
    if callable
    then inr (ser_bson (mkEnv (ser_obj f) args
                              (match kw with Some (x :: l) => Some (x :: l) | _ => Some [] end)))
    else inl ValueError.

  (* PythonTask.get_func_attr *)
  Definition get_func_attr (w : wire) : perr + (func * list atom * option kwargs) :=
    match deser_bson w with
    | None => inl OtherError
    | Some e =>
        match deser_obj (e_func e) with
        | None => inl OtherError
        | Some f => inr (f, e_args e, e_kwargs e)
        end
    end.

  Definition transport (callable : bool) (f : func) (args : list atom) (kw : option kwargs) :=
    match python_task callable f args kw with
    | inl e => inl e
    | inr w => get_func_attr w
    end.

  (* The time of serialisation.  A callable carries state that is pickled by value (closure
     cells, a bound instance, partial arguments, mutable defaults); `func` is the function
     VALUE, i.e. what dill would write at that moment.  pythontask(f) is applied when the
     value is f_dec; each later call of the decorated function happens when the value is
     f_now, and it is f_now that is serialised (serialize_obj(f) stands inside `decor`). *)
  Definition decorated_call (callable : bool) (f_dec f_now : func) (args : list atom) (kw : kwargs)
    : perr + wire :=
    if callable
    then inr (ser_bson (mkEnv (ser_obj f_now) args (Some kw)))
    else inl ValueError.                (* raised by pythontask(f) itself *)

  (* one task creation: the function value at that moment, the arguments *)
  Record step := mkStep { st_f : func; st_args : list atom; st_kw : option kwargs }.

  Definition kw_or_empty (kw : option kwargs) : kwargs := match kw with Some l => l | None => [] end.

  (* a sequence of task creations from one callable, through the decorator (decorated once,
     when the value was f_dec) or through the constructor, each followed by its decoding *)
  Definition encode_step (decor callable : bool) (f_dec : func) (s : step) : perr + wire :=
    if decor
    then decorated_call callable f_dec (st_f s) (st_args s) (kw_or_empty (st_kw s))
    else python_task callable (st_f s) (st_args s) (st_kw s).

  Definition transport_seq (decor callable : bool) (f_dec : func) (steps : list step) :=
    map (fun s => match encode_step decor callable f_dec s with
                  | inl e => inl e
                  | inr w => get_func_attr w
                  end) steps.
End Envelope.

(* ------------------------------------------------------------------ *)
(* one transport string decoded several times                           *)

(* what get_func_attr hands out: objects the caller (or the called function) may change in
   place -- the callable with its state, the argument list and the lists/dicts in it, the
   keyword dict and the lists/dicts in it *)
Record dres := mkDres { r_func : Z; r_args : list val; r_kw : list (string * val) }.

Inductive rmut :=
| MArgsAppend (v : val)                         (* args.append(v) *)
| MArgNested  (i : nat) (e : atom)              (* args[i].append(e)        (a nested list) *)
| MKwSet      (k : string) (v : val)            (* kwargs[k] = v *)
| MKwDel      (k : string)                      (* del kwargs[k] *)
| MKwNested   (k key : string) (e : atom)       (* kwargs[k][key] = e       (a nested dict) *)
| MFuncState  (z : Z).                          (* func.state = z *)

Fixpoint nth_upd {A} (i : nat) (f : A -> A) (l : list A) : list A :=
  match l, i with
  | [], _ => []
  | x :: r, O => f x :: r
  | x :: r, S j => x :: nth_upd j f r
  end.

Fixpoint del_key {A} (k : string) (d : list (string * A)) : list (string * A) :=
  match d with
  | [] => []
  | (k', v) :: r => if String.eqb k k' then r else (k', v) :: del_key k r
  end.

Definition apply_mut (m : rmut) (r : dres) : dres :=
  match m with
  | MArgsAppend v => mkDres (r_func r) (r_args r ++ [v]) (r_kw r)
  | MArgNested i e => mkDres (r_func r) (nth_upd i (fun v => app_val v EmptyString e) (r_args r)) (r_kw r)
  | MKwSet k v => mkDres (r_func r) (r_args r) (set k v (r_kw r))
  | MKwDel k => mkDres (r_func r) (r_args r) (del_key k (r_kw r))
  | MKwNested k key e =>
      mkDres (r_func r) (r_args r)
             (match lookup k (r_kw r) with Some v => set k (app_val v key e) (r_kw r) | None => r_kw r end)
  | MFuncState z => mkDres z (r_args r) (r_kw r)
  end.

Inductive rop :=
| RDecode                                  (* get_func_attr(w) once more *)
| RMutate (i : nat) (m : rmut).            (* change the result of the i-th decode in place *)

(* The decoder of the code: every call builds its result from the string alone.  State: the
   results handed out so far (they live on, and are mutated, in the caller's hands); second
   component: what each decode returned, at the time it returned. *)
Fixpoint run_fresh (x : dres) (ops : list rop) (store : list dres) : list dres * list dres :=
  match ops with
  | [] => (store, [])
  | RDecode :: r => let '(st, rets) := run_fresh x r (store ++ [x]) in (st, x :: rets)
  | RMutate i m :: r => run_fresh x r (nth_upd i (apply_mut m) store)
  end.

(* A decoder that keeps the decoded object per string and hands out list(args) (a shallow
   copy) and the kept kwargs dict and callable themselves: every result shares the nested
   lists, the keyword dict and the callable with the kept object.  Not the code -- the
   contrast that shows what the statement below excludes. *)
Definition shares (m : rmut) : bool := match m with MArgsAppend _ => false | _ => true end.

Fixpoint run_cached (kept : dres) (ops : list rop) : list dres :=
  match ops with
  | [] => []
  | RDecode :: r => kept :: run_cached kept r
  | RMutate _ m :: r => run_cached (if shares m then apply_mut m kept else kept) r
  end.

(* utils.serializer.serialize_obj on a callable: by value (dill.dumps(obj)); if that raises
   -- whatever it raises -- by reference (dill.dumps(obj, byref=True)); if that raises too,
   SerializationError.  None = the attempt raises. *)
Section Serialize.
  Variables func blob wire : Type.
  Variable dumps_val : func -> option blob.
  Variable dumps_ref : func -> option blob.
  Variable loads     : blob -> option func.              (* deserialize_obj *)
  Variable ser_bson   : envelope blob -> wire.
  Variable deser_bson : wire -> option (envelope blob).

  Definition serialize_obj (f : func) : perr + blob :=
    match dumps_val f with
    | Some b => inr b
    | None => match dumps_ref f with
              | Some b => inr b
              | None => inl SerError
              end
    end.

  (* PythonTask.__new__ / the decorated function with this serialize_obj *)
  Definition python_task_s (callable : bool) (f : func) (args : list atom) (kw : option kwargs)
    : perr + wire :=
    if callable
    then match serialize_obj f with
         | inl e => inl e
         | inr b => inr (ser_bson (mkEnv blob b args
                                         (match kw with Some (x :: l) => Some (x :: l) | _ => Some [] end)))
         end
    else inl ValueError.

  Definition transport_s (callable : bool) (f : func) (args : list atom) (kw : option kwargs) :=
    match python_task_s callable f args kw with
    | inl e => inl e
    | inr w => get_func_attr func blob wire loads deser_bson w
    end.
End Serialize.

Arguments mkEnv {blob}.
Arguments e_func {blob}.
Arguments e_args {blob}.
Arguments e_kwargs {blob}.
Arguments mkStep {func}.
Arguments st_f {func}.
Arguments st_args {func}.
Arguments st_kw {func}.
