From Coq Require Import List Bool.
From RP Require Import AgentCause.Model.
Import ListNotations.

Definition cause_of (acc : option bool) (term : bool) : cause :=
  match acc with
  | Some true => CTimeout
  | Some false => CCancel
  | None => if term then CCancel else CNone
  end.

(* generalised invariant of the fold *)
Lemma fold_spec es : forall acc term,
  fold_left astep es (cause_of acc term) =
  cause_of (last_setter es acc) (term || existsb is_terminate es).
Proof.
  induction es as [|e r IH]; intros acc term; simpl.
  - rewrite orb_false_r; reflexivity.
  - destruct e as [[|] [|]|[|]| | | |]; simpl.
    + rewrite <- (IH (Some true) term). reflexivity.
    + apply IH.
    + apply IH.
    + apply IH.
    + rewrite <- (IH (Some false) term). reflexivity.
    + apply IH.
    + rewrite orb_true_r.
      replace (astop (cause_of acc term)) with (cause_of acc true)
        by (destruct acc as [[|]|]; destruct term; reflexivity).
      rewrite IH. reflexivity.
    + apply IH.
    + apply IH.
    + apply IH.
Qed.

(* finalize reports exactly the declarative reading, for every event sequence *)
Theorem agent_final_spec es : agent_final es = spec_final es.
Proof.
  unfold agent_final, arun, spec_final.
  change CNone with (cause_of None false). rewrite fold_spec. simpl.
  destruct (last_setter es None) as [[|]|]; simpl; try reflexivity.
  destruct (existsb is_terminate es); reflexivity.
Qed.

Lemma last_setter_no es acc :
  forallb (fun e => match e with Lifetime true true | CancelPilots true => false | _ => true end) es = true ->
  last_setter es acc = acc.
Proof.
  revert acc; induction es as [|e r IH]; intros acc H; simpl; [reflexivity|].
  simpl in H. apply andb_true_iff in H as [H1 H2].
  destruct e as [[|] [|]|[|]| | | |]; try discriminate; apply IH, H2.
Qed.

(* ran until its run time; whatever stop()/terminate follows: DONE *)
Theorem timeout_then_stops_done a b :
  forallb (fun e => match e with Lifetime true true | CancelPilots true => false | _ => true end) b = true ->
  agent_final (a ++ Lifetime true true :: b) = F_DONE.
Proof.
  intro H. rewrite agent_final_spec. unfold spec_final.
  assert (E : forall acc, last_setter (a ++ Lifetime true true :: b) acc = Some true).
  { induction a as [|x a IH]; intros acc; simpl.
    - apply last_setter_no, H.
    - destruct x as [[|] [|]|[|]| | | |]; apply IH. }
  rewrite E. reflexivity.
Qed.

(* canceled by request; whatever stop()/terminate follows: CANCELED *)
Theorem cancel_then_stops_canceled a b :
  forallb (fun e => match e with Lifetime true true | CancelPilots true => false | _ => true end) b = true ->
  agent_final (a ++ CancelPilots true :: b) = F_CANCELED.
Proof.
  intro H. rewrite agent_final_spec. unfold spec_final.
  assert (E : forall acc, last_setter (a ++ CancelPilots true :: b) acc = Some false).
  { induction a as [|x a IH]; intros acc; simpl.
    - apply last_setter_no, H.
    - destruct x as [[|] [|]|[|]| | | |]; apply IH. }
  rewrite E. reflexivity.
Qed.

(* neither run time reached, nor canceled, nor told to terminate: FAILED *)
Theorem no_cause_failed es :
  forallb (fun e => negb (is_terminating e)) es = true -> agent_final es = F_FAILED.
Proof.
  intro H. rewrite agent_final_spec. unfold spec_final.
  assert (E1 : last_setter es None = None).
  { apply last_setter_no. rewrite forallb_forall in *. intros x Hx. specialize (H x Hx).
    destruct x as [[|] [|]|[|]| | | |]; simpl in *; try reflexivity; discriminate. }
  assert (E2 : existsb is_terminate es = false).
  { clear E1. induction es as [|x r IH]; simpl; [reflexivity|]. simpl in H.
    apply andb_true_iff in H as [H1 H2].
    destruct x as [[|] [|]|[|]| | | |]; simpl in *; try discriminate; apply IH, H2. }
  rewrite E1, E2. reflexivity.
Qed.
