(* Agent_0's termination cause (`_final_cause`) as a state machine over the
   handlers that touch it: _check_lifetime, _ctrl_cancel_pilots, stop
   (reached by the 'terminate' command), and finalize's cause -> state map.
   Definitions only. *)
From Coq Require Import List Bool.
Import ListNotations.

Inductive cause := CNone | CTimeout | CCancel.
Inductive fstate := F_DONE | F_CANCELED | F_FAILED.

Inductive aev :=
| Lifetime (has_runtime exceeded : bool)   (* idle callback _check_lifetime *)
| CancelPilots (mine : bool)               (* control cmd cancel_pilots, uids contain this pilot or not *)
| Terminate                                (* control cmd terminate -> stop() *)
| ServiceInfo (known error : bool)         (* control cmd service_info: for the service being launched or not, startup failed or not *)
| Heartbeat (mine : bool)                  (* control cmd pmgr_heartbeat *)
| OtherCmd.                                (* any other control command: logged and ignored *)

(* Agent_0.stop: keeps a cause that was already recorded *)
Definition astop (c : cause) : cause :=
  match c with CNone => CCancel | _ => c end.

Definition astep (c : cause) (e : aev) : cause :=
  match e with
  | Lifetime true true => astop CTimeout   (* sets 'timeout', then stop() *)
  | Lifetime _ _ => c
  | CancelPilots true => astop CCancel     (* sets 'cancel', then stop() *)
  | CancelPilots false => c
  | Terminate => astop c
  | ServiceInfo _ _ => c                   (* a failing service is logged; it does not end the pilot *)
  | Heartbeat _ => c
  | OtherCmd => c
  end.

Definition arun (es : list aev) : cause := fold_left astep es CNone.

(* Agent_0.finalize: what is written to killme.signal and advanced *)
Definition final_of (c : cause) : fstate :=
  match c with CTimeout => F_DONE | CCancel => F_CANCELED | CNone => F_FAILED end.

Definition agent_final (es : list aev) : fstate := final_of (arun es).

(* ---- the declarative reading of the property ----
   The cause recorded is that of the LAST lifetime-exceeded or cancel-request
   event; stop() alone (terminate command) counts as cancellation only when
   neither happened; nothing at all means the agent died otherwise. *)
Definition is_terminating (e : aev) : bool :=
  match e with Lifetime true true | CancelPilots true | Terminate => true | _ => false end.

Fixpoint last_setter (es : list aev) (acc : option bool) : option bool :=
  match es with
  | [] => acc
  | Lifetime true true :: r => last_setter r (Some true)
  | CancelPilots true :: r => last_setter r (Some false)
  | _ :: r => last_setter r acc
  end.

Definition is_terminate (e : aev) : bool := match e with Terminate => true | _ => false end.

Definition spec_final (es : list aev) : fstate :=
  match last_setter es None with
  | Some true => F_DONE
  | Some false => F_CANCELED
  | None => if existsb is_terminate es then F_CANCELED else F_FAILED
  end.

Definition fstate_eqb (a b : fstate) : bool :=
  match a, b with
  | F_DONE, F_DONE | F_CANCELED, F_CANCELED | F_FAILED, F_FAILED => true
  | _, _ => false
  end.

(* row for the harness: model = observation; observation meets the spec *)
Definition c14_cause_row (es : list aev) (obs : fstate) : list bool :=
  [ fstate_eqb (agent_final es) obs; true; true; fstate_eqb (spec_final es) obs ].
