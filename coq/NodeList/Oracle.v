(* NodeList -- boolean checkers of property C18 and the row evaluated by the
   harness on every generated environment:
     [ model = implementation ; clause_1 ; ... ; clause_7 ]
   The clauses are applied to the RMInfo OBSERVED on the real code. *)
From Coq Require Import ZArith List Bool String Ascii.
From RP Require Import Common.Eqb NodeList.Model.
Import ListNotations.
Open Scope Z_scope.

(* ------------------------------------------------------------ equalities *)
Definition err_eqb (a b : err) : bool :=
  match a, b with
  | RuntimeError, RuntimeError | ValueError, ValueError | AssertionError, AssertionError
  | ZeroDivisionError, ZeroDivisionError | OtherError, OtherError => true
  | _, _ => false
  end.

Definition slot_eqb (a b : slot) : bool :=
  match a, b with Free, Free | Busy, Busy | Down, Down => true | _, _ => false end.

Definition node_eqb (a b : node) : bool :=
  String.eqb (n_name a) (n_name b) && (n_index a =? n_index b)
  && eqb_list slot_eqb (n_cores a) (n_cores b) && eqb_list slot_eqb (n_gpus a) (n_gpus b)
  && (n_lfs a =? n_lfs b) && (n_mem a =? n_mem b).

Definition rminfo_eqb (a b : rminfo) : bool :=
  (r_req_nodes a =? r_req_nodes b) && (r_req_cores a =? r_req_cores b)
  && (r_req_gpus a =? r_req_gpus b) && (r_backup a =? r_backup b)
  && (r_cpn a =? r_cpn b) && (r_gpn a =? r_gpn b) && (r_tpc a =? r_tpc b)
  && (r_lfs a =? r_lfs b) && (r_mem a =? r_mem b) && (r_nparts a =? r_nparts b)
  && eqb_list node_eqb (r_nodes a) (r_nodes b) && eqb_list node_eqb (r_backups a) (r_backups b)
  && eqb_list node_eqb (r_agents a) (r_agents b) && eqb_list node_eqb (r_services a) (r_services b).

Definition result_eqb := eqb_sum err_eqb rminfo_eqb.

(* ------------------------------------------------------------- checkers *)
Fixpoint memZ (x : Z) (l : list Z) : bool :=
  match l with [] => false | y :: t => (x =? y) || memZ x t end.
Fixpoint memS (x : string) (l : list string) : bool :=
  match l with [] => false | y :: t => String.eqb x y || memS x t end.

Fixpoint nodupZ (l : list Z) : bool :=
  match l with [] => true | x :: t => negb (memZ x t) && nodupZ t end.
Fixpoint nodupS (l : list string) : bool :=
  match l with [] => true | x :: t => negb (memS x t) && nodupS t end.

(* every node the RMInfo mentions: offered, reserved for sub-agents, for services *)
Definition all_nodes (r : rminfo) : list node := r_nodes r ++ r_agents r ++ r_services r.

(* names the batch system's environment mentions at all *)
Definition nf_lines (nf : nodefile) : list string :=
  match nf with NFLines ls => ls | _ => [] end.

Definition env_names (e : rmenv) : list string :=
  match e with
  | ESlurm nl jnl _ _ _ _ _ => match first_some nl jnl with Some l => l | None => [] end
  | EPBSPro _ q nf =>
      (match q with QVnodes ch => map (fun s => fst (fst s)) (List.concat ch) | _ => [] end) ++ nf_lines nf
  | ELSF nf => nf_lines nf
  | EFork _ => ["localhost"%string]
  | ECobalt nf pn => nf_lines nf ++ match pn with Some l => l | None => [] end
  | ETorque nf => nf_lines nf
  | ECCM files => List.concat (map (fun f => snd f) files)
  end.

(* the batch system names every node once (Slurm hostlist, Cobalt partition);
   node files and vnode expressions may repeat names *)
Definition input_distinct (e : rmenv) : bool :=
  match e with
  | ESlurm nl jnl _ _ _ _ _ => match first_some nl jnl with Some l => nodupS l | None => true end
  | ECobalt NFUnset (Some l) => nodupS l
  | _ => true
  end.

Definition is_fork (e : rmenv) : bool := match e with EFork _ => true | _ => false end.
Definition is_lsf  (e : rmenv) : bool := match e with ELSF _ => true | _ => false end.

(* 1. one entry per allocated node: no node (name) twice, no foreign node;
      LSF: no login/batch pseudo node.  (Fork: virtual nodes share a name.) *)
Definition ok_names (e : rmenv) (r : rminfo) : bool :=
  let names := map n_name (all_nodes r) in
  is_fork e || negb (input_distinct e) ||
  (nodupS names && forallb (fun n => memS n (env_names e)) names
   && (negb (is_lsf e) || forallb (fun n => negb (contains "login" n) && negb (contains "batch" n)) names)).

(* 2. unique indices *)
Definition ok_indices (r : rminfo) : bool := nodupZ (map n_index (all_nodes r)).

(* 3. configured size; blocked slots Down, all others Free *)
Definition pattern_ok (blocked : list Z) (l : list slot) : bool :=
  forallb (fun js => slot_eqb (snd js) (if memZ (fst js) blocked then Down else Free)) (enum_from 0 l).

Definition blocked_wf (c : cfg) : bool :=
  nodupZ (c_bcores c) && nodupZ (c_bgpus c)
  && forallb (fun i => 0 <=? i) (c_bcores c) && forallb (fun i => 0 <=? i) (c_bgpus c).

(* node files with one line per slot fix the node size themselves when the
   configuration also names a size (Torque, CCM) *)
Definition size_from_file (c : cfg) (e : rmenv) : bool :=
  match e with ETorque _ | ECCM _ => negb (c_cpn c =? 0) | _ => false end.

Definition ok_sizes (c : cfg) (e : rmenv) (r : rminfo) : bool :=
  negb (blocked_wf c) ||
  forallb (fun n =>
     pattern_ok (c_bcores c) (n_cores n) && pattern_ok (c_bgpus c) (n_gpus n)
     && (zlen (n_gpus n) =? Z.max 0 (r_gpn r + zlen (c_bgpus c)))
     && (size_from_file c e || (zlen (n_cores n) =? Z.max 0 (r_cpn r + zlen (c_bcores c)))))
    (all_nodes r).

(* 4. nodes set aside for sub-agents and services are not offered, and the
      reservations are what the layout asks for *)
Definition ok_reserved (c : cfg) (r : rminfo) : bool :=
  (List.length (r_agents r) =? count_agents (c_agents c))%nat
  && (List.length (r_services r) =? (if c_services c then 1 else 0))%nat
  && forallb (fun n => negb (memZ (n_index n) (map n_index (r_agents r ++ r_services r)))) (r_nodes r)
  && forallb (fun n => negb (memZ (n_index n) (map n_index (r_services r)))) (r_agents r).

(* 5. never empty *)
Definition ok_nonempty (r : rminfo) : bool := negb (is_nil (r_nodes r)).

(* 6. never longer than the number of nodes asked for *)
Definition ok_bound (r : rminfo) : bool := zlen (r_nodes r) <=? r_req_nodes r.

(* 7. every component sees the same list *)
Definition ok_same (r : rminfo) (second : option (err + rminfo)) : bool :=
  match second with Some (inr r2) => rminfo_eqb r2 r | _ => false end.

(* 8. With the nodes it may use (all allocated ones, or with backup nodes the
      ones answering the probe), the pilot offers/reserves exactly
      min(requested, usable) of them -- each an allocated, usable node, by index
      at most once -- and start-up fails only if fewer usable nodes exist than
      the layout needs (one per node-bound sub-agent, one for services, one to
      offer).  Evaluated on the implementation's result whatever the model's
      final answer; the allocation itself (pre_filter) is the model's. *)
Definition needed (c : cfg) : Z :=
  Z.of_nat (count_agents (c_agents c)) + (if c_services c then 1 else 0) + 1.

Definition scalars_ok (r0 : rminfo) : bool :=
  negb (r_req_cores r0 =? 0) && negb (r_cpn r0 =? 0) && (0 <? r_nparts r0).

Definition same_node (a b : node) : bool :=
  (n_index a =? n_index b) && String.eqb (n_name a) (n_name b).

Definition ok_accessible (c : cfg) (e : rmenv) (acc : list access) (first : err + rminfo) : bool :=
  match pre_filter c e with
  | inl _ => true
  | inr r0 =>
    let av := accessible (r_backup r0) acc (r_nodes r0) in
    match first with
    | inr r =>
        forallb (fun n => existsb (same_node n) av) (all_nodes r)
        && nodupZ (map n_index (all_nodes r))
        && ((r_req_nodes r <? 0) || (zlen (all_nodes r) =? Z.min (r_req_nodes r) (zlen av)))
    | inl _ =>
        negb (scalars_ok r0 && (0 <=? r_req_nodes r0)
              && (needed c <=? Z.min (r_req_nodes r0) (zlen av)))
    end
  end.

(* ------------------------------------------------------------------ row *)
Definition c18_row (c : cfg) (e : rmenv) (acc : list access)
  (first : err + rminfo) (second : option (err + rminfo)) (glue clean : bool) : list bool :=
  let expected2 := match first with
                   | inr r => Some (rm_from_registry (as_dict r))
                   | inl _ => None end in
  (result_eqb (rm_construct c e acc) first && eqb_option result_eqb expected2 second && glue) ::
  match first with
  | inl _ => [true; true; true; true; true; true; true]
  | inr r => [ ok_names e r; ok_indices r; ok_sizes c e r; ok_reserved c r;
               ok_nonempty r; (r_req_nodes r <? 0) || ok_bound r; ok_same r second ]
  end ++ [ok_accessible c e acc first; clean; true].

(* library behaviour taken as an input by the model: the names ru.get_hostlist
   returns for a hostlist text vs the batch system's reading of that text *)
Definition c18_hostlist_row (expected observed : list string) : list bool :=
  [true; true; true; true; true; true; true; true; true; true; eqb_list String.eqb expected observed].

(* several initialisations in one process: every step is judged on its own
   configuration and environment-as-given; a clause holds for the sequence
   iff it holds for every step *)
Fixpoint and_row (a b : list bool) : list bool :=
  match a, b with
  | x :: a', y :: b' => (x && y) :: and_row a' b'
  | _, _ => []
  end.

Fixpoint and_rows (rows : list (list bool)) : list bool :=
  match rows with
  | [] => []
  | [r] => r
  | r :: t => and_row r (and_rows t)
  end.
