(* NodeList -- proofs about the model of the resource-manager initialisation. *)
From Coq Require Import ZArith List Bool String Ascii Lia Permutation.
From RP Require Import Common.Eqb NodeList.Model NodeList.Oracle.
Import ListNotations.
Open Scope Z_scope.

(* ================================================== generic list facts *)

Inductive subl {A} : list A -> list A -> Prop :=
| subl_nil  : subl [] []
| subl_skip : forall x l1 l2, subl l1 l2 -> subl l1 (x :: l2)
| subl_keep : forall x l1 l2, subl l1 l2 -> subl (x :: l1) (x :: l2).

Lemma subl_refl {A} (l : list A) : subl l l.
Proof. induction l; constructor; assumption. Qed.

Lemma subl_nil_l {A} (l : list A) : subl [] l.
Proof. induction l; constructor; assumption. Qed.

Lemma subl_In {A} (l1 l2 : list A) : subl l1 l2 -> forall x, In x l1 -> In x l2.
Proof.
  induction 1 as [|y l1 l2 Hs IH|y l1 l2 Hs IH]; intros z Hz.
  - assumption.
  - right; apply IH; assumption.
  - destruct Hz as [->|Hz]; [left; reflexivity | right; apply IH; assumption].
Qed.

Lemma subl_NoDup {A} (l1 l2 : list A) : subl l1 l2 -> NoDup l2 -> NoDup l1.
Proof.
  induction 1 as [|y l1 l2 Hs IH|y l1 l2 Hs IH]; intros Hnd.
  - constructor.
  - inversion Hnd; subst; apply IH; assumption.
  - inversion Hnd as [|? ? Hni Hnd']; subst. constructor.
    + intro Hin; apply Hni; eapply subl_In; eassumption.
    + apply IH; assumption.
Qed.

Lemma subl_map {A B} (f : A -> B) (l1 l2 : list A) : subl l1 l2 -> subl (map f l1) (map f l2).
Proof. induction 1; simpl; constructor; assumption. Qed.

Lemma subl_trans {A} (l1 l2 l3 : list A) : subl l1 l2 -> subl l2 l3 -> subl l1 l3.
Proof.
  intros H12 H23; revert l1 H12.
  induction H23 as [|y l2 l3 Hs IH|y l2 l3 Hs IH]; intros l1 H12.
  - assumption.
  - constructor; apply IH; assumption.
  - inversion H12; subst.
    + constructor; apply IH; assumption.
    + apply subl_keep; apply IH; assumption.
Qed.

Lemma subl_firstn {A} (k : nat) (l : list A) : subl (firstn k l) l.
Proof.
  revert k; induction l as [|x l IH]; intros [|k]; simpl.
  - constructor.
  - constructor.
  - apply subl_nil_l.
  - apply subl_keep. apply IH.
Qed.

Lemma subl_filter {A} (f : A -> bool) (l : list A) : subl (filter f l) l.
Proof. induction l as [|x l IH]; simpl; [constructor|]. destruct (f x); constructor; assumption. Qed.

Lemma subl_app_l {A} (l1 l2 : list A) : subl l1 (l1 ++ l2).
Proof. induction l1; simpl; [apply subl_nil_l | constructor; assumption]. Qed.

Lemma subl_length {A} (l1 l2 : list A) : subl l1 l2 -> (List.length l1 <= List.length l2)%nat.
Proof. induction 1; simpl; lia. Qed.

(* ------------------------------------------------ boolean reflections *)
Lemma memZ_In x l : memZ x l = true <-> In x l.
Proof.
  induction l as [|y l IH]; simpl; [split; [discriminate | tauto]|].
  rewrite orb_true_iff, IH, Z.eqb_eq. split; intros [H|H]; auto.
Qed.

Lemma memS_In x l : memS x l = true <-> In x l.
Proof.
  induction l as [|y l IH]; simpl; [split; [discriminate | tauto]|].
  rewrite orb_true_iff, IH, String.eqb_eq. split; intros [H|H]; auto.
Qed.

Lemma nodupZ_NoDup l : nodupZ l = true <-> NoDup l.
Proof.
  induction l as [|x l IH]; simpl.
  - split; [constructor | reflexivity].
  - rewrite andb_true_iff, negb_true_iff, IH. split.
    + intros [Hm Hn]. constructor; [|assumption].
      intro Hin. apply memZ_In in Hin. congruence.
    + intro H; inversion H as [|? ? Hni Hnd]; subst. split; [|assumption].
      destruct (memZ x l) eqn:E; [|reflexivity]. apply memZ_In in E. contradiction.
Qed.

Lemma nodupS_NoDup l : nodupS l = true <-> NoDup l.
Proof.
  induction l as [|x l IH]; simpl.
  - split; [constructor | reflexivity].
  - rewrite andb_true_iff, negb_true_iff, IH. split.
    + intros [Hm Hn]. constructor; [|assumption].
      intro Hin. apply memS_In in Hin. congruence.
    + intro H; inversion H as [|? ? Hni Hnd]; subst. split; [|assumption].
      destruct (memS x l) eqn:E; [|reflexivity]. apply memS_In in E. contradiction.
Qed.

(* --------------------------------------------------------- enum_from *)
Lemma enum_from_snd {A} (l : list A) i : map snd (enum_from i l) = l.
Proof. revert i; induction l as [|x l IH]; intro i; simpl; [reflexivity | rewrite IH; reflexivity]. Qed.

Lemma enum_from_ge {A} (l : list A) i j : In j (map fst (enum_from i l)) -> i <= j.
Proof.
  revert i; induction l as [|x l IH]; intros i H; simpl in H; [contradiction|].
  destruct H as [<-|H]; [lia|]. apply IH in H. lia.
Qed.

Lemma enum_from_NoDup {A} (l : list A) i : NoDup (map fst (enum_from i l)).
Proof.
  revert i; induction l as [|x l IH]; intro i; simpl; constructor.
  - intro H. apply enum_from_ge in H. lia.
  - apply IH.
Qed.

Lemma enum_forallb {A} (f : Z * A -> bool) (l : list A) i :
  forallb f (enum_from i l) = true <->
  (forall k x, nth_error l k = Some x -> f (i + Z.of_nat k, x) = true).
Proof.
  revert i; induction l as [|y l IH]; intro i; simpl.
  - split; [intros _ [|k] x H; discriminate | reflexivity].
  - rewrite andb_true_iff, IH. split.
    + intros [H0 Hr] [|k] x Hk; simpl in Hk.
      * injection Hk as <-. replace (i + Z.of_nat 0) with i by lia. assumption.
      * replace (i + Z.of_nat (S k)) with (i + 1 + Z.of_nat k) by lia. apply Hr; assumption.
    + intro H. split.
      * specialize (H 0%nat y eq_refl). replace (i + Z.of_nat 0) with i in H by lia. assumption.
      * intros k x Hk. specialize (H (S k) x Hk).
        replace (i + Z.of_nat (S k)) with (i + 1 + Z.of_nat k) in H by lia. assumption.
Qed.

(* ============================================== node names of a stage *)

Lemma count_add_keys n d :
  map fst (count_add n d) = if memS n (map fst d) then map fst d else map fst d ++ [n].
Proof.
  induction d as [|[m c] d IH]; simpl; [reflexivity|].
  destruct (String.eqb n m) eqn:E; simpl; [reflexivity|].
  rewrite IH. destruct (memS n (map fst d)); reflexivity.
Qed.

Lemma count_add_NoDup n d : NoDup (map fst d) -> NoDup (map fst (count_add n d)).
Proof.
  intro H. rewrite count_add_keys. destruct (memS n (map fst d)) eqn:E; [assumption|].
  apply NoDup_rev in H. rewrite <- (rev_involutive (map fst d ++ [n])). apply NoDup_rev.
  rewrite rev_app_distr. simpl. constructor; [|assumption].
  intro Hin. apply in_rev in Hin. apply memS_In in Hin. congruence.
Qed.

Lemma count_add_incl n d x : In x (map fst (count_add n d)) -> x = n \/ In x (map fst d).
Proof.
  rewrite count_add_keys. destruct (memS n (map fst d)); [auto|].
  intro H. apply in_app_or in H as [H|[H|[]]]; auto.
Qed.

Lemma count_lines_gen ls d :
  NoDup (map fst d) ->
  NoDup (map fst (fold_left (fun d n => count_add n d) ls d)) /\
  (forall x, In x (map fst (fold_left (fun d n => count_add n d) ls d)) -> In x ls \/ In x (map fst d)).
Proof.
  revert d; induction ls as [|n ls IH]; intros d Hd; simpl.
  - split; [assumption | auto].
  - destruct (IH (count_add n d) (count_add_NoDup n d Hd)) as [H1 H2]. split; [assumption|].
    intros x Hx. apply H2 in Hx as [Hx|Hx]; [auto|].
    apply count_add_incl in Hx as [->|Hx]; auto.
Qed.

Lemma count_lines_ok ls :
  NoDup (map fst (count_lines ls)) /\ incl (map fst (count_lines ls)) ls.
Proof.
  destruct (count_lines_gen ls [] (NoDup_nil _)) as [H1 H2]. split; [assumption|].
  intros x Hx. apply H2 in Hx as [Hx|[]]. assumption.
Qed.

Lemma map_fst_retag {A B C} (g : A * B -> C) (l : list (A * B)) :
  map fst (map (fun p => (fst p, g p)) l) = map fst l.
Proof. rewrite map_map. apply map_ext. reflexivity. Qed.

Lemma parse_nodefile_keys nf cpn smt :
  NoDup (map fst (parse_nodefile nf cpn smt)) /\
  incl (map fst (parse_nodefile nf cpn smt)) (nf_lines nf).
Proof.
  unfold parse_nodefile. destruct nf as [| |ls]; simpl; try (split; [constructor | intros x []]).
  destruct (existsb has_space ls); [split; [constructor | intros x []]|].
  destruct (count_lines_ok ls) as [H1 H2].
  rewrite (map_fst_retag (fun p => snd p * _)).
  destruct (cpn =? 0); [|rewrite (map_fst_retag (fun _ => cpn))]; split; assumption.
Qed.

(* every node of a file parsed with a size override has that size *)
Lemma parse_nodefile_uniform nf cpn smt p :
  cpn <> 0 -> In p (parse_nodefile nf cpn smt) ->
  snd p = cpn * (if smt =? 0 then 1 else smt).
Proof.
  intros Hc. unfold parse_nodefile. destruct nf as [| |ls]; simpl; try contradiction.
  destruct (existsb has_space ls); [contradiction|].
  destruct (cpn =? 0) eqn:E; [apply Z.eqb_eq in E; contradiction|].
  intro Hin. apply in_map_iff in Hin as [q [<- Hq]]. simpl.
  apply in_map_iff in Hq as [q' [<- _]]. reflexivity.
Qed.

Lemma get_cpn_uniform nodes c p :
  get_cores_per_node nodes = inr c -> In p nodes -> snd p = c.
Proof.
  destruct nodes as [|[n0 c0] rest]; simpl; [discriminate|].
  destruct (forallb (fun p => snd p =? c0) rest) eqn:E; [|discriminate].
  intros H; injection H as <-. intros [<-|Hin]; [reflexivity|].
  rewrite forallb_forall in E. apply E in Hin. apply Z.eqb_eq in Hin. assumption.
Qed.

(* sorted(set(..)) *)
Lemma ins_sorted_perm x l : Permutation (ins_sorted x l) (x :: l).
Proof.
  induction l as [|y l IH]; simpl; [apply Permutation_refl|].
  destruct (String.ltb y x); [|apply Permutation_refl].
  eapply Permutation_trans; [apply perm_skip; exact IH | apply perm_swap].
Qed.

Lemma sort_perm l : Permutation (fold_right ins_sorted [] l) l.
Proof.
  induction l as [|x l IH]; simpl; [constructor|].
  eapply Permutation_trans; [apply ins_sorted_perm | apply perm_skip; exact IH].
Qed.

Lemma sorted_set_ok l : NoDup (sorted_set l) /\ incl (sorted_set l) l.
Proof.
  unfold sorted_set. split.
  - eapply Permutation_NoDup; [apply Permutation_sym, sort_perm | apply NoDup_nodup].
  - intros x Hx. eapply Permutation_in in Hx; [|apply sort_perm].
    apply nodup_In in Hx. assumption.
Qed.

Lemma map_fst_pair {A B} (b : B) (l : list A) : map fst (map (fun n => (n, b)) l) = l.
Proof. rewrite map_map. simpl. apply map_id. Qed.

Lemma latest_In best fs : In (latest best fs) (best :: fs).
Proof.
  revert best; induction fs as [|f t IH]; intro best; simpl; [left; reflexivity|].
  destruct (snd (fst best) <? snd (fst f)).
  - destruct (IH f) as [H|H]; [right; left; exact H | right; right; exact H].
  - destruct (IH best) as [H|H]; [left; exact H | right; right; exact H].
Qed.

(* ---- names: each RM's node tuples name every node once, and only nodes the
   environment mentions *)
Definition names_ok (st : stage) (allowed : list string) : Prop :=
  NoDup (map fst (s_nodes st)) /\ incl (map fst (s_nodes st)) allowed.

Lemma torque_init_names nf cpn gpn rn st :
  torque_init nf cpn gpn rn = inr st -> names_ok st (nf_lines nf).
Proof.
  unfold torque_init, names_ok. intro H.
  assert (Hk := parse_nodefile_keys nf 0 1).
  destruct nf as [| |ls]; [discriminate| |].
  - destruct (cpn =? 0).
    + destruct (get_cores_per_node _); [discriminate|]. injection H as <-. exact Hk.
    + injection H as <-. exact Hk.
  - destruct (cpn =? 0).
    + destruct (get_cores_per_node _); [discriminate|]. injection H as <-. exact Hk.
    + injection H as <-. exact Hk.
Qed.

Lemma rm_init_names c e st :
  rm_init c e = inr st -> is_fork e = false -> input_distinct e = true ->
  names_ok st (env_names e).
Proof.
  intros H Hf Hd. destruct e as [nl jnl cpus gon jg sg ord|jobid q nf|nf|det|nf pn|nf|files];
    simpl in H, Hd |- *; try discriminate.
  - (* Slurm *)
    unfold slurm_init in H. destruct (first_some nl jnl) as [names|]; [|discriminate].
    destruct (if c_cpn c =? 0 then _ else _) as [er|cpn']; [discriminate|].
    injection H as <-. unfold names_ok; simpl. rewrite map_fst_pair.
    split; [apply nodupS_NoDup; assumption | apply incl_refl].
  - (* PBSPro *)
    unfold pbspro_init in H.
    assert (Hfb : forall cpn, match nf with
                   | NFUnset => inl RuntimeError
                   | _ => if cpn =? 0 then inl RuntimeError
                          else inr (mkStage cpn (c_gpn c) (c_nodes c) (parse_nodefile nf cpn 1))
                   end = inr st -> names_ok st (env_names (EPBSPro jobid q nf))).
    { intros cpn Hx. destruct (parse_nodefile_keys nf cpn 1) as [K1 K2].
      destruct nf as [| |ls]; [discriminate| |]; (destruct (cpn =? 0); [discriminate|]);
        injection Hx as <-; split; simpl; try assumption; apply incl_appr; assumption. }
    destruct (pbs_vnodes jobid q) as [[er sw]|[vnodes ncpus]] eqn:Ev.
    + destruct sw; [apply Hfb in H; exact H | discriminate].
    + destruct vnodes as [|v vs]; [apply Hfb in H; exact H|].
      injection H as <-. unfold names_ok; cbn [s_nodes]. change ((v, ncpus) :: map (fun n : string => (n, ncpus)) vs) with (map (fun n : string => (n, ncpus)) (v :: vs)). rewrite map_fst_pair.
      unfold pbs_vnodes in Ev. destruct (negb jobid); [discriminate|].
      destruct q as [| |chunks]; try discriminate.
      destruct (existsb _ _); [discriminate|].
      destruct (map (fun s => snd (fst s)) (List.concat chunks)) as [|c0 rest]; [discriminate|].
      destruct (forallb _ rest); [|discriminate]. injection Ev as Ev _.
      destruct (sorted_set_ok (map (fun s => fst (fst s)) (List.concat chunks))) as [S1 S2].
      rewrite Ev in S1, S2. split; [assumption|]. simpl. apply incl_appl. assumption.
  - (* LSF *)
    unfold lsf_init in H.
    destruct (parse_nodefile_keys nf 0 (threads_per_core c)) as [K1 K2].
    set (flt := filter _ (parse_nodefile nf 0 (threads_per_core c))) in H.
    assert (Hs : subl (map fst flt) (map fst (parse_nodefile nf 0 (threads_per_core c))))
      by (apply subl_map, subl_filter).
    assert (Hok : NoDup (map fst flt) /\ incl (map fst flt) (nf_lines nf)).
    { split; [eapply subl_NoDup; eassumption|].
      intros x Hx. apply K2. eapply subl_In; eassumption. }
    destruct nf as [| |ls]; [discriminate| |];
      (destruct (get_cores_per_node flt) as [er|c0]; [discriminate|]);
      (destruct (c_cpn c =? 0); [injection H as <-; exact Hok|]);
      (destruct (c_cpn c =? c0); [injection H as <-; exact Hok | discriminate]).
  - (* Cobalt *)
    unfold cobalt_init in H. destruct (c_cpn c =? 0); [discriminate|].
    destruct (parse_nodefile_keys nf (c_cpn c) 1) as [K1 K2].
    destruct nf as [| |ls].
    + destruct pn as [names|]; [|discriminate]. injection H as <-.
      unfold names_ok; simpl. rewrite map_fst_pair.
      split; [apply nodupS_NoDup; assumption | apply incl_refl].
    + injection H as <-. split; simpl; [assumption | intros x Hx; apply K2 in Hx; destruct Hx].
    + injection H as <-. split; simpl; [assumption | apply incl_appl; assumption].
  - (* Torque *)
    apply torque_init_names in H. exact H.
  - (* CCM *)
    unfold ccm_init in H.
    destruct (filter _ files) as [|f t] eqn:Ef; [discriminate|].
    apply torque_init_names in H. destruct H as [H1 H2]. split; [assumption|].
    intros x Hx. apply H2 in Hx. simpl in Hx.
    assert (Hl : In (latest f t) files).
    { assert (Hin := latest_In f t). rewrite <- Ef in Hin.
      apply filter_In in Hin. tauto. }
    apply in_concat. exists (snd (latest f t)). split; [|assumption].
    apply in_map_iff. exists (latest f t). split; [reflexivity | assumption].
Qed.

(* LSF: no login / batch pseudo node survives *)
Lemma lsf_no_pseudo c nf st n :
  rm_init c (ELSF nf) = inr st -> In n (map fst (s_nodes st)) ->
  contains "login" n = false /\ contains "batch" n = false.
Proof.
  simpl. unfold lsf_init. intros H Hin.
  set (flt := filter _ (parse_nodefile nf 0 (threads_per_core c))) in H.
  assert (Hn : s_nodes st = flt).
  { destruct nf as [| |ls]; [discriminate| |];
      (destruct (get_cores_per_node flt) as [er|c0]; [discriminate|]);
      (destruct (c_cpn c =? 0); [injection H as <-; reflexivity|]);
      (destruct (c_cpn c =? c0); [injection H as <-; reflexivity | discriminate]). }
  rewrite Hn in Hin. apply in_map_iff in Hin as [p [<- Hp]].
  apply filter_In in Hp as [_ Hp].
  apply andb_true_iff in Hp as [Hp _]. apply andb_true_iff in Hp as [H1 H2].
  apply negb_true_iff in H1. apply negb_true_iff in H2. split; assumption.
Qed.

(* ====================================== _get_node_list and blocking *)
Lemma get_node_list_names nodes gpn lfs mem :
  map n_name (get_node_list nodes gpn lfs mem) = map fst nodes.
Proof.
  unfold get_node_list. rewrite map_map. cbn [n_name].
  rewrite <- (enum_from_snd nodes 0) at 2. rewrite map_map. reflexivity.
Qed.

Lemma get_node_list_indices nodes gpn lfs mem :
  NoDup (map n_index (get_node_list nodes gpn lfs mem)).
Proof.
  unfold get_node_list. rewrite map_map. cbn [n_index]. apply enum_from_NoDup.
Qed.

Lemma block_node_same bc bg n n' :
  block_node bc bg n = inr n' -> n_name n' = n_name n /\ n_index n' = n_index n.
Proof.
  unfold block_node. destruct (block_all bc (n_cores n)); [discriminate|].
  destruct (block_all bg (n_gpus n)); [discriminate|]. intro H; injection H as <-. split; reflexivity.
Qed.

Lemma block_nodes_maps bc bg l l' :
  block_nodes bc bg l = inr l' ->
  map n_name l' = map n_name l /\ map n_index l' = map n_index l.
Proof.
  revert l'; induction l as [|n t IH]; intros l' H; simpl in H.
  - injection H as <-. split; reflexivity.
  - destruct (block_node bc bg n) as [|n'] eqn:En; [discriminate|].
    destruct (block_nodes bc bg t) as [|t']; [discriminate|]. injection H as <-.
    destruct (IH t' eq_refl) as [I1 I2]. apply block_node_same in En as [E1 E2].
    simpl. rewrite I1, I2, E1, E2. split; reflexivity.
Qed.

(* ============================================== _filter_nodes *)
Lemma subl_probe acc k l : subl (probe acc k l) l.
Proof.
  revert k; induction l as [|n t IH]; intro k; simpl; [constructor|].
  destruct (nth k acc AccOk); constructor; apply IH.
Qed.

Lemma pop_n_spec k : forall nl res nl' res',
  pop_n k nl res = Some (nl', res') ->
  exists p, res' = res ++ p /\ nl = nl' ++ rev p /\ List.length p = k.
Proof.
  induction k as [|k IH]; intros nl res nl' res' H; simpl in H.
  - injection H as <- <-. exists []. rewrite !app_nil_r. repeat split; reflexivity.
  - destruct nl as [|x t] eqn:En; [discriminate|]. rewrite <- En in *.
    assert (Hne : nl <> []) by (rewrite En; discriminate).
    apply IH in H as [p [H1 [H2 H3]]].
    exists (last nl (mkNode "" 0 [] [] 0 0) :: p). repeat split.
    + rewrite H1, <- app_assoc. reflexivity.
    + rewrite (app_removelast_last (mkNode "" 0 [] [] 0 0) Hne) at 1.
      rewrite H2. simpl. rewrite <- app_assoc. reflexivity.
    + simpl. rewrite H3. reflexivity.
Qed.

Lemma py_to_subl {A} k (l : list A) : subl (py_to k l) l.
Proof. unfold py_to. destruct (k <? 0); apply subl_firstn. Qed.

Lemma zlen_firstn_le {A} k (l : list A) : 0 <= k -> zlen (firstn (Z.to_nat k) l) <= k.
Proof. intro H. unfold zlen. rewrite firstn_length. lia. Qed.

Record filtered (c : cfg) (acc : list access) (r0 r : rminfo) (L : list node) : Prop := {
  f_sub      : subl L (r_nodes r0);
  f_acc      : subl L (accessible (r_backup r0) acc (r_nodes r0));
  f_len      : 0 <= r_req_nodes r0 ->
               zlen L = Z.min (r_req_nodes r0) (zlen (accessible (r_backup r0) acc (r_nodes r0)));
  f_split    : L = r_nodes r ++ rev (r_services r) ++ rev (r_agents r);
  f_agents   : List.length (r_agents r) = count_agents (c_agents c);
  f_services : List.length (r_services r) = (if c_services c then 1 else 0)%nat;
  f_nonempty : r_nodes r <> [];
  f_bound    : 0 <= r_req_nodes r0 -> zlen L <= r_req_nodes r0;
  f_rn       : r_req_nodes r = r_req_nodes r0;
  f_rc       : r_req_cores r = r_req_cores r0;
  f_np       : r_nparts r = r_nparts r0;
  f_cpn      : r_cpn r = r_cpn r0;
  f_gpn      : r_gpn r = r_gpn r0 }.

Lemma accessible_subl backup acc nl : subl (accessible backup acc nl) nl.
Proof. unfold accessible. destruct (backup =? 0); [apply subl_refl | apply subl_probe]. Qed.

Lemma filter_stage1 acc r0 nl :
  (if r_backup r0 =? 0 then inr (r_nodes r0)
   else match probe acc 0 (r_nodes r0) with
        | [] => inl RuntimeError
        | ok => inr ok
        end) = inr nl ->
  nl = accessible (r_backup r0) acc (r_nodes r0).
Proof.
  unfold accessible. destruct (r_backup r0 =? 0).
  - intro H; injection H as <-. reflexivity.
  - destruct (probe acc 0 (r_nodes r0)); [discriminate|]. intro H; injection H as <-. reflexivity.
Qed.

Lemma truncated_len {A} rn (nl : list A) :
  0 <= rn -> zlen (if rn <? zlen nl then py_to rn nl else nl) = Z.min rn (zlen nl).
Proof.
  intro Hrn. destruct (rn <? zlen nl) eqn:E.
  - apply Z.ltb_lt in E. unfold py_to. destruct (rn <? 0) eqn:E0; [apply Z.ltb_lt in E0; lia|].
    unfold zlen in *. rewrite firstn_length. lia.
  - apply Z.ltb_ge in E. lia.
Qed.

Lemma filter_nodes_spec c acc r0 r :
  filter_nodes c acc r0 = inr r -> exists L, filtered c acc r0 r L.
Proof.
  unfold filter_nodes. intro H.
  destruct (if r_backup r0 =? 0 then _ else _) as [er|nl] eqn:Enl; [discriminate|].
  apply filter_stage1 in Enl.
  assert (Hnl : subl nl (r_nodes r0)) by (rewrite Enl; apply accessible_subl).
  set (rn := r_req_nodes r0) in *.
  set (nl1 := if rn <? zlen nl then py_to rn nl else nl) in *.
  destruct (pop_n (count_agents (c_agents c)) nl1 []) as [[nl2 agents]|] eqn:Ea; [|discriminate].
  destruct (pop_n (if c_services c then 1%nat else 0%nat) nl2 []) as [[nl3 services]|] eqn:Es; [|discriminate].
  destruct (is_nil nl3) eqn:Enil; [discriminate|]. injection H as <-.
  apply pop_n_spec in Ea as [pa [Ha1 [Ha2 Ha3]]]. apply pop_n_spec in Es as [ps [Hs1 [Hs2 Hs3]]].
  simpl in Ha1, Hs1. subst agents services.
  assert (Hs1 : subl nl1 nl)
    by (unfold nl1; destruct (rn <? zlen nl); [apply py_to_subl | apply subl_refl]).
  exists nl1. constructor; cbn [r_nodes r_agents r_services r_req_nodes r_req_cores r_nparts r_cpn r_gpn]; try reflexivity.
  - eapply subl_trans; [exact Hs1 | exact Hnl].
  - rewrite <- Enl. exact Hs1.
  - intro Hrn. rewrite <- Enl. apply truncated_len. assumption.
  - rewrite Ha2, Hs2, <- app_assoc. reflexivity.
  - assumption.
  - assumption.
  - destruct nl3; [discriminate | discriminate].
  - intro Hrn. unfold nl1. rewrite (truncated_len rn nl Hrn). lia.
Qed.

(* _filter_nodes succeeds whenever enough usable nodes exist *)
Lemma pop_n_enough k : forall nl res, (k <= List.length nl)%nat ->
  exists nl' res', pop_n k nl res = Some (nl', res') /\ List.length nl' = (List.length nl - k)%nat.
Proof.
  induction k as [|k IH]; intros nl res Hk; simpl.
  - exists nl, res. split; [reflexivity | lia].
  - destruct nl as [|x t] eqn:En; [simpl in Hk; lia|]. rewrite <- En in *.
    assert (Hl : List.length (removelast nl) = (List.length nl - 1)%nat).
    { assert (Hne : nl <> []) by (rewrite En; discriminate).
      rewrite (app_removelast_last x Hne) at 2. rewrite app_length. simpl. lia. }
    destruct (IH (removelast nl) (res ++ [last nl (mkNode "" 0 [] [] 0 0)])) as [nl' [res' [H1 H2]]]; [lia|].
    exists nl', res'. split; [assumption | lia].
Qed.

Lemma filter_nodes_enough c acc r0 :
  0 <= r_req_nodes r0 ->
  needed c <= Z.min (r_req_nodes r0) (zlen (accessible (r_backup r0) acc (r_nodes r0))) ->
  exists r, filter_nodes c acc r0 = inr r.
Proof.
  intros Hrn Hen. unfold needed in Hen.
  set (av := accessible (r_backup r0) acc (r_nodes r0)) in *.
  assert (Hsv : 0 <= (if c_services c then 1 else 0)) by (destruct (c_services c); lia).
  assert (Hav : 1 <= zlen av) by lia.
  unfold filter_nodes.
  assert (E1 : (if r_backup r0 =? 0 then inr (r_nodes r0)
                else match probe acc 0 (r_nodes r0) with
                     | [] => inl RuntimeError | ok => inr ok end) = inr av).
  { unfold av, accessible in *. destruct (r_backup r0 =? 0); [reflexivity|].
    destruct (probe acc 0 (r_nodes r0)); [unfold zlen in Hav; simpl in Hav; lia | reflexivity]. }
  rewrite E1.
  set (rn := r_req_nodes r0) in *.
  pose proof (truncated_len rn av Hrn) as Hl.
  set (nl1 := if rn <? zlen av then py_to rn av else av) in *.
  set (na := count_agents (c_agents c)) in *.
  set (ns := if c_services c then 1%nat else 0%nat).
  assert (Hns : Z.of_nat ns = if c_services c then 1 else 0) by (unfold ns; destruct (c_services c); reflexivity).
  destruct (pop_n_enough na nl1 []) as [nl2 [ag [P1 L1]]]; [unfold zlen in *; lia|].
  rewrite P1.
  destruct (pop_n_enough ns nl2 []) as [nl3 [sv [P2 L2]]]; [unfold zlen in *; lia|].
  rewrite P2.
  destruct nl3 as [|x t]; [simpl in L2; unfold zlen in *; lia|].
  simpl. eexists. reflexivity.
Qed.

(* ============================================ sizes and blocked slots *)
Lemma set_nth_length {A} j (v : A) l : List.length (set_nth j v l) = List.length l.
Proof. revert j; induction l as [|x l IH]; intros [|j]; simpl; try reflexivity. rewrite IH. reflexivity. Qed.

Lemma set_nth_spec {A} j (v : A) l k :
  (j < List.length l)%nat ->
  nth_error (set_nth j v l) k = if Nat.eqb k j then Some v else nth_error l k.
Proof.
  revert j k; induction l as [|x l IH]; intros j k Hj; simpl in Hj; [lia|].
  destruct j as [|j]; destruct k as [|k]; simpl; try reflexivity.
  apply IH. lia.
Qed.

(* all slots Free except the ones listed in D, which are Down *)
Definition marked (D : list Z) (l : list slot) : Prop :=
  forall k x, nth_error l k = Some x -> x = if memZ (Z.of_nat k) D then Down else Free.

Lemma marked_repeat m : marked [] (repeat Free m).
Proof.
  intros k x H. apply nth_error_In in H. apply repeat_spec in H. simpl. assumption.
Qed.

Lemma block_all_spec idxs : forall D l l',
  (forall i, In i idxs -> 0 <= i) -> marked D l ->
  block_all idxs l = inr l' ->
  List.length l' = List.length l /\
  (forall k x, nth_error l' k = Some x ->
     x = if memZ (Z.of_nat k) idxs || memZ (Z.of_nat k) D then Down else Free).
Proof.
  induction idxs as [|i t IH]; intros D l l' Hnn Hm H; simpl in H.
  - injection H as <-. split; [reflexivity|]. intros k x Hk. simpl. apply Hm. assumption.
  - destruct (zlen l <=? i) eqn:Eg; [discriminate|]. apply Z.leb_gt in Eg.
    assert (Hi : 0 <= i) by (apply Hnn; left; reflexivity).
    unfold py_set in H. destruct (i <? 0) eqn:E0; [apply Z.ltb_lt in E0; lia|].
    destruct ((i <? 0) || (zlen l <=? i)) eqn:E1.
    { apply orb_true_iff in E1 as [E1|E1]; [congruence | apply Z.leb_le in E1; lia]. }
    assert (Hj : (Z.to_nat i < List.length l)%nat) by (unfold zlen in Eg; lia).
    assert (Hm1 : marked (i :: D) (set_nth (Z.to_nat i) Down l)).
    { intros k x Hk. rewrite (set_nth_spec _ _ _ _ Hj) in Hk. simpl.
      destruct (Nat.eqb k (Z.to_nat i)) eqn:Ek.
      - apply Nat.eqb_eq in Ek. injection Hk as <-.
        replace (Z.of_nat k =? i) with true by (symmetry; apply Z.eqb_eq; lia). reflexivity.
      - apply Nat.eqb_neq in Ek.
        replace (Z.of_nat k =? i) with false by (symmetry; apply Z.eqb_neq; lia).
        simpl. apply Hm. assumption. }
    destruct (IH (i :: D) _ l' (fun j Hj' => Hnn j (or_intror Hj')) Hm1 H) as [L1 L2].
    split; [rewrite L1; apply set_nth_length|].
    intros k x Hk. apply L2 in Hk. rewrite Hk. simpl.
    destruct (Z.of_nat k =? i); destruct (memZ (Z.of_nat k) t); destruct (memZ (Z.of_nat k) D); reflexivity.
Qed.

Lemma marked_pattern_ok bl l :
  (forall k x, nth_error l k = Some x -> x = if memZ (Z.of_nat k) bl || false then Down else Free) ->
  pattern_ok bl l = true.
Proof.
  intro H. unfold pattern_ok. apply enum_forallb. intros k x Hk. simpl.
  apply H in Hk. rewrite orb_false_r in Hk. subst x. destruct (memZ (Z.of_nat k) bl); reflexivity.
Qed.

(* what is known about one offered node: it stems from a node tuple of the
   RM, has that many core slots and gpn gpu slots, blocked ones Down *)
Definition node_sized (bc bg : list Z) (nodes : list (string * Z)) (gpn : Z) (n : node) : Prop :=
  exists p, In p nodes /\ n_name n = fst p
    /\ zlen (n_cores n) = Z.max 0 (snd p) /\ zlen (n_gpus n) = Z.max 0 gpn
    /\ pattern_ok bc (n_cores n) = true /\ pattern_ok bg (n_gpus n) = true.

Lemma zlen_repeat {A} (x : A) z : zlen (repeat x (Z.to_nat z)) = Z.max 0 z.
Proof. unfold zlen. rewrite repeat_length. lia. Qed.

Lemma block_node_sized bc bg nodes gpn lfs mem n n' :
  (forall i, In i bc -> 0 <= i) -> (forall i, In i bg -> 0 <= i) ->
  In n (get_node_list nodes gpn lfs mem) -> block_node bc bg n = inr n' ->
  node_sized bc bg nodes gpn n'.
Proof.
  intros Hc Hg Hin Hb. unfold get_node_list in Hin. apply in_map_iff in Hin as [[i p] [<- Hip]].
  assert (Hp : In p nodes).
  { rewrite <- (enum_from_snd nodes 0). apply in_map_iff. exists (i, p). split; [reflexivity | assumption]. }
  unfold block_node in Hb. cbn [n_cores n_gpus n_name n_index n_lfs n_mem fst snd] in Hb.
  destruct (block_all bc (repeat Free (Z.to_nat (snd p)))) as [|cs] eqn:Ec; [discriminate|].
  destruct (block_all bg (repeat Free (Z.to_nat gpn))) as [|gs] eqn:Eg; [discriminate|].
  injection Hb as <-.
  destruct (block_all_spec bc [] _ cs Hc (marked_repeat _) Ec) as [C1 C2].
  destruct (block_all_spec bg [] _ gs Hg (marked_repeat _) Eg) as [G1 G2].
  exists p. cbn [n_cores n_gpus n_name]. repeat split; try assumption.
  - unfold zlen. rewrite C1. apply zlen_repeat.
  - unfold zlen. rewrite G1. apply zlen_repeat.
  - apply marked_pattern_ok. exact C2.
  - apply marked_pattern_ok. exact G2.
Qed.

Lemma block_nodes_In bc bg l l' n' :
  block_nodes bc bg l = inr l' -> In n' l' -> exists n, In n l /\ block_node bc bg n = inr n'.
Proof.
  revert l'; induction l as [|n t IH]; intros l' H Hin; simpl in H.
  - injection H as <-. destruct Hin.
  - destruct (block_node bc bg n) as [|m] eqn:En; [discriminate|].
    destruct (block_nodes bc bg t) as [|t']; [discriminate|]. injection H as <-.
    destruct Hin as [<-|Hin].
    + exists n. split; [left; reflexivity | assumption].
    + destruct (IH t' eq_refl Hin) as [n0 [H1 H2]]. exists n0. split; [right; assumption | assumption].
Qed.

Lemma block_nodes_nil l : block_nodes [] [] l = inr l.
Proof.
  induction l as [|n t IH]; simpl; [reflexivity|]. rewrite IH.
  destruct n; reflexivity.
Qed.

(* ===================================== _init_from_scratch, decomposed *)
Record scratch_facts (c : cfg) (e : rmenv) (r : rminfo) (st : stage) (nl' L : list node) : Prop := {
  sf_init     : rm_init c e = inr st;
  sf_blocked  : block_nodes (c_bcores c) (c_bgpus c)
                  (get_node_list (s_nodes st) (s_gpn st) (c_lfs c) (c_mem c)) = inr nl';
  sf_sub      : subl L nl';
  sf_split    : L = r_nodes r ++ rev (r_services r) ++ rev (r_agents r);
  sf_agents   : List.length (r_agents r) = count_agents (c_agents c);
  sf_services : List.length (r_services r) = (if c_services c then 1 else 0)%nat;
  sf_nonempty : r_nodes r <> [];
  sf_bound    : 0 <= r_req_nodes r -> zlen L <= r_req_nodes r;
  sf_cpn      : r_cpn r = s_cpn st - zlen (c_bcores c);
  sf_gpn      : r_gpn r = s_gpn st - zlen (c_bgpus c);
  sf_rn       : s_req_nodes st <> 0 -> r_req_nodes r = s_req_nodes st }.

Lemma init_decompose c e acc r :
  init_from_scratch c e acc = inr r -> exists st nl' L, scratch_facts c e r st nl' L.
Proof.
  unfold init_from_scratch. intro H.
  destruct (pre_filter c e) as [er0|r0] eqn:Ep; [discriminate|]. unfold pre_filter in Ep.
  destruct (rm_init c e) as [er|st] eqn:Est; [discriminate|].
  set (nl := get_node_list (s_nodes st) (s_gpn st) (c_lfs c) (c_mem c)) in *.
  destruct (if is_nil (c_bcores c) && is_nil (c_bgpus c) then _ else _) as [er|[[cpn gpn] nl']] eqn:Eb;
    [discriminate|].
  assert (Hb : block_nodes (c_bcores c) (c_bgpus c) nl = inr nl'
               /\ cpn = s_cpn st - zlen (c_bcores c) /\ gpn = s_gpn st - zlen (c_bgpus c)).
  { destruct (is_nil (c_bcores c) && is_nil (c_bgpus c)) eqn:En.
    - apply andb_true_iff in En as [E1 E2].
      destruct (c_bcores c); [|discriminate]. destruct (c_bgpus c); [|discriminate].
      injection Eb as <- <- <-. rewrite block_nodes_nil. unfold zlen; simpl. repeat split; lia.
    - destruct (block_nodes (c_bcores c) (c_bgpus c) nl) as [|nl'']; [discriminate|].
      injection Eb as <- <- <-. repeat split; reflexivity. }
  destruct Hb as [Hb [-> ->]].
  destruct (derive_requested _ _ _ _ _) as [er|rn] eqn:Er; [discriminate|].
  destruct (zlen nl' <? rn); [discriminate|]. injection Ep as <-.
  apply filter_nodes_spec in H as [L F]. destruct F. cbn [r_nodes r_req_nodes r_cpn r_gpn] in *.
  exists st, nl', L. constructor; try assumption.
  - rewrite f_rn0. assumption.
  - intro Hne. rewrite f_rn0. unfold derive_requested in Er.
    destruct (s_req_nodes st =? 0) eqn:E0; [apply Z.eqb_eq in E0; contradiction|].
    injection Er as <-. reflexivity.
Qed.

(* the RM's node tuples all have the RM's cores_per_node, unless a node file
   with one line per slot decides next to a configured size (Torque, CCM) *)
Lemma torque_uniform nf gpn rn st p :
  torque_init nf 0 gpn rn = inr st -> In p (s_nodes st) -> snd p = s_cpn st.
Proof.
  unfold torque_init. intros H Hin.
  destruct nf as [| |ls]; [discriminate | simpl in H; discriminate |].
  change (0 =? 0) with true in H. cbv iota in H.
  destruct (get_cores_per_node (parse_nodefile (NFLines ls) 0 1)) as [|c0] eqn:Eg; [discriminate|].
  injection H as <-. cbn [s_nodes s_cpn] in *. eapply get_cpn_uniform; eassumption.
Qed.

Lemma nf_fallback_uniform nf cpn gpn rn st p :
  match nf with
  | NFUnset => inl RuntimeError
  | _ => if cpn =? 0 then inl RuntimeError
         else inr (mkStage cpn gpn rn (parse_nodefile nf cpn 1))
  end = inr st -> In p (s_nodes st) -> snd p = s_cpn st.
Proof.
  intros H Hin.
  assert (Hc : cpn <> 0 /\ st = mkStage cpn gpn rn (parse_nodefile nf cpn 1)).
  { destruct nf; [discriminate| |]; (destruct (cpn =? 0) eqn:E0; [discriminate|]);
      apply Z.eqb_neq in E0; injection H as <-; split; [assumption | reflexivity | assumption | reflexivity]. }
  destruct Hc as [Hc ->]. cbn [s_nodes s_cpn] in *.
  apply (parse_nodefile_uniform _ _ _ _ Hc) in Hin.
  change (1 =? 0) with false in Hin. cbv iota in Hin. lia.
Qed.

Lemma rm_init_uniform c e st p :
  rm_init c e = inr st -> size_from_file c e = false -> In p (s_nodes st) -> snd p = s_cpn st.
Proof.
  intros H Hs Hin. destruct e as [nl jnl cpus gon jg sg ord|jobid q nf|nf|det|nf pn|nf|files];
    unfold rm_init in H; cbv beta iota zeta in H; simpl in Hs.
  - unfold slurm_init in H. destruct (first_some nl jnl) as [names|]; [|discriminate].
    destruct (if c_cpn c =? 0 then _ else _) as [er|cpn']; [discriminate|].
    injection H as <-. simpl in *. apply in_map_iff in Hin as [n [<- _]]. reflexivity.
  - unfold pbspro_init in H.
    assert (Hfb := fun cpn => nf_fallback_uniform nf cpn (c_gpn c) (c_nodes c) st p).
    destruct (pbs_vnodes jobid q) as [[er sw]|[vnodes ncpus]].
    + destruct sw; [eapply Hfb; eassumption | discriminate].
    + destruct vnodes as [|v vs]; [eapply Hfb; eassumption|].
      injection H as <-. cbn [s_nodes s_cpn] in *.
      change ((v, ncpus) :: map (fun n : string => (n, ncpus)) vs)
        with (map (fun n : string => (n, ncpus)) (v :: vs)) in Hin.
      apply in_map_iff in Hin as [n [<- _]]. reflexivity.
  - unfold lsf_init in H.
    set (flt := filter _ (parse_nodefile nf 0 (threads_per_core c))) in H.
    assert (Hc : exists v, st = mkStage v (c_gpn c) (c_nodes c) flt /\ get_cores_per_node flt = inr v).
    { destruct nf as [| |ls]; [discriminate| |];
        (destruct (get_cores_per_node flt) as [er|c0] eqn:Eg; [discriminate|]);
        (destruct (c_cpn c =? 0); [injection H as <-; exists c0; split; reflexivity|]);
        (destruct (c_cpn c =? c0) eqn:Ec; [|discriminate]); apply Z.eqb_eq in Ec;
        injection H as <-; exists c0; rewrite Ec; split; reflexivity. }
    destruct Hc as [v [-> Hv]]. cbn [s_nodes s_cpn] in *. eapply get_cpn_uniform; eassumption.
  - unfold fork_init in H. destruct (negb _); [discriminate|].
    destruct (if c_nodes c =? 0 then _ else _) as [er|rn']; [discriminate|].
    injection H as <-. simpl in *. apply repeat_spec in Hin. subst p. reflexivity.
  - unfold cobalt_init in H. destruct (c_cpn c =? 0) eqn:E0; [discriminate|]. apply Z.eqb_neq in E0.
    pose proof (parse_nodefile_uniform nf (c_cpn c) 1 p E0) as Hu.
    change (1 =? 0) with false in Hu. cbv iota in Hu.
    destruct nf as [| |ls].
    + destruct pn as [names|]; [|discriminate]. injection H as <-. cbn [s_nodes s_cpn] in *.
      apply in_map_iff in Hin as [n [<- _]]. reflexivity.
    + injection H as <-. cbn [s_nodes s_cpn] in *. apply Hu in Hin. lia.
    + injection H as <-. cbn [s_nodes s_cpn] in *. apply Hu in Hin. lia.
  - apply negb_false_iff in Hs. apply Z.eqb_eq in Hs. rewrite Hs in H.
    eapply torque_uniform; eassumption.
  - apply negb_false_iff in Hs. apply Z.eqb_eq in Hs. rewrite Hs in H.
    unfold ccm_init in H. destruct (filter _ files) as [|f t]; [discriminate|].
    eapply torque_uniform; eassumption.
Qed.

(* ===================================================== the theorems *)
Lemma all_nodes_perm r L :
  L = r_nodes r ++ rev (r_services r) ++ rev (r_agents r) -> Permutation (all_nodes r) L.
Proof.
  intros ->. unfold all_nodes. apply Permutation_app_head.
  eapply Permutation_trans; [apply Permutation_app_comm|].
  apply Permutation_app; apply Permutation_rev.
Qed.

Lemma NoDup_app_disj {A} (l1 l2 : list A) x : NoDup (l1 ++ l2) -> In x l1 -> ~ In x l2.
Proof.
  induction l1 as [|y l1 IH]; simpl; intros Hnd Hin; [contradiction|].
  inversion Hnd as [|? ? Hni Hnd']; subst. destruct Hin as [->|Hin].
  - intro H2. apply Hni. apply in_or_app. right; assumption.
  - apply IH; assumption.
Qed.

Lemma NoDup_app_r {A} (l1 l2 : list A) : NoDup (l1 ++ l2) -> NoDup l2.
Proof. induction l1 as [|y l1 IH]; simpl; intro H; [assumption|]. inversion H; subst. apply IH; assumption. Qed.

(* all nodes an RMInfo mentions come, without repetition, from the blocked
   node list of the RM *)
Lemma all_nodes_from c e r st nl' L :
  scratch_facts c e r st nl' L ->
  forall (B : Type) (f : node -> B), NoDup (map f nl') ->
    NoDup (map f (all_nodes r)) /\ incl (map f (all_nodes r)) (map f nl').
Proof.
  intros F B f Hnd. destruct F.
  assert (Hp : Permutation (map f (all_nodes r)) (map f L))
    by (apply Permutation_map, all_nodes_perm; assumption).
  assert (Hs : subl (map f L) (map f nl')) by (apply subl_map; assumption).
  split.
  - eapply Permutation_NoDup; [apply Permutation_sym; exact Hp|]. eapply subl_NoDup; eassumption.
  - intros x Hx. eapply subl_In; [exact Hs|]. eapply Permutation_in; eassumption.
Qed.

Lemma nl'_names c e r st nl' L :
  scratch_facts c e r st nl' L -> map n_name nl' = map fst (s_nodes st).
Proof.
  intro F. destruct F. apply block_nodes_maps in sf_blocked0 as [H1 _].
  rewrite H1. apply get_node_list_names.
Qed.

Lemma nl'_indices c e r st nl' L :
  scratch_facts c e r st nl' L -> NoDup (map n_index nl').
Proof.
  intro F. destruct F. apply block_nodes_maps in sf_blocked0 as [_ H2].
  rewrite H2. apply get_node_list_indices.
Qed.

(* 1 *)
Theorem one_entry_per_node c e acc r :
  init_from_scratch c e acc = inr r -> is_fork e = false -> input_distinct e = true ->
  NoDup (map n_name (all_nodes r))
  /\ incl (map n_name (all_nodes r)) (env_names e)
  /\ (is_lsf e = true -> forall n, In n (map n_name (all_nodes r)) ->
        contains "login" n = false /\ contains "batch" n = false).
Proof.
  intros H Hf Hd. apply init_decompose in H as [st [nl' [L F]]].
  pose proof (nl'_names _ _ _ _ _ _ F) as Hn.
  pose proof (rm_init_names c e st (sf_init _ _ _ _ _ _ F) Hf Hd) as [N1 N2].
  rewrite <- Hn in N1, N2.
  destruct (all_nodes_from _ _ _ _ _ _ F _ n_name N1) as [A1 A2].
  split; [assumption|]. split.
  - intros x Hx. apply N2, A2. assumption.
  - intros Hl n Hin. destruct e; try discriminate.
    apply A2 in Hin. rewrite Hn in Hin. eapply lsf_no_pseudo; [apply (sf_init _ _ _ _ _ _ F) | assumption].
Qed.

(* 2 *)
Theorem indices_unique c e acc r :
  init_from_scratch c e acc = inr r -> NoDup (map n_index (all_nodes r)).
Proof.
  intro H. apply init_decompose in H as [st [nl' [L F]]].
  apply (all_nodes_from _ _ _ _ _ _ F _ n_index (nl'_indices _ _ _ _ _ _ F)).
Qed.

(* 3 *)
Theorem sizes_configured c e acc r n :
  init_from_scratch c e acc = inr r ->
  (forall i, In i (c_bcores c) -> 0 <= i) -> (forall i, In i (c_bgpus c) -> 0 <= i) ->
  In n (all_nodes r) ->
  pattern_ok (c_bcores c) (n_cores n) = true /\ pattern_ok (c_bgpus c) (n_gpus n) = true
  /\ zlen (n_gpus n) = Z.max 0 (r_gpn r + zlen (c_bgpus c))
  /\ (size_from_file c e = false -> zlen (n_cores n) = Z.max 0 (r_cpn r + zlen (c_bcores c))).
Proof.
  intros H Hc Hg Hin. apply init_decompose in H as [st [nl' [L F]]].
  assert (Hn : In n nl').
  { destruct F. eapply subl_In; [eassumption|].
    eapply Permutation_in; [apply all_nodes_perm; eassumption | assumption]. }
  destruct (block_nodes_In _ _ _ _ _ (sf_blocked _ _ _ _ _ _ F) Hn) as [n0 [H0 Hb]].
  destruct (block_node_sized _ _ _ _ _ _ _ _ Hc Hg H0 Hb) as [p [P1 [P2 [P3 [P4 [P5 P6]]]]]].
  rewrite (sf_cpn _ _ _ _ _ _ F), (sf_gpn _ _ _ _ _ _ F).
  repeat split; try assumption.
  - rewrite P4. f_equal. lia.
  - intro Hs. rewrite P3. rewrite (rm_init_uniform c e st p (sf_init _ _ _ _ _ _ F) Hs P1). f_equal. lia.
Qed.

(* 4 *)
Theorem agents_excluded c e acc r :
  init_from_scratch c e acc = inr r ->
  List.length (r_agents r) = count_agents (c_agents c)
  /\ List.length (r_services r) = (if c_services c then 1 else 0)%nat
  /\ (forall n, In n (r_nodes r) -> ~ In (n_index n) (map n_index (r_agents r ++ r_services r)))
  /\ (forall n, In n (r_agents r) -> ~ In (n_index n) (map n_index (r_services r))).
Proof.
  intro H. pose proof (indices_unique _ _ _ _ H) as Hnd.
  apply init_decompose in H as [st [nl' [L F]]]. destruct F.
  unfold all_nodes in Hnd. rewrite map_app in Hnd.
  repeat split; try assumption.
  - intros n Hn. eapply NoDup_app_disj; [exact Hnd | apply in_map; assumption].
  - intros n Hn. apply NoDup_app_r in Hnd. rewrite map_app in Hnd.
    eapply NoDup_app_disj; [exact Hnd | apply in_map; assumption].
Qed.

(* 5 *)
Theorem not_empty c e acc r : init_from_scratch c e acc = inr r -> r_nodes r <> [].
Proof. intro H. apply init_decompose in H as [st [nl' [L F]]]. destruct F. assumption. Qed.

(* 6 *)
Theorem not_longer_than_requested c e acc r :
  init_from_scratch c e acc = inr r -> 0 <= r_req_nodes r ->
  zlen (r_nodes r) + zlen (r_agents r) + zlen (r_services r) <= r_req_nodes r.
Proof.
  intros H Hrn. apply init_decompose in H as [st [nl' [L F]]]. destruct F.
  specialize (sf_bound0 Hrn). rewrite sf_split0 in sf_bound0. unfold zlen in *.
  rewrite !app_length, !rev_length in sf_bound0. lia.
Qed.

Theorem requested_as_configured c e acc r :
  init_from_scratch c e acc = inr r -> is_fork e = false -> c_nodes c <> 0 ->
  r_req_nodes r = c_nodes c.
Proof.
  intros H Hf Hc. apply init_decompose in H as [st [nl' [L F]]].
  assert (Hs : s_req_nodes st = c_nodes c).
  { pose proof (sf_init _ _ _ _ _ _ F) as Hi.
    destruct e as [nl jnl cpus gon jg sg ord|jobid q nf|nf|det|nf pn|nf|files]; try discriminate;
      unfold rm_init in Hi; cbv beta iota zeta in Hi.
    - unfold slurm_init in Hi. destruct (first_some nl jnl); [|discriminate].
      destruct (if c_cpn c =? 0 then _ else _); [discriminate|]. injection Hi as <-. reflexivity.
    - unfold pbspro_init in Hi.
      assert (Hfb : forall cpn, match nf with
                     | NFUnset => inl RuntimeError
                     | _ => if cpn =? 0 then inl RuntimeError
                            else inr (mkStage cpn (c_gpn c) (c_nodes c) (parse_nodefile nf cpn 1))
                     end = inr st -> s_req_nodes st = c_nodes c).
      { intros cpn Hx. destruct nf; [discriminate| |]; (destruct (cpn =? 0); [discriminate|]);
          injection Hx as <-; reflexivity. }
      destruct (pbs_vnodes jobid q) as [[er sw]|[vnodes ncpus]].
      + destruct sw; [eapply Hfb; eassumption | discriminate].
      + destruct vnodes; [eapply Hfb; eassumption|]. injection Hi as <-. reflexivity.
    - unfold lsf_init in Hi. destruct nf; [discriminate| |];
        (destruct (get_cores_per_node _); [discriminate|]);
        (destruct (c_cpn c =? 0); [injection Hi as <-; reflexivity|]);
        (destruct (c_cpn c =? _); [injection Hi as <-; reflexivity | discriminate]).
    - unfold cobalt_init in Hi. destruct (c_cpn c =? 0); [discriminate|].
      destruct nf; [destruct pn; [|discriminate]| |]; injection Hi as <-; reflexivity.
    - unfold torque_init in Hi. destruct nf; [discriminate| |];
        (destruct (c_cpn c =? 0); [destruct (get_cores_per_node _); [discriminate|]|]);
        injection Hi as <-; reflexivity.
    - unfold ccm_init in Hi. destruct (filter _ files); [discriminate|].
      unfold torque_init in Hi.
      (destruct (c_cpn c =? 0); [destruct (get_cores_per_node _); [discriminate|]|]);
        injection Hi as <-; reflexivity. }
  rewrite (sf_rn _ _ _ _ _ _ F); [assumption | rewrite Hs; assumption].
Qed.

(* _filter_nodes on ANY RMInfo (node names arbitrary, also repeated; any probe
   outcome per position): what it offers and reserves is, up to order, a
   sub-sequence of the usable nodes of exactly min(requested, usable) length *)
Theorem filter_nodes_offers c acc r0 r :
  filter_nodes c acc r0 = inr r ->
  exists L, Permutation (all_nodes r) L
    /\ subl L (accessible (r_backup r0) acc (r_nodes r0))
    /\ (0 <= r_req_nodes r0 ->
        zlen L = Z.min (r_req_nodes r0) (zlen (accessible (r_backup r0) acc (r_nodes r0)))).
Proof.
  intro H. apply filter_nodes_spec in H as [L F]. destruct F. exists L.
  split; [apply all_nodes_perm; assumption|]. split; assumption.
Qed.

(* 8: the usable nodes are offered up to the requested number, and start-up
   fails only when they do not suffice *)
Theorem offers_accessible c e acc r0 r :
  pre_filter c e = inr r0 -> init_from_scratch c e acc = inr r ->
  (forall n, In n (all_nodes r) -> In n (accessible (r_backup r0) acc (r_nodes r0)))
  /\ (0 <= r_req_nodes r ->
      zlen (all_nodes r) = Z.min (r_req_nodes r) (zlen (accessible (r_backup r0) acc (r_nodes r0)))).
Proof.
  intros Hp H. unfold init_from_scratch in H. rewrite Hp in H.
  apply filter_nodes_spec in H as [L F]. destruct F.
  pose proof (all_nodes_perm r L f_split0) as Hperm. split.
  - intros n Hn. eapply subl_In; [exact f_acc0|]. eapply Permutation_in; eassumption.
  - intro Hrn. rewrite f_rn0 in *. rewrite <- (f_len0 Hrn). unfold zlen.
    rewrite (Permutation_length Hperm). reflexivity.
Qed.

Theorem startup_fails_only_if_short c e acc r0 :
  pre_filter c e = inr r0 -> scalars_ok r0 = true -> 0 <= r_req_nodes r0 ->
  needed c <= Z.min (r_req_nodes r0) (zlen (accessible (r_backup r0) acc (r_nodes r0))) ->
  exists r, rm_construct c e acc = inr r.
Proof.
  intros Hp Hs Hrn Hen.
  destruct (filter_nodes_enough c acc r0 Hrn Hen) as [r Hr]. exists r.
  unfold rm_construct, init_from_scratch. rewrite Hp, Hr.
  apply filter_nodes_spec in Hr as [L F]. destruct F.
  unfold scalars_ok in Hs. apply andb_true_iff in Hs as [Hs H3]. apply andb_true_iff in Hs as [H1 H2].
  assert (Hn : needed c >= 1).
  { unfold needed. destruct (c_services c); lia. }
  unfold verify. rewrite f_rn0, f_rc0, f_cpn0, f_np0, H1, H2, H3.
  replace (r_req_nodes r0 =? 0) with false by (symmetry; apply Z.eqb_neq; lia).
  destruct (r_nodes r); [contradiction | reflexivity].
Qed.

(* ============================================= registry hand-over (7) *)
Lemma opt_map_slots l : opt_map value_slot (map slot_value l) = Some l.
Proof. induction l as [|s l IH]; simpl; [reflexivity|]. rewrite IH. destruct s; reflexivity. Qed.

Lemma value_node_value n : value_node (node_value n) = Some n.
Proof.
  unfold value_node, node_value. simpl. rewrite !opt_map_slots. destruct n; reflexivity.
Qed.

Lemma opt_map_nodes l : opt_map value_node (map node_value l) = Some l.
Proof.
  induction l as [|n l IH]; [reflexivity|].
  cbn [map opt_map]. rewrite value_node_value, IH. reflexivity.
Qed.

Theorem from_dict_as_dict r : from_dict (as_dict r) = Some r.
Proof.
  unfold from_dict, as_dict, get_int, get_nodes. simpl. rewrite !opt_map_nodes.
  destruct r; reflexivity.
Qed.

Theorem registry_round_trip c e acc r :
  rm_construct c e acc = inr r -> rm_from_registry (as_dict r) = inr r.
Proof.
  unfold rm_construct, rm_from_registry. intro H.
  destruct (init_from_scratch c e acc) as [|r0]; [discriminate|].
  destruct (verify r0) eqn:Ev; [|discriminate]. injection H as ->.
  rewrite from_dict_as_dict, Ev. reflexivity.
Qed.

Lemma construct_scratch c e acc r :
  rm_construct c e acc = inr r -> init_from_scratch c e acc = inr r.
Proof.
  unfold rm_construct. destruct (init_from_scratch c e acc) as [|r0]; [discriminate|].
  destruct (verify r0); [|discriminate]. intro H; injection H as ->. reflexivity.
Qed.

(* ================ the oracle clauses hold on whatever the model returns *)
Lemma eqb_list_refl {A} (f : A -> A -> bool) l : (forall x, f x x = true) -> eqb_list f l l = true.
Proof. intro H. induction l as [|x l IH]; simpl; [reflexivity|]. rewrite H, IH. reflexivity. Qed.

Lemma slot_eqb_refl s : slot_eqb s s = true.
Proof. destruct s; reflexivity. Qed.

Lemma node_eqb_refl n : node_eqb n n = true.
Proof.
  unfold node_eqb. rewrite String.eqb_refl, !Z.eqb_refl, !(eqb_list_refl _ _ slot_eqb_refl). reflexivity.
Qed.

Lemma rminfo_eqb_refl r : rminfo_eqb r r = true.
Proof.
  unfold rminfo_eqb. rewrite !Z.eqb_refl, !(eqb_list_refl _ _ node_eqb_refl). reflexivity.
Qed.

Lemma forallb_nonneg l : forallb (fun i => 0 <=? i) l = true -> forall i, In i l -> 0 <= i.
Proof. intros H i Hi. rewrite forallb_forall in H. apply H in Hi. apply Z.leb_le. assumption. Qed.

Theorem oracle_ok_names c e acc r : rm_construct c e acc = inr r -> ok_names e r = true.
Proof.
  intro H. apply construct_scratch in H. unfold ok_names.
  destruct (is_fork e) eqn:Ef; [reflexivity|]. destruct (input_distinct e) eqn:Ed; [|reflexivity].
  destruct (one_entry_per_node _ _ _ _ H Ef Ed) as [N1 [N2 N3]]. simpl.
  apply andb_true_iff; split; [apply andb_true_iff; split|].
  - apply nodupS_NoDup. assumption.
  - apply forallb_forall. intros n Hn. apply memS_In. apply N2. assumption.
  - destruct (is_lsf e) eqn:El; [|reflexivity]. simpl.
    apply forallb_forall. intros n Hn. destruct (N3 eq_refl n Hn) as [L1 L2]. rewrite L1, L2. reflexivity.
Qed.

Theorem oracle_ok_indices c e acc r : rm_construct c e acc = inr r -> ok_indices r = true.
Proof.
  intro H. apply construct_scratch in H. apply nodupZ_NoDup. eapply indices_unique; eassumption.
Qed.

Theorem oracle_ok_sizes c e acc r : rm_construct c e acc = inr r -> ok_sizes c e r = true.
Proof.
  intro H. apply construct_scratch in H. unfold ok_sizes.
  destruct (blocked_wf c) eqn:Ew; [|reflexivity]. simpl.
  unfold blocked_wf in Ew. apply andb_true_iff in Ew as [Ew Hg]. apply andb_true_iff in Ew as [_ Hc].
  apply forallb_forall. intros n Hn.
  destruct (sizes_configured _ _ _ _ n H (forallb_nonneg _ Hc) (forallb_nonneg _ Hg) Hn)
    as [S1 [S2 [S3 S4]]].
  rewrite S1, S2. simpl. apply andb_true_iff; split; [apply Z.eqb_eq; assumption|].
  destruct (size_from_file c e); [reflexivity|]. simpl. apply Z.eqb_eq. apply S4. reflexivity.
Qed.

Theorem oracle_ok_reserved c e acc r : rm_construct c e acc = inr r -> ok_reserved c r = true.
Proof.
  intro H. apply construct_scratch in H.
  destruct (agents_excluded _ _ _ _ H) as [A1 [A2 [A3 A4]]]. unfold ok_reserved.
  repeat (apply andb_true_iff; split).
  - apply Nat.eqb_eq. assumption.
  - apply Nat.eqb_eq. assumption.
  - apply forallb_forall. intros n Hn. apply negb_true_iff.
    destruct (memZ _ _) eqn:E; [|reflexivity]. apply memZ_In in E. exfalso. eapply A3; eassumption.
  - apply forallb_forall. intros n Hn. apply negb_true_iff.
    destruct (memZ _ _) eqn:E; [|reflexivity]. apply memZ_In in E. exfalso. eapply A4; eassumption.
Qed.

Theorem oracle_ok_nonempty c e acc r : rm_construct c e acc = inr r -> ok_nonempty r = true.
Proof.
  intro H. apply construct_scratch in H. apply not_empty in H. unfold ok_nonempty.
  destruct (r_nodes r); [contradiction | reflexivity].
Qed.

Theorem oracle_ok_bound c e acc r :
  rm_construct c e acc = inr r -> (r_req_nodes r <? 0) || ok_bound r = true.
Proof.
  intro H. apply construct_scratch in H. destruct (r_req_nodes r <? 0) eqn:E; [reflexivity|].
  apply Z.ltb_ge in E. simpl. unfold ok_bound. apply Z.leb_le.
  pose proof (not_longer_than_requested _ _ _ _ H E). unfold zlen in *. lia.
Qed.

Theorem oracle_ok_same c e acc r :
  rm_construct c e acc = inr r -> ok_same r (Some (rm_from_registry (as_dict r))) = true.
Proof.
  intro H. rewrite (registry_round_trip _ _ _ _ H). simpl. apply rminfo_eqb_refl.
Qed.

Lemma same_node_refl n : same_node n n = true.
Proof. unfold same_node. rewrite Z.eqb_refl, String.eqb_refl. reflexivity. Qed.

Theorem oracle_ok_accessible c e acc : ok_accessible c e acc (rm_construct c e acc) = true.
Proof.
  unfold ok_accessible. destruct (pre_filter c e) as [|r0] eqn:Ep; [reflexivity|].
  destruct (rm_construct c e acc) as [er|r] eqn:Ec.
  - apply negb_true_iff. destruct (scalars_ok r0) eqn:Es; [|reflexivity].
    destruct (0 <=? r_req_nodes r0) eqn:Er; [|reflexivity].
    destruct (needed c <=? _) eqn:En; [|reflexivity]. exfalso.
    apply Z.leb_le in Er. apply Z.leb_le in En.
    destruct (startup_fails_only_if_short c e acc r0 Ep Es Er En) as [r Hr]. congruence.
  - pose proof (construct_scratch _ _ _ _ Ec) as Hi.
    destruct (offers_accessible _ _ _ _ _ Ep Hi) as [A1 A2].
    repeat (apply andb_true_iff; split).
    + apply forallb_forall. intros n Hn. apply existsb_exists. exists n.
      split; [apply A1; assumption | apply same_node_refl].
    + apply nodupZ_NoDup. eapply indices_unique; eassumption.
    + destruct (r_req_nodes r <? 0) eqn:E; [reflexivity|]. apply Z.ltb_ge in E.
      simpl. apply Z.eqb_eq. apply A2. assumption.
Qed.

(* ================= several initialisations in one process are independent *)
Theorem seq_independent l : forall pe,
  run_seq pe l =
  map (fun ps => rm_construct (with_smt_env (fst ps) (st_cfg (snd ps))) (st_env (snd ps)) (st_acc (snd ps)))
      (combine (given_envs pe l) (map snd l)).
Proof.
  induction l as [|[u s] t IH]; intro pe; simpl; [reflexivity|].
  rewrite IH. reflexivity.
Qed.

Lemma init_in_env pe s : snd (init_in pe s) = pe.
Proof. reflexivity. Qed.

Lemma last_cons_default {A} (l : list A) : forall x d1 d2, last (x :: l) d1 = last (x :: l) d2.
Proof. induction l as [|y l IH]; intros x d1 d2; [reflexivity|]. apply (IH y). Qed.

Lemma last_cons_self {A} (x : A) l d : last (x :: l) d = last l x.
Proof. destruct l as [|y l]; [reflexivity|]. change (last (x :: y :: l) d) with (last (y :: l) d). apply last_cons_default. Qed.

(* in particular: what came before does not matter *)
Theorem seq_prefix_irrelevant l1 l2 pe1 pe2 u s :
  apply_user u (last (given_envs pe1 l1) pe1) = apply_user u (last (given_envs pe2 l2) pe2) ->
  nth (List.length l1) (run_seq pe1 (l1 ++ [(u, s)])) (inl OtherError) =
  nth (List.length l2) (run_seq pe2 (l2 ++ [(u, s)])) (inl OtherError).
Proof.
  assert (H : forall l pe, nth (List.length l) (run_seq pe (l ++ [(u, s)])) (inl OtherError)
                           = fst (init_in (apply_user u (last (given_envs pe l) pe)) s)).
  { induction l as [|[u0 s0] t IH]; intro pe; [reflexivity|].
    cbn [List.length app run_seq nth]. rewrite init_in_env, IH.
    cbn [given_envs]. rewrite last_cons_self. reflexivity. }
  intro E. rewrite !H, E. reflexivity.
Qed.
