(* NodeList -- executable model of the resource-manager initialisation of
   radical.pilot (agent/resource_manager/{base,slurm,pbspro,lsf,fork,cobalt,
   torque,ccm}.py): from a batch-system environment to the RMInfo every
   component of the pilot sees.  Definitions only; mirrors the Python code
   branch by branch, error branches included (inl <exception class>).

   Inputs that are produced by library code outside the repository are taken
   in expanded form: host names of a Slurm hostlist / Cobalt partition range
   (ru.get_hostlist and ru.get_hostlist_by_range), stripped lines of a node file, the chunks of the
   exec_vnode expression of `qstat -f`. *)
From Coq Require Import ZArith List Bool String Ascii.
Import ListNotations.
Open Scope Z_scope.

Inductive err := RuntimeError | ValueError | AssertionError | ZeroDivisionError | OtherError.

(* rpc.FREE = 0.0, rpc.BUSY = 1.0, rpc.DOWN = None *)
Inductive slot := Free | Busy | Down.

Record node := mkNode {
  n_name  : string;
  n_index : Z;
  n_cores : list slot;
  n_gpus  : list slot;
  n_lfs   : Z;
  n_mem   : Z }.

(* the modelled fields of RMInfo *)
Record rminfo := mkInfo {
  r_req_nodes : Z;
  r_req_cores : Z;
  r_req_gpus  : Z;
  r_backup    : Z;
  r_cpn       : Z;          (* cores_per_node   *)
  r_gpn       : Z;          (* gpus_per_node    *)
  r_tpc       : Z;          (* threads_per_core *)
  r_lfs       : Z;          (* lfs_per_node     *)
  r_mem       : Z;          (* mem_per_node     *)
  r_nparts    : Z;          (* n_partitions     *)
  r_nodes     : list node;  (* node_list        *)
  r_backups   : list node;  (* backup_list      *)
  r_agents    : list node;  (* agent_node_list  *)
  r_services  : list node   (* service_node_list *) }.

(* ---------------------------------------------------------------- inputs *)

(* pilot / resource configuration as read by ResourceManager._init_from_scratch
   and _filter_nodes *)
Record cfg := mkCfg {
  c_nodes    : Z;              (* cfg.nodes             *)
  c_cores    : Z;              (* cfg.cores             *)
  c_gpus     : Z;              (* cfg.gpus              *)
  c_cpn      : Z;              (* cfg.cores_per_node    *)
  c_gpn      : Z;              (* cfg.gpus_per_node     *)
  c_backup   : Z;              (* cfg.backup_nodes      *)
  c_lfs      : Z;              (* cfg.lfs_size_per_node *)
  c_mem      : Z;              (* rcfg.mem_per_node     *)
  c_nparts   : Z;              (* rcfg.n_partitions     *)
  c_smt_env  : option Z;       (* $RADICAL_SMT          *)
  c_smt_arch : option Z;       (* system_architecture.smt *)
  c_bcores   : list Z;         (* system_architecture.blocked_cores *)
  c_bgpus    : list Z;         (* system_architecture.blocked_gpus  *)
  c_agents   : list bool;      (* per configured sub-agent: target == 'node' *)
  c_services : bool;           (* ./services exists     *)
  c_fake     : bool            (* rcfg.fake_resources   *) }.

(* a node file named by an environment variable: variable unset, file not
   readable, or its lines (already stripped of surrounding white space) *)
Inductive nodefile := NFUnset | NFMissing | NFLines (ls : list string).

(* result of `qstat -f $PBS_JOBID`: non-zero exit, no exec_vnode entry, or the
   chunks of the expression (c1)+(c2)+..., each chunk a list of slices
   vnode:ncpus=N ; the flag marks a slice carrying a further resource
   (vnode:ncpus=N:ngpus=1), which the parser cannot unpack *)
Inductive qstat := QFail | QNoVnode | QVnodes (chunks : list (list (string * Z * bool))).

Inductive rmenv :=
| ESlurm  (nodelist job_nodelist : option (list string))      (* expanded *)
          (cpus_on_node gpus_on_node : option Z)
          (job_gpus step_gpus ordinal : option Z)             (* number of ids *)
| EPBSPro (jobid : bool) (q : qstat) (nf : nodefile)
| ELSF    (nf : nodefile)
| EFork   (detected : Z)
| ECobalt (nf : nodefile) (partname : option (list string))   (* expanded *)
| ETorque (nf : nodefile)
| ECCM    (files : list (string * Z * list string)).          (* name, mtime, lines *)

(* outcome of the ssh probe of _filter_nodes, per position in the node list *)
Inductive access := AccOk | AccFail | AccTimeout.

(* ------------------------------------------------------- python helpers *)

Definition zlen {A} (l : list A) : Z := Z.of_nat (List.length l).

(* l[:k] and l[k:] with Python's treatment of negative k *)
Definition py_to {A} (k : Z) (l : list A) : list A :=
  if k <? 0 then firstn (Z.to_nat (zlen l + k)) l else firstn (Z.to_nat k) l.
Definition py_from {A} (k : Z) (l : list A) : list A :=
  if k <? 0 then skipn (Z.to_nat (zlen l + k)) l else skipn (Z.to_nat k) l.

(* math.ceil(a / b), b <> 0 *)
Definition ceil_div (a b : Z) : Z := - ((- a) / b).

Fixpoint set_nth {A} (i : nat) (v : A) (l : list A) : list A :=
  match l, i with
  | [], _ => []
  | _ :: t, O => v :: t
  | x :: t, S i' => x :: set_nth i' v t
  end.

(* l[i] = v : None = IndexError *)
Definition py_set {A} (i : Z) (v : A) (l : list A) : option (list A) :=
  let j := if i <? 0 then i + zlen l else i in
  if (j <? 0) || (zlen l <=? j) then None else Some (set_nth (Z.to_nat j) v l).

Definition has_space (s : string) : bool :=
  match index 0 " " s with Some _ => true | None => false end.
Definition contains (sub s : string) : bool :=
  match index 0 sub s with Some _ => true | None => false end.

Definition first_some {A} (a b : option A) : option A :=
  match a with Some _ => a | None => b end.

Fixpoint enum_from {A} (i : Z) (l : list A) : list (Z * A) :=
  match l with [] => [] | x :: t => (i, x) :: enum_from (i + 1) t end.

(* sorted(set(names)): duplicates removed, then insertion sort on code points *)
Fixpoint ins_sorted (x : string) (l : list string) : list string :=
  match l with
  | [] => [x]
  | y :: t => if String.ltb y x then y :: ins_sorted x t else x :: y :: t
  end.
Definition sorted_set (l : list string) : list string :=
  fold_right ins_sorted [] (nodup string_dec l).

(* -------------------------------------------- ResourceManager helpers *)

(* _parse_nodefile: dict of first-occurrence-ordered line counts *)
Fixpoint count_add (n : string) (d : list (string * Z)) : list (string * Z) :=
  match d with
  | [] => [(n, 1)]
  | (m, c) :: d' => if String.eqb n m then (m, c + 1) :: d' else (m, c) :: count_add n d'
  end.

Definition count_lines (ls : list string) : list (string * Z) :=
  fold_left (fun d n => count_add n d) ls [].

Definition parse_nodefile (nf : nodefile) (cpn smt : Z) : list (string * Z) :=
  let smt := if smt =? 0 then 1 else smt in
  match nf with
  | NFLines ls =>
      if existsb has_space ls then []        (* assert inside try: -> [] *)
      else
        let d  := count_lines ls in
        let d' := if cpn =? 0 then d else map (fun p => (fst p, cpn)) d in
        map (fun p => (fst p, snd p * smt)) d'
  | _ => []                                   (* open() fails: -> [] *)
  end.

(* _get_cores_per_node *)
Definition get_cores_per_node (nodes : list (string * Z)) : err + Z :=
  match nodes with
  | [] => inl ValueError
  | (_, c) :: rest => if forallb (fun p => snd p =? c) rest then inr c else inl ValueError
  end.

(* _get_node_list *)
Definition get_node_list (nodes : list (string * Z)) (gpn lfs mem : Z) : list node :=
  map (fun ip => mkNode (fst (snd ip)) (fst ip)
                        (repeat Free (Z.to_nat (snd (snd ip))))
                        (repeat Free (Z.to_nat gpn)) lfs mem)
      (enum_from 0 nodes).

(* what an RM's init_from_scratch hands back to the base class *)
Record stage := mkStage {
  s_cpn : Z; s_gpn : Z; s_req_nodes : Z; s_nodes : list (string * Z) }.

(* ------------------------------------------------- the RM subclasses *)

Definition slurm_init (nodelist job_nodelist : option (list string))
  (cpus gpus_on_node job_gpus step_gpus ordinal : option Z) (cpn gpn rn : Z) : err + stage :=
  match first_some nodelist job_nodelist with
  | None => inl RuntimeError
  | Some names =>
    match (if cpn =? 0 then match cpus with None => inl RuntimeError | Some c => inr c end
           else inr cpn) with
    | inl e => inl e
    | inr cpn' =>
      let gpn' :=
        if gpn =? 0 then
          match gpus_on_node with
          | Some g => g
          | None => match first_some job_gpus (first_some step_gpus ordinal) with
                    | Some k => k | None => gpn end
          end
        else gpn in
      inr (mkStage cpn' gpn' rn (map (fun n => (n, cpn')) names))
    end
  end.

(* PBSPro._parse_pbspro_vnodes: inl = exception; the bool says whether
   init_from_scratch swallows it and falls back to the node file *)
Definition pbs_vnodes (jobid : bool) (q : qstat) : (err * bool) + (list string * Z) :=
  if negb jobid then inl (RuntimeError, false)                 (* '$PBS_JOBID not set' *)
  else match q with
  | QFail    => inl (RuntimeError, true)                        (* 'qstat failed: ...'  *)
  | QNoVnode => inl (OtherError, true)                          (* IndexError           *)
  | QVnodes chunks =>
      let slices := List.concat chunks in
      if existsb (fun s => snd s) slices then inl (ValueError, true)   (* unpack *)
      else
        let ncpus := map (fun s => snd (fst s)) slices in
        match ncpus with
        | [] => inl (OtherError, false)                          (* set().pop(): KeyError *)
        | c :: rest =>
            if forallb (fun x => x =? c) rest
            then inr (sorted_set (map (fun s => fst (fst s)) slices), c)
            else inl (RuntimeError, false)                       (* 'detected vnodes of different sizes' *)
        end
  end.

Definition pbspro_init (jobid : bool) (q : qstat) (nf : nodefile) (cpn gpn rn : Z) : err + stage :=
  let fallback (cpn : Z) :=
    match nf with
    | NFUnset => inl RuntimeError
    | _ => if cpn =? 0 then inl RuntimeError
           else inr (mkStage cpn gpn rn (parse_nodefile nf cpn 1))
    end in
  match pbs_vnodes jobid q with
  | inr (vnodes, ncpus) =>
      match vnodes with
      | [] => fallback ncpus
      | _  => inr (mkStage ncpus gpn rn (map (fun n => (n, ncpus)) vnodes))
      end
  | inl (e, swallowed) => if swallowed then fallback cpn else inl e
  end.

Definition lsf_init (nf : nodefile) (cpn gpn rn tpc : Z) : err + stage :=
  match nf with
  | NFUnset => inl RuntimeError
  | _ =>
    let nodes := parse_nodefile nf 0 tpc in
    let filtered := filter (fun p => negb (contains "login" (fst p))
                                  && negb (contains "batch" (fst p))
                                  && negb (tpc =? snd p)) nodes in
    match get_cores_per_node filtered with
    | inl e => inl e
    | inr c =>
        if cpn =? 0 then inr (mkStage c gpn rn filtered)
        else if cpn =? c then inr (mkStage cpn gpn rn filtered)
        else inl AssertionError
    end
  end.

Definition fork_init (detected : Z) (fake : bool) (cpn gpn rn req_cores req_gpus backup : Z) : err + stage :=
  let cpn' := if cpn =? 0 then detected else cpn in
  let sized_ok :=
    if fake then true
    else if req_cores <=? detected then
           (if detected <? cpn' then true else negb (cpn' <? req_cores))
         else false in
  if negb sized_ok then inl RuntimeError
  else
    match (if rn =? 0 then
             if cpn' =? 0 then inl ZeroDivisionError
             else let n := ceil_div req_cores cpn' in
                  if req_gpus =? 0 then inr n
                  else if gpn =? 0 then inl ZeroDivisionError
                       else inr (Z.max n (ceil_div req_gpus gpn))
           else inr rn) with
    | inl e => inl e
    | inr rn' =>
        inr (mkStage cpn' gpn rn' (repeat ("localhost"%string, cpn') (Z.to_nat (rn' + backup))))
    end.

Definition cobalt_init (nf : nodefile) (partname : option (list string)) (cpn gpn rn : Z) : err + stage :=
  if cpn =? 0 then inl RuntimeError
  else match nf with
  | NFUnset =>
      match partname with
      | Some names => inr (mkStage cpn gpn rn (map (fun n => (n, cpn)) names))
      | None => inl RuntimeError
      end
  | _ => inr (mkStage cpn gpn rn (parse_nodefile nf cpn 1))
  end.

(* Torque, and CCM once its node file is chosen *)
Definition torque_init (nf : nodefile) (cpn gpn rn : Z) : err + stage :=
  match nf with
  | NFUnset => inl RuntimeError
  | _ =>
    let nodes := parse_nodefile nf 0 1 in
    if cpn =? 0 then
      match get_cores_per_node nodes with
      | inl e => inl e
      | inr c => inr (mkStage c gpn rn nodes)
      end
    else inr (mkStage cpn gpn rn nodes)
  end.

(* max(nodefile_list, key=mtime): the first of the largest *)
Fixpoint latest (best : string * Z * list string) (fs : list (string * Z * list string)) :=
  match fs with
  | [] => best
  | f :: t => if snd (fst best) <? snd (fst f) then latest f t else latest best t
  end.

Definition ccm_init (files : list (string * Z * list string)) (cpn gpn rn : Z) : err + stage :=
  match filter (fun f => prefix "nodelist" (fst (fst f))) files with
  | [] => inl OtherError                                   (* raise Exception(...) *)
  | f :: t => torque_init (NFLines (snd (latest f t))) cpn gpn rn
  end.

Definition threads_per_core (c : cfg) : Z :=
  match c_smt_env c with
  | Some e => e
  | None => match c_smt_arch c with Some a => a | None => 1 end
  end.

Definition rm_init (c : cfg) (e : rmenv) : err + stage :=
  let cpn := c_cpn c in let gpn := c_gpn c in let rn := c_nodes c in
  match e with
  | ESlurm nl jnl cpus gon jg sg ord => slurm_init nl jnl cpus gon jg sg ord cpn gpn rn
  | EPBSPro jobid q nf => pbspro_init jobid q nf cpn gpn rn
  | ELSF nf => lsf_init nf cpn gpn rn (threads_per_core c)
  | EFork detected => fork_init detected (c_fake c) cpn gpn rn (c_cores c) (c_gpus c) (c_backup c)
  | ECobalt nf pn => cobalt_init nf pn cpn gpn rn
  | ETorque nf => torque_init nf cpn gpn rn
  | ECCM files => ccm_init files cpn gpn rn
  end.

(* ------------------------------- ResourceManager._init_from_scratch *)

(* for idx in blocked: assert len(l) > idx; l[idx] = DOWN *)
Fixpoint block_all (idxs : list Z) (l : list slot) : err + list slot :=
  match idxs with
  | [] => inr l
  | i :: t =>
      if zlen l <=? i then inl AssertionError
      else match py_set i Down l with
           | None => inl OtherError
           | Some l' => block_all t l'
           end
  end.

Definition block_node (bc bg : list Z) (n : node) : err + node :=
  match block_all bc (n_cores n) with
  | inl e => inl e
  | inr cs => match block_all bg (n_gpus n) with
              | inl e => inl e
              | inr gs => inr (mkNode (n_name n) (n_index n) cs gs (n_lfs n) (n_mem n))
              end
  end.

Fixpoint block_nodes (bc bg : list Z) (l : list node) : err + list node :=
  match l with
  | [] => inr []
  | n :: t => match block_node bc bg n with
              | inl e => inl e
              | inr n' => match block_nodes bc bg t with
                          | inl e => inl e
                          | inr t' => inr (n' :: t')
                          end
              end
  end.

Definition is_nil {A} (l : list A) : bool := match l with [] => true | _ => false end.

(* requested_nodes when the configuration does not give it *)
Definition derive_requested (rn req_cores req_gpus cpn gpn : Z) : err + Z :=
  if rn =? 0 then
    if cpn =? 0 then inl ZeroDivisionError
    else let n := ceil_div req_cores cpn in
         inr (if gpn =? 0 then n else Z.max (ceil_div req_gpus gpn) n)
  else inr rn.

(* ----------------------------------- ResourceManager._filter_nodes *)

Fixpoint probe (acc : list access) (k : nat) (l : list node) : list node :=
  match l with
  | [] => []
  | n :: t => match nth k acc AccOk with
              | AccOk => n :: probe acc (S k) t
              | _ => probe acc (S k) t
              end
  end.

(* k times: reserved.append(node_list.pop()) ; None = IndexError *)
Fixpoint pop_n (k : nat) (nl reserved : list node) : option (list node * list node) :=
  match k with
  | O => Some (nl, reserved)
  | S k' => match nl with
            | [] => None
            | _ => pop_n k' (removelast nl) (reserved ++ [last nl (mkNode "" 0 [] [] 0 0)])
            end
  end.

Definition count_agents (a : list bool) : nat := List.length (filter (fun b => b) a).

(* the nodes of the allocation that may be used: all of them, or -- when the
   pilot has backup nodes -- those answering the ssh probe *)
Definition accessible (backup : Z) (acc : list access) (nl : list node) : list node :=
  if backup =? 0 then nl else probe acc 0 nl.

Definition filter_nodes (c : cfg) (acc : list access) (r : rminfo) : err + rminfo :=
  match (if r_backup r =? 0 then inr (r_nodes r)
         else match probe acc 0 (r_nodes r) with
              | [] => inl RuntimeError
              | ok => inr ok
              end) with
  | inl e => inl e
  | inr nl =>
    let rn := r_req_nodes r in
    let nl1 := if rn <? zlen nl then py_to rn nl else nl in
    let bl  := if rn <? zlen nl then py_from rn nl1 else [] in
    let na := count_agents (c_agents c) in
    let ns := if c_services c then 1%nat else 0%nat in
    (* fresh lists: agent_node_list and service_node_list start empty *)
    match pop_n na nl1 [] with
    | None => inl OtherError
    | Some (nl2, agents) =>
      match pop_n ns nl2 [] with
      | None => inl OtherError
      | Some (nl3, services) =>
        if is_nil nl3 then inl RuntimeError
        else inr (mkInfo rn (r_req_cores r) (r_req_gpus r) (r_backup r) (r_cpn r) (r_gpn r)
                         (r_tpc r) (r_lfs r) (r_mem r) (r_nparts r) nl3 bl agents services)
      end
    end
  end.

(* _init_from_scratch up to the call of _filter_nodes: the RMInfo holding the
   whole allocation (all nodes the batch system gave, blocked slots marked) *)
Definition pre_filter (c : cfg) (e : rmenv) : err + rminfo :=
  match rm_init c e with
  | inl er => inl er
  | inr st =>
    let nl := get_node_list (s_nodes st) (s_gpn st) (c_lfs c) (c_mem c) in
    let bc := c_bcores c in let bg := c_bgpus c in
    match (if is_nil bc && is_nil bg then inr (s_cpn st, s_gpn st, nl)
           else match block_nodes bc bg nl with
                | inl er => inl er
                | inr nl' => inr (s_cpn st - zlen bc, s_gpn st - zlen bg, nl')
                end) with
    | inl er => inl er
    | inr (cpn, gpn, nl') =>
      match derive_requested (s_req_nodes st) (c_cores c) (c_gpus c) cpn gpn with
      | inl er => inl er
      | inr rn =>
        if zlen nl' <? rn then inl AssertionError
        else inr (mkInfo rn (c_cores c) (c_gpus c) (c_backup c) cpn gpn (threads_per_core c)
                         (c_lfs c) (c_mem c) (c_nparts c) nl' [] [] [])
      end
    end
  end.

Definition init_from_scratch (c : cfg) (e : rmenv) (acc : list access) : err + rminfo :=
  match pre_filter c e with
  | inl er => inl er
  | inr r0 => filter_nodes c acc r0
  end.

(* RMInfo._verify (the asserts that can fail on the modelled fields) *)
Definition verify (r : rminfo) : bool :=
  negb (r_req_nodes r =? 0) && negb (r_req_cores r =? 0) && negb (is_nil (r_nodes r))
  && negb (r_cpn r =? 0) && (0 <? r_nparts r).

(* ResourceManager.__init__, registry empty: what the first component gets
   and puts into the registry *)
Definition rm_construct (c : cfg) (e : rmenv) (acc : list access) : err + rminfo :=
  match init_from_scratch c e acc with
  | inl er => inl er
  | inr r => if verify r then inr r else inl AssertionError
  end.

(* ------------------------------------------- registry hand-over *)

(* the registry value: rm_info.as_dict() *)
Inductive value :=
| VInt (z : Z) | VFloat (z : Z) | VNone | VStr (s : string)
| VList (l : list value) | VDict (d : list (string * value)).

Definition slot_value (s : slot) : value :=
  match s with Free => VFloat 0 | Busy => VFloat 1 | Down => VNone end.

Definition node_value (n : node) : value :=
  VDict [("name"%string,  VStr (n_name n)); ("index"%string, VInt (n_index n));
         ("cores"%string, VList (map slot_value (n_cores n)));
         ("gpus"%string,  VList (map slot_value (n_gpus n)));
         ("lfs"%string,   VInt (n_lfs n)); ("mem"%string, VInt (n_mem n))].

Definition as_dict (r : rminfo) : list (string * value) :=
  [("backup_nodes"%string, VInt (r_backup r)); ("requested_nodes"%string, VInt (r_req_nodes r));
   ("requested_cores"%string, VInt (r_req_cores r)); ("requested_gpus"%string, VInt (r_req_gpus r));
   ("node_list"%string, VList (map node_value (r_nodes r)));
   ("backup_list"%string, VList (map node_value (r_backups r)));
   ("agent_node_list"%string, VList (map node_value (r_agents r)));
   ("service_node_list"%string, VList (map node_value (r_services r)));
   ("cores_per_node"%string, VInt (r_cpn r)); ("threads_per_core"%string, VInt (r_tpc r));
   ("gpus_per_node"%string, VInt (r_gpn r)); ("lfs_per_node"%string, VInt (r_lfs r));
   ("mem_per_node"%string, VInt (r_mem r)); ("n_partitions"%string, VInt (r_nparts r))].

Fixpoint lookup (k : string) (d : list (string * value)) : option value :=
  match d with
  | [] => None
  | (k', v) :: t => if String.eqb k k' then Some v else lookup k t
  end.

Definition get_int (k : string) (dflt : Z) (d : list (string * value)) : option Z :=
  match lookup k d with
  | None => Some dflt
  | Some (VInt z) => Some z
  | Some _ => None
  end.

Definition value_slot (v : value) : option slot :=
  match v with
  | VFloat 0 => Some Free | VFloat 1 => Some Busy | VNone => Some Down | _ => None
  end.

Fixpoint opt_map {A B} (f : A -> option B) (l : list A) : option (list B) :=
  match l with
  | [] => Some []
  | x :: t => match f x, opt_map f t with
              | Some y, Some t' => Some (y :: t')
              | _, _ => None
              end
  end.

Definition value_node (v : value) : option node :=
  match v with
  | VDict d =>
      match lookup "name" d, lookup "index" d, lookup "cores" d, lookup "gpus" d,
            lookup "lfs" d, lookup "mem" d with
      | Some (VStr nm), Some (VInt ix), Some (VList cs), Some (VList gs), Some (VInt lf), Some (VInt me) =>
          match opt_map value_slot cs, opt_map value_slot gs with
          | Some cs', Some gs' => Some (mkNode nm ix cs' gs' lf me)
          | _, _ => None
          end
      | _, _, _, _, _, _ => None
      end
  | _ => None
  end.

Definition get_nodes (k : string) (d : list (string * value)) : option (list node) :=
  match lookup k d with
  | None => Some []                       (* RMInfo._defaults *)
  | Some (VList l) => opt_map value_node l
  | Some _ => None
  end.

(* RMInfo(from_dict): defaults of RMInfo._defaults for absent keys *)
Definition from_dict (d : list (string * value)) : option rminfo :=
  match get_int "requested_nodes" 0 d, get_int "requested_cores" 0 d, get_int "requested_gpus" 0 d,
        get_int "backup_nodes" 0 d, get_int "cores_per_node" 0 d, get_int "gpus_per_node" 0 d,
        get_int "threads_per_core" 0 d with
  | Some rn, Some rc, Some rg, Some bk, Some cpn, Some gpn, Some tpc =>
    match get_int "lfs_per_node" 0 d, get_int "mem_per_node" 0 d, get_int "n_partitions" 1 d,
          get_nodes "node_list" d, get_nodes "backup_list" d, get_nodes "agent_node_list" d,
          get_nodes "service_node_list" d with
    | Some lf, Some me, Some np, Some nl, Some bl, Some al, Some sl =>
        Some (mkInfo rn rc rg bk cpn gpn tpc lf me np nl bl al sl)
    | _, _, _, _, _, _, _ => None
    end
  | _, _, _, _, _, _, _ => None
  end.

(* ResourceManager.__init__, registry filled: what every further component gets *)
Definition rm_from_registry (d : list (string * value)) : err + rminfo :=
  match from_dict d with
  | None => inl OtherError
  | Some r => if verify r then inr r else inl AssertionError
  end.

(* ------------------------- several initialisations in one process *)

(* The one process-level input of an initialisation is the environment.  The
   batch-system variables are part of rmenv; $RADICAL_SMT is read by the base
   class.  An initialisation READS the environment and leaves it as it was. *)
Definition penv := option Z.                       (* $RADICAL_SMT in the process *)

Record step := mkStep { st_cfg : cfg; st_env : rmenv; st_acc : list access }.

Definition with_smt_env (pe : penv) (c : cfg) : cfg :=
  mkCfg (c_nodes c) (c_cores c) (c_gpus c) (c_cpn c) (c_gpn c) (c_backup c) (c_lfs c) (c_mem c)
        (c_nparts c) pe (c_smt_arch c) (c_bcores c) (c_bgpus c) (c_agents c) (c_services c) (c_fake c).

(* one constructor call in a process whose environment holds pe *)
Definition init_in (pe : penv) (s : step) : (err + rminfo) * penv :=
  (rm_construct (with_smt_env pe (st_cfg s)) (st_env s) (st_acc s), pe).

(* what the user does to $RADICAL_SMT before an initialisation *)
Inductive user := Keep | SetTo (v : option Z).
Definition apply_user (u : user) (pe : penv) : penv :=
  match u with Keep => pe | SetTo v => v end.

Fixpoint run_seq (pe : penv) (l : list (user * step)) : list (err + rminfo) :=
  match l with
  | [] => []
  | (u, s) :: t =>
      let r := init_in (apply_user u pe) s in
      fst r :: run_seq (snd r) t
  end.

(* the environment each step is GIVEN by the user alone *)
Fixpoint given_envs (pe : penv) (l : list (user * step)) : list penv :=
  match l with
  | [] => []
  | (u, _) :: t => apply_user u pe :: given_envs (apply_user u pe) t
  end.
