(* NodeList -- the table-like parts of agent/resource_manager/base.py
   (regenerated into Gen/RMInfoTables.v on every run) agree with what the
   model assumes: defaults used by RMInfo(from_dict), schema keys written by
   as_dict, the factory entries of the seven modelled resource managers. *)
From Coq Require Import ZArith List Bool String.
From RP Require Import Common.Eqb Gen.RMInfoTables NodeList.Model NodeList.Oracle.
Import ListNotations.
Open Scope Z_scope.

Fixpoint assocZ (k : string) (l : list (string * Z)) : option Z :=
  match l with [] => None | (k', v) :: t => if String.eqb k k' then Some v else assocZ k t end.
Fixpoint assocS {B} (k : string) (l : list (string * B)) : option B :=
  match l with [] => None | (k', v) :: t => if String.eqb k k' then Some v else assocS k t end.

(* the RMInfo that RMInfo() gives according to the SOURCE's _defaults *)
Definition source_default_info : option rminfo :=
  let i k := assocZ k rminfo_default_ints in
  let l k := match assocS k rminfo_default_empty with
             | Some "list"%string => Some (@nil node) | _ => None end in
  match i "requested_nodes"%string, i "requested_cores"%string, i "requested_gpus"%string,
        i "backup_nodes"%string, i "cores_per_node"%string, i "gpus_per_node"%string,
        i "threads_per_core"%string with
  | Some rn, Some rc, Some rg, Some bk, Some cpn, Some gpn, Some tpc =>
    match i "lfs_per_node"%string, i "mem_per_node"%string, i "n_partitions"%string,
          l "node_list"%string, l "backup_list"%string, l "agent_node_list"%string,
          l "service_node_list"%string with
    | Some lf, Some me, Some np, Some nl, Some bl, Some al, Some sl =>
        Some (mkInfo rn rc rg bk cpn gpn tpc lf me np nl bl al sl)
    | _, _, _, _, _, _, _ => None
    end
  | _, _, _, _, _, _, _ => None
  end.

Definition a_record : rminfo := mkInfo 1 1 0 0 1 0 1 0 0 1 [] [] [] [].

Definition modelled_factory : list (string * (string * string)) :=
  [("SLURM", ("Slurm", "slurm")); ("PBSPRO", ("PBSPro", "pbspro")); ("LSF", ("LSF", "lsf"));
   ("FORK", ("Fork", "fork")); ("COBALT", ("Cobalt", "cobalt")); ("TORQUE", ("Torque", "torque"));
   ("CCM", ("CCM", "ccm"))]%string.

Definition tables_wf : bool :=
  (* defaults: RMInfo(from_dict) of the model fills absent keys as the source does *)
  eqb_option rminfo_eqb (from_dict []) source_default_info
  (* every key as_dict writes is a schema key (verify() rejects others) *)
  && forallb (fun kv => memS (fst kv) rminfo_schema_keys) (as_dict a_record)
  (* the factory creates the seven modelled classes under their names *)
  && forallb (fun e => match assocS (fst e) rm_factory with
                       | Some (cls, mod_) => String.eqb cls (fst (snd e)) && String.eqb mod_ (snd (snd e))
                       | None => false end) modelled_factory.

Lemma tables_wf_ok : tables_wf = true.
Proof. vm_compute. reflexivity. Qed.
