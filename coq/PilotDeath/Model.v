(* Executable model of TaskManager._pilot_state_cb (the callback registered on
   every pilot added to a task manager) together with the part of
   Task._update it reaches: when a pilot is final, every task bound to it that
   is not yet final is set FAILED with an exception detail naming the pilot,
   and those tasks are handed to `advance(publish=True, push=False)`.
   The model is the code after fix C13-1 (the `task.pilot != pid or
   task.state in FINAL: continue` filter).  Definitions only. *)
From Coq Require Import ZArith List Bool.
From RP Require Import Gen.StatesTables.
Import ListNotations.
Open Scope Z_scope.

(* what the property observes of a task: uid, state, the pilot it is bound to
   (Task.pilot, None = not yet bound), and the pilot named by
   Task.exception_detail ('pilot <pid> is final'; None = no such detail) *)
Record task := mkT { t_uid : Z; t_state : tstate; t_pilot : option Z; t_blame : option Z }.

Definition t_final (s : tstate) : bool := existsb (tstate_beq s) tfinal.
Definition p_final (s : pstate) : bool := existsb (pstate_beq s) pfinal.

(* Task._update({'uid', 'exception', 'exception_detail': 'pilot <pid> is final',
                 'state': FAILED}) *)
Definition update_failed (pid : Z) (t : task) : task :=
  let current := t_state t in
  if tstate_beq current T_FAILED || tstate_beq current T_DONE then t   (* never update once FAILED or DONE *)
  else
    (* `current == CANCELED and target != DONE: target = current`; the
       transition check is skipped for FAILED and CANCELED targets; then all
       fields present in the update are set -- including 'state' *)
    mkT (t_uid t) T_FAILED (t_pilot t) (Some pid).

Definition bound_to (pid : Z) (t : task) : bool :=
  match t_pilot t with Some p => p =? pid | None => false end.

(* `for task in self._tasks.values()` for one final pilot: the tasks after
   the loop and the (uid, state) pairs handed to advance() *)
Fixpoint fail_loop (pid : Z) (ts : list task) : list task * list (Z * tstate) :=
  match ts with
  | [] => ([], [])
  | t :: r =>
      let '(r', adv) := fail_loop pid r in
      if negb (bound_to pid t) || t_final (t_state t) then (t :: r', adv)      (* continue *)
      else let t' := update_failed pid t in (t' :: r', (t_uid t', t_state t') :: adv)
  end.

(* `for pilot in pilots: if pilot.state in FINAL: ...; self.advance(tasks)` *)
Fixpoint cb_pilots (ps : list (Z * pstate)) (ts : list task)
  : list task * list (list (Z * tstate)) :=
  match ps with
  | [] => (ts, [])
  | (pid, st) :: r =>
      if p_final st then
        let '(ts1, adv) := fail_loop pid ts in
        let '(ts2, advs) := cb_pilots r ts1 in (ts2, adv :: advs)
      else cb_pilots r ts
  end.

Record tmgr := mkM { m_terminating : bool; m_closed : bool; m_tasks : list task }.

(* one invocation: manager after, return value (keep the callback?), advance calls *)
Definition pilot_state_cb (m : tmgr) (ps : list (Z * pstate))
  : tmgr * bool * list (list (Z * tstate)) :=
  if m_terminating m then (m, false, [])
  else if m_closed m then (m, true, [])
  else let '(ts, advs) := cb_pilots ps (m_tasks m) in
       (mkM false false ts, true, advs).

(* ---- histories ---------------------------------------------------------- *)
(* what happens around the callback: the application/agent moves a task on
   (state and binding change through other paths), the manager is closed or
   starts terminating *)
Inductive op :=
| OCb (ps : list (Z * pstate))            (* the callback fires for these pilots *)
| OSet (u : Z) (s : tstate) (p : option Z)  (* task u is now in state s, bound to p *)
| OClose
| OTerminate.

Definition set_task (u : Z) (s : tstate) (p : option Z) (ts : list task) : list task :=
  map (fun t => if t_uid t =? u then mkT (t_uid t) s p (t_blame t) else t) ts.

(* environment steps (everything but the callback) *)
Definition env_step (m : tmgr) (o : op) : tmgr :=
  match o with
  | OSet u s p => mkM (m_terminating m) (m_closed m) (set_task u s p (m_tasks m))
  | OClose => mkM (m_terminating m) true (m_tasks m)
  | OTerminate => mkM true (m_closed m) (m_tasks m)
  | OCb _ => m
  end.

(* observation of one callback: return value, advance calls, tasks after *)
Definition cb_obs := (bool * list (list (Z * tstate)) * list task)%type.

Fixpoint run (m : tmgr) (ops : list op) : list cb_obs :=
  match ops with
  | [] => []
  | OCb ps :: r =>
      let '(m', ret, advs) := pilot_state_cb m ps in
      (ret, advs, m_tasks m') :: run m' r
  | o :: r => run (env_step m o) r
  end.

(* the manager after a history *)
Fixpoint run_end (m : tmgr) (ops : list op) : tmgr :=
  match ops with
  | [] => m
  | OCb ps :: r => run_end (fst (fst (pilot_state_cb m ps))) r
  | o :: r => run_end (env_step m o) r
  end.
