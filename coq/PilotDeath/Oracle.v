(* Boolean statements of property C13 over one observed history of
   TaskManager._pilot_state_cb invocations, and the row evaluated by the
   harness: [model agrees; own_failed; others_untouched; reported]. *)
From Coq Require Import ZArith List Bool.
From RP Require Import Common.Eqb Gen.StatesTables PilotDeath.Model.
Import ListNotations.
Open Scope Z_scope.

Definition task_eqb (a b : task) : bool :=
  (t_uid a =? t_uid b) && tstate_beq (t_state a) (t_state b)
  && eqb_option Z.eqb (t_pilot a) (t_pilot b) && eqb_option Z.eqb (t_blame a) (t_blame b).

Definition adv_eqb := eqb_list (eqb_list (eqb_prod Z.eqb tstate_beq)).
Definition cb_obs_eqb (a b : cb_obs) : bool :=
  Bool.eqb (fst (fst a)) (fst (fst b)) && adv_eqb (snd (fst a)) (snd (fst b))
  && eqb_list task_eqb (snd a) (snd b).

(* pilot q is reported final in this invocation *)
Definition dies (ps : list (Z * pstate)) (q : Z) : bool :=
  existsb (fun e => (fst e =? q) && p_final (snd e)) ps.

(* the task is bound to a pilot that ends, and is not final itself *)
Definition own (ps : list (Z * pstate)) (t : task) : bool :=
  negb (t_final (t_state t)) &&
  match t_pilot t with Some q => dies ps q | None => false end.

(* FAILED, with an explanation naming the task's pilot *)
Definition failed (t : task) : task := mkT (t_uid t) T_FAILED (t_pilot t) (t_pilot t).

(* every task bound to an ending pilot and not yet final is FAILED, naming that pilot *)
Definition ok_own (active : bool) (ps : list (Z * pstate)) (before after : list task) : bool :=
  negb active ||
  ((length before =? length after)%nat &&
   forallb (fun tt => implb (own ps (fst tt)) (task_eqb (snd tt) (failed (fst tt))))
           (combine before after)).

(* tasks bound to other pilots, unbound tasks and final tasks keep their state
   (and everything else); no task appears or disappears *)
Definition ok_others (active : bool) (ps : list (Z * pstate)) (before after : list task) : bool :=
  (length before =? length after)%nat &&
  forallb (fun tt => implb (negb (active && own ps (fst tt))) (task_eqb (snd tt) (fst tt)))
          (combine before after).

(* the failed tasks are handed to advance() as FAILED, and whatever is handed
   to advance() carries the state the task really has *)
Definition ok_reported (active : bool) (ps : list (Z * pstate)) (before after : list task)
  (advs : list (list (Z * tstate))) : bool :=
  let adv := concat advs in
  (negb active ||
   forallb (fun t => implb (own ps t)
                       (existsb (fun e => (fst e =? t_uid t) && tstate_beq (snd e) T_FAILED) adv)) before)
  && forallb (fun e => existsb (fun t' => (t_uid t' =? fst e) && tstate_beq (t_state t') (snd e)) after) adv.

(* walk through a history: environment steps are applied to the last observed
   table, every callback consumes one observation *)
Fixpoint ok_history (m : tmgr) (ops : list op) (obs : list cb_obs) : list bool :=
  match ops with
  | [] => match obs with [] => [true; true; true] | _ => [false; false; false] end
  | OCb ps :: r =>
      match obs with
      | [] => [false; false; false]
      | (ret, advs, after) :: obs' =>
          let active := negb (m_terminating m) && negb (m_closed m) in
          let rest := ok_history (mkM (m_terminating m) (m_closed m) after) r obs' in
          [ ok_own active ps (m_tasks m) after && nth 0 rest false;
            ok_others active ps (m_tasks m) after && nth 1 rest false;
            ok_reported active ps (m_tasks m) after advs && nth 2 rest false ]
      end
  | o :: r => ok_history (env_step m o) r obs
  end.

Definition c13_row (m : tmgr) (ops : list op) (obs : list cb_obs) : list bool :=
  eqb_list cb_obs_eqb (run m ops) obs :: ok_history m ops obs.
