(* Proofs about the pilot-death callback: a closed form of one invocation
   (every task is treated on its own: failed, naming its pilot, iff it is not
   final and its pilot is reported final), from which follow that own tasks
   are failed, all other tasks are untouched, that the outcome of any history
   of invocations does not depend on the order in which pilots end, and that
   the oracle clauses hold on every history (with arbitrary task progress,
   re-binding, close and terminate steps in between). *)
From Coq Require Import ZArith List Bool Arith Lia.
From RP Require Import Common.Eqb Gen.StatesTables PilotDeath.Model PilotDeath.Oracle.
Import ListNotations.
Open Scope Z_scope.

(* what one final pilot does to one task *)
Definition fail1 (pid : Z) (t : task) : task :=
  if negb (bound_to pid t) || t_final (t_state t) then t else update_failed pid t.

Definition fail_for (ps : list (Z * pstate)) (t : task) : task :=
  fold_left (fun t e => if p_final (snd e) then fail1 (fst e) t else t) ps t.

(* the closed form: independent of order and multiplicity *)
Definition closed_form (ps : list (Z * pstate)) (t : task) : task :=
  if own ps t then failed t else t.

Lemma fail_loop_map pid ts : fst (fail_loop pid ts) = map (fail1 pid) ts.
Proof.
  induction ts as [|t r IH]; [reflexivity|]. simpl.
  destruct (fail_loop pid r) as [r' adv]. simpl in IH. subst r'. unfold fail1.
  destruct (negb (bound_to pid t) || t_final (t_state t)); reflexivity.
Qed.

Lemma cb_pilots_map ps : forall ts, fst (cb_pilots ps ts) = map (fail_for ps) ts.
Proof.
  induction ps as [|[pid st] r IH]; intro ts.
  - simpl. symmetry. apply map_id.
  - simpl. destruct (p_final st) eqn:Hf.
    + pose proof (fail_loop_map pid ts) as H1. destruct (fail_loop pid ts) as [ts1 adv]. simpl in H1.
      pose proof (IH ts1) as H2. destruct (cb_pilots r ts1) as [ts2 advs]. simpl in H2 |- *.
      rewrite H2, H1, map_map. apply map_ext. intro t. unfold fail_for. simpl. rewrite Hf. reflexivity.
    + rewrite IH. apply map_ext. intro t. unfold fail_for. simpl. rewrite Hf. reflexivity.
Qed.

Lemma nonfinal_not_failed_done s :
  t_final s = false -> tstate_beq s T_FAILED || tstate_beq s T_DONE = false.
Proof. destruct s; vm_compute; congruence. Qed.

Lemma fail_for_cons pid st r t :
  fail_for ((pid, st) :: r) t = fail_for r (if p_final st then fail1 pid t else t).
Proof. reflexivity. Qed.

Lemma fail_for_final ps : forall t, t_final (t_state t) = true -> fail_for ps t = t.
Proof.
  induction ps as [|[pid st] r IH]; intros t Hf; [reflexivity|].
  rewrite fail_for_cons.
  destruct (p_final st); [|apply IH; exact Hf].
  unfold fail1. rewrite Hf, orb_true_r. apply IH; exact Hf.
Qed.

Lemma fail_for_closed ps : forall t, fail_for ps t = closed_form ps t.
Proof.
  induction ps as [|[pid st] r IH]; intro t.
  - unfold closed_form, own. simpl. destruct (t_pilot t); rewrite andb_false_r; reflexivity.
  - rewrite fail_for_cons.
    destruct (t_final (t_state t)) eqn:Hfin.
    { (* final tasks are never touched *)
      assert (E : (if p_final st then fail1 pid t else t) = t).
      { destruct (p_final st); [|reflexivity]. unfold fail1. rewrite Hfin, orb_true_r. reflexivity. }
      rewrite E, (fail_for_final r t Hfin). unfold closed_form, own. rewrite Hfin. reflexivity. }
    destruct (p_final st) eqn:Hp.
    + unfold fail1. rewrite Hfin, orb_false_r.
      destruct (bound_to pid t) eqn:Hb; simpl.
      * (* bound to this pilot: failed now, final afterwards *)
        unfold bound_to in Hb. destruct (t_pilot t) as [q|] eqn:Hq; [|discriminate].
        apply Z.eqb_eq in Hb. subst q.
        assert (Eu : update_failed pid t = failed t).
        { unfold update_failed, failed. rewrite (nonfinal_not_failed_done _ Hfin), Hq. reflexivity. }
        rewrite Eu, fail_for_final by reflexivity.
        unfold closed_form, own. rewrite Hfin, Hq. simpl. rewrite Z.eqb_refl, Hp. reflexivity.
      * rewrite IH. unfold closed_form, own. rewrite Hfin. simpl.
        unfold bound_to in Hb. destruct (t_pilot t) as [q|]; [|reflexivity].
        simpl. rewrite Z.eqb_sym, Hb. reflexivity.
    + rewrite IH. unfold closed_form, own. rewrite Hfin. simpl.
      destruct (t_pilot t) as [q|]; [|reflexivity]. simpl. rewrite Hp, andb_false_r. reflexivity.
Qed.

(* ---- one invocation on an active manager -------------------------------- *)
Theorem cb_closed_form ps ts :
  m_tasks (fst (fst (pilot_state_cb (mkM false false ts) ps))) = map (closed_form ps) ts.
Proof.
  unfold pilot_state_cb. simpl. pose proof (cb_pilots_map ps ts) as H.
  destruct (cb_pilots ps ts) as [ts' advs]. simpl in *. rewrite H.
  apply map_ext. apply fail_for_closed.
Qed.

(* own tasks: bound to a pilot reported final, not yet final  ==>  FAILED,
   with an explanation naming that pilot; nothing else about the task changes *)
Theorem own_tasks_failed ps t pid st :
  t_pilot t = Some pid -> In (pid, st) ps -> p_final st = true -> t_final (t_state t) = false ->
  closed_form ps t = mkT (t_uid t) T_FAILED (Some pid) (Some pid).
Proof.
  intros Hq Hin Hp Hfin. unfold closed_form, own. rewrite Hfin, Hq. simpl.
  assert (D : dies ps pid = true).
  { unfold dies. apply existsb_exists. exists (pid, st). simpl. rewrite Z.eqb_refl, Hp. auto. }
  rewrite D. unfold failed. rewrite Hq. reflexivity.
Qed.

(* all others: unbound, already final, or bound to a pilot not reported final *)
Theorem others_untouched ps t :
  t_pilot t = None \/ t_final (t_state t) = true \/
  (forall pid st, t_pilot t = Some pid -> In (pid, st) ps -> p_final st = false) ->
  closed_form ps t = t.
Proof.
  intros [H | [H | H]]; unfold closed_form, own.
  - rewrite H, andb_false_r. reflexivity.
  - rewrite H. reflexivity.
  - destruct (t_pilot t) as [q|] eqn:Hq; [|rewrite andb_false_r; reflexivity].
    assert (D : dies ps q = false).
    { unfold dies. apply not_true_is_false. intro E. apply existsb_exists in E as [[p st] [Hin E]].
      simpl in E. apply andb_true_iff in E as [E1 E2]. apply Z.eqb_eq in E1. subst p.
      rewrite (H q st eq_refl Hin) in E2. discriminate. }
    rewrite D, andb_false_r. reflexivity.
Qed.

(* a manager that is closed or terminating ignores the callback *)
Theorem inactive_ignores m ps :
  m_terminating m = true \/ m_closed m = true ->
  fst (fst (pilot_state_cb m ps)) = m /\ snd (pilot_state_cb m ps) = [].
Proof.
  unfold pilot_state_cb. intros [H | H]; rewrite H; [auto|]. destruct (m_terminating m); auto.
Qed.

(* ---- histories of invocations: every order in which pilots end ---------- *)
Lemma closed_form_final ps t : t_final (t_state t) = true -> closed_form ps t = t.
Proof. intro H. unfold closed_form, own. rewrite H. reflexivity. Qed.

Lemma own_some ps t q : t_final (t_state t) = false -> t_pilot t = Some q -> own ps t = dies ps q.
Proof. intros H1 H2. unfold own. rewrite H1, H2. reflexivity. Qed.
Lemma own_none ps t : t_pilot t = None -> own ps t = false.
Proof. intros H. unfold own. rewrite H. apply andb_false_r. Qed.
Lemma dies_app ps qs q : dies (ps ++ qs) q = dies ps q || dies qs q.
Proof. unfold dies. apply existsb_app. Qed.

Lemma closed_form_app ps qs t : closed_form qs (closed_form ps t) = closed_form (ps ++ qs) t.
Proof.
  destruct (t_final (t_state t)) eqn:Hfin.
  { rewrite (closed_form_final ps t Hfin), !closed_form_final by exact Hfin. reflexivity. }
  destruct (t_pilot t) as [q|] eqn:Hq.
  - unfold closed_form at 2 3. rewrite (own_some _ _ _ Hfin Hq), (own_some _ _ _ Hfin Hq), dies_app.
    destruct (dies ps q); simpl.
    + apply closed_form_final. reflexivity.
    + unfold closed_form. rewrite (own_some _ _ _ Hfin Hq). reflexivity.
  - unfold closed_form at 2 3. rewrite (own_none ps _ Hq), (own_none (ps ++ qs) _ Hq).
    unfold closed_form. rewrite (own_none qs _ Hq). reflexivity.
Qed.

(* any sequence of invocations (pilots ending one by one, in groups, in any
   order, reported repeatedly) on an active manager: the outcome is the closed
   form for the pilots reported final anywhere in the sequence *)
Theorem history_closed_form (calls : list (list (Z * pstate))) : forall ts,
  m_tasks (run_end (mkM false false ts) (map OCb calls)) = map (closed_form (concat calls)) ts.
Proof.
  induction calls as [|ps r IH]; intro ts.
  - simpl. rewrite <- (map_id ts) at 1. apply map_ext. intro t.
    unfold closed_form, own. simpl. destruct (t_pilot t); rewrite andb_false_r; reflexivity.
  - simpl map. cbn [run_end].
    pose proof (cb_closed_form ps ts) as H.
    assert (E : fst (fst (pilot_state_cb (mkM false false ts) ps)) = mkM false false (map (closed_form ps) ts)).
    { unfold pilot_state_cb in *. simpl in *. destruct (cb_pilots ps ts) as [ts' advs]. simpl in *. rewrite H. reflexivity. }
    rewrite E, IH, map_map. apply map_ext. intro t. simpl concat. apply closed_form_app.
Qed.

(* hence the order does not matter: two histories that report the same pilots
   final lead to the same tasks *)
Theorem order_irrelevant (calls calls' : list (list (Z * pstate))) ts :
  (forall q, dies (concat calls) q = dies (concat calls') q) ->
  m_tasks (run_end (mkM false false ts) (map OCb calls)) =
  m_tasks (run_end (mkM false false ts) (map OCb calls')).
Proof.
  intro H. rewrite !history_closed_form. apply map_ext. intro t.
  unfold closed_form, own. destruct (t_pilot t) as [q|]; [rewrite H|]; reflexivity.
Qed.

(* ---- the oracle holds on every history ---------------------------------- *)
Lemma task_eqb_refl t : task_eqb t t = true.
Proof.
  unfold task_eqb. rewrite Z.eqb_refl.
  assert (R : forall o : option Z, eqb_option Z.eqb o o = true) by (intros [z|]; simpl; [apply Z.eqb_refl | reflexivity]).
  rewrite !R. destruct (t_state t); reflexivity.
Qed.

Lemma combine_map_forallb {A} (f : A -> A) (P : A * A -> bool) l :
  (forall x, In x l -> P (x, f x) = true) -> forallb P (combine l (map f l)) = true.
Proof.
  induction l as [|x l IH]; intro H; [reflexivity|]. simpl.
  rewrite (H x (or_introl eq_refl)). apply IH. intros y Hy. apply H. right; exact Hy.
Qed.

Lemma ok_own_model active ps ts :
  ok_own active ps ts (map (closed_form ps) ts) = true.
Proof.
  unfold ok_own. destruct active; [simpl | reflexivity].
  rewrite map_length, Nat.eqb_refl. simpl. apply combine_map_forallb. intros t _. simpl.
  unfold closed_form. destruct (own ps t); simpl; [apply task_eqb_refl | reflexivity].
Qed.

Lemma ok_others_model active ps ts :
  ok_others active ps ts (if active then map (closed_form ps) ts else ts) = true.
Proof.
  unfold ok_others. destruct active.
  - rewrite map_length, Nat.eqb_refl. simpl. apply combine_map_forallb. intros t _. simpl.
    unfold closed_form. destruct (own ps t); simpl; [reflexivity | apply task_eqb_refl].
  - rewrite Nat.eqb_refl. simpl. rewrite <- (map_id ts) at 2.
    apply combine_map_forallb. intros t _. simpl. apply task_eqb_refl.
Qed.

(* the tasks after one invocation, whatever the manager's flags *)
Lemma cb_tasks m ps :
  m_tasks (fst (fst (pilot_state_cb m ps))) =
  if negb (m_terminating m) && negb (m_closed m) then map (closed_form ps) (m_tasks m) else m_tasks m.
Proof.
  destruct m as [te cl ts]. destruct te; [reflexivity|]. destruct cl; [reflexivity|].
  apply cb_closed_form.
Qed.

Lemma cb_flags m ps :
  m_terminating (fst (fst (pilot_state_cb m ps))) = m_terminating m /\
  m_closed (fst (fst (pilot_state_cb m ps))) = m_closed m.
Proof.
  destruct m as [te cl ts]. unfold pilot_state_cb. simpl.
  destruct te; [auto|]. destruct cl; [auto|]. destruct (cb_pilots ps ts); auto.
Qed.

(* ---- what is handed to advance() ---------------------------------------- *)
Definition own1 (pid : Z) (t : task) : bool := bound_to pid t && negb (t_final (t_state t)).

Lemma fail_loop_adv pid ts :
  snd (fail_loop pid ts) = map (fun t => (t_uid t, T_FAILED)) (filter (own1 pid) ts).
Proof.
  induction ts as [|t r IH]; [reflexivity|]. simpl.
  destruct (fail_loop pid r) as [r' adv]. simpl in IH. subst adv. unfold own1.
  destruct (bound_to pid t); simpl; [|reflexivity].
  destruct (t_final (t_state t)) eqn:Hfin; simpl; [reflexivity|].
  unfold update_failed. rewrite (nonfinal_not_failed_done _ Hfin). reflexivity.
Qed.

Lemma fail1_own pid t : own1 pid t = true ->
  t_uid (fail1 pid t) = t_uid t /\ t_state (fail1 pid t) = T_FAILED.
Proof.
  unfold own1, fail1. intro H. apply andb_true_iff in H as [Hb Hf]. apply negb_true_iff in Hf.
  rewrite Hb, Hf. simpl. unfold update_failed. rewrite (nonfinal_not_failed_done _ Hf). auto.
Qed.

Lemma fail1_not_own pid t : own1 pid t = false -> fail1 pid t = t.
Proof.
  unfold own1, fail1. intro H. destruct (bound_to pid t); simpl in *; [|reflexivity].
  apply negb_false_iff in H. rewrite H. reflexivity.
Qed.

(* whatever is handed to advance() is a FAILED task of the table afterwards *)
Lemma cb_pilots_adv_sound ps : forall ts e,
  In e (concat (snd (cb_pilots ps ts))) ->
  exists t', In t' (fst (cb_pilots ps ts)) /\ t_uid t' = fst e /\ t_state t' = snd e.
Proof.
  induction ps as [|[pid st] r IH]; intros ts e Hin; [destruct Hin|].
  simpl in *. destruct (p_final st) eqn:Hp; [|apply IH; exact Hin].
  pose proof (fail_loop_map pid ts) as H1. pose proof (fail_loop_adv pid ts) as H2.
  destruct (fail_loop pid ts) as [ts1 adv]. simpl in H1, H2.
  pose proof (cb_pilots_map r ts1) as H3. specialize (IH ts1 e).
  destruct (cb_pilots r ts1) as [ts2 advs]. simpl in *.
  apply in_app_or in Hin as [Hin | Hin]; [|apply IH; exact Hin].
  subst adv. apply in_map_iff in Hin as [t [<- Ht]]. apply filter_In in Ht as [Ht Ho].
  destruct (fail1_own pid t Ho) as [Eu Es].
  exists (fail1 pid t). split; [|split; simpl; assumption].
  rewrite H3, H1. apply in_map_iff. exists (fail1 pid t). split.
  - apply fail_for_final. rewrite Es. reflexivity.
  - apply in_map. exact Ht.
Qed.

(* every own task is handed to advance() as FAILED *)
Lemma cb_pilots_adv_complete ps : forall ts t,
  In t ts -> own ps t = true -> In (t_uid t, T_FAILED) (concat (snd (cb_pilots ps ts))).
Proof.
  induction ps as [|[pid st] r IH]; intros ts t Hin Ho.
  { unfold own in Ho. simpl in Ho. destruct (t_pilot t); rewrite andb_false_r in Ho; discriminate. }
  assert (Hfin : t_final (t_state t) = false).
  { unfold own in Ho. apply andb_true_iff in Ho as [Ho _]. apply negb_true_iff in Ho. exact Ho. }
  destruct (t_pilot t) as [q|] eqn:Hq; [|rewrite (own_none _ _ Hq) in Ho; discriminate].
  rewrite (own_some _ _ _ Hfin Hq) in Ho. unfold dies in Ho. simpl in Ho. fold (dies r q) in Ho.
  simpl. destruct (p_final st) eqn:Hp.
  - pose proof (fail_loop_map pid ts) as H1. pose proof (fail_loop_adv pid ts) as H2.
    destruct (fail_loop pid ts) as [ts1 adv]. simpl in H1, H2.
    specialize (IH ts1). destruct (cb_pilots r ts1) as [ts2 advs]. simpl in *.
    apply in_or_app.
    destruct (own1 pid t) eqn:Ho1.
    + left. subst adv. apply in_map_iff. exists t. split; [reflexivity|].
      apply filter_In. split; assumption.
    + right. apply (IH t).
      * rewrite H1. rewrite <- (fail1_not_own pid t Ho1). apply in_map. exact Hin.
      * rewrite (own_some _ _ _ Hfin Hq).
        unfold own1, bound_to in Ho1. rewrite Hq, Hfin in Ho1. simpl in Ho1.
        rewrite andb_true_r in Ho1. rewrite Z.eqb_sym, Ho1 in Ho. simpl in Ho. exact Ho.
  - rewrite andb_false_r in Ho. simpl in Ho. apply (IH ts t Hin).
    rewrite (own_some _ _ _ Hfin Hq). exact Ho.
Qed.

Lemma ok_reported_model active ps ts :
  ok_reported active ps ts (fst (cb_pilots ps ts)) (snd (cb_pilots ps ts)) = true.
Proof.
  unfold ok_reported. apply andb_true_iff. split.
  - destruct active; [simpl | reflexivity]. apply forallb_forall. intros t Ht.
    destruct (own ps t) eqn:Ho; [simpl | reflexivity].
    apply existsb_exists. exists (t_uid t, T_FAILED). split.
    + apply cb_pilots_adv_complete; assumption.
    + simpl. rewrite Z.eqb_refl. reflexivity.
  - apply forallb_forall. intros e He.
    destruct (cb_pilots_adv_sound ps ts e He) as [t' [Hin [Eu Es]]].
    apply existsb_exists. exists t'. split; [exact Hin|].
    rewrite Eu, Es, Z.eqb_refl. destruct (snd e); reflexivity.
Qed.

Lemma cb_result m ps :
  pilot_state_cb m ps =
  if negb (m_terminating m) && negb (m_closed m)
  then (mkM false false (fst (cb_pilots ps (m_tasks m))), true, snd (cb_pilots ps (m_tasks m)))
  else (m, negb (m_terminating m), []).
Proof.
  destruct m as [te cl ts]. unfold pilot_state_cb. simpl.
  destruct te; [reflexivity|]. destruct cl; [reflexivity|]. simpl.
  destruct (cb_pilots ps ts); reflexivity.
Qed.

Theorem history_reported (ops : list op) : forall m,
  nth 2 (ok_history m ops (run m ops)) false = true.
Proof.
  induction ops as [|o r IH]; intro m; [reflexivity|].
  destruct o as [ps|u s p| |]; try (simpl; apply IH).
  cbn [run]. rewrite cb_result.
  destruct (negb (m_terminating m) && negb (m_closed m)) eqn:Hact.
  - cbn [ok_history]. rewrite Hact.
    apply andb_true_iff in Hact as [H1 H2]. apply negb_true_iff in H1, H2. rewrite H1, H2.
    cbn [m_tasks]. cbn [nth]. rewrite IH, andb_true_r. apply ok_reported_model.
  - cbn [ok_history]. rewrite Hact.
    assert (Em : mkM (m_terminating m) (m_closed m) (m_tasks m) = m) by (destruct m; reflexivity).
    rewrite Em. cbn [nth]. rewrite IH, andb_true_r.
    unfold ok_reported. reflexivity.
Qed.

Theorem history_own_and_others (ops : list op) : forall m,
  nth 0 (ok_history m ops (run m ops)) false = true /\
  nth 1 (ok_history m ops (run m ops)) false = true.
Proof.
  induction ops as [|o r IH]; intro m; [simpl; auto|].
  destruct o as [ps|u s p| |]; try (simpl; apply IH).
  cbn [run]. destruct (pilot_state_cb m ps) as [[m' ret] advs] eqn:E.
  cbn [ok_history].
  assert (Ht := cb_tasks m ps). assert (Hf := cb_flags m ps). rewrite E in Ht, Hf. simpl in Ht, Hf.
  destruct Hf as [Hf1 Hf2].
  assert (Em : mkM (m_terminating m) (m_closed m) (m_tasks m') = m').
  { destruct m'. simpl in *. subst. reflexivity. }
  rewrite Em. destruct (IH m') as [I1 I2]. cbn [nth]. rewrite I1, I2, !andb_true_r.
  rewrite Ht. split.
  - destruct (negb (m_terminating m) && negb (m_closed m)); [apply ok_own_model | reflexivity].
  - apply ok_others_model.
Qed.
