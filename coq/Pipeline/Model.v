(* Executable model of radical.pilot's task pipeline (property C05).

   A task token travels through nine stations; each station is the REAL
   component's work routine run under BaseComponent.work_cb:

     CTSched  tmgr/scheduler/base.py work + RoundRobin._work/_schedule_tasks
     CTIn     tmgr/staging_input/default.py Default.work/_handle_task
     CA0In    agent/agent_0.py _proxy_input_cb          (task intake from the client)
     CAIn     agent/staging_input  work/_work/_handle_task_staging
     CASched  agent/scheduler/base.py work + _schedule_incoming   (abstract: Started | Failed | Canceled)
     CAExec   agent/executing/popen.py work/_check_running/cancel_task (abstract: exit code, launch error, cancel, timeout)
     CAOut    agent/staging_output/default.py Default.work
     CA0Out   agent/agent_0.py _proxy_output_cb
     CTOut    tmgr/staging_output/default.py Default.work/_handle_task

   plus BaseComponent.work_cb (cancel filter at the intake; an exception that
   escapes the worker fails ALL things of the bulk, the component goes on),
   BaseComponent/ClientComponent/AgentComponent.advance (what is published,
   in full or state-only, and what is pushed to which queue), raptor
   Master._result_cb, and reliable FIFO queues between the stations.

   Staging content, placement and process handling are abstracted to fault
   flags carried by the token (they are what C11, C01-C04 and C07 model in
   detail).  Definitions only. *)
From Coq Require Import ZArith List Bool.
From RP Require Import Gen.StatesTables.
Import ListNotations.
Open Scope Z_scope.

Inductive comp := CTSched | CTIn | CA0In | CAIn | CASched | CAExec | CAOut | CA0Out | CTOut | COther.

Definition comp_eqb (a b : comp) : bool :=
  match a, b with
  | CTSched, CTSched | CTIn, CTIn | CA0In, CA0In | CAIn, CAIn | CASched, CASched
  | CAExec, CAExec | CAOut, CAOut | CA0Out, CA0Out | CTOut, CTOut | COther, COther => true
  | _, _ => false
  end.

(* task['pilot'] at submission: unset, an added pilot, a pilot not (yet) added *)
Inductive pbind := PNone | PKnown | PUnknown.
(* what the agent scheduler does with the task (C01-C04 model how) *)
Inductive sres := SStart | SFail | SCancel.
(* what the executor sees (C07 models how) *)
Inductive xres := XExit (c : Z) | XNoLauncher | XLaunchErr | XCancel | XTimeout.

(* the parts of the description the pipeline branches on: are there
   actionable staging directives for the stager in question, stage_on_error *)
Record descr := mkD {
  d_bind : pbind; d_tin : bool; d_ain : bool; d_aout : bool; d_tout : bool; d_soe : bool }.

(* fault placement: which call made on behalf of THIS task raises *)
Record faults := mkF {
  f_assign : bool;   (* session._get_task_sandbox in _assign_pilot *)
  f_tin    : bool;   (* a tmgr input staging directive *)
  f_ain    : bool;   (* an agent input staging directive *)
  f_sched  : sres;
  f_exec   : xres;
  f_stdio  : bool;   (* _handle_task_stdio *)
  f_aout   : bool;   (* an agent output staging directive *)
  f_tout   : bool }. (* a tmgr output staging directive *)

Record task := mkT {
  t_uid : Z; t_st : tstate; t_tgt : option tstate; t_exc : bool; t_exit : option Z;
  t_d : descr; t_f : faults }.

Definition set_st (t : task) (s : tstate) : task :=
  mkT (t_uid t) s (t_tgt t) (t_exc t) (t_exit t) (t_d t) (t_f t).
(* {Client,Agent}Component.advance(FAILED): target_state := FAILED *)
Definition failq (t : task) : task :=
  mkT (t_uid t) T_FAILED (Some T_FAILED) (t_exc t) (t_exit t) (t_d t) (t_f t).
(* ... after task['exception'] = repr(e) *)
Definition fail (t : task) : task :=
  mkT (t_uid t) T_FAILED (Some T_FAILED) true (t_exit t) (t_d t) (t_f t).
Definition cancel (t : task) : task :=
  mkT (t_uid t) T_CANCELED (Some T_CANCELED) (t_exc t) (t_exit t) (t_d t) (t_f t).

Inductive emi :=
| Pub (full : bool) (t : task)     (* STATE_PUBSUB 'update'; full = the whole task dict *)
| Push (dst : comp) (t : task)     (* put on the input queue of dst *)
| Unsched (u : Z).                 (* AGENT_UNSCHEDULE_PUBSUB *)

Definition pubp (t : task) (s : tstate) : emi := Pub false (set_st t s).
Definition pubf (t : task) : emi := Pub true t.

Definition emi_uid (e : emi) : Z :=
  match e with Pub _ t => t_uid t | Push _ t => t_uid t | Unsched u => u end.

(* ---------------- parameters of a station ---------------- *)
Record params := mkP {
  p_hp  : bool;     (* CTSched: a pilot is added; CTIn: the pilot is known to the stager *)
  p_thr : nat }.    (* CTIn: task_bulk_mkdir_threshold *)

(* ---------------- the cancel filter of work_cb ---------------- *)
Fixpoint zmem (u : Z) (l : list Z) : bool :=
  match l with [] => false | x :: r => (x =? u) || zmem u r end.
Fixpoint zremove1 (u : Z) (l : list Z) : list Z :=
  match l with [] => [] | x :: r => if x =? u then r else x :: zremove1 u r end.

Fixpoint intake (cl : list Z) (B : list task) : list Z * list task * list emi :=
  match B with
  | [] => (cl, [], [])
  | t :: r =>
      if zmem (t_uid t) cl
      then let '(cl', k, e) := intake (zremove1 (t_uid t) cl) r in (cl', k, pubf (cancel t) :: e)
      else let '(cl', k, e) := intake cl r in (cl', t :: k, e)
  end.

(* ---------------- workers as sequences of phases ----------------
   Every work routine is a sequence of loops over the bulk; a phase is what
   one loop lets the outside see for one task. *)
Definition phase := task -> list emi.
Definition run_phases (ps : list phase) (B : list task) : list emi :=
  flat_map (fun ph => flat_map ph B) ps.

Definition bind_is (b : pbind) (t : task) : bool :=
  match d_bind (t_d t), b with
  | PNone, PNone | PKnown, PKnown | PUnknown, PUnknown => true | _, _ => false end.

Definition fwd (c : comp) (t : task) (s : tstate) : list emi := [pubp t s; Push c (set_st t s)].

(* --- CTSched --- *)
Definition ts_pre (P : params) : list phase :=
  [ (fun t => [pubp t T_TMGR_SCHEDULING]);
    (* early-bound tasks, one by one *)
    (fun t => if bind_is PKnown t && p_hp P
              then if f_assign (t_f t) then [pubf (fail t)]
                   else fwd CTIn t T_TMGR_STAGING_INPUT_PENDING
              else []) ].
Definition ts_post (P : params) : list phase :=
  let sel t := bind_is PNone t && p_hp P in
  [ (fun t => if sel t && f_assign (t_f t) then [pubf (fail t)] else []);
    (fun t => if sel t && negb (f_assign (t_f t)) then [pubp t T_TMGR_STAGING_INPUT_PENDING] else []);
    (fun t => if sel t && negb (f_assign (t_f t))
              then [Push CTIn (set_st t T_TMGR_STAGING_INPUT_PENDING)] else []) ].
(* tasks the scheduler keeps: early-bound to a pilot it does not know, or no pilot at all *)
Definition ts_held (P : params) (raised : bool) (B : list task) : list Z :=
  map t_uid (filter (fun t => negb (bind_is PNone t) && (bind_is PUnknown t || negb (p_hp P))) B)
  ++ (if raised then [] else map t_uid (filter (fun t => bind_is PNone t && negb (p_hp P)) B)).

(* --- CTIn --- *)
Definition ti_pre : list phase := [ (fun t => [pubp t T_TMGR_STAGING_INPUT]) ].
Definition ti_post : list phase :=
  let S := T_AGENT_STAGING_INPUT_PENDING in
  [ (fun t => if negb (d_tin (t_d t)) then [pubp t S] else []);
    (fun t => if negb (d_tin (t_d t)) then [Push CA0In (set_st t S)] else []);
    (fun t => if d_tin (t_d t) && negb (f_tin (t_f t)) then fwd CA0In t S else []);
    (fun t => if d_tin (t_d t) && f_tin (t_f t) then [pubf (fail t)] else []) ].
(* the bulk mkdir (tar + copy + untar) is attempted for >= threshold tasks
   without staging, for a known pilot; it is outside every per-task try *)
Definition ti_raises (P : params) (bf : bool) (B : list task) : bool :=
  bf && p_hp P && (p_thr P <=? length (filter (fun t => negb (d_tin (t_d t))) B))%nat.

(* --- CA0In / CA0Out --- *)
Definition a0in_ph : list phase :=
  [ (fun t => if tstate_beq (t_st t) T_AGENT_STAGING_INPUT_PENDING then [Push CAIn t] else []) ].
Definition a0out_ph : list phase := [ (fun t => [Push CTOut t]) ].

(* --- CAIn --- *)
Definition ai_ph : list phase :=
  let S := T_AGENT_SCHEDULING_PENDING in
  [ (fun t => [pubp t T_AGENT_STAGING_INPUT]);
    (fun t => if negb (d_ain (t_d t)) then [pubp t S] else []);
    (fun t => if negb (d_ain (t_d t)) then [Push CASched (set_st t S)] else []);
    (fun t => if d_ain (t_d t)
              then if f_ain (t_f t) then [pubf (fail t)] else fwd CASched t S
              else []) ].

(* --- CASched (abstract) --- *)
Definition as_ph : list phase :=
  [ (fun t => [pubp t T_AGENT_SCHEDULING]);
    (fun t => match f_sched (t_f t) with
              | SStart => fwd CAExec t T_AGENT_EXECUTING_PENDING
              | SFail => [pubf (fail t)]
              | SCancel => [] end);
    (fun t => match f_sched (t_f t) with SCancel => [pubf (cancel t)] | _ => [] end) ].

(* --- CAExec (abstract) --- *)
Definition exited (t : task) (c : Z) : task :=
  mkT (t_uid t) T_AGENT_STAGING_OUTPUT_PENDING
      (Some (if c =? 0 then T_DONE else T_FAILED))
      (if c =? 0 then t_exc t else true) (Some c) (t_d t) (t_f t).
Definition xcanceled (t : task) : task :=
  mkT (t_uid t) T_AGENT_STAGING_OUTPUT_PENDING (Some T_CANCELED) (t_exc t) None (t_d t) (t_f t).
Definition ax_ph : list phase :=
  let S := T_AGENT_STAGING_OUTPUT_PENDING in
  [ (fun t => [pubp t T_AGENT_EXECUTING]);
    (fun t => match f_exec (t_f t) with
              | XNoLauncher | XLaunchErr => [Unsched (t_uid t); pubf (fail t)] | _ => [] end);
    (fun t => match f_exec (t_f t) with XExit _ => [Unsched (t_uid t)] | _ => [] end);
    (fun t => match f_exec (t_f t) with XExit _ => [pubp t S] | _ => [] end);
    (fun t => match f_exec (t_f t) with XExit c => [Push CAOut (exited t c)] | _ => [] end);
    (fun t => match f_exec (t_f t) with
              | XCancel | XTimeout => [Unsched (t_uid t); pubp t S; Push CAOut (xcanceled t)]
              | _ => [] end) ].

(* --- CAOut --- *)
Inductive aocls := AOFail | AOPass | AOStage.
Definition tgt_is (t : task) (s : tstate) : bool :=
  match t_tgt t with Some x => tstate_beq x s | None => false end.
Definition ao_cls (t : task) : aocls :=
  if f_stdio (t_f t) then AOFail
  else match t_tgt t with
       | None => AOFail                              (* task['target_state'] raises KeyError *)
       | Some _ =>
           if negb (tgt_is t T_DONE) && negb (d_soe (t_d t)) then AOPass
           else if d_aout (t_d t) then AOStage else AOPass
       end.
Definition ao_ph : list phase :=
  let S := T_TMGR_STAGING_OUTPUT_PENDING in
  [ (fun t => [pubp t T_AGENT_STAGING_OUTPUT]);
    (fun t => match ao_cls t with AOFail => [pubf (fail t)] | _ => [] end);
    (fun t => match ao_cls t with AOPass => [pubf (set_st t S)] | _ => [] end);
    (fun t => match ao_cls t with AOPass => [Push CA0Out (set_st t S)] | _ => [] end);
    (fun t => match ao_cls t with
              | AOStage => if f_aout (t_f t) then [pubf (fail t)]
                           else [pubf (set_st t S); Push CA0Out (set_st t S)]
              | _ => [] end) ].

(* --- CTOut --- *)
Inductive tocls := TOSkip (s : tstate) | TOStage | TORaise.
Definition to_cls (t : task) : tocls :=
  match t_tgt t with
  | Some s => if negb (tstate_beq s T_DONE) then TOSkip s
              else if d_tout (t_d t) then TOStage else TOSkip s
  | None => if d_tout (t_d t) then TOStage else TORaise
  end.
Definition to_pre : list phase := [ (fun t => [pubp t T_TMGR_STAGING_OUTPUT]) ].
Definition to_post : list phase :=
  [ (fun t => match to_cls t with TOSkip s => [pubf (set_st t s)] | _ => [] end);
    (fun t => match to_cls t with
              | TOStage =>
                  if f_tout (t_f t) then [pubf (fail t)]
                  else match t_tgt t with
                       | None => [pubf (fail t)]     (* KeyError inside _handle_task *)
                       | Some s => [pubf (set_st t s); pubf (set_st t s)]
                       end
              | _ => [] end) ].
Definition to_raises (B : list task) : bool :=
  existsb (fun t => match to_cls t with TORaise => true | _ => false end) B.

(* ---------------- worker and work_cb ---------------- *)
Definition pre_ph (c : comp) (P : params) : list phase :=
  match c with
  | CTSched => ts_pre P | CTIn => ti_pre | CTOut => to_pre
  | CA0In => a0in_ph | CAIn => ai_ph | CASched => as_ph | CAExec => ax_ph
  | CAOut => ao_ph | CA0Out => a0out_ph | COther => []
  end.
Definition post_ph (c : comp) (P : params) : list phase :=
  match c with
  | CTSched => ts_post P | CTIn => ti_post | CTOut => to_post | _ => []
  end.
Definition raises (c : comp) (P : params) (bf : bool) (B : list task) : bool :=
  match c with
  | CTSched => bf                (* the scheduler's _work raises *)
  | CTIn => ti_raises P bf B
  | CTOut => to_raises B
  | _ => false
  end.

(* emissions of the worker and whether an exception escapes it *)
Definition worker (c : comp) (P : params) (bf : bool) (B : list task) : list emi * bool :=
  let pre := run_phases (pre_ph c P) B in
  if raises c P bf B then (pre, true)
  else (pre ++ run_phases (post_ph c P) B, false).

(* Popen.is_canceled: a task canceled at the executor's intake already holds
   the slots the scheduler gave it; they are released right after CANCELED
   is published (AGENT_UNSCHEDULE_PUBSUB) *)
Definition releases (c : comp) : bool := match c with CAExec => true | _ => false end.
Definition rel_em (rel : bool) (e0 : list emi) : list emi :=
  flat_map (fun e => e :: (if rel then [Unsched (emi_uid e)] else [])) e0.

(* BaseComponent.work_cb on one bulk: new cancel list, emissions *)
Definition work_cb (c : comp) (P : params) (cl : list Z) (B : list task) (bf : bool)
  : list Z * list emi :=
  let '(cl', K, e0) := intake cl B in
  let '(e1, r) := worker c P bf K in
  (cl', rel_em (releases c) e0 ++ e1 ++ (if r then map (fun t => pubf (fail t)) K else [])).

Definition held (c : comp) (P : params) (cl : list Z) (B : list task) (bf : bool) : list Z :=
  match c with
  | CTSched => let '(_, K, _) := intake cl B in ts_held P bf K
  | _ => []
  end.

(* ---------------- work_cb around an arbitrary worker ----------------
   the worker advances all things, hands on the first k, then raises or not *)
Fixpoint firstk {A} (k : nat) (l : list A) : list A :=
  match k, l with S k', x :: r => x :: firstk k' r | _, _ => [] end.
Definition generic_cb (k : nat) (cl : list Z) (B : list task) (bf : bool) : list Z * list emi :=
  let '(cl', K, e0) := intake cl B in
  (cl', e0 ++ map (fun t => pubp t T_AGENT_STAGING_INPUT) K
        ++ flat_map (fun t => fwd CASched t T_AGENT_SCHEDULING_PENDING) (firstk k K)
        ++ (if bf then map (fun t => pubf (fail t)) K else [])).

(* ---------------- raptor Master._result_cb ---------------- *)
Definition raptor_done (t : task) : task :=
  let tg := match t_tgt t with
            | Some s => s
            | None => match t_exit t with
                      | Some c => if c =? 0 then T_DONE else T_FAILED
                      | None => T_FAILED end
            end in
  mkT (t_uid t) T_AGENT_STAGING_OUTPUT_PENDING (Some tg) (t_exc t) (t_exit t) (t_d t) (t_f t).
Definition raptor_result_cb (B : list task) : list emi :=
  map (fun t => pubp t T_AGENT_STAGING_OUTPUT_PENDING) B ++ map (fun t => Push CAOut (raptor_done t)) B.

(* ---------------- the network ----------------
   tokens in flight, in arrival order, each at the input queue of a station
   (reliable FIFO queues); cancel lists per station; everything emitted so far *)
Record config := mkC {
  toks : list (comp * task);
  cls  : comp -> list Z;
  tr   : list emi }.

Inductive event :=
| EDeliver (c : comp) (n : nat) (bf : bool)   (* the first n queued tokens of c form a bulk *)
| ECancel (c : comp) (u : Z).                 (* a cancel request for u reaches c *)

(* the first n tokens queued at c, and the others *)
Fixpoint take (n : nat) (c : comp) (l : list (comp * task)) : list task * list (comp * task) :=
  match l with
  | [] => ([], [])
  | (d, t) :: r =>
      match n with
      | O => ([], l)
      | S k => if comp_eqb d c
               then let '(b, r') := take k c r in (t :: b, r')
               else let '(b, r') := take n c r in (b, (d, t) :: r')
      end
  end.

Definition pushes (es : list emi) : list (comp * task) :=
  flat_map (fun e => match e with Push d t => [(d, t)] | _ => [] end) es.

Definition upd (f : comp -> list Z) (c : comp) (v : list Z) : comp -> list Z :=
  fun d => if comp_eqb d c then v else f d.

Definition step (P : params) (g : config) (ev : event) : config :=
  match ev with
  | ECancel c u => mkC (toks g) (upd (cls g) c (cls g c ++ [u])) (tr g)
  | EDeliver c n bf =>
      let '(B, rest) := take n c (toks g) in
      let '(cl', es) := work_cb c P (cls g c) B bf in
      mkC (rest ++ pushes es) (upd (cls g) c cl') (tr g ++ es)
  end.

Definition run (P : params) (g : config) (evs : list event) : config := fold_left (step P) evs g.

(* a workload as TaskManager.submit_tasks hands it to the scheduler queue *)
Definition fresh (u : Z) (d : descr) (f : faults) : task :=
  mkT u T_TMGR_SCHEDULING_PENDING None false None d f.
Definition init (W : list task) : config :=
  mkC (map (fun t => (CTSched, t)) W) (fun _ => []) [].

(* what the trace says about task u *)
Definition is_final (s : tstate) : bool :=
  tstate_beq s T_DONE || tstate_beq s T_FAILED || tstate_beq s T_CANCELED.
Definition final_pubs (u : Z) (es : list emi) : list task :=
  flat_map (fun e => match e with
                     | Pub _ t => if (t_uid t =? u) && is_final (t_st t) then [t] else []
                     | _ => [] end) es.
Definition notifications (u : Z) (es : list emi) : list tstate :=
  flat_map (fun e => match e with
                     | Pub _ t => if t_uid t =? u then [t_st t] else []
                     | _ => [] end) es.
Definition queued (u : Z) (g : config) : list (comp * task) :=
  filter (fun p => t_uid (snd p) =? u) (toks g).
