(* C05 -- the staging model lifted to the pipeline: a task that ends DONE had
   every staging directive of every stager succeed, and a directive that
   succeeds found its source and leaves its target. *)
From Coq Require Import ZArith List Bool Lia Permutation.
From RP Require Import Gen.StatesTables Pipeline.Model Pipeline.Stage Pipeline.Oracle Pipeline.Proofs.
Import ListNotations.
Open Scope Z_scope.

Lemma get_set_same p k tr : get p (set p k tr) = k.
Proof. unfold set. simpl. rewrite Z.eqb_refl. reflexivity. Qed.
Lemma get_set_other p q k tr : q <> p -> get p (set q k tr) = get p tr.
Proof. intro H. unfold set. simpl. replace (q =? p) with false by (symmetry; apply Z.eqb_neq; exact H). reflexivity. Qed.

(* one directive that succeeds: its source was there, its target is there afterwards *)
Lemma apply_sd_sound tr d tr' :
  sd_src d <> sd_tgt d -> apply_sd tr d = Some tr' ->
  present (get (sd_src d) tr) = true /\
  (is_tar d = false -> present (get (sd_tgt d) tr') = true).
Proof.
  intros Hne H. unfold apply_sd in H. unfold is_tar.
  destruct (sd_act d); destruct (get (sd_src d) tr) as [| |cs|] eqn:Es;
    destruct (get (sd_tgt d) tr) as [| |ct|] eqn:Et; try discriminate;
    try (destruct (zmem (sd_src d) ct); try discriminate);
    injection H as <-; split; try reflexivity; intro Q; try discriminate Q;
    rewrite ?(get_set_other _ _ _ _ Hne), ?get_set_same; try reflexivity; try discriminate;
    rewrite ?Es, ?Et; reflexivity.
Qed.

Definition distinct_ends (l : list sdir) : Prop := forall d, In d l -> sd_src d <> sd_tgt d.

(* a list of directives that succeeds: every directive, at the moment it is
   enacted, finds its source and leaves its target *)
Theorem run_sds_sound l : forall tr tr',
  distinct_ends l -> run_sds tr l = Some tr' ->
  forall a d b, l = a ++ d :: b ->
    exists ta tb, run_sds tr a = Some ta /\ apply_sd ta d = Some tb /\
      present (get (sd_src d) ta) = true /\ (is_tar d = false -> present (get (sd_tgt d) tb) = true).
Proof.
  induction l as [|x r IH]; intros tr tr' Hd H a d b E.
  - destruct a; discriminate.
  - simpl in H. destruct (apply_sd tr x) as [t1|] eqn:Ex; [|discriminate].
    destruct a as [|y a]; simpl in E; injection E as -> ->.
    + exists tr, t1. split; [reflexivity|]. split; [exact Ex|].
      apply (apply_sd_sound tr d t1); [apply Hd; left; reflexivity|exact Ex].
    + destruct (IH t1 tr' (fun z Hz => Hd z (or_intror Hz)) H a d b eq_refl) as (ta & tb & A & B & C).
      exists ta, tb. simpl. rewrite Ex. split; [exact A|]. split; [exact B|exact C].
Qed.

(* what a stager enacts through the backend, and what tmgr stage-in packs first *)
Definition enacted (c : comp) (l : list sdir) : list sdir :=
  match c with
  | CTIn => filter (fun d => negb (is_tar d)) (filter (actionable c) l)
  | _ => filter (actionable c) l
  end.
Definition packed (c : comp) (l : list sdir) : list sdir :=
  match c with CTIn => filter is_tar (filter (actionable c) l) | _ => [] end.

Lemma stage_ok_enacted c tr l :
  stage_ok c tr l = true ->
  (exists tr', run_sds tr (enacted c l) = Some tr') /\
  forall d, In d (packed c l) -> present (get (sd_src d) tr) = true.
Proof.
  unfold stage_ok, run_stage, enacted, packed. destruct c;
    try (destruct (run_sds tr (filter _ l)) as [t1|] eqn:E; [|discriminate]; intros _;
         split; [exists t1; reflexivity|intros d []]).
  destruct (forallb _ _) eqn:F; [|discriminate].
  destruct (run_sds tr _) as [t1|] eqn:E; [|discriminate]. intros _.
  split; [exists t1; reflexivity|]. intros d Hd. rewrite forallb_forall in F. apply F. exact Hd.
Qed.

Lemma not_needed_ok c tr l : stage_needed c l = false -> stage_ok c tr l = true.
Proof.
  unfold stage_needed, stage_ok, run_stage. destruct (filter (actionable c) l); [|discriminate].
  intros _. destruct c; reflexivity.
Qed.

(* DONE tells the truth about staging: every stager's directives succeeded *)
Theorem done_implies_staged u b soe fa fo fs fx tin ain aout tout creq bulkf :
  truthful (staged_task u b soe fa fo fs fx tin ain aout tout) creq bulkf T_DONE = true ->
  stage_ok CTIn (sp_tr tin) (sp_l tin) = true /\ stage_ok CAIn (sp_tr ain) (sp_l ain) = true /\
  stage_ok CAOut (sp_tr aout) (sp_l aout) = true /\ stage_ok CTOut (sp_tr tout) (sp_l tout) = true.
Proof.
  intro H. unfold truthful in H. apply andb_true_iff in H as [_ H]. apply negb_true_iff in H.
  unfold any_fault, staged_task, fresh in H. cbn in H.
  repeat (apply orb_false_iff in H; destruct H as [H ?]).
  assert (K : forall c p, stage_needed c (sp_l p) && negb (stage_ok c (sp_tr p) (sp_l p)) = false ->
                          stage_ok c (sp_tr p) (sp_l p) = true).
  { intros c p Q. destruct (stage_needed c (sp_l p)) eqn:N.
    - simpl in Q. apply negb_false_iff in Q. exact Q.
    - apply not_needed_ok. exact N. }
  repeat split; apply K; assumption.
Qed.

(* ... for every workload, fault placement and delivery schedule: if the one
   final state of a task is DONE then all its staging succeeded *)
Theorem done_means_staging_succeeded thr W evs u b soe fa fo fs fx tin ain aout tout :
  let t0 := staged_task u b soe fa fo fs fx tin ain aout tout in
  wf_workload W -> forallb calm evs = true -> In t0 W ->
  let g := run (mkP true thr) (init W) evs in
  queued u g = [] ->
  (forall x, In x (fin_sts u (tr g)) -> x = T_DONE) ->
  stage_ok CTIn (sp_tr tin) (sp_l tin) = true /\ stage_ok CAIn (sp_tr ain) (sp_l ain) = true /\
  stage_ok CAOut (sp_tr aout) (sp_l aout) = true /\ stage_ok CTOut (sp_tr tout) (sp_l tout) = true.
Proof.
  intros t0 Hwf Hc Hin g Hq Hdone.
  destruct (one_truthful_final_partial thr W evs t0 Hwf Hc Hin Hq) as (s & Hne & Hall & Ht & _).
  change (t_uid t0) with u in *. fold g in Hne, Hall.
  destruct (fin_sts u (tr g)) as [|x r] eqn:E; [congruence|].
  assert (x = s) by (apply Hall; left; reflexivity).
  assert (x = T_DONE) by (apply Hdone; left; reflexivity). subst x. subst s.
  eapply done_implies_staged. exact Ht.
Qed.
