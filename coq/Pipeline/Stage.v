(* C05 -- when does a staging directive succeed?  A small executable model of
   the local staging backend (utils/staging_helper.py StagingHelper_Local:
   copy = `cp -r`, link = os.link, move = shutil.move, parents always made)
   as driven by the four stagers (tmgr stage-in _handle_task: TRANSFER and
   TARBALL; agent stage-in/-out _handle_task_staging: COPY, LINK, MOVE; tmgr
   stage-out _handle_task: TRANSFER) over an abstract file tree
   path -> absent | file | directory(children).  The pipeline model
   (Pipeline.Model) decides a task's fate from the fault flags of its token;
   `staged_tok` / `staged_task` derive those flags from this model.
   Definitions only.  (Path resolution and file content are C11's subject.) *)
From Coq Require Import ZArith List Bool.
From RP Require Import Gen.StatesTables Pipeline.Model.
Import ListNotations.
Open Scope Z_scope.

Inductive kind := KAbsent | KFile | KDir (ch : list Z) | KOdd.   (* KOdd: dangling link etc., never produced here *)
Inductive sact := ACopy | ALink | AMove | ATransfer | ATarball.
Record sdir := mkSD { sd_act : sact; sd_src : Z; sd_tgt : Z }.
Definition tree := list (Z * kind).

Fixpoint get (p : Z) (tr : tree) : kind :=
  match tr with [] => KAbsent | (q, k) :: r => if q =? p then k else get p r end.
Definition set (p : Z) (k : kind) (tr : tree) : tree := (p, k) :: tr.
Definition present (k : kind) : bool := match k with KAbsent => false | _ => true end.
Definition zadd (s : Z) (ch : list Z) : list Z := if zmem s ch then ch else s :: ch.

(* one directive; None: the backend raises *)
Definition apply_sd (tr : tree) (d : sdir) : option tree :=
  let s := sd_src d in let t := sd_tgt d in
  let ks := get s tr in let kt := get t tr in
  match sd_act d with
  | ACopy | ATransfer =>                       (* mkdir -p dirname(t); cp -r s t *)
      match ks, kt with
      | KFile, KAbsent | KFile, KFile => Some (set t KFile tr)
      | KFile, KDir ch => Some (set t (KDir (zadd s ch)) tr)
      | KDir cs, KAbsent => Some (set t (KDir cs) tr)
      | KDir _, KDir ch => Some (set t (KDir (zadd s ch)) tr)
      | _, _ => None                           (* source missing; directory onto a file *)
      end
  | ALink =>                                   (* os.link(s, t): a regular file, a free name *)
      match ks, kt with
      | KFile, KAbsent => Some (set t KFile tr)
      | _, _ => None
      end
  | AMove =>                                   (* shutil.move(s, t) *)
      match ks, kt with
      | KAbsent, _ | KOdd, _ => None
      | _, KAbsent => Some (set s KAbsent (set t ks tr))
      | KFile, KFile => Some (set s KAbsent (set t KFile tr))
      | _, KDir ch => if zmem s ch then None   (* "destination path already exists" *)
                      else Some (set s KAbsent (set t (KDir (s :: ch)) tr))
      | _, _ => None
      end
  | ATarball =>                                (* tmgr stage-in: tar_file.add(source) *)
      if present ks then Some tr else None
  end.

Fixpoint run_sds (tr : tree) (l : list sdir) : option tree :=
  match l with
  | [] => Some tr
  | d :: r => match apply_sd tr d with Some tr' => run_sds tr' r | None => None end
  end.

(* the directives a stager enacts itself *)
Definition actionable (c : comp) (d : sdir) : bool :=
  match c, sd_act d with
  | CTIn, ATransfer | CTIn, ATarball => true
  | CAIn, ACopy | CAIn, ALink | CAIn, AMove => true
  | CAOut, ACopy | CAOut, ALink | CAOut, AMove => true
  | CTOut, ATransfer => true
  | _, _ => false
  end.
Definition is_tar (d : sdir) : bool := match sd_act d with ATarball => true | _ => false end.

(* tmgr stage-in first packs every TARBALL source, then transfers the rest *)
Definition run_stage (c : comp) (tr : tree) (l : list sdir) : option tree :=
  let a := filter (actionable c) l in
  match c with
  | CTIn => if forallb (fun d => present (get (sd_src d) tr)) (filter is_tar a)
            then run_sds tr (filter (fun d => negb (is_tar d)) a) else None
  | _ => run_sds tr a
  end.
Definition stage_ok (c : comp) (tr : tree) (l : list sdir) : bool :=
  match run_stage c tr l with Some _ => true | None => false end.
Definition stage_needed (c : comp) (l : list sdir) : bool :=
  match filter (actionable c) l with [] => false | _ => true end.

Definition in_state (c : comp) : tstate :=
  match c with
  | CTSched => T_TMGR_SCHEDULING_PENDING | CTIn => T_TMGR_STAGING_INPUT_PENDING
  | CA0In | CAIn => T_AGENT_STAGING_INPUT_PENDING | CASched => T_AGENT_SCHEDULING_PENDING
  | CAExec => T_AGENT_EXECUTING_PENDING | CAOut => T_AGENT_STAGING_OUTPUT_PENDING
  | CA0Out | CTOut => T_TMGR_STAGING_OUTPUT_PENDING | COther => T_NEW
  end.

(* the token of a task (exit code 0 where it has run) arriving at stager c
   with the directives l on the tree tr: its staging flags say what the
   staging model says *)
Definition staged_tok (c : comp) (u : Z) (tr : tree) (l : list sdir) : task :=
  let need := stage_needed c l in
  let bad := negb (stage_ok c tr l) in
  let on (d : comp) := comp_eqb c d in
  let ran := match c with CAOut | CA0Out | CTOut => true | _ => false end in
  mkT u (in_state c) (if ran then Some T_DONE else None) false (if ran then Some 0 else None)
      (mkD PKnown (on CTIn && need) (on CAIn && need) (on CAOut && need) (on CTOut && need) false)
      (mkF false (on CTIn && bad) (on CAIn && bad) SStart (XExit 0) false (on CAOut && bad) (on CTOut && bad)).

(* a submitted task whose four staging steps are described by directive
   lists on the trees the stagers will find *)
Record stageplan := mkSP { sp_tr : tree; sp_l : list sdir }.
Definition staged_task (u : Z) (b : pbind) (soe fa fo : bool) (fs : sres) (fx : xres)
  (tin ain aout tout : stageplan) : task :=
  let need c p := stage_needed c (sp_l p) in
  let bad c p := negb (stage_ok c (sp_tr p) (sp_l p)) in
  fresh u (mkD b (need CTIn tin) (need CAIn ain) (need CAOut aout) (need CTOut tout) soe)
          (mkF fa (bad CTIn tin) (bad CAIn ain) fs fx fo (bad CAOut aout) (bad CTOut tout)).
