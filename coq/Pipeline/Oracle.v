(* C05 -- boolean checkers applied to the IMPLEMENTATION's observed emissions,
   and the rows evaluated by the harness:
     [model agrees with the observation; clause1; clause2; ...].          *)
From Coq Require Import ZArith List Bool.
From RP Require Import Common.Eqb Gen.StatesTables Pipeline.Model Pipeline.Stage.
Import ListNotations.
Open Scope Z_scope.

(* ---------------- observations ---------------- *)
Inductive oemi :=
| OPub (u : Z) (s : tstate) (tgt : option tstate) (exc : bool) (ex : option Z) (full : bool)
| OPush (u : Z) (s : tstate) (tgt : option tstate) (exc : bool) (ex : option Z) (dst : comp)
| OUnsched (u : Z).

Inductive oret := ROk | RStopped | RRaised.

(* a state-only publication shows uid, type and state and nothing else *)
Definition view (e : emi) : oemi :=
  match e with
  | Pub true t => OPub (t_uid t) (t_st t) (t_tgt t) (t_exc t) (t_exit t) true
  | Pub false t => OPub (t_uid t) (t_st t) None false None false
  | Push d t => OPush (t_uid t) (t_st t) (t_tgt t) (t_exc t) (t_exit t) d
  | Unsched u => OUnsched u
  end.

Definition otst_eqb := eqb_option tstate_beq.
Definition oz_eqb := eqb_option Z.eqb.

Definition oemi_eqb (a b : oemi) : bool :=
  match a, b with
  | OPub u s g x e f, OPub u' s' g' x' e' f' =>
      (u =? u') && tstate_beq s s' && otst_eqb g g' && Bool.eqb x x' && oz_eqb e e' && Bool.eqb f f'
  | OPush u s g x e d, OPush u' s' g' x' e' d' =>
      (u =? u') && tstate_beq s s' && otst_eqb g g' && Bool.eqb x x' && oz_eqb e e' && comp_eqb d d'
  | OUnsched u, OUnsched u' => u =? u'
  | _, _ => false
  end.

Definition oret_ok (r : oret) : bool := match r with ROk => true | _ => false end.

Definition zlist_eqb := eqb_list Z.eqb.
Definition zsubset (a b : list Z) : bool := forallb (fun x => zmem x b) a.
Definition zsame (a b : list Z) : bool :=
  zsubset a b && zsubset b a && (length a =? length b)%nat.

(* ---------------- what the observation says about one task ---------------- *)
Definition opushed (u : Z) (l : list oemi) : nat :=
  length (filter (fun e => match e with OPush v _ _ _ _ _ => v =? u | _ => false end) l).
(* final publications: (state, exception recorded, exit code, full) *)
Definition ofinals (u : Z) (l : list oemi) : list (tstate * bool * option Z * bool) :=
  flat_map (fun e => match e with
                     | OPub v s _ x e f => if (v =? u) && is_final s then [(s, x, e, f)] else []
                     | _ => [] end) l.
Definition ofinal_states (u : Z) (l : list oemi) : list tstate :=
  map (fun q => fst (fst (fst q))) (ofinals u l).
Definition has_state (s : tstate) (l : list tstate) : bool := existsb (tstate_beq s) l.

(* ---------------- clauses for one delivery to one component ---------------- *)

(* the component survives: work_cb returns True and nothing escapes it *)
Definition ok_survives (r : oret) : bool := oret_ok r.

(* no task of the bulk is lost: handed on, final, or (scheduler only) kept *)
Definition ok_accounted (B : list task) (oheld : list Z) (l : list oemi) : bool :=
  forallb (fun t => let u := t_uid t in
                    (Nat.leb 1 (opushed u l) || negb (match ofinals u l with [] => true | _ => false end)
                     || zmem u oheld)
                    && Nat.leb (opushed u l) 1) B
  && forallb (fun e => match e with
                       | OPush v _ _ _ _ _ => existsb (fun t => t_uid t =? v) B
                       | _ => true end) l.

(* a task is never both declared final and handed on *)
Definition ok_final_xor_forward (B : list task) (l : list oemi) : bool :=
  forallb (fun t => let u := t_uid t in
                    negb (Nat.leb 1 (opushed u l)
                          && negb (match ofinals u l with [] => true | _ => false end))) B.

Definition exec_failed (x : xres) : bool :=
  match x with XExit c => negb (c =? 0) | XNoLauncher | XLaunchErr => true | _ => false end.

(* a fault of the task's own, at this component *)
Definition own_fault (c : comp) (t : task) : bool :=
  match c with
  | CTSched => f_assign (t_f t)
  | CTIn => d_tin (t_d t) && f_tin (t_f t)
  | CAIn => d_ain (t_d t) && f_ain (t_f t)
  | CASched => match f_sched (t_f t) with SFail => true | _ => false end
  | CAExec => match f_exec (t_f t) with XNoLauncher | XLaunchErr => true | _ => false end
  | CAOut => f_stdio (t_f t) || (d_aout (t_d t) && f_aout (t_f t))
             || match t_tgt t with None => true | _ => false end
  | CTOut => (d_tout (t_d t) && f_tout (t_f t)) || tgt_is t T_FAILED
             || match t_tgt t with None => true | _ => false end
  | _ => false
  end.

(* FAILED is published only for tasks with a fault of their own, unless the
   fault was a bulk-level one (bf) -- an error while handling one task does
   not fail another *)
Definition ok_no_bystander (c : comp) (bf : bool) (B : list task) (l : list oemi) : bool :=
  forallb (fun t => negb (has_state T_FAILED (ofinal_states (t_uid t) l))
                    || bf || own_fault c t
                    || (match c with CTOut => to_raises B | _ => false end)) B.

(* FAILED comes with the whole task and with an exception or a non-zero exit code *)
Definition ok_failure_recorded (l : list oemi) : bool :=
  forallb (fun e => match e with
                    | OPub _ s _ x ex f =>
                        negb (tstate_beq s T_FAILED)
                        || (f && (x || match ex with Some c => negb (c =? 0) | None => false end))
                    | _ => true end) l.

(* CANCELED only on request *)
Definition ok_cancel_requested (c : comp) (cl : list Z) (B : list task) (l : list oemi) : bool :=
  forallb (fun t =>
    let u := t_uid t in
    (negb (has_state T_CANCELED (ofinal_states u l))
     || zmem u cl
     || match c, f_sched (t_f t) with CASched, SCancel => true | _, _ => false end
     || match c with CTOut => tgt_is t T_CANCELED | _ => false end)
    && forallb (fun e => match e, c with
                         | OPush v _ (Some T_CANCELED) _ _ _, CAExec =>
                             negb (v =? u) || match f_exec (t_f t) with XCancel | XTimeout => true | _ => false end
                         | _, _ => true end) l) B.

(* DONE only for exit code 0 with all staging succeeded; the executor's
   target_state tells the exit code *)
Definition ok_done_truthful (c : comp) (B : list task) (l : list oemi) : bool :=
  forallb (fun t =>
    let u := t_uid t in
    (negb (has_state T_DONE (ofinal_states u l))
     || match c with
        | CTOut => tgt_is t T_DONE && oz_eqb (t_exit t) (Some 0)
                   && negb (d_tout (t_d t) && f_tout (t_f t))
        | _ => false end)
    && forallb (fun e => match e, c with
                         | OPush v _ g _ ex _, CAExec =>
                             negb (v =? u)
                             || match f_exec (t_f t) with
                                | XExit k => otst_eqb g (Some (if k =? 0 then T_DONE else T_FAILED))
                                             && oz_eqb ex (Some k)
                                | XCancel | XTimeout => otst_eqb g (Some T_CANCELED)
                                | _ => false end
                         | _, _ => true end) l) B.

Fixpoint all_same (l : list tstate) : bool :=
  match l with
  | a :: ((b :: _) as r) => tstate_beq a b && all_same r
  | _ => true
  end.
Definition ok_finals_agree (B : list task) (l : list oemi) : bool :=
  forallb (fun t => all_same (ofinal_states (t_uid t) l)) B.

(* the executor releases the slots of every task it receives exactly once;
   no other station releases anything *)
Definition ounsched (u : Z) (l : list oemi) : nat :=
  length (filter (fun e => match e with OUnsched v => v =? u | _ => false end) l).
Definition ok_released_once (c : comp) (B : list task) (l : list oemi) : bool :=
  forallb (fun t => Nat.eqb (ounsched (t_uid t) l) (match c with CAExec => 1%nat | _ => O end)) B
  && forallb (fun e => match e with
                       | OUnsched v => existsb (fun t => t_uid t =? v) B
                       | _ => true end) l.

Definition clauses_comp (c : comp) (bf : bool) (cl : list Z) (B : list task)
  (ret : oret) (l : list oemi) (oheld : list Z) : list bool :=
  [ ok_survives ret; ok_accounted B oheld l; ok_final_xor_forward B l;
    ok_no_bystander c bf B l; ok_failure_recorded l; ok_cancel_requested c cl B l;
    ok_done_truthful c B l; ok_finals_agree B l; ok_released_once c B l ].

Definition c05_comp_row (c : comp) (P : params) (bf : bool) (cl : list Z) (B : list task)
  (ret : oret) (l : list oemi) (oheld ocl : list Z) : list bool :=
  let '(cl', es) := work_cb c P cl B bf in
  (eqb_list oemi_eqb (map view es) l && zlist_eqb cl' ocl
   && zsame (held c P cl B bf) oheld && oret_ok ret)
  :: clauses_comp c bf cl B ret l oheld ++ [true; true].

(* work_cb around the synthetic worker *)
Definition c05_generic_row (k : nat) (bf : bool) (cl : list Z) (B : list task)
  (ret : oret) (l : list oemi) (ocl : list Z) : list bool :=
  let '(cl', es) := generic_cb k cl B bf in
  (eqb_list oemi_eqb (map view es) l && zlist_eqb cl' ocl && oret_ok ret)
  :: clauses_comp COther bf cl B ret l (map t_uid B) ++ [true; true].

(* raptor Master._result_cb: target_state tells the exit code *)
Definition ok_raptor (B : list task) (l : list oemi) : bool :=
  forallb (fun t =>
    forallb (fun e => match e with
                      | OPush v _ g _ _ _ =>
                          negb (v =? t_uid t)
                          || match t_tgt t with
                             | Some s => otst_eqb g (Some s)
                             | None => otst_eqb g (Some (match t_exit t with
                                                         | Some 0 => T_DONE | _ => T_FAILED end))
                             end
                      | _ => true end) l) B.
Definition c05_raptor_row (B : list task) (ret : oret) (l : list oemi) : list bool :=
  [ eqb_list oemi_eqb (map view (raptor_result_cb B)) l && oret_ok ret;
    ok_survives ret; ok_accounted B [] l; ok_final_xor_forward B l; true; true; true;
    ok_raptor B l; ok_finals_agree B l; true; true; true ].

(* ---------------- the whole pipeline ---------------- *)
Definition any_fault (t : task) : bool :=
  let d := t_d t in let f := t_f t in
  f_assign f || (d_tin d && f_tin f) || (d_ain d && f_ain f)
  || match f_sched f with SStart => false | _ => true end
  || f_stdio f || (d_aout d && f_aout f) || (d_tout d && f_tout f).

Definition exit0 (x : xres) : bool := match x with XExit c => c =? 0 | _ => false end.
Definition exec_canceled (x : xres) : bool := match x with XCancel | XTimeout => true | _ => false end.

(* does final state s tell the truth about task t0?
   creq: cancellation of t0 was requested; bulkf: a bulk-level fault
   (exception in a work routine outside any per-task handling) was injected *)
Definition truthful (t0 : task) (creq bulkf : bool) (s : tstate) : bool :=
  match s with
  | T_DONE => exit0 (f_exec (t_f t0)) && negb (any_fault t0)
  | T_FAILED => bulkf || any_fault t0 || exec_failed (f_exec (t_f t0))
  | T_CANCELED => creq || exec_canceled (f_exec (t_f t0))
                  || match f_sched (t_f t0) with SCancel => true | _ => false end
  | _ => false
  end.

Definition ev_cancels (u : Z) (evs : list event) : bool :=
  existsb (fun e => match e with ECancel _ v => v =? u | _ => false end) evs.
Definition ev_bulkf (evs : list event) : bool :=
  existsb (fun e => match e with EDeliver _ _ bf => bf | _ => false end) evs.

(* emissions of every step of a run *)
Fixpoint run_steps (P : params) (g : config) (evs : list event) : list (list emi) * config :=
  match evs with
  | [] => ([], g)
  | ev :: r =>
      let g' := step P g ev in
      let new := skipn (length (tr g)) (tr g') in
      let '(l, gf) := run_steps P g' r in
      (match ev with EDeliver _ _ _ => new :: l | ECancel _ _ => l end, gf)
  end.

(* one final state that tells the truth, for every task no longer queued *)
Definition ok_one_final (W : list task) (left : list Z) (l : list oemi) : bool :=
  forallb (fun t => zmem (t_uid t) left
                    || negb (match ofinals (t_uid t) l with [] => true | _ => false end)) W.
Definition ok_truthful (s0 : tstate) (W : list task) (evs : list event) (l : list oemi) : bool :=
  forallb (fun t => forallb (fun s => negb (tstate_beq s s0)
                                      || truthful t (ev_cancels (t_uid t) evs) (ev_bulkf evs) s)
                            (ofinal_states (t_uid t) l)) W.
Definition ok_final_not_queued (W : list task) (left : list Z) (l : list oemi) : bool :=
  forallb (fun t => negb (zmem (t_uid t) left)
                    || match ofinals (t_uid t) l with [] => true | _ => false end) W.

Definition c05_pipe_row (P : params) (W : list task) (evs : list event)
  (osteps : list (oret * list oemi)) (oleft : list Z) : list bool :=
  let '(ms, gf) := run_steps P (init W) evs in
  let l := concat (map snd osteps) in
  [ eqb_list (eqb_list oemi_eqb) (map (map view) ms) (map snd osteps)
    && zsame (map (fun p => t_uid (snd p)) (toks gf)) oleft
    && forallb (fun o => oret_ok (fst o)) osteps;
    forallb (fun o => oret_ok (fst o)) osteps;
    ok_one_final W oleft l;
    ok_final_not_queued W oleft l;
    ok_truthful T_FAILED W evs l;
    ok_failure_recorded l;
    ok_truthful T_CANCELED W evs l;
    ok_truthful T_DONE W evs l;
    ok_finals_agree W l;
    (* a task is released at most once along its way (exactly once if it got to the executor) *)
    forallb (fun t => Nat.leb (ounsched (t_uid t) l) 1) W; true; true ].

(* ---------------- real staging: one bulk through one real stager ----------------
   RT: per task (uid, file tree, directives); per: what the scratch tree looks
   like afterwards and whether every enacted directive left a real copy /
   link / the moved source at its target *)
Definition kind_eqb (a b : kind) : bool :=
  match a, b with
  | KAbsent, KAbsent | KFile, KFile | KOdd, KOdd => true
  | KDir x, KDir y => zsame x y
  | _, _ => false
  end.

(* the tree where the stager stops: after the last directive, or at the failing one *)
Fixpoint run_sds_partial (tr : tree) (l : list sdir) : tree :=
  match l with
  | [] => tr
  | d :: r => match apply_sd tr d with Some tr' => run_sds_partial tr' r | None => tr end
  end.
Definition stage_partial (c : comp) (tr : tree) (l : list sdir) : tree :=
  let a := filter (actionable c) l in
  match c with
  | CTIn => if forallb (fun d => present (get (sd_src d) tr)) (filter is_tar a)
            then run_sds_partial tr (filter (fun d => negb (is_tar d)) a) else tr
  | _ => run_sds_partial tr a
  end.

Definition realtask := (Z * tree * list sdir)%type.
Definition realobs := (Z * list (Z * kind) * bool)%type.

Definition tree_agrees (c : comp) (RT : list realtask) (o : realobs) : bool :=
  let '(u, ot, _) := o in
  existsb (fun rt => let '(v, tr, l) := rt in
                     (v =? u) && forallb (fun pk => kind_eqb (get (fst pk) (stage_partial c tr l)) (snd pk)) ot) RT.

(* a task is handed on only if every one of its directives could succeed:
   every source was there when its directive was enacted *)
Definition ok_staging_truthful (c : comp) (RT : list realtask) (l : list oemi) : bool :=
  forallb (fun rt => let '(u, tr, sds) := rt in
                     negb (Nat.leb 1 (opushed u l)) || stage_ok c tr sds) RT.
(* ... and then every target is really there: a copy, a hard link, the moved source *)
Definition ok_staged_data_present (per : list realobs) (l : list oemi) : bool :=
  forallb (fun o => let '(u, ot, post) := o in
                    negb (Nat.leb 1 (opushed u l))
                    || (post && forallb (fun pk => negb (kind_eqb (snd pk) KOdd)) ot)) per.

Definition c05_real_row (c : comp) (RT : list realtask) (ret : oret) (l : list oemi)
  (per : list realobs) : list bool :=
  let B := map (fun rt : realtask => let '(u, tr, sds) := rt in staged_tok c u tr sds) RT in
  let '(cl', es) := work_cb c (mkP false 0) [] B false in
  (eqb_list oemi_eqb (map view es) l && oret_ok ret && forallb (tree_agrees c RT) per
   && (length per =? length RT)%nat)
  :: clauses_comp c false [] B ret l [] ++ [ok_staging_truthful c RT l; ok_staged_data_present per l].
