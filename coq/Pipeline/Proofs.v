From Coq Require Import ZArith List Bool Lia.
From RP Require Import Gen.StatesTables Pipeline.Model Pipeline.Oracle.
Import ListNotations.
Open Scope Z_scope.

Lemma run_app P g a b : run P g (a ++ b) = run P (run P g a) b.
Proof. unfold run. apply fold_left_app. Qed.
