(* C05 -- proofs about the pipeline model.
   Part A: what a station lets the outside see about task u is a function of
           u's own token, of whether u is on the station's cancel list, and
           of whether a bulk-level exception escaped the worker (work_cb_proj).
   Part B: one canonical token through one station (single_step).
   Part C: the invariant of the network over every delivery schedule.
   Part D: the client (TaskManager._update_tasks, States model) under every
           delivery order of the notifications.
   Part E: progress. *)
From Coq Require Import ZArith List Bool Lia.
From RP Require Import Gen.StatesTables Pipeline.Model Pipeline.Oracle.
Import ListNotations.
Open Scope Z_scope.

(* ------------------------------------------------------------------ *)
(* Part A                                                               *)
(* ------------------------------------------------------------------ *)
Definition proj (u : Z) (es : list emi) : list emi := filter (fun e => emi_uid e =? u) es.
Definition only (u : Z) (B : list task) : list task := filter (fun t => t_uid t =? u) B.
Definition local (ph : phase) : Prop := forall t e, In e (ph t) -> emi_uid e = t_uid t.

Lemma proj_app u a b : proj u (a ++ b) = proj u a ++ proj u b.
Proof. apply filter_app. Qed.

Lemma proj_all u es : (forall e, In e es -> emi_uid e = u) -> proj u es = es.
Proof.
  induction es as [|e r IH]; intro H; simpl; [reflexivity|].
  rewrite (H e (or_introl eq_refl)), Z.eqb_refl. f_equal. apply IH. intros; apply H; right; assumption.
Qed.

Lemma proj_none u es : (forall e, In e es -> emi_uid e <> u) -> proj u es = [].
Proof.
  induction es as [|e r IH]; intro H; simpl; [reflexivity|].
  destruct (emi_uid e =? u) eqn:E.
  - apply Z.eqb_eq in E. exfalso. exact (H e (or_introl eq_refl) E).
  - apply IH. intros; apply H; right; assumption.
Qed.

Lemma proj_flat_map u (g : phase) B : local g -> proj u (flat_map g B) = flat_map g (only u B).
Proof.
  intro Hl. induction B as [|a r IH]; simpl; [reflexivity|].
  rewrite proj_app, IH. destruct (t_uid a =? u) eqn:E; simpl.
  - apply Z.eqb_eq in E. rewrite proj_all; [reflexivity|]. intros e He. rewrite (Hl _ _ He). exact E.
  - apply Z.eqb_neq in E. rewrite proj_none; [reflexivity|]. intros e He. rewrite (Hl _ _ He). exact E.
Qed.

Lemma proj_run_phases u ps B :
  (forall ph, In ph ps -> local ph) -> proj u (run_phases ps B) = run_phases ps (only u B).
Proof.
  unfold run_phases. induction ps as [|ph r IH]; intro H; simpl; [reflexivity|].
  rewrite proj_app, proj_flat_map by (apply H; left; reflexivity).
  rewrite IH by (intros; apply H; right; assumption). reflexivity.
Qed.

Ltac local_tac :=
  let t := fresh "t" in let e := fresh "e" in let He := fresh "He" in
  intros t e He; cbn in He;
  repeat match type of He with
         | context [match ?x with _ => _ end] => destruct x; cbn in He
         end;
  repeat (destruct He as [He|He]; [subst e; reflexivity|]); try contradiction.

Lemma phases_local c P ph : In ph (pre_ph c P ++ post_ph c P) -> local ph.
Proof.
  destruct c; cbn; intro H;
    repeat (destruct H as [H|H]; [subst ph; unfold local, fwd, bind_is, tgt_is; local_tac|]);
    try contradiction.
Qed.

Lemma zmem_remove_other u v cl : u <> v -> zmem u (zremove1 v cl) = zmem u cl.
Proof.
  intro H. induction cl as [|x r IH]; simpl; [reflexivity|].
  destruct (x =? v) eqn:E.
  - apply Z.eqb_eq in E. subst x. replace (v =? u) with false by (symmetry; apply Z.eqb_neq; congruence).
    reflexivity.
  - simpl. rewrite IH. reflexivity.
Qed.

Lemma zmem_remove_sub u v cl : zmem u (zremove1 v cl) = true -> zmem u cl = true.
Proof.
  induction cl as [|x r IH]; simpl; [auto|].
  destruct (x =? v) eqn:E; simpl.
  - intro H. rewrite H. apply orb_true_r.
  - intro H. apply orb_true_iff in H as [H|H]; [rewrite H; reflexivity|].
    rewrite (IH H). apply orb_true_r.
Qed.

Lemma intake_sub B : forall cl cl' K e0, intake cl B = (cl', K, e0) ->
  (forall t, In t K -> In t B) /\ (forall e, In e e0 -> exists t, In t B /\ e = pubf (cancel t))
  /\ (forall u, zmem u cl' = true -> zmem u cl = true).
Proof.
  induction B as [|a r IH]; intros cl cl' K e0 H; simpl in H.
  - injection H as <- <- <-. split; [|split]; intros; try contradiction; assumption.
  - destruct (zmem (t_uid a) cl) eqn:E.
    + destruct (intake (zremove1 (t_uid a) cl) r) as [[c1 k1] e1] eqn:R. injection H as <- <- <-.
      destruct (IH _ _ _ _ R) as (A & Bq & C). split; [|split].
      * intros t Ht. right. apply A. exact Ht.
      * intros e [<-|He]; [exists a; split; [left; reflexivity|reflexivity]|].
        destruct (Bq e He) as (t & Ht & ->). exists t. split; [right; exact Ht|reflexivity].
      * intros u Hu. apply (zmem_remove_sub u (t_uid a)). apply C. exact Hu.
    + destruct (intake cl r) as [[c1 k1] e1] eqn:R. injection H as <- <- <-.
      destruct (IH _ _ _ _ R) as (A & Bq & C). split; [|split].
      * intros t [<-|Ht]; [left; reflexivity|right; apply A; exact Ht].
      * intros e He. destruct (Bq e He) as (t & Ht & ->). exists t. split; [right; exact Ht|reflexivity].
      * exact C.
Qed.

Lemma only_nil_notin u B : ~ In u (map t_uid B) -> only u B = [].
Proof.
  induction B as [|a r IH]; simpl; intro H; [reflexivity|].
  destruct (t_uid a =? u) eqn:E.
  - apply Z.eqb_eq in E. exfalso. apply H. left. exact E.
  - apply IH. intro K. apply H. right. exact K.
Qed.

Lemma intake_nil u B : forall cl cl' K e0, intake cl B = (cl', K, e0) -> only u B = [] ->
  only u K = [] /\ proj u e0 = [].
Proof.
  intros cl cl' K e0 H Hn. destruct (intake_sub _ _ _ _ _ H) as (A & Bq & _).
  assert (Hno : forall t, In t B -> t_uid t <> u).
  { intros t Ht E. assert (In t (only u B)) by (apply filter_In; split; [exact Ht|apply Z.eqb_eq; exact E]).
    rewrite Hn in H0. contradiction. }
  clear H. split.
  - unfold only. clear Bq. induction K as [|k r IH]; simpl; [reflexivity|].
    replace (t_uid k =? u) with false.
    + apply IH. intros t Ht. apply A. right. exact Ht.
    + symmetry. apply Z.eqb_neq. apply Hno. apply A. left. reflexivity.
  - apply proj_none. intros e He. destruct (Bq e He) as (t & Ht & ->). simpl. apply Hno. exact Ht.
Qed.

(* the cancel filter, seen from task u *)
Lemma intake_proj u B : forall cl cl' K e0, NoDup (map t_uid B) -> intake cl B = (cl', K, e0) ->
  only u K = (if zmem u cl then [] else only u B) /\
  proj u e0 = (if zmem u cl then map (fun t => pubf (cancel t)) (only u B) else []).
Proof.
  induction B as [|a r IH]; intros cl cl' K e0 Hnd H; simpl in H.
  - injection H as <- <- <-. simpl. destruct (zmem u cl); split; reflexivity.
  - inversion Hnd as [|? ? Hna Hnr]; subst.
    destruct (zmem (t_uid a) cl) eqn:E.
    + destruct (intake (zremove1 (t_uid a) cl) r) as [[c1 k1] e1] eqn:R. injection H as <- <- <-.
      simpl. destruct (t_uid a =? u) eqn:Eu.
      * apply Z.eqb_eq in Eu. subst u. rewrite E.
        destruct (intake_nil (t_uid a) r _ _ _ _ R (only_nil_notin _ _ Hna)) as [A Bq].
        rewrite A, Bq, (only_nil_notin _ _ Hna). split; reflexivity.
      * apply Z.eqb_neq in Eu. destruct (IH _ _ _ _ Hnr R) as [A Bq].
        rewrite zmem_remove_other in A, Bq by congruence. split; assumption.
    + destruct (intake cl r) as [[c1 k1] e1] eqn:R. injection H as <- <- <-.
      destruct (IH _ _ _ _ Hnr R) as [A Bq]. simpl. destruct (t_uid a =? u) eqn:Eu.
      * apply Z.eqb_eq in Eu. subst u. rewrite E in *. rewrite A. split; [reflexivity|exact Bq].
      * split; assumption.
Qed.

Lemma proj_map_local u (g : task -> emi) B :
  (forall t, emi_uid (g t) = t_uid t) -> proj u (map g B) = map g (only u B).
Proof.
  intro H. induction B as [|a r IH]; simpl; [reflexivity|].
  rewrite H. destruct (t_uid a =? u); simpl; rewrite IH; reflexivity.
Qed.

Lemma run_phases_app a b B : run_phases (a ++ b) B = run_phases a B ++ run_phases b B.
Proof. unfold run_phases. apply flat_map_app. Qed.

Lemma run_phases_nil ps : run_phases ps [] = [].
Proof. unfold run_phases. induction ps; simpl; auto. Qed.

Definition kept (cl : list Z) (B : list task) : list task := snd (fst (intake cl B)).

(* what station c lets the outside see about task u *)
Lemma proj_rel_em u rel e0 : proj u (rel_em rel e0) = rel_em rel (proj u e0).
Proof.
  unfold rel_em. induction e0 as [|e r IH]; simpl; [reflexivity|].
  destruct (emi_uid e =? u) eqn:E; simpl.
  - rewrite <- IH. destruct rel; simpl; [rewrite E|]; reflexivity.
  - destruct rel; simpl; [rewrite E|]; exact IH.
Qed.

Definition seen (c : comp) (P : params) (canceled raised : bool) (L : list task) : list emi :=
  if canceled then rel_em (releases c) (map (fun t => pubf (cancel t)) L)
  else run_phases (pre_ph c P) L
       ++ (if raised then map (fun t => pubf (fail t)) L else run_phases (post_ph c P) L).

Theorem work_cb_proj c P cl B bf u :
  NoDup (map t_uid B) ->
  proj u (snd (work_cb c P cl B bf))
  = seen c P (zmem u cl) (raises c P bf (kept cl B)) (only u B).
Proof.
  intro Hnd. unfold work_cb, kept, seen, worker.
  destruct (intake cl B) as [[cl' K] e0] eqn:R. simpl.
  destruct (intake_proj u B _ _ _ _ Hnd R) as [A Bq].
  assert (Hpre : forall ph, In ph (pre_ph c P) -> local ph)
    by (intros; apply (phases_local c P); apply in_or_app; left; assumption).
  assert (Hpost : forall ph, In ph (post_ph c P) -> local ph)
    by (intros; apply (phases_local c P); apply in_or_app; right; assumption).
  destruct (raises c P bf K); simpl; rewrite !proj_app, proj_rel_em, Bq, proj_run_phases by assumption.
  - rewrite proj_map_local by reflexivity. rewrite A.
    destruct (zmem u cl); simpl.
    + rewrite !run_phases_nil. simpl. rewrite ?app_nil_r. reflexivity.
    + rewrite <- ?app_assoc. reflexivity.
  - rewrite proj_run_phases by assumption. rewrite A.
    destruct (zmem u cl); simpl.
    + rewrite !run_phases_nil. simpl. rewrite ?app_nil_r. reflexivity.
    + rewrite ?app_nil_r. reflexivity.
Qed.

(* nothing is emitted about tasks that are not in the bulk *)
Corollary work_cb_silent c P cl B bf u :
  NoDup (map t_uid B) -> only u B = [] -> proj u (snd (work_cb c P cl B bf)) = [].
Proof.
  intros Hnd Hn. rewrite work_cb_proj by assumption. rewrite Hn. unfold seen.
  destruct (zmem u cl); [reflexivity|]. rewrite !run_phases_nil. destruct (raises c P bf (kept cl B)); reflexivity.
Qed.

(* ------------------------------------------------------------------ *)
(* Part B                                                               *)
(* ------------------------------------------------------------------ *)
Definition next (c : comp) : comp :=
  match c with
  | CTSched => CTIn | CTIn => CA0In | CA0In => CAIn | CAIn => CASched | CASched => CAExec
  | CAExec => CAOut | CAOut => CA0Out | CA0Out => CTOut | CTOut => COther | COther => COther
  end.

(* the token as the executor hands it on *)
Definition exec_tok (t0 : task) : task :=
  match f_exec (t_f t0) with XExit k => exited t0 k | _ => xcanceled t0 end.

(* the token of t0 as it arrives at station c *)
Definition canon (c : comp) (t0 : task) : task :=
  match c with
  | CTSched | COther => t0
  | CTIn => set_st t0 T_TMGR_STAGING_INPUT_PENDING
  | CA0In | CAIn => set_st t0 T_AGENT_STAGING_INPUT_PENDING
  | CASched => set_st t0 T_AGENT_SCHEDULING_PENDING
  | CAExec => set_st t0 T_AGENT_EXECUTING_PENDING
  | CAOut => exec_tok t0
  | CA0Out | CTOut => set_st (exec_tok t0) T_TMGR_STAGING_OUTPUT_PENDING
  end.

(* no fault of t0 fires before station c *)
Definition reach (c : comp) (t0 : task) : bool :=
  let d := t_d t0 in let f := t_f t0 in
  let r0 := negb (bind_is PUnknown t0) in
  let r1 := r0 && negb (f_assign f) in
  let r2 := r1 && negb (d_tin d && f_tin f) in
  let r3 := r2 && negb (d_ain d && f_ain f) in
  let r4 := r3 && match f_sched f with SStart => true | _ => false end in
  let r5 := r4 && match f_exec f with XExit _ | XCancel | XTimeout => true | _ => false end in
  let r6 := r5 && match ao_cls (exec_tok t0) with
                  | AOFail => false | AOPass => true | AOStage => negb (f_aout f) end in
  match c with
  | CTSched => r0 | CTIn => r1 | CA0In | CAIn => r2 | CASched => r3 | CAExec => r4
  | CAOut => r5 | CA0Out | CTOut => r6 | COther => false
  end.

Definition fin_sts (u : Z) (es : list emi) : list tstate := map t_st (final_pubs u es).

(* no fault of t0 fires AT station c (the last station ends every task) *)
Definition ok_at (c : comp) (t0 : task) : bool :=
  let d := t_d t0 in let f := t_f t0 in
  match c with
  | CTSched => negb (f_assign f)
  | CTIn => negb (d_tin d && f_tin f)
  | CAIn => negb (d_ain d && f_ain f)
  | CASched => match f_sched f with SStart => true | _ => false end
  | CAExec => match f_exec f with XExit _ | XCancel | XTimeout => true | _ => false end
  | CAOut => match ao_cls (exec_tok t0) with
             | AOFail => false | AOPass => true | AOStage => negb (f_aout f) end
  | CA0In | CA0Out => true
  | CTOut | COther => false
  end.

Lemma reach_next c t0 : c <> CTOut -> c <> COther -> reach (next c) t0 = reach c t0 && ok_at c t0.
Proof.
  intros H1 H2. destruct c; try congruence; unfold reach, ok_at, next; cbv zeta;
    rewrite ?andb_true_r; reflexivity.
Qed.

(* the final state a station gives a task it does not hand on *)
Definition final_at (c : comp) (t0 : task) : tstate :=
  match c with
  | CASched => match f_sched (t_f t0) with SCancel => T_CANCELED | _ => T_FAILED end
  | CTOut => match f_exec (t_f t0) with
             | XExit k => if k =? 0 then (if d_tout (t_d t0) && f_tout (t_f t0) then T_FAILED else T_DONE)
                          else T_FAILED
             | _ => T_CANCELED end
  | _ => T_FAILED
  end.

Ltac scase :=
  repeat (cbn; unfold exec_tok, ao_cls, to_cls, tgt_is, bind_is, fresh; cbn; rewrite ?Z.eqb_refl; cbn;
          first [ match goal with
                  | |- context [match ?x with _ => _ end] => is_var x; destruct x
                  | |- context [?k =? 0] => is_var k; destruct (k =? 0) eqn:?
                  end ]).

(* structure of what one station emits for one canonical token *)
Lemma seen_structure c thr u d f :
  let t0 := fresh u d f in
  bind_is PUnknown t0 = false ->
  c <> COther ->
  (match f_exec f with XExit _ | XCancel | XTimeout => True | _ => c <> CAOut /\ c <> CA0Out /\ c <> CTOut end) ->
  let es := seen c (mkP true thr) false false [canon c t0] in
  if ok_at c t0
  then pushes es = [(next c, canon (next c) t0)] /\ fin_sts u es = []
  else pushes es = [] /\ (fin_sts u es = [final_at c t0] \/ fin_sts u es = [final_at c t0; final_at c t0]).
Proof.
  intros t0 Hb Hc Hx es. subst t0 es.
  destruct d as [b tin ain aout tout soe]. destruct f as [fa ft fn fs fx fo fu fv].
  unfold fin_sts, seen.
  destruct c; try congruence; clear Hc.
  - (* CTSched *) destruct b; try discriminate; destruct fa; cbn; rewrite ?Z.eqb_refl; cbn; auto.
  - (* CTIn *) destruct tin, ft; cbn; rewrite ?Z.eqb_refl; cbn; auto.
  - (* CA0In *) cbn; auto.
  - (* CAIn *) destruct ain, fn; cbn; rewrite ?Z.eqb_refl; cbn; auto.
  - (* CASched *) destruct fs; cbn; rewrite ?Z.eqb_refl; cbn; auto.
  - (* CAExec *) destruct fx; cbn; rewrite ?Z.eqb_refl; cbn; auto.
  - (* CAOut *)
    destruct fx as [k| | | |]; try (exfalso; tauto); clear Hx; unfold exec_tok, ao_cls, tgt_is, exited, xcanceled; cbn;
      try (destruct (k =? 0) eqn:E); destruct fo, soe, aout, fu; cbn; rewrite ?E; cbn;
      rewrite ?Z.eqb_refl; cbn; auto.
  - (* CA0Out *)
    destruct fx as [k| | | |]; try (exfalso; tauto); cbn; auto.
  - (* CTOut *)
    destruct fx as [k| | | |]; try (exfalso; tauto); clear Hx; unfold exec_tok, to_cls, tgt_is, exited, xcanceled; cbn;
      try (destruct (k =? 0) eqn:E); destruct tout, fv; cbn; rewrite ?E; cbn;
      rewrite ?Z.eqb_refl; cbn; auto.
Qed.

Lemma truthful_failed_af t0 creq bulkf : any_fault t0 = true -> truthful t0 creq bulkf T_FAILED = true.
Proof. intro H. cbn. rewrite H. rewrite orb_true_r. reflexivity. Qed.
Lemma truthful_failed_x t0 creq bulkf :
  exec_failed (f_exec (t_f t0)) = true -> truthful t0 creq bulkf T_FAILED = true.
Proof. intro H. cbn. rewrite H. apply orb_true_r. Qed.

Ltac ors := repeat (cbn; rewrite ?orb_true_r); try reflexivity.

(* the final state a station gives to a task that reached it tells the truth *)
Lemma final_truthful c u d f creq bulkf :
  let t0 := fresh u d f in
  reach c t0 = true -> ok_at c t0 = false ->
  truthful t0 creq bulkf (final_at c t0) = true.
Proof.
  intros t0 Hr Ho. subst t0.
  destruct d as [b tin ain aout tout soe]. destruct f as [fa ft fn fs fx fo fu fv].
  destruct c; try discriminate.
  - (* CTSched *) cbn in Ho. destruct fa; try discriminate. apply truthful_failed_af. reflexivity.
  - (* CTIn *) cbn in Ho. destruct tin, ft; try discriminate. apply truthful_failed_af. unfold any_fault. ors.
  - (* CAIn *) cbn in Ho. destruct ain, fn; try discriminate. apply truthful_failed_af. unfold any_fault. ors.
  - (* CASched *) cbn in Ho. destruct fs; try discriminate.
    + apply truthful_failed_af. unfold any_fault. ors.
    + cbn. apply orb_true_r.
  - (* CAExec *) cbn in Ho. destruct fx; try discriminate; apply truthful_failed_x; reflexivity.
  - (* CAOut *)
    unfold ok_at, exec_tok, ao_cls, tgt_is in Ho. cbn in Ho.
    destruct fo.
    + apply truthful_failed_af. unfold any_fault. ors.
    + destruct fx as [k| | | |]; cbn in Ho; try (destruct (k =? 0)); cbn in Ho;
        destruct soe, aout, fu; cbn in Ho; try discriminate;
        apply truthful_failed_af; unfold any_fault; ors.
  - (* CTOut *)
    clear Ho. unfold reach in Hr. cbv zeta in Hr. unfold bind_is, exec_tok, ao_cls, tgt_is in Hr. cbn in Hr.
    destruct fx as [k| | | |]; cbn in Hr; rewrite ?andb_false_r in Hr; try discriminate.
    + cbn. destruct (k =? 0) eqn:E.
      * destruct tout, fv; cbn; unfold any_fault; cbn; rewrite ?E; cbn.
        all: destruct b; cbn in Hr; try discriminate.
        all: destruct fa; cbn in Hr; try discriminate.
        all: destruct tin, ft; cbn in Hr; try discriminate.
        all: destruct ain, fn; cbn in Hr; try discriminate.
        all: destruct fs; cbn in Hr; try discriminate.
        all: destruct fo; cbn in Hr; try discriminate.
        all: destruct soe, aout, fu; cbn in Hr; try discriminate; ors.
      * apply truthful_failed_x. cbn. rewrite E. reflexivity.
    + cbn. rewrite orb_true_r. reflexivity.
    + cbn. rewrite orb_true_r. reflexivity.
Qed.

Lemma reach_bind c t0 : reach c t0 = true -> bind_is PUnknown t0 = false.
Proof.
  destruct c; unfold reach; cbv zeta; intro H; try discriminate;
    repeat (apply andb_true_iff in H; destruct H as [H _]); apply negb_true_iff in H; exact H.
Qed.

Lemma reach_exec c t0 : reach c t0 = true ->
  match f_exec (t_f t0) with
  | XExit _ | XCancel | XTimeout => True
  | _ => c <> CAOut /\ c <> CA0Out /\ c <> CTOut end.
Proof.
  intro H. destruct (f_exec (t_f t0)) eqn:E; try exact I; repeat split; intro Hc; subst c;
    unfold reach in H; cbv zeta in H; rewrite E in H; rewrite ?andb_false_r in H; discriminate.
Qed.

Lemma canon_uid c t0 : t_uid (canon c t0) = t_uid t0.
Proof. destruct c; cbn; unfold exec_tok; try destruct (f_exec (t_f t0)); reflexivity. Qed.

Definition handed_on (c : comp) (t0 : task) (es : list emi) : Prop :=
  pushes es = [(next c, canon (next c) t0)] /\ reach (next c) t0 = true /\ fin_sts (t_uid t0) es = [].
Definition finished (t0 : task) (creq bulkf : bool) (es : list emi) : Prop :=
  let fs := fin_sts (t_uid t0) es in
  pushes es = [] /\ fs <> [] /\ forallb (tstate_beq (hd T_NEW fs)) fs = true
  /\ truthful t0 creq bulkf (hd T_NEW fs) = true.

(* one canonical token through one station: handed on intact to the next
   station, or given one truthful final state *)
Lemma single_step c thr u d f canceled raised creq bulkf :
  let t0 := fresh u d f in
  reach c t0 = true ->
  (canceled = true -> creq = true) ->
  (raised = true -> bulkf = true /\ c = CTIn) ->
  let es := seen c (mkP true thr) canceled raised [canon c t0] in
  handed_on c t0 es \/ finished t0 creq bulkf es.
Proof.
  intros t0 Hr Hc Hb es.
  destruct canceled.
  { right. specialize (Hc eq_refl). subst creq es. unfold finished, fin_sts, seen, rel_em.
    destruct (releases c); cbn;
      rewrite canon_uid; cbn; rewrite Z.eqb_refl; cbn; repeat split; try discriminate; reflexivity. }
  destruct raised.
  { right. destruct (Hb eq_refl) as [-> ->]. subst es. unfold finished, fin_sts, seen. cbn.
    rewrite Z.eqb_refl. cbn. repeat split; try discriminate; try reflexivity; try apply orb_true_r. }
  pose proof (seen_structure c thr u d f (reach_bind _ _ Hr)) as S.
  assert (Hc' : c <> COther) by (intro; subst c; discriminate).
  specialize (S Hc' (reach_exec _ _ Hr)). cbv zeta in S. fold t0 in S. fold es in S.
  destruct (ok_at c t0) eqn:Ho.
  - left. destruct S as [S1 S2]. split; [exact S1|]. split; [|exact S2].
    rewrite reach_next; [rewrite Hr, Ho; reflexivity| |exact Hc'].
    intro; subst c; discriminate.
  - right. destruct S as [S1 S2]. unfold finished. split; [exact S1|].
    pose proof (final_truthful c u d f creq bulkf Hr Ho) as T. cbv zeta in T. fold t0 in T.
    change (t_uid t0) with u.
    assert (Hbeq : tstate_beq (final_at c t0) (final_at c t0) = true)
      by (apply internal_tstate_dec_lb; reflexivity).
    destruct S2 as [-> | ->]; cbn; rewrite Hbeq; cbn; repeat split; try discriminate; exact T.
Qed.

(* ------------------------------------------------------------------ *)
(* Part C: the network                                                  *)
(* ------------------------------------------------------------------ *)
Definition quid (u : Z) (l : list (comp * task)) : list (comp * task) :=
  filter (fun p => t_uid (snd p) =? u) l.

Lemma comp_eqb_eq a b : comp_eqb a b = true -> a = b.
Proof. destruct a, b; simpl; intro H; try discriminate; reflexivity. Qed.

Lemma take_spec l : forall n c B r, take n c l = (B, r) ->
  (forall t, In t B -> In (c, t) l) /\ (forall p, In p r -> In p l) /\
  (forall u, only u B = [] -> quid u r = quid u l) /\
  (forall u, length (quid u l) = (length (only u B) + length (quid u r))%nat).
Proof.
  induction l as [|[d t] l IH]; intros n c B r H; simpl in H.
  - injection H as <- <-. repeat split; intros; try contradiction; reflexivity.
  - destruct n.
    + injection H as <- <-. split; [intros; contradiction|]. split; [auto|]. split; reflexivity.
    + destruct (comp_eqb d c) eqn:E.
      * apply comp_eqb_eq in E. subst d.
        destruct (take n c l) as [b r'] eqn:R. injection H as <- <-.
        destruct (IH _ _ _ _ R) as (A & Bq & C & D). split; [|split; [|split]].
        -- intros t' [<-|Ht]; [left; reflexivity|right; apply A; exact Ht].
        -- intros p Hp. right. apply Bq. exact Hp.
        -- intros u Hu. simpl in Hu. simpl. destruct (t_uid t =? u); [discriminate|]. apply C. exact Hu.
        -- intro u. simpl. specialize (D u). destruct (t_uid t =? u); simpl; lia.
      * destruct (take (S n) c l) as [b r'] eqn:R. injection H as <- <-.
        destruct (IH _ _ _ _ R) as (A & Bq & C & D). split; [|split; [|split]].
        -- intros t' Ht. right. apply A. exact Ht.
        -- intros p [<-|Hp]; [left; reflexivity|right; apply Bq; exact Hp].
        -- intros u Hu. simpl. rewrite (C u Hu). reflexivity.
        -- intro u. simpl. specialize (D u). destruct (t_uid t =? u); simpl; lia.
Qed.

Lemma quid_app u a b : quid u (a ++ b) = quid u a ++ quid u b.
Proof. apply filter_app. Qed.

Lemma quid_pushes u es : quid u (pushes es) = pushes (proj u es).
Proof.
  induction es as [|e r IH]; simpl; [reflexivity|].
  destruct e as [fl t|d t|v]; simpl.
  - destruct (t_uid t =? u); simpl; exact IH.
  - destruct (t_uid t =? u); simpl; rewrite IH; reflexivity.
  - destruct (v =? u); simpl; exact IH.
Qed.

Lemma fin_sts_app u a b : fin_sts u (a ++ b) = fin_sts u a ++ fin_sts u b.
Proof. unfold fin_sts, final_pubs. rewrite flat_map_app, map_app. reflexivity. Qed.

Lemma fin_sts_proj u es : fin_sts u es = fin_sts u (proj u es).
Proof.
  unfold fin_sts. induction es as [|e r IH]; simpl; [reflexivity|].
  destruct e as [fl t|d t|v]; simpl.
  - destruct (t_uid t =? u) eqn:E; simpl.
    + rewrite E. simpl. rewrite !map_app, IH. reflexivity.
    + exact IH.
  - destruct (t_uid t =? u); simpl; exact IH.
  - destruct (v =? u); simpl; exact IH.
Qed.

Lemma truthful_mono t0 a b a' b' s :
  (a = true -> a' = true) -> (b = true -> b' = true) ->
  truthful t0 a b s = true -> truthful t0 a' b' s = true.
Proof.
  intros Ha Hb H. destruct s; unfold truthful in *; try assumption.
  - apply orb_true_iff in H as [H|H]; [apply orb_true_iff in H as [H|H]|].
    + rewrite (Hb H). reflexivity.
    + rewrite H, orb_true_r. reflexivity.
    + rewrite H. apply orb_true_r.
  - apply orb_true_iff in H as [H|H]; [apply orb_true_iff in H as [H|H]|].
    + rewrite (Ha H). reflexivity.
    + rewrite H, orb_true_r. reflexivity.
    + rewrite H. apply orb_true_r.
Qed.

Lemma NoDup_only B : (forall u, (length (only u B) <= 1)%nat) -> NoDup (map t_uid B).
Proof.
  induction B as [|a r IH]; intro H; simpl; constructor.
  - intro Hin. specialize (H (t_uid a)). simpl in H. rewrite Z.eqb_refl in H. simpl in H.
    apply in_map_iff in Hin as (x & Hx & Hin).
    assert (In x (only (t_uid a) r)) by (apply filter_In; split; [exact Hin|apply Z.eqb_eq; exact Hx]).
    destruct (only (t_uid a) r); [contradiction|simpl in H; lia].
  - apply IH. intro u. specialize (H u). simpl in H. destruct (t_uid a =? u); simpl in H; lia.
Qed.

Lemma singleton_of {A} (l : list A) x : length l = 1%nat -> In x l -> l = [x].
Proof. destruct l as [|y [|z r]]; simpl; intros H Hin; try discriminate. destruct Hin as [->|[]]. reflexivity. Qed.

Lemma existsb_false {A} (f : A -> bool) l : (forall x, In x l -> f x = false) -> existsb f l = false.
Proof. induction l; simpl; intro H; [reflexivity|]. rewrite H by (left; reflexivity). apply IHl. intros; apply H; right; assumption. Qed.

Section Net.
  Variable thr : nat.
  Let P := mkP true thr.
  Variable W : list task.
  (* the workload as submitted; no task is bound to a pilot that is never added *)
  Hypothesis Wfresh : forall t0, In t0 W ->
    (exists u d f, t0 = fresh u d f) /\ bind_is PUnknown t0 = false.
  Hypothesis Wnd : NoDup (map t_uid W).

  (* no bulk-level fault at the tmgr scheduler (see one_truthful_final_refuted) *)
  Definition calm (ev : event) : bool :=
    match ev with EDeliver CTSched _ true => false | _ => true end.

  Definition task_inv (evs : list event) (g : config) (t0 : task) : Prop :=
    let u := t_uid t0 in
    (exists c, quid u (toks g) = [(c, canon c t0)] /\ reach c t0 = true /\ fin_sts u (tr g) = [])
    \/ (quid u (toks g) = [] /\ fin_sts u (tr g) <> [] /\
        forallb (tstate_beq (hd T_NEW (fin_sts u (tr g)))) (fin_sts u (tr g)) = true /\
        truthful t0 (ev_cancels u evs) (ev_bulkf evs) (hd T_NEW (fin_sts u (tr g))) = true).

  Record inv (evs : list event) (g : config) : Prop := {
    inv_tok : forall c t, In (c, t) (toks g) -> exists t0, In t0 W /\ t = canon c t0 /\ reach c t0 = true;
    inv_task : forall t0, In t0 W -> task_inv evs g t0;
    inv_cl : forall c u, zmem u (cls g c) = true -> ev_cancels u evs = true }.

  Lemma quid_init t0 : In t0 W -> quid (t_uid t0) (map (fun t => (CTSched, t)) W) = [(CTSched, t0)].
  Proof.
    clear Wfresh. induction W as [|a r IH]; intro Hin; [contradiction|].
    inversion Wnd as [|? ? Hna Hnr]; subst. simpl. destruct Hin as [->|Hin].
    - rewrite Z.eqb_refl. f_equal.
      assert (E : only (t_uid t0) r = []) by (apply only_nil_notin; exact Hna).
      clear -E. induction r as [|b r IH]; simpl; [reflexivity|]. simpl in E.
      destruct (t_uid b =? t_uid t0); [discriminate|]. apply IH. exact E.
    - destruct (t_uid a =? t_uid t0) eqn:E.
      + apply Z.eqb_eq in E. exfalso. apply Hna. rewrite E. apply in_map. exact Hin.
      + apply IH; assumption.
  Qed.

  Lemma inv_init : inv [] (init W).
  Proof.
    constructor; simpl.
    - intros c t Hin. apply in_map_iff in Hin as (t0 & E & Hin). injection E as <- <-.
      exists t0. split; [exact Hin|]. split; [reflexivity|].
      destruct (Wfresh t0 Hin) as [_ Hb]. unfold reach. cbv zeta. rewrite Hb. reflexivity.
    - intros t0 Hin. left. exists CTSched. simpl. split; [apply quid_init; exact Hin|]. split; [|reflexivity].
      destruct (Wfresh t0 Hin) as [_ Hb]. unfold reach. cbv zeta. rewrite Hb. reflexivity.
    - intros; discriminate.
  Qed.

  Lemma ev_cancels_app u a b : ev_cancels u (a ++ b) = ev_cancels u a || ev_cancels u b.
  Proof. apply existsb_app. Qed.
  Lemma ev_bulkf_app a b : ev_bulkf (a ++ b) = ev_bulkf a || ev_bulkf b.
  Proof. apply existsb_app. Qed.

  Lemma task_inv_mono evs ev g t0 : task_inv evs g t0 -> task_inv (evs ++ [ev]) g t0.
  Proof.
    intros [H|(A & B & C & D)]; [left; exact H|right]. repeat split; try assumption.
    eapply truthful_mono; [| |exact D].
    - rewrite ev_cancels_app. intros ->. reflexivity.
    - rewrite ev_bulkf_app. intros ->. reflexivity.
  Qed.

  Lemma canon_tout_noraise t0 : match to_cls (canon CTOut t0) with TORaise => false | _ => true end = true.
  Proof.
    unfold canon, exec_tok, to_cls. destruct (f_exec (t_f t0)); cbn;
      repeat match goal with |- context [if ?b then _ else _] => destruct b end; reflexivity.
  Qed.

  Lemma inv_step evs g ev : calm ev = true -> inv evs g -> inv (evs ++ [ev]) (step P g ev).
  Proof.
    intros Hcalm [It Ik Ic]. destruct ev as [c n bf|c v].
    2:{ (* a cancel request arrives *)
      constructor; simpl.
      - exact It.
      - intros t0 Hin. apply (task_inv_mono evs (ECancel c v) (mkC (toks g) _ (tr g))). exact (Ik t0 Hin).
      - intros d u Hm. rewrite ev_cancels_app. unfold upd in Hm. destruct (comp_eqb d c) eqn:E.
        + clear -Hm Ic E. apply comp_eqb_eq in E. subst d.
          assert (zmem u (cls g c) = true \/ v = u) as [K| ->].
          { induction (cls g c) as [|x r IH]; simpl in *.
            - rewrite orb_false_r in Hm. right. apply Z.eqb_eq. exact Hm.
            - apply orb_true_iff in Hm as [Hm|Hm]; [left; rewrite Hm; reflexivity|].
              destruct (IH Hm) as [K|K]; [left; rewrite K; apply orb_true_r|right; exact K]. }
          * rewrite (Ic _ _ K). reflexivity.
          * simpl. rewrite Z.eqb_refl. apply orb_true_r.
        + rewrite (Ic _ _ Hm). reflexivity. }
    (* a delivery *)
    simpl. destruct (take n c (toks g)) as [B rest] eqn:Rt.
    destruct (take_spec _ _ _ _ _ Rt) as (TB & Tr & Tn & Tl).
    destruct (work_cb c P (cls g c) B bf) as [cl' es] eqn:Rw.
    assert (Es : es = snd (work_cb c P (cls g c) B bf)) by (rewrite Rw; reflexivity).
    assert (Ecl : forall u, zmem u cl' = true -> zmem u (cls g c) = true).
    { unfold work_cb in Rw. destruct (intake (cls g c) B) as [[c1 K] e0] eqn:Ri.
      destruct (worker c P bf K) as [e1 r1]. injection Rw as <- _.
      destruct (intake_sub _ _ _ _ _ Ri) as (_ & _ & Hs). exact Hs. }
    (* every uid occurs at most once among the queued tokens *)
    assert (Hq1 : forall u, (length (quid u (toks g)) <= 1)%nat).
    { intro u. destruct (in_dec Z.eq_dec u (map t_uid W)) as [Hin|Hnin].
      - apply in_map_iff in Hin as (t0 & <- & Hin). destruct (Ik t0 Hin) as [(c0 & -> & _)|(-> & _)]; simpl; lia.
      - destruct (quid u (toks g)) as [|[c0 t] r] eqn:Eq; [simpl; lia|].
        assert (Hin : In (c0, t) (quid u (toks g))) by (rewrite Eq; left; reflexivity).
        apply filter_In in Hin as [Hin Hu]. simpl in Hu. apply Z.eqb_eq in Hu.
        destruct (It _ _ Hin) as (t0 & Hw & -> & _). rewrite canon_uid in Hu.
        exfalso. apply Hnin. rewrite <- Hu. apply in_map. exact Hw. }
    assert (Hnd : NoDup (map t_uid B)).
    { apply NoDup_only. intro u. specialize (Tl u). specialize (Hq1 u). lia. }
    (* no exception escapes the worker, except the bulk mkdir of tmgr stage-in *)
    assert (Hraise : raises c P bf (kept (cls g c) B) = true -> bf = true /\ c = CTIn).
    { intro Hr. destruct c; simpl in Hr; try discriminate.
      - subst bf. discriminate.
      - unfold ti_raises in Hr. destruct bf; [split; reflexivity|discriminate].
      - exfalso. unfold to_raises in Hr. rewrite existsb_false in Hr; [discriminate|].
        intros t Ht. unfold kept in Ht. destruct (intake (cls g CTOut) B) as [[c1 K] e0] eqn:Ri.
        destruct (intake_sub _ _ _ _ _ Ri) as (Hk & _ & _). simpl in Ht.
        destruct (It _ _ (TB _ (Hk _ Ht))) as (t0 & _ & -> & _).
        pose proof (canon_tout_noraise t0) as Q. destruct (to_cls (canon CTOut t0)); try reflexivity; discriminate. }
    (* what happens to one task of the workload *)
    assert (Htask : forall t0, In t0 W ->
              let u := t_uid t0 in
              (only u B = [] /\ proj u es = [])
              \/ (quid u (toks g) = [(c, canon c t0)] /\ quid u rest = [] /\ fin_sts u (tr g) = [] /\
                  (handed_on c t0 (proj u es)
                   \/ finished t0 (ev_cancels u evs) (ev_bulkf (evs ++ [EDeliver c n bf])) (proj u es)))).
    { intros t0 Hin u. destruct (only u B) as [|tb Br] eqn:Eo.
      - left. split; [reflexivity|]. rewrite Es. apply work_cb_silent; assumption.
      - right.
        assert (Hib : In tb B /\ t_uid tb = u).
        { assert (In tb (only u B)) by (rewrite Eo; left; reflexivity).
          apply filter_In in H as [H1 H2]. apply Z.eqb_eq in H2. split; assumption. }
        destruct Hib as [Hib Hub].
        pose proof (TB _ Hib) as Hil.
        assert (Hiq : In (c, tb) (quid u (toks g))) by (apply filter_In; split; [exact Hil|simpl; apply Z.eqb_eq; exact Hub]).
        destruct (Ik t0 Hin) as [(c0 & Eq & Hr & Hf)|(Eq & _)]; fold u in Eq; [|rewrite Eq in Hiq; contradiction].
        fold u in Hf. rewrite Eq in Hiq. destruct Hiq as [Hiq|[]]. injection Hiq as E1 E2. subst c0. subst tb.
        pose proof (Tl u) as L. rewrite Eq, Eo in L. simpl in L.
        assert (Br = []) by (destruct Br; [reflexivity|simpl in L; lia]). subst Br.
        assert (quid u rest = []) by (destruct (quid u rest); [reflexivity|simpl in L; lia]).
        split; [exact Eq|]. split; [assumption|]. split; [exact Hf|].
        rewrite Es, work_cb_proj by assumption. rewrite Eo.
        destruct (Wfresh t0 Hin) as [(u0 & d & f & E0) _].
        assert (u0 = u) by (subst t0; reflexivity). subst u0.
        pose proof (single_step c thr u d f (zmem u (cls g c)) (raises c P bf (kept (cls g c) B))
                      (ev_cancels u evs) (ev_bulkf (evs ++ [EDeliver c n bf]))) as SS.
        cbv zeta in SS. rewrite <- E0 in SS. apply SS.
        + exact Hr.
        + intro Hm. exact (Ic _ _ Hm).
        + intro Hrz. destruct (Hraise Hrz) as [-> ->]. split; [|reflexivity].
          rewrite ev_bulkf_app. simpl. apply orb_true_r. }
    constructor; simpl.
    - (* every queued token is the canonical token of some task *)
      intros d t Hin. apply in_app_or in Hin as [Hin|Hin]; [apply It; apply Tr; exact Hin|].
      assert (Hq : In (d, t) (quid (t_uid t) (pushes es))) by (apply filter_In; split; [exact Hin|simpl; apply Z.eqb_refl]).
      rewrite quid_pushes in Hq.
      (* the pushing task is in the bulk *)
      destruct (only (t_uid t) B) as [|tb Br] eqn:Eo.
      { rewrite Es, work_cb_silent in Hq by assumption. contradiction. }
      assert (Hib : In tb B /\ t_uid tb = t_uid t).
      { assert (In tb (only (t_uid t) B)) by (rewrite Eo; left; reflexivity).
        apply filter_In in H as [H1 H2]. apply Z.eqb_eq in H2. split; assumption. }
      destruct Hib as [Hib Hub].
      destruct (It _ _ (TB _ Hib)) as (t0 & Hw & Etb & _).
      assert (Hu0 : t_uid t0 = t_uid t) by (rewrite <- Hub, Etb; symmetry; apply canon_uid).
      destruct (Htask t0 Hw) as [[E1 _]|(_ & _ & _ & [Ho|Hf])]; rewrite Hu0 in *.
      + rewrite E1 in Eo. discriminate.
      + destruct Ho as (Hp & Hr & _). rewrite Hp in Hq. destruct Hq as [Hq|[]]. injection Hq as <- <-.
        exists t0. repeat split; assumption.
      + destruct Hf as (Hp & _). rewrite Hp in Hq. contradiction.
    - (* every task *)
      intros t0 Hin. unfold task_inv. simpl. set (u := t_uid t0).
      rewrite quid_app, quid_pushes, fin_sts_app, (fin_sts_proj u es).
      destruct (Htask t0 Hin) as [[E1 E2]|(Eq & Er & Hf & [Ho|Hfi])]; fold u in E1, E2 || fold u in Eq, Er, Hf.
      + fold u in E1, E2. rewrite E2. simpl. rewrite !app_nil_r. rewrite (Tn u E1).
        apply (task_inv_mono evs (EDeliver c n bf) g). exact (Ik t0 Hin).
      + fold u in Ho. destruct Ho as (Hp & Hr & Hfs). fold u in Hfs. left. exists (next c).
        rewrite Er, Hp, Hf, Hfs. simpl. repeat split; assumption.
      + fold u in Hfi. destruct Hfi as (Hp & Hne & Hall & Htr). fold u in Hne, Hall, Htr. right.
        rewrite Er, Hp, Hf. simpl. repeat split; try assumption.
        eapply truthful_mono; [| |exact Htr].
        * rewrite ev_cancels_app. intros ->. reflexivity.
        * auto.
    - (* cancel lists *)
      intros d u Hm. rewrite ev_cancels_app. unfold upd in Hm. destruct (comp_eqb d c) eqn:E.
      + apply comp_eqb_eq in E. subst d. rewrite (Ic _ _ (Ecl _ Hm)). reflexivity.
      + rewrite (Ic _ _ Hm). reflexivity.
  Qed.

  Theorem inv_run evs : forallb calm evs = true -> inv evs (run P (init W) evs).
  Proof.
    induction evs as [|ev evs IH] using rev_ind; intro Hc; [apply inv_init|].
    rewrite forallb_app in Hc. apply andb_true_iff in Hc as [Hc1 Hc2]. simpl in Hc2.
    rewrite andb_true_r in Hc2. unfold run. rewrite fold_left_app. simpl.
    apply inv_step; [exact Hc2|]. apply IH. exact Hc1.
  Qed.
End Net.

(* ------------------------------------------------------------------ *)
(* Part D: the client, under every delivery order of the notifications  *)
(* ------------------------------------------------------------------ *)
From RP Require States.Model States.Inst.
From Coq Require Import Permutation.

(* TaskManager._update_tasks for one task and one notification (C06 model) *)
Definition client_step (cur tgt : tstate) : tstate := fst (fst (RP.States.Inst.t_notify cur tgt)).
Definition client_state (ns : list tstate) : tstate := fold_left client_step ns T_NEW.

Lemma cs_final cur tgt : is_final cur = false -> is_final tgt = true -> client_step cur tgt = tgt.
Proof. destruct cur, tgt; vm_compute; intros; first [reflexivity|discriminate]. Qed.
Lemma cs_nonfinal cur tgt : is_final cur = false -> is_final tgt = false -> is_final (client_step cur tgt) = false.
Proof. destruct cur, tgt; vm_compute; intros; first [reflexivity|discriminate]. Qed.
Lemma cs_sticky cur tgt : is_final cur = true -> client_step cur tgt = cur.
Proof. destruct cur, tgt; vm_compute; intros; first [reflexivity|discriminate]. Qed.

Lemma client_sticky ns : forall cur, is_final cur = true -> fold_left client_step ns cur = cur.
Proof. induction ns as [|x r IH]; intros cur H; simpl; [reflexivity|]. rewrite cs_sticky by exact H. apply IH. exact H. Qed.

Lemma client_first_final ns s : forall cur,
  is_final cur = false -> is_final s = true ->
  (forall x, In x ns -> is_final x = true -> x = s) ->
  (exists x, In x ns /\ is_final x = true) ->
  fold_left client_step ns cur = s.
Proof.
  induction ns as [|x r IH]; intros cur Hc Hs Hall [y [Hy Hf]]; [contradiction|]. simpl.
  destruct (is_final x) eqn:Ex.
  - rewrite (Hall x (or_introl eq_refl) Ex) in *. rewrite cs_final by assumption. apply client_sticky. exact Hs.
  - apply IH.
    + apply cs_nonfinal; assumption.
    + exact Hs.
    + intros z Hz. apply Hall. right. exact Hz.
    + destruct Hy as [<-|Hy]; [rewrite Ex in Hf; discriminate|]. exists y. split; assumption.
Qed.

Lemma notifications_finals u es x :
  In x (notifications u es) -> is_final x = true -> In x (fin_sts u es).
Proof.
  unfold notifications, fin_sts, final_pubs. induction es as [|e r IH]; simpl; [auto|].
  intros Hin Hf. rewrite map_app. apply in_or_app. apply in_app_or in Hin as [Hin|Hin].
  - left. destruct e as [fl t|d t|v]; simpl in Hin; try contradiction.
    destruct (t_uid t =? u); simpl in Hin; [|contradiction]. destruct Hin as [<-|[]].
    rewrite Hf. simpl. left. reflexivity.
  - right. apply IH; assumption.
Qed.

Lemma fin_sts_notifications u es x : In x (fin_sts u es) -> In x (notifications u es) /\ is_final x = true.
Proof.
  unfold notifications, fin_sts, final_pubs. induction es as [|e r IH]; simpl; [contradiction|].
  rewrite map_app. intro Hin. apply in_app_or in Hin as [Hin|Hin].
  - destruct e as [fl t|d t|v]; simpl in Hin; try contradiction.
    destruct (t_uid t =? u); simpl in Hin; [|contradiction].
    destruct (is_final (t_st t)) eqn:E; simpl in Hin; [|contradiction]. destruct Hin as [<-|[]].
    split; [apply in_or_app; left; left; reflexivity|exact E].
  - destruct (IH Hin) as [A B]. split; [apply in_or_app; right; exact A|exact B].
Qed.

(* whatever the order in which the notifications about a task arrive: if the
   final states published for it all equal s (and there is one), the client ends in s *)
Theorem client_any_order u es s ns :
  fin_sts u es <> [] -> forallb (tstate_beq s) (fin_sts u es) = true ->
  Permutation (notifications u es) ns -> client_state ns = s.
Proof.
  intros Hne Hall Hp.
  assert (Heq : forall x, In x (fin_sts u es) -> x = s).
  { intros x Hx. rewrite forallb_forall in Hall. specialize (Hall x Hx).
    symmetry. apply internal_tstate_dec_bl. exact Hall. }
  destruct (fin_sts u es) as [|y r] eqn:E; [congruence|].
  assert (Hy : In y (fin_sts u es)) by (rewrite E; left; reflexivity).
  destruct (fin_sts_notifications u es y Hy) as [Hyn Hyf].
  assert (y = s) by (apply Heq; left; reflexivity). subst y.
  unfold client_state. apply client_first_final.
  - reflexivity.
  - exact Hyf.
  - intros x Hx Hf. apply Heq. rewrite <- E. apply notifications_finals; [|exact Hf].
    apply (Permutation_in x (Permutation_sym Hp)). exact Hx.
  - exists s. split; [apply (Permutation_in s Hp); exact Hyn|exact Hyf].
Qed.

(* ------------------------------------------------------------------ *)
(* the statements of C05                                                *)
(* ------------------------------------------------------------------ *)
Definition wf_workload (W : list task) : Prop :=
  NoDup (map t_uid W) /\
  forall t0, In t0 W -> (exists u d f, t0 = fresh u d f) /\ bind_is PUnknown t0 = false.

(* at every moment every accepted task is either queued exactly once, intact,
   and has no final state yet -- or is queued nowhere and has its final state *)
Theorem never_lost thr W evs t0 :
  wf_workload W -> forallb calm evs = true -> In t0 W ->
  let g := run (mkP true thr) (init W) evs in
  (exists c, queued (t_uid t0) g = [(c, canon c t0)] /\ final_pubs (t_uid t0) (tr g) = [])
  \/ (queued (t_uid t0) g = [] /\ final_pubs (t_uid t0) (tr g) <> []).
Proof.
  intros [Hnd Hw] Hc Hin g. destruct (inv_run thr W Hw Hnd evs Hc) as [_ Ik _].
  destruct (Ik t0 Hin) as [(c & A & _ & B)|(A & B & _)].
  - left. exists c. split; [exact A|]. unfold fin_sts in B. apply map_eq_nil in B. exact B.
  - right. split; [exact A|]. intro E. apply B. unfold fin_sts. fold g. rewrite E. reflexivity.
Qed.

Theorem one_truthful_final_partial thr W evs t0 :
  wf_workload W -> forallb calm evs = true -> In t0 W ->
  let g := run (mkP true thr) (init W) evs in
  let u := t_uid t0 in
  queued u g = [] ->
  exists s,
    fin_sts u (tr g) <> [] /\ (forall x, In x (fin_sts u (tr g)) -> x = s) /\
    truthful t0 (ev_cancels u evs) (ev_bulkf evs) s = true /\
    forall ns, Permutation (notifications u (tr g)) ns -> client_state ns = s.
Proof.
  intros [Hnd Hw] Hc Hin g u Hq. destruct (inv_run thr W Hw Hnd evs Hc) as [_ Ik _].
  destruct (Ik t0 Hin) as [(c & A & _)|(_ & B & C & D)].
  - unfold queued in Hq. fold g in A. unfold quid in A. fold u in A. rewrite Hq in A. discriminate.
  - fold g u in B, C, D. exists (hd T_NEW (fin_sts u (tr g))). split; [exact B|]. split; [|split; [exact D|]].
    + intros x Hx. rewrite forallb_forall in C. symmetry. apply internal_tstate_dec_bl. apply C. exact Hx.
    + intros ns Hp. eapply client_any_order; eassumption.
Qed.

Lemma fin_sts_final u es x : In x (fin_sts u es) -> is_final x = true.
Proof. intro H. apply (fin_sts_notifications u es x H). Qed.

(* isolation, network level: a task with no fault of its own, exit code 0 and
   no cancel request ends DONE whatever happens to the other tasks, whatever
   the bulks and the delivery order (no bulk-level fault injected) *)
Theorem fault_isolation thr W evs t0 :
  wf_workload W -> forallb calm evs = true -> In t0 W ->
  let g := run (mkP true thr) (init W) evs in
  let u := t_uid t0 in
  queued u g = [] ->
  any_fault t0 = false -> f_exec (t_f t0) = XExit 0 ->
  ev_cancels u evs = false -> ev_bulkf evs = false ->
  forall x, In x (fin_sts u (tr g)) -> x = T_DONE.
Proof.
  intros Hwf Hc Hin g u Hq Haf Hx Hcr Hbf x Hxin.
  destruct (one_truthful_final_partial thr W evs t0 Hwf Hc Hin Hq) as (s & _ & Hall & Ht & _).
  fold g u in Hall, Ht. rewrite (Hall x Hxin). pose proof (fin_sts_final u (tr g) x Hxin) as Hf.
  rewrite (Hall x Hxin) in Hf. rewrite Hcr, Hbf in Ht.
  destruct s; try discriminate; try reflexivity; unfold truthful in Ht; rewrite ?Haf, ?Hx in Ht.
  - cbn in Ht. discriminate.
  - unfold any_fault in Haf. destruct (f_sched (t_f t0)); [cbn in Ht; discriminate| |];
      repeat (apply orb_false_iff in Haf; destruct Haf as [Haf ?]); congruence.
Qed.

(* isolation, station level: stations that catch per task *)
Definition catches_per_task (c : comp) : bool :=
  match c with CTSched | CTIn | CTOut => false | _ => true end.

Theorem station_isolation c P cl B bf u :
  NoDup (map t_uid B) -> catches_per_task c = true ->
  proj u (snd (work_cb c P cl B bf)) = seen c P (zmem u cl) false (only u B).
Proof.
  intros Hnd Hc. rewrite work_cb_proj by assumption. destruct c; try discriminate; reflexivity.
Qed.

(* ---- the executor station releases every task it receives exactly once ---- *)
Lemma only_single B t : NoDup (map t_uid B) -> In t B -> only (t_uid t) B = [t].
Proof.
  induction B as [|a r IH]; intros Hnd Hin; [contradiction|].
  inversion Hnd as [|? ? Hna Hnr]; subst. simpl. destruct Hin as [->|Hin].
  - rewrite Z.eqb_refl. f_equal. apply only_nil_notin. exact Hna.
  - destruct (t_uid a =? t_uid t) eqn:E.
    + apply Z.eqb_eq in E. exfalso. apply Hna. rewrite E. apply in_map. exact Hin.
    + apply IH; assumption.
Qed.

Definition releases_of (es : list emi) : nat :=
  length (filter (fun e => match e with Unsched _ => true | _ => false end) es).

(* a task canceled by the cancel filter at the executor's intake is published
   CANCELED and then released (Popen.is_canceled) *)
Theorem aexec_intake_cancel_releases P cl B bf t :
  NoDup (map t_uid B) -> In t B -> zmem (t_uid t) cl = true ->
  proj (t_uid t) (snd (work_cb CAExec P cl B bf)) = [pubf (cancel t); Unsched (t_uid t)].
Proof.
  intros Hnd Hin Hm. rewrite work_cb_proj by assumption. rewrite Hm, only_single by assumption. reflexivity.
Qed.

(* whatever happens to a task at the executor station -- canceled at the
   intake, no launcher, launch error, exit, cancel, timeout -- its slots are
   released exactly once *)
Theorem aexec_releases_once P cl B bf t :
  NoDup (map t_uid B) -> In t B ->
  releases_of (proj (t_uid t) (snd (work_cb CAExec P cl B bf))) = 1%nat.
Proof.
  intros Hnd Hin. rewrite work_cb_proj by assumption. rewrite only_single by assumption.
  unfold seen. destruct (zmem (t_uid t) cl); [reflexivity|].
  cbn. destruct (f_exec (t_f t)); reflexivity.
Qed.

(* the full statement fails: a bulk-level exception at the tmgr scheduler
   (its _work raises) after an early-bound task of the same bulk was pushed *)
Definition wit_W : list task :=
  [ fresh 1 (mkD PKnown false false false false false) (mkF false false false SStart (XExit 0) false false false);
    fresh 2 (mkD PNone false false false false false) (mkF false false false SStart (XExit 0) false false false) ].
Definition wit_evs : list event :=
  EDeliver CTSched 2 true
  :: map (fun c => EDeliver c 2 false) [CTIn; CA0In; CAIn; CASched; CAExec; CAOut; CA0Out; CTOut].

Theorem one_truthful_final_refuted :
  exists W evs, wf_workload W /\
    let g := run (mkP true 1000) (init W) evs in
    toks g = [] /\ fin_sts 1 (tr g) = [T_FAILED; T_DONE].
Proof.
  exists wit_W, wit_evs. split.
  - split.
    + repeat constructor; simpl; intuition discriminate.
    + intros t0 [<-|[<-|[]]]; (split; [do 3 eexists; reflexivity|reflexivity]).
  - vm_compute. split; reflexivity.
Qed.
