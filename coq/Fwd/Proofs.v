From Coq Require Import List Bool Arith PeanoNat Lia.
From RP Require Import Fwd.Model Fwd.Oracle.
Import ListNotations.
Lemma stub : True. Proof. exact I. Qed.
