(* Proofs about the forwarding network (C16): a potential argument that is
   independent of the transport schedule.  Every publication p carries a
   potential `tot2 d p` = what p and its (at most two generations of)
   descendants contribute; transporting p turns its potential into its own
   contribution `d p` plus the potential of its children.  With
   d = "deliveries of message i at side s" this gives the exact delivery
   counts, with d = 1 the exact number of publications (no circulation). *)
From Coq Require Import List Bool Arith PeanoNat Lia.
From RP Require Import Fwd.Model Fwd.Oracle.
Import ListNotations.

(* ---- sums ------------------------------------------------------------------ *)

Fixpoint sum_map {A} (f : A -> nat) (l : list A) : nat :=
  match l with [] => 0 | x :: l' => f x + sum_map f l' end.

Lemma sum_map_app {A} (f : A -> nat) (a b : list A) :
  sum_map f (a ++ b) = sum_map f a + sum_map f b.
Proof. induction a as [|x a IH]; simpl; [reflexivity | rewrite IH; lia]. Qed.

Lemma sum_map_flat_map {A B} (f : B -> nat) (g : A -> list B) (l : list A) :
  sum_map f (flat_map g l) = sum_map (fun x => sum_map f (g x)) l.
Proof. induction l as [|x l IH]; simpl; [reflexivity | rewrite sum_map_app, IH; reflexivity]. Qed.

Lemma sum_map_ext {A} (f g : A -> nat) (l : list A) :
  (forall x, In x l -> f x = g x) -> sum_map f l = sum_map g l.
Proof.
  induction l as [|x l IH]; simpl; intros H; [reflexivity|].
  rewrite (H x (or_introl eq_refl)), IH; [reflexivity | intros y Hy; apply H; right; exact Hy].
Qed.

Lemma sum_map_zero {A} (f : A -> nat) (l : list A) :
  (forall x, In x l -> f x = 0) -> sum_map f l = 0.
Proof.
  induction l as [|x l IH]; simpl; intros H; [reflexivity|].
  rewrite (H x (or_introl eq_refl)), IH; [reflexivity | intros y Hy; apply H; right; exact Hy].
Qed.

Lemma sum_map_const1 {A} (l : list A) : sum_map (fun _ => 1) l = length l.
Proof. induction l as [|x l IH]; simpl; [reflexivity | rewrite IH; reflexivity]. Qed.

Lemma sum_map_le {A} (f : A -> nat) (b : nat) (l : list A) :
  (forall x, In x l -> f x <= b) -> sum_map f l <= length l * b.
Proof.
  induction l as [|x l IH]; simpl; intros H; [lia|].
  pose proof (H x (or_introl eq_refl)) as Hx.
  assert (Hl : sum_map f l <= length l * b) by (apply IH; intros y Hy; apply H; right; exact Hy).
  lia.
Qed.

Lemma sum_map_mono {A} (f g : A -> nat) (l : list A) :
  (forall x, In x l -> f x <= g x) -> sum_map f l <= sum_map g l.
Proof.
  induction l as [|x l IH]; simpl; intros H; [lia|].
  pose proof (H x (or_introl eq_refl)) as Hx.
  assert (Hl : sum_map f l <= sum_map g l) by (apply IH; intros y Hy; apply H; right; exact Hy).
  lia.
Qed.

(* sum of an indicator of one point over seq *)
Lemma sum_point_seq (g : nat -> nat) (a : nat) : forall len start,
  sum_map (fun x => if Nat.eqb x a then g x else 0) (seq start len)
  = if (start <=? a) && (a <? start + len) then g a else 0.
Proof.
  induction len as [|len IH]; intros start; simpl.
  - destruct (start <=? a) eqn:E1; simpl; [|reflexivity].
    destruct (a <? start + 0) eqn:E2; [|reflexivity].
    apply Nat.leb_le in E1. apply Nat.ltb_lt in E2. lia.
  - rewrite IH. destruct (Nat.eqb start a) eqn:E.
    + apply Nat.eqb_eq in E. subst a.
      replace (S start <=? start) with false by (symmetry; apply Nat.leb_gt; lia).
      replace (start <=? start) with true by (symmetry; apply Nat.leb_le; lia).
      replace (start <? start + S len) with true by (symmetry; apply Nat.ltb_lt; lia).
      simpl. lia.
    + apply Nat.eqb_neq in E.
      destruct (start <=? a) eqn:E1; destruct (S start <=? a) eqn:E2;
        destruct (a <? start + S len) eqn:E3; destruct (a <? S start + len) eqn:E4; simpl;
        try reflexivity;
        repeat match goal with
               | H : (_ <=? _) = true |- _ => apply Nat.leb_le in H
               | H : (_ <=? _) = false |- _ => apply Nat.leb_gt in H
               | H : (_ <? _) = true |- _ => apply Nat.ltb_lt in H
               | H : (_ <? _) = false |- _ => apply Nat.ltb_ge in H
               end; lia.
Qed.

Lemma sum_point_sides (g : nat -> nat) (a n : nat) :
  sum_map (fun x => if Nat.eqb x a then g x else 0) (sides_of n) = if a <=? n then g a else 0.
Proof.
  unfold sides_of. rewrite sum_point_seq. simpl.
  destruct (a <=? n) eqn:E1; destruct (a <? S n) eqn:E2; try reflexivity;
    repeat match goal with
           | H : (_ <=? _) = true |- _ => apply Nat.leb_le in H
           | H : (_ <=? _) = false |- _ => apply Nat.leb_gt in H
           | H : (_ <? _) = true |- _ => apply Nat.ltb_lt in H
           | H : (_ <? _) = false |- _ => apply Nat.ltb_ge in H
           end; lia.
Qed.

(* number of sides other than a *)
Lemma sum_others_sides (a n : nat) : a <= n ->
  sum_map (fun x => if Nat.eqb x a then 0 else 1) (sides_of n) = n.
Proof.
  intros Ha.
  assert (H : sum_map (fun x => if Nat.eqb x a then 0 else 1) (sides_of n)
              + sum_map (fun x => if Nat.eqb x a then 1 else 0) (sides_of n) = S n).
  { unfold sides_of. generalize (seq 0 (S n)) (seq_length (S n) 0). intros l Hl. rewrite <- Hl. clear Hl.
    induction l as [|x l IH]; simpl; [reflexivity|]. destruct (Nat.eqb x a); lia. }
  rewrite (sum_point_sides (fun _ => 1)) in H.
  replace (a <=? n) with true in H by (symmetry; apply Nat.leb_le; exact Ha). lia.
Qed.

Lemma count_ev_app (f : event -> bool) (a b : list event) :
  count_ev f (a ++ b) = count_ev f a + count_ev f b.
Proof. induction a as [|x a IH]; simpl; [reflexivity | rewrite IH; lia]. Qed.

Lemma count_ev_flat_map {A} (f : event -> bool) (g : A -> list event) (l : list A) :
  count_ev f (flat_map g l) = sum_map (fun x => count_ev f (g x)) l.
Proof. induction l as [|x l IH]; simpl; [reflexivity | rewrite count_ev_app, IH; reflexivity]. Qed.

(* ---- boolean equalities ----------------------------------------------------- *)

Lemma chan_eqb_refl c : chan_eqb c c = true.
Proof. destruct c; reflexivity. Qed.

Lemma chan_eqb_eq a b : chan_eqb a b = true <-> a = b.
Proof. destruct a, b; simpl; split; intro H; try reflexivity; try discriminate. Qed.

(* ---- what one side does with a publication ---------------------------------- *)

Local Arguments pubsub_fwd : simpl never.

Definition side_children (s : nat) (p : pub) : list pub :=
  flat_map (fun w => wire_fire w p) (crosswire_proxy s).

Definition side_deliv (s : nat) (p : pub) : list event :=
  listen s Control p ++ listen s State p.

Lemma children_sides sides p : children sides p = flat_map (fun s => side_children s p) sides.
Proof. reflexivity. Qed.

Lemma deliveries_sides sides p : deliveries sides p = flat_map (fun s => side_deliv s p) sides.
Proof. reflexivity. Qed.

Lemma side_children_local s' s c t m :
  side_children s' (mkpub (Local s c) t m) =
  if Nat.eqb s s' && cname_eqb t (Lcl c)
  then match pubsub_fwd s' false m with
       | Some m' => [mkpub (Proxy c) (Prx c) m']
       | None => []
       end
  else [].
Proof.
  unfold side_children, crosswire_proxy, wire_fire, hears; simpl.
  destruct (Nat.eqb s s'); destruct c; destruct t as [[]|[]]; simpl;
    destruct (pubsub_fwd s' false m); reflexivity.
Qed.

Lemma side_children_proxy s' c t m :
  side_children s' (mkpub (Proxy c) t m) =
  if cname_eqb t (Prx c)
  then match pubsub_fwd s' true m with
       | Some m' => [mkpub (Local s' c) (Lcl c) m']
       | None => []
       end
  else [].
Proof.
  unfold side_children, crosswire_proxy, wire_fire, hears; simpl.
  destruct c; destruct t as [[]|[]]; simpl; destruct (pubsub_fwd s' true m); reflexivity.
Qed.

Lemma side_deliv_local s' s c t m :
  side_deliv s' (mkpub (Local s c) t m) =
  if Nat.eqb s s' && cname_eqb t (Lcl c)
  then [mkev s' c (m_id m) (m_origin m) (m_fwd m)] else [].
Proof.
  unfold side_deliv, listen, hears; simpl.
  destruct (Nat.eqb s s'); destruct c; destruct t as [[]|[]]; reflexivity.
Qed.

Lemma side_deliv_proxy s' c t m : side_deliv s' (mkpub (Proxy c) t m) = [].
Proof. unfold side_deliv, listen, hears; simpl. reflexivity. Qed.

(* ---- the forwarder ---------------------------------------------------------- *)

(* what leaves a side towards the proxy carries the side's own name and a
   cleared forward flag; the payload is untouched *)
Lemma fwd_out_spec me m m' :
  pubsub_fwd me false m = Some m' ->
  m_origin m' = Some me /\ m_fwd m' = Some false /\ m_id m' = m_id m /\ crosses me m = true.
Proof.
  unfold pubsub_fwd, crosses, origin_is. destruct m as [i [o|] f]; simpl.
  - destruct (truthy f) eqn:Ef; simpl; [|discriminate].
    destruct (Nat.eqb o me) eqn:Eo; simpl; [|discriminate].
    intros H; injection H as <-. apply Nat.eqb_eq in Eo. subst o. simpl. auto.
  - destruct (truthy f) eqn:Ef; simpl; [|discriminate].
    rewrite Nat.eqb_refl. simpl. intros H; injection H as <-. simpl. auto.
Qed.

Lemma fwd_out_crosses me m :
  crosses me m = true ->
  pubsub_fwd me false m = Some (mkmsg (m_id m) (Some me) (Some false)).
Proof.
  unfold pubsub_fwd, crosses, origin_is. destruct m as [i [o|] f]; simpl; intros H;
    apply andb_true_iff in H as [Hf Ho]; rewrite Hf; simpl.
  - rewrite Ho. simpl. apply Nat.eqb_eq in Ho. subst o. reflexivity.
  - rewrite Nat.eqb_refl. reflexivity.
Qed.

Lemma fwd_out_not_crosses me m : crosses me m = false -> pubsub_fwd me false m = None.
Proof.
  intros H. destruct (pubsub_fwd me false m) eqn:E; [|reflexivity].
  apply fwd_out_spec in E as (_ & _ & _ & E). congruence.
Qed.

(* what a side takes from the proxy is unchanged and carries a foreign name *)
Lemma fwd_in_spec me m m' :
  pubsub_fwd me true m = Some m' ->
  exists o, m_origin m = Some o /\ o <> me /\ m' = m.
Proof.
  unfold pubsub_fwd, origin_is. destruct m as [i [o|] f]; simpl.
  - destruct (Nat.eqb o me) eqn:Eo; [discriminate|].
    intros H; injection H as <-. apply Nat.eqb_neq in Eo. exists o. auto.
  - rewrite Nat.eqb_refl. discriminate.
Qed.

Lemma fwd_in_some me i o f :
  pubsub_fwd me true (mkmsg i (Some o) f) = if Nat.eqb o me then None else Some (mkmsg i (Some o) f).
Proof. unfold pubsub_fwd, origin_is; simpl. destruct (Nat.eqb o me); reflexivity. Qed.

(* a message with a foreign name is never sent out *)
Lemma fwd_out_foreign me m o : m_origin m = Some o -> o <> me -> pubsub_fwd me false m = None.
Proof.
  intros Ho Hne. apply fwd_out_not_crosses. unfold crosses. rewrite Ho.
  apply Nat.eqb_neq in Hne. rewrite Hne. apply andb_false_r.
Qed.

(* ---- shape of the descendants ----------------------------------------------- *)

Lemma in_children sides p q :
  In q (children sides p) -> exists s, In s sides /\ In q (side_children s p).
Proof. rewrite children_sides. intros H. apply in_flat_map in H. exact H. Qed.

(* children of a local publication travel on the proxy and carry the
   publishing side's name *)
Lemma child_of_local sides s c t m q :
  In q (children sides (mkpub (Local s c) t m)) ->
  exists m', q = mkpub (Proxy c) (Prx c) m' /\ m_origin m' = Some s /\ m_id m' = m_id m /\ In s sides.
Proof.
  intros H. apply in_children in H as (s' & Hs' & H). rewrite side_children_local in H.
  destruct (Nat.eqb s s') eqn:E; simpl in H; [|contradiction]. apply Nat.eqb_eq in E. subst s'.
  destruct (cname_eqb t (Lcl c)); [|contradiction].
  destruct (pubsub_fwd s false m) as [m'|] eqn:Ef; [|contradiction].
  destruct H as [<-|[]]. apply fwd_out_spec in Ef as (Ho & _ & Hi & _). exists m'. auto.
Qed.

(* children of a proxy publication are local, carry a foreign name and
   therefore have no children themselves *)
Lemma child_of_proxy sides c t m q :
  In q (children sides (mkpub (Proxy c) t m)) ->
  exists s o, q = mkpub (Local s c) (Lcl c) m /\ In s sides /\ m_origin m = Some o /\ o <> s.
Proof.
  intros H. apply in_children in H as (s' & Hs' & H). rewrite side_children_proxy in H.
  destruct (cname_eqb t (Prx c)); [|contradiction].
  destruct (pubsub_fwd s' true m) as [m'|] eqn:Ef; [|contradiction].
  destruct H as [<-|[]]. apply fwd_in_spec in Ef as (o & Ho & Hne & ->). exists s', o. auto.
Qed.

Lemma foreign_local_childless sides s c t m o :
  m_origin m = Some o -> o <> s -> children sides (mkpub (Local s c) t m) = [].
Proof.
  intros Ho Hne. destruct (children sides (mkpub (Local s c) t m)) as [|q l] eqn:E; [reflexivity|].
  assert (Hin : In q (children sides (mkpub (Local s c) t m))) by (rewrite E; left; reflexivity).
  apply in_children in Hin as (s' & _ & H). rewrite side_children_local in H.
  destruct (Nat.eqb s s') eqn:E1; simpl in H; [|contradiction]. apply Nat.eqb_eq in E1. subst s'.
  destruct (cname_eqb t (Lcl c)); [|contradiction].
  rewrite (fwd_out_foreign s m o Ho Hne) in H. contradiction.
Qed.

(* no publication has great-grandchildren *)
Lemma grandchildren_childless sides p q r :
  In q (children sides p) -> In r (children sides q) -> children sides r = [].
Proof.
  intros Hq Hr. destruct p as [[s c|c] t m].
  - apply child_of_local in Hq as (m' & -> & _). apply child_of_proxy in Hr as (s' & o & -> & _ & Ho & Hne).
    exact (foreign_local_childless sides s' c (Lcl c) m' o Ho Hne).
  - apply child_of_proxy in Hq as (s' & o & -> & _ & Ho & Hne).
    rewrite (foreign_local_childless sides s' c (Lcl c) m o Ho Hne) in Hr. contradiction.
Qed.

Lemma children_id sides p q : In q (children sides p) -> m_id (p_msg q) = m_id (p_msg p).
Proof.
  destruct p as [[s c|c] t m]; intros H.
  - apply child_of_local in H as (m' & -> & _ & Hi & _). exact Hi.
  - apply child_of_proxy in H as (s' & o & -> & _). reflexivity.
Qed.

(* ---- potentials ------------------------------------------------------------- *)

Section Potential.
  Variable sides : list nat.
  Variable d : pub -> nat.                 (* own contribution of a publication *)

  Definition tot0 (p : pub) : nat := d p.
  Definition tot1 (p : pub) : nat := d p + sum_map tot0 (children sides p).
  Definition tot2 (p : pub) : nat := d p + sum_map tot1 (children sides p).

  Lemma tot2_dec p : tot2 p = d p + sum_map tot2 (children sides p).
  Proof.
    unfold tot2 at 1. f_equal. apply sum_map_ext. intros q Hq.
    unfold tot2, tot1. f_equal. apply sum_map_ext. intros r Hr.
    unfold tot1, tot0. rewrite (grandchildren_childless sides p q r Hq Hr). simpl. lia.
  Qed.

  (* accumulated so far, as a function of the log and the publication counter *)
  Variable acc : list event -> nat -> nat.
  Hypothesis acc_step : forall l n p, acc (l ++ deliveries sides p) (S n) = acc l n + d p.

  Definition potential (st : net) : nat := acc (log st) (npub st) + sum_map tot2 (pending st).

  Lemma pick_split k l p rest :
    pick k l = Some (p, rest) -> exists a b, l = a ++ p :: b /\ rest = a ++ b.
  Proof.
    unfold pick. destruct l as [|x l']; [discriminate|].
    remember (x :: l') as l eqn:El. clear El x l'.
    set (i := Nat.modulo k (length l)). clearbody i.
    destruct (nth_error l i) as [p0|] eqn:E; [|discriminate].
    intros H.
    assert (Hp : p0 = p) by congruence.
    assert (Hr : firstn i l ++ skipn (S i) l = rest) by congruence.
    subst p rest. clear H.
    apply nth_error_split in E as (a & b & Hl & Hlen). exists a, b. split; [exact Hl|].
    rewrite Hl, <- Hlen.
    assert (H1 : firstn (length a) (a ++ p0 :: b) = a).
    { rewrite firstn_app, firstn_all, Nat.sub_diag, firstn_O, app_nil_r. reflexivity. }
    assert (H2 : skipn (S (length a)) (a ++ p0 :: b) = b).
    { rewrite skipn_app. rewrite skipn_all2 by lia.
      replace (S (length a) - length a) with 1 by lia. reflexivity. }
    rewrite H1, H2. reflexivity.
  Qed.

  Lemma pick_nonempty k l : l <> [] -> exists p rest, pick k l = Some (p, rest).
  Proof.
    unfold pick. destruct l as [|x l']; [intros H; contradiction H; reflexivity|]. intros _.
    destruct (nth_error (x :: l') (Nat.modulo k (length (x :: l')))) as [p|] eqn:E; [eauto|].
    apply nth_error_None in E.
    pose proof (Nat.mod_upper_bound k (length (x :: l'))) as Hm. simpl in *. lia.
  Qed.

  Lemma step_potential k st st' : step sides k st = Some st' -> potential st' = potential st.
  Proof.
    unfold step. destruct (pick k (pending st)) as [[p rest]|] eqn:E; [|discriminate].
    intros H. injection H as <-. apply pick_split in E as (a & b & Hl & ->).
    unfold potential; simpl. rewrite acc_step, Hl, !sum_map_app. simpl.
    rewrite (tot2_dec p). lia.
  Qed.

  Lemma run_potential fuel : forall sched st, potential (run sides fuel sched st) = potential st.
  Proof.
    induction fuel as [|f IH]; intros sched st; simpl; [reflexivity|].
    destruct (step sides (hd 0 sched) st) as [st'|] eqn:E; [|reflexivity].
    rewrite IH. exact (step_potential _ _ _ E).
  Qed.
End Potential.

(* ---- publications: exact number, termination --------------------------------- *)

Definition weight (sides : list nat) : pub -> nat := tot2 sides (fun _ => 1).

Lemma weight_pos sides p : 1 <= weight sides p.
Proof. unfold weight, tot2. lia. Qed.

Lemma step_weight sides k st st' :
  step sides k st = Some st' ->
  npub st' = S (npub st) /\ sum_map (weight sides) (pending st) = S (sum_map (weight sides) (pending st')).
Proof.
  intros H.
  pose proof (step_potential sides (fun _ => 1) (fun _ n => n) (fun _ n _ => eq_sym (Nat.add_1_r n)) k st st' H) as Hp.
  unfold potential in Hp. fold (weight sides) in Hp.
  unfold step in H. destruct (pick k (pending st)) as [[p rest]|]; [|discriminate].
  injection H as <-. simpl in *. lia.
Qed.

(* enough fuel => the network falls silent *)
Lemma run_quiescent sides fuel : forall sched st,
  sum_map (weight sides) (pending st) <= fuel -> pending (run sides fuel sched st) = [].
Proof.
  induction fuel as [|f IH]; intros sched st Hf; simpl.
  - destruct (pending st) as [|p l]; [reflexivity|]. simpl in Hf. pose proof (weight_pos sides p). lia.
  - destruct (step sides (hd 0 sched) st) as [st'|] eqn:E.
    + apply IH. apply step_weight in E as [_ E]. lia.
    + unfold step in E. destruct (pending st) as [|p l] eqn:Ep; [reflexivity|].
      destruct (pick_nonempty (hd 0 sched) (p :: l)) as (p' & rest & Hp); [discriminate|].
      rewrite Hp in E. discriminate.
Qed.

Lemma run_npub sides fuel sched st :
  npub (run sides fuel sched st) + sum_map (weight sides) (pending (run sides fuel sched st))
  = npub st + sum_map (weight sides) (pending st).
Proof.
  exact (run_potential sides (fun _ => 1) (fun _ n => n) (fun _ n _ => eq_sym (Nat.add_1_r n)) fuel sched st).
Qed.

(* how many sides take a proxy publication *)
Lemma proxy_children_length n c t m :
  length (children (sides_of n) (mkpub (Proxy c) t m)) <= S n.
Proof.
  rewrite children_sides, <- sum_map_const1, sum_map_flat_map.
  replace (S n) with (length (sides_of n) * 1) by (unfold sides_of; rewrite seq_length; lia).
  apply sum_map_le. intros s _. rewrite side_children_proxy, sum_map_const1.
  destruct (cname_eqb t (Prx c)); [|simpl; lia]. destruct (pubsub_fwd s true m); simpl; lia.
Qed.

Lemma proxy_children_length_own n c t m s :
  m_origin m = Some s -> s <= n ->
  length (children (sides_of n) (mkpub (Proxy c) t m)) <= n.
Proof.
  intros Ho Hs. rewrite children_sides, <- sum_map_const1, sum_map_flat_map.
  rewrite <- (sum_others_sides s n Hs) at 2.
  apply sum_map_mono. intros x _.
  rewrite side_children_proxy, sum_map_const1. destruct m as [i o f]. simpl in Ho. subst o.
  rewrite fwd_in_some. rewrite (Nat.eqb_sym s x).
  destruct (cname_eqb t (Prx c)); destruct (Nat.eqb x s); simpl; lia.
Qed.

(* a publication and all it causes: at most n + 2 publications *)
Lemma weight_le n p : weight (sides_of n) p <= n + 2.
Proof.
  unfold weight, tot2, tot1, tot0. destruct p as [[s c|c] t m].
  - destruct (children (sides_of n) (mkpub (Local s c) t m)) as [|q l] eqn:E; [simpl; lia|].
    assert (Hq : In q (children (sides_of n) (mkpub (Local s c) t m))) by (rewrite E; left; reflexivity).
    pose proof Hq as Hq'. apply child_of_local in Hq' as (m' & -> & Ho & _ & Hs).
    assert (Hl : l = []).
    { (* at most one side hears a local publication *)
      rewrite children_sides in E.
      assert (Hlen : length (flat_map (fun s0 => side_children s0 (mkpub (Local s c) t m)) (sides_of n)) <= 1).
      { rewrite <- sum_map_const1, sum_map_flat_map.
        transitivity (sum_map (fun x => if Nat.eqb x s then 1 else 0) (sides_of n)).
        - apply sum_map_mono. intros x _. rewrite side_children_local, sum_map_const1, (Nat.eqb_sym s x).
          destruct (Nat.eqb x s); simpl; [|lia].
          destruct (cname_eqb t (Lcl c)); [|simpl; lia]. destruct (pubsub_fwd x false m); simpl; lia.
        - rewrite (sum_point_sides (fun _ => 1)). destruct (s <=? n); lia. }
      rewrite E in Hlen. simpl in Hlen. destruct l; [reflexivity | simpl in Hlen; lia]. }
    subst l. cbn [sum_map]. rewrite sum_map_const1.
    unfold sides_of in Hs. apply in_seq in Hs.
    assert (Hsn : s <= n) by lia.
    pose proof (proxy_children_length_own n c (Prx c) m' s Ho Hsn) as Hb. lia.
  - rewrite (sum_map_ext _ (fun _ => 1)).
    + rewrite sum_map_const1. pose proof (proxy_children_length n c t m). lia.
    + intros q Hq. apply child_of_proxy in Hq as (s' & o & -> & _ & Ho & Hne).
      rewrite (foreign_local_childless (sides_of n) s' c (Lcl c) m o Ho Hne). reflexivity.
Qed.

(* ---- deliveries: exact counts ------------------------------------------------ *)

(* deliveries of message i on channel c at side s caused directly by p *)
Definition cnt (sides : list nat) (s : nat) (c : chan) (i : nat) (p : pub) : nat :=
  count_at s c i (deliveries sides p).

Lemma cnt_proxy sides s c i c0 t m : cnt sides s c i (mkpub (Proxy c0) t m) = 0.
Proof.
  unfold cnt, count_at. rewrite deliveries_sides, count_ev_flat_map.
  apply sum_map_zero. intros x _. rewrite side_deliv_proxy. reflexivity.
Qed.

Lemma cnt_local n s c i s' c0 m : s' <= n ->
  cnt (sides_of n) s c i (mkpub (Local s' c0) (Lcl c0) m)
  = if Nat.eqb s' s && chan_eqb c0 c && Nat.eqb (m_id m) i then 1 else 0.
Proof.
  intros Hs. unfold cnt, count_at. rewrite deliveries_sides, count_ev_flat_map.
  rewrite (sum_map_ext _ (fun x => if Nat.eqb x s'
             then (if Nat.eqb x s && chan_eqb c0 c && Nat.eqb (m_id m) i then 1 else 0) else 0)).
  - rewrite (sum_point_sides (fun x => if Nat.eqb x s && chan_eqb c0 c && Nat.eqb (m_id m) i then 1 else 0)).
    replace (s' <=? n) with true by (symmetry; apply Nat.leb_le; exact Hs). reflexivity.
  - intros x _. rewrite side_deliv_local, (Nat.eqb_sym s' x). simpl. rewrite chan_eqb_refl.
    destruct (Nat.eqb x s'); simpl; [|reflexivity]. unfold ev_is; simpl.
    destruct (Nat.eqb x s && chan_eqb c0 c && Nat.eqb (m_id m) i); reflexivity.
Qed.

Lemma cnt_other_id sides s c i p : m_id (p_msg p) <> i -> cnt sides s c i p = 0.
Proof.
  intros Hne. unfold cnt, count_at. rewrite deliveries_sides, count_ev_flat_map.
  apply sum_map_zero. intros x _. destruct p as [[s' c0|c0] t m]; simpl in Hne.
  - rewrite side_deliv_local. destruct (Nat.eqb s' x && cname_eqb t (Lcl c0)); [|reflexivity].
    simpl. unfold ev_is; simpl. apply Nat.eqb_neq in Hne. rewrite Hne, andb_false_r. reflexivity.
  - rewrite side_deliv_proxy. reflexivity.
Qed.

Lemma tot2_other_id sides s c i p :
  m_id (p_msg p) <> i -> tot2 sides (cnt sides s c i) p = 0.
Proof.
  intros Hne. unfold tot2, tot1, tot0. rewrite (cnt_other_id sides s c i p Hne).
  rewrite sum_map_zero; [reflexivity|]. intros q Hq.
  assert (Hq' : m_id (p_msg q) <> i) by (rewrite (children_id sides p q Hq); exact Hne).
  rewrite (cnt_other_id sides s c i q Hq'). rewrite sum_map_zero; [reflexivity|]. intros r Hr.
  apply cnt_other_id. rewrite (children_id sides q r Hr). exact Hq'.
Qed.

Lemma sum_children_local (F : pub -> nat) n s0 c0 m :
  sum_map F (children (sides_of n) (mkpub (Local s0 c0) (Lcl c0) m))
  = if s0 <=? n
    then match pubsub_fwd s0 false m with
         | Some m' => F (mkpub (Proxy c0) (Prx c0) m')
         | None => 0
         end
    else 0.
Proof.
  rewrite children_sides, sum_map_flat_map.
  rewrite (sum_map_ext _ (fun x => if Nat.eqb x s0
             then match pubsub_fwd x false m with
                  | Some m' => F (mkpub (Proxy c0) (Prx c0) m')
                  | None => 0
                  end else 0)).
  - rewrite (sum_point_sides (fun x => match pubsub_fwd x false m with
                                       | Some m' => F (mkpub (Proxy c0) (Prx c0) m')
                                       | None => 0 end)). reflexivity.
  - intros x _. rewrite side_children_local, (Nat.eqb_sym s0 x). simpl. rewrite chan_eqb_refl.
    destruct (Nat.eqb x s0); simpl; [|reflexivity].
    destruct (pubsub_fwd x false m); simpl; lia.
Qed.

Lemma sum_children_proxy (F : pub -> nat) sides c0 i o f :
  sum_map F (children sides (mkpub (Proxy c0) (Prx c0) (mkmsg i (Some o) f)))
  = sum_map (fun x => if Nat.eqb x o then 0
                      else F (mkpub (Local x c0) (Lcl c0) (mkmsg i (Some o) f))) sides.
Proof.
  rewrite children_sides, sum_map_flat_map. apply sum_map_ext. intros x _.
  rewrite side_children_proxy, fwd_in_some, (Nat.eqb_sym o x). simpl. rewrite chan_eqb_refl.
  destruct (Nat.eqb x o); simpl; lia.
Qed.

Lemma source_msg_id s i src : m_id (source_msg s i src) = i.
Proof. destruct src; reflexivity. Qed.

Lemma chan_eqb_sym a b : chan_eqb a b = chan_eqb b a.
Proof. destruct a, b; reflexivity. Qed.

(* the potential of a posted message is exactly what the property prescribes *)
Lemma tot2_post n s c i s0 c0 src :
  s0 <= n -> s <= n ->
  tot2 (sides_of n) (cnt (sides_of n) s c i) (post_pub i (s0, c0, src)) = expected i (s0, c0, src) s c.
Proof.
  intros Hs0 Hs. unfold post_pub, expected, post_crosses. set (m := source_msg s0 i src).
  assert (Hid : m_id m = i) by apply source_msg_id.
  unfold tot2. rewrite (cnt_local n s c i s0 c0 m Hs0), Hid, Nat.eqb_refl, andb_true_r.
  rewrite sum_children_local.
  replace (s0 <=? n) with true by (symmetry; apply Nat.leb_le; exact Hs0).
  destruct (crosses s0 m) eqn:Ec.
  - rewrite (fwd_out_crosses s0 m Ec), Hid. unfold tot1, tot0. rewrite cnt_proxy, sum_children_proxy. rewrite Nat.add_0_l.
    rewrite (sum_map_ext _ (fun x => if Nat.eqb x s
               then (if Nat.eqb x s0 then 0 else if chan_eqb c0 c then 1 else 0) else 0)).
    + rewrite (sum_point_sides (fun x => if Nat.eqb x s0 then 0 else if chan_eqb c0 c then 1 else 0)).
      replace (s <=? n) with true by (symmetry; apply Nat.leb_le; exact Hs).
      rewrite (Nat.eqb_sym s0 s), (chan_eqb_sym c c0).
      destruct (Nat.eqb s s0); destruct (chan_eqb c0 c); reflexivity.
    + intros x Hx. unfold sides_of in Hx. apply in_seq in Hx.
      destruct (Nat.eqb x s0) eqn:E0; [destruct (Nat.eqb x s); reflexivity|].
      rewrite (cnt_local n s c i x c0 _ ltac:(lia)). simpl. rewrite Nat.eqb_refl, andb_true_r.
      destruct (Nat.eqb x s); destruct (chan_eqb c0 c); reflexivity.
  - rewrite (fwd_out_not_crosses s0 m Ec).
    rewrite (Nat.eqb_sym s0 s), (chan_eqb_sym c c0).
    destruct (Nat.eqb s s0); destruct (chan_eqb c0 c); reflexivity.
Qed.

Lemma post_pub_id i x : m_id (p_msg (post_pub i x)) = i.
Proof. destruct x as [[s c] src]. simpl. apply source_msg_id. Qed.

(* only the post with id i contributes to the count of message i *)
Lemma sum_posts (F : pub -> nat) i :
  (forall p, m_id (p_msg p) <> i -> F p = 0) ->
  forall posts k,
  sum_map F (posts_from k posts)
  = if k <=? i then match nth_error posts (i - k) with Some x => F (post_pub i x) | None => 0 end else 0.
Proof.
  intros HF. induction posts as [|x l IH]; intros k; simpl.
  - destruct (k <=? i); [|reflexivity]. destruct (i - k); reflexivity.
  - rewrite IH. destruct (Nat.eq_dec k i) as [->|Hne].
    + rewrite Nat.leb_refl, Nat.sub_diag. cbn [nth_error].
      replace (S i <=? i) with false by (symmetry; apply Nat.leb_gt; lia). lia.
    + rewrite (HF (post_pub k x)) by (rewrite post_pub_id; exact Hne). rewrite Nat.add_0_l.
      destruct (k <=? i) eqn:E1.
      * apply Nat.leb_le in E1. replace (S k <=? i) with true by (symmetry; apply Nat.leb_le; lia).
        replace (i - k) with (S (i - S k)) by lia. reflexivity.
      * apply Nat.leb_gt in E1. replace (S k <=? i) with false by (symmetry; apply Nat.leb_gt; lia).
        reflexivity.
Qed.

Lemma posts_from_length posts : forall k, length (posts_from k posts) = length posts.
Proof. induction posts as [|x l IH]; intros k; simpl; [reflexivity | rewrite IH; reflexivity]. Qed.

(* the bound n + 3 per post is enough fuel, whatever is pending *)
Lemma pending_weight_le n (l : list pub) : sum_map (weight (sides_of n)) l <= length l * (n + 2).
Proof. apply sum_map_le. intros p _. apply weight_le. Qed.

Lemma network_quiescent n posts sched : pending (network n posts sched) = [].
Proof.
  unfold network. apply run_quiescent. simpl.
  pose proof (pending_weight_le n (posts_from 0 posts)) as H. rewrite posts_from_length in H.
  unfold bound. nia.
Qed.

Lemma network_npub n posts sched : npub (network n posts sched) <= length posts * (n + 2).
Proof.
  pose proof (run_npub (sides_of n) (bound n (length posts)) sched (mknet (posts_from 0 posts) [] 0)) as H.
  fold (network n posts sched) in H. rewrite network_quiescent in H. simpl in H.
  pose proof (pending_weight_le n (posts_from 0 posts)) as Hw. rewrite posts_from_length in Hw. lia.
Qed.

(* from any state whatsoever, for any schedule *)
Lemma any_state_quiescent n fuel sched st :
  length (pending st) * (n + 2) <= fuel ->
  pending (run (sides_of n) fuel sched st) = [] /\
  npub (run (sides_of n) fuel sched st) <= npub st + length (pending st) * (n + 2).
Proof.
  intros Hf. pose proof (pending_weight_le n (pending st)) as Hw.
  assert (Hq : pending (run (sides_of n) fuel sched st) = []) by (apply run_quiescent; lia).
  split; [exact Hq|]. pose proof (run_npub (sides_of n) fuel sched st) as H. rewrite Hq in H. simpl in H. lia.
Qed.

(* THE count theorem *)
Lemma network_counts n posts sched i s0 c0 src s c :
  nth_error posts i = Some (s0, c0, src) -> s0 <= n -> s <= n ->
  count_at s c i (log (network n posts sched)) = expected i (s0, c0, src) s c.
Proof.
  intros Hnth Hs0 Hs.
  pose proof (run_potential (sides_of n) (cnt (sides_of n) s c i) (fun l _ => count_at s c i l)) as Hpot.
  assert (Hacc : forall (l : list event) (k : nat) (p : pub),
             count_at s c i (l ++ deliveries (sides_of n) p) = count_at s c i l + cnt (sides_of n) s c i p).
  { intros l k p. unfold count_at, cnt, count_at. apply count_ev_app. }
  specialize (Hpot Hacc (bound n (length posts)) sched (mknet (posts_from 0 posts) [] 0)).
  unfold potential in Hpot.
  change (run (sides_of n) (bound n (length posts)) sched (mknet (posts_from 0 posts) [] 0))
    with (network n posts sched) in Hpot.
  rewrite network_quiescent in Hpot. cbn [log npub pending sum_map] in Hpot.
  rewrite (sum_posts _ i (tot2_other_id (sides_of n) s c i)) in Hpot.
  rewrite Nat.sub_0_r in Hpot.
  assert (Hn' : @nth_error post posts i = Some (s0, c0, src)) by exact Hnth.
  rewrite Hn', (tot2_post n s c i s0 c0 src Hs0 Hs) in Hpot.
  change (0 <=? i) with true in Hpot. change (count_at s c i []) with 0 in Hpot. lia.
Qed.

(* ---- the oracle clauses ------------------------------------------------------ *)

Lemma all_posts_spec (f : nat -> post -> bool) : forall l k,
  all_posts f k l = true <-> (forall j x, nth_error l j = Some x -> f (k + j) x = true).
Proof.
  induction l as [|y l IH]; intros k; simpl.
  - split; [intros _ j x H; destruct j; discriminate | reflexivity].
  - rewrite andb_true_iff, IH. split.
    + intros [Hy Hl] j x H. destruct j as [|j]; simpl in H.
      * injection H as <-. rewrite Nat.add_0_r. exact Hy.
      * rewrite Nat.add_succ_r. exact (Hl j x H).
    + intros H. split.
      * rewrite <- (Nat.add_0_r k). apply H. reflexivity.
      * intros j x Hj. replace (S k + j) with (k + S j) by lia. apply H. exact Hj.
Qed.

Lemma in_others n s0 s : In s (others n s0) <-> s <= n /\ s <> s0.
Proof.
  unfold others, sides_of. rewrite filter_In, in_seq, negb_true_iff, Nat.eqb_neq. lia.
Qed.

Lemma in_sides n s : In s (sides_of n) <-> s <= n.
Proof. unfold sides_of. rewrite in_seq. lia. Qed.

(* what each boolean clause says *)
Lemma ok_exactly_once_spec n posts l :
  ok_exactly_once n posts l = true <->
  (forall i s0 c0 src s, nth_error posts i = Some (s0, c0, src) -> s0 <= n ->
     post_crosses i (s0, c0, src) = true -> s <= n -> s <> s0 -> count_at s c0 i l = 1).
Proof.
  unfold ok_exactly_once. rewrite all_posts_spec. split.
  - intros H i s0 c0 src s Hn Hs0 Hc Hs Hne. specialize (H i _ Hn). rewrite Nat.add_0_l in H. cbv beta iota in H.
    apply Nat.leb_le in Hs0. rewrite Hs0, Hc in H. cbn [negb orb] in H.
    rewrite forallb_forall in H. apply Nat.eqb_eq. apply H. apply in_others. auto.
  - intros H j [[s0 c0] src] Hn. rewrite Nat.add_0_l. cbv beta iota.
    destruct (s0 <=? n) eqn:E1; cbn [negb orb]; [|reflexivity].
    destruct (post_crosses j (s0, c0, src)) eqn:E2; cbn [negb orb]; [|reflexivity].
    apply forallb_forall. intros s Hs. apply in_others in Hs as [Hs Hne]. apply Nat.eqb_eq.
    apply Nat.leb_le in E1. exact (H j s0 c0 src s Hn E1 E2 Hs Hne).
Qed.

Lemma ok_not_back_spec n posts l :
  ok_not_back n posts l = true <->
  (forall i s0 c0 src, nth_error posts i = Some (s0, c0, src) -> s0 <= n -> count_at s0 c0 i l = 1).
Proof.
  unfold ok_not_back. rewrite all_posts_spec. split.
  - intros H i s0 c0 src Hn Hs0. specialize (H i _ Hn). rewrite Nat.add_0_l in H. cbv beta iota in H.
    apply Nat.leb_le in Hs0. rewrite Hs0 in H. cbn [negb orb] in H. apply Nat.eqb_eq. exact H.
  - intros H j [[s0 c0] src] Hn. rewrite Nat.add_0_l. cbv beta iota.
    destruct (s0 <=? n) eqn:E1; cbn [negb orb]; [|reflexivity].
    apply Nat.eqb_eq. apply Nat.leb_le in E1. exact (H j s0 c0 src Hn E1).
Qed.

Lemma ok_stays_local_spec n posts l :
  ok_stays_local n posts l = true <->
  (forall i s0 c0 src s, nth_error posts i = Some (s0, c0, src) -> s0 <= n ->
     post_crosses i (s0, c0, src) = false -> s <= n -> s <> s0 -> count_at s c0 i l = 0).
Proof.
  unfold ok_stays_local. rewrite all_posts_spec. split.
  - intros H i s0 c0 src s Hn Hs0 Hc Hs Hne. specialize (H i _ Hn). rewrite Nat.add_0_l in H. cbv beta iota in H.
    apply Nat.leb_le in Hs0. rewrite Hs0, Hc in H. cbn [negb orb] in H.
    rewrite forallb_forall in H. apply Nat.eqb_eq. apply H. apply in_others. auto.
  - intros H j [[s0 c0] src] Hn. rewrite Nat.add_0_l. cbv beta iota.
    destruct (s0 <=? n) eqn:E1; cbn [negb orb]; [|reflexivity].
    destruct (post_crosses j (s0, c0, src)) eqn:E2; cbn [negb orb]; [reflexivity|].
    apply forallb_forall. intros s Hs. apply in_others in Hs as [Hs Hne]. apply Nat.eqb_eq.
    apply Nat.leb_le in E1. exact (H j s0 c0 src s Hn E1 E2 Hs Hne).
Qed.

Lemma ok_no_stray_spec n posts l :
  ok_no_stray n posts l = true <->
  (forall i s0 c0 src s, nth_error posts i = Some (s0, c0, src) -> s0 <= n -> s <= n ->
     count_at s (other_chan c0) i l = 0).
Proof.
  unfold ok_no_stray. rewrite all_posts_spec. split.
  - intros H i s0 c0 src s Hn Hs0 Hs. specialize (H i _ Hn). rewrite Nat.add_0_l in H. cbv beta iota in H.
    apply Nat.leb_le in Hs0. rewrite Hs0 in H. cbn [negb orb] in H.
    rewrite forallb_forall in H. apply Nat.eqb_eq. apply H. apply in_sides. exact Hs.
  - intros H j [[s0 c0] src] Hn. rewrite Nat.add_0_l. cbv beta iota.
    destruct (s0 <=? n) eqn:E1; cbn [negb orb]; [|reflexivity].
    apply forallb_forall. intros s Hs. apply in_sides in Hs. apply Nat.eqb_eq.
    apply Nat.leb_le in E1. exact (H j s0 c0 src s Hn E1 Hs).
Qed.

Lemma expected_own i s0 c0 src : expected i (s0, c0, src) s0 c0 = 1.
Proof. unfold expected. rewrite chan_eqb_refl, Nat.eqb_refl. reflexivity. Qed.

Lemma expected_other i s0 c0 src s : s <> s0 ->
  expected i (s0, c0, src) s c0 = if post_crosses i (s0, c0, src) then 1 else 0.
Proof.
  intros Hne. unfold expected. rewrite chan_eqb_refl. apply Nat.eqb_neq in Hne. rewrite Hne. reflexivity.
Qed.

Lemma expected_stray i s0 c0 src s : expected i (s0, c0, src) s (other_chan c0) = 0.
Proof. unfold expected. destruct c0; reflexivity. Qed.

(* the model satisfies every clause, for every network size, batch of posts
   and transport schedule *)
Lemma model_exactly_once n posts sched : ok_exactly_once n posts (log (network n posts sched)) = true.
Proof.
  apply ok_exactly_once_spec. intros i s0 c0 src s Hn Hs0 Hc Hs Hne.
  rewrite (network_counts n posts sched i s0 c0 src s c0 Hn Hs0 Hs), (expected_other _ _ _ _ _ Hne), Hc.
  reflexivity.
Qed.

Lemma model_not_back n posts sched : ok_not_back n posts (log (network n posts sched)) = true.
Proof.
  apply ok_not_back_spec. intros i s0 c0 src Hn Hs0.
  rewrite (network_counts n posts sched i s0 c0 src s0 c0 Hn Hs0 Hs0). apply expected_own.
Qed.

Lemma model_stays_local n posts sched : ok_stays_local n posts (log (network n posts sched)) = true.
Proof.
  apply ok_stays_local_spec. intros i s0 c0 src s Hn Hs0 Hc Hs Hne.
  rewrite (network_counts n posts sched i s0 c0 src s c0 Hn Hs0 Hs), (expected_other _ _ _ _ _ Hne), Hc.
  reflexivity.
Qed.

Lemma model_no_stray n posts sched : ok_no_stray n posts (log (network n posts sched)) = true.
Proof.
  apply ok_no_stray_spec. intros i s0 c0 src s Hn Hs0 Hs.
  rewrite (network_counts n posts sched i s0 c0 src s (other_chan c0) Hn Hs0 Hs). apply expected_stray.
Qed.

Lemma model_no_circulation n posts sched :
  ok_no_circulation n (length posts) (npub (network n posts sched)) (quiescent (network n posts sched)) = true.
Proof.
  unfold ok_no_circulation, quiescent. rewrite network_quiescent. simpl.
  apply Nat.leb_le. apply network_npub.
Qed.

(* ---- who forwards by default -------------------------------------------------- *)

Lemma advance_crosses i s0 e :
  post_crosses i (s0, State, Advance e)
  = match e with Some b => b | None => negb (Nat.eqb s0 0) end.
Proof. unfold post_crosses, crosses, source_msg, advance_default; simpl. destruct e as [[]|]; simpl; try reflexivity. destruct (Nat.eqb s0 0); reflexivity. Qed.

Lemma typed_crosses i s0 c t e :
  post_crosses i (s0, c, Typed t e) = match e with Some b => b | None => mtype_fwd t end.
Proof. unfold post_crosses, crosses, source_msg; simpl. destruct e as [[]|]; simpl; try reflexivity. destruct (mtype_fwd t); reflexivity. Qed.

Lemma raw_crosses i s0 c o f :
  post_crosses i (s0, c, Raw o f)
  = truthy f && match o with None => true | Some o' => Nat.eqb o' s0 end.
Proof. reflexivity. Qed.

(* ---- readable corollaries ------------------------------------------------------ *)

Lemma forwarded_exactly_once n posts sched i s0 c0 src :
  nth_error posts i = Some (s0, c0, src) -> s0 <= n ->
  post_crosses i (s0, c0, src) = true ->
  forall s, s <= n -> count_at s c0 i (log (network n posts sched)) = 1.
Proof.
  intros Hn Hs0 Hc s Hs. rewrite (network_counts n posts sched i s0 c0 src s c0 Hn Hs0 Hs).
  unfold expected. rewrite chan_eqb_refl, Hc. destruct (Nat.eqb s s0); reflexivity.
Qed.

Lemma unforwarded_stays_local n posts sched i s0 c0 src :
  nth_error posts i = Some (s0, c0, src) -> s0 <= n ->
  post_crosses i (s0, c0, src) = false ->
  forall s, s <= n -> count_at s c0 i (log (network n posts sched)) = if Nat.eqb s s0 then 1 else 0.
Proof.
  intros Hn Hs0 Hc s Hs. rewrite (network_counts n posts sched i s0 c0 src s c0 Hn Hs0 Hs).
  unfold expected. rewrite chan_eqb_refl, Hc. reflexivity.
Qed.

Lemma once_at_origin n posts sched i s0 c0 src :
  nth_error posts i = Some (s0, c0, src) -> s0 <= n ->
  count_at s0 c0 i (log (network n posts sched)) = 1.
Proof.
  intros Hn Hs0. rewrite (network_counts n posts sched i s0 c0 src s0 c0 Hn Hs0 Hs0). apply expected_own.
Qed.

Lemma no_circulation n posts sched :
  pending (network n posts sched) = [] /\ npub (network n posts sched) <= length posts * (n + 2).
Proof. split; [apply network_quiescent | apply network_npub]. Qed.

Lemma model_all_clauses n posts sched :
  let st := network n posts sched in
  ok_exactly_once n posts (log st) = true /\ ok_not_back n posts (log st) = true /\
  ok_stays_local n posts (log st) = true /\ ok_no_stray n posts (log st) = true /\
  ok_no_circulation n (length posts) (npub st) (quiescent st) = true.
Proof.
  repeat split; [apply model_exactly_once | apply model_not_back | apply model_stays_local
                 | apply model_no_stray | apply model_no_circulation].
Qed.

(* agent-side state advances reach the client and every other pilot exactly
   once; client-side ones stay on the client *)
Lemma agent_advance_forwarded n posts sched i s0 :
  nth_error posts i = Some (s0, State, Advance None) -> 1 <= s0 <= n ->
  forall s, s <= n -> count_at s State i (log (network n posts sched)) = 1.
Proof.
  intros Hn [H1 Hs0]. apply (forwarded_exactly_once n posts sched i s0 State (Advance None) Hn Hs0).
  rewrite advance_crosses. destruct s0; [lia | reflexivity].
Qed.

Lemma client_advance_local n posts sched i :
  nth_error posts i = Some (0, State, Advance None) ->
  forall s, s <= n -> count_at s State i (log (network n posts sched)) = if Nat.eqb s 0 then 1 else 0.
Proof.
  intros Hn. apply (unforwarded_stays_local n posts sched i 0 State (Advance None) Hn (Nat.le_0_l n)).
  rewrite advance_crosses. reflexivity.
Qed.

(* ---- what the delivered copies carry ------------------------------------------ *)

(* a delivery is either the local one on the publishing side (message as
   posted) or a remote copy stamped with the publisher's name, flag cleared *)
Definition marked (posts : list post) (e : event) : Prop :=
  exists s0 c0 src, nth_error posts (e_id e) = Some (s0, c0, src) /\ e_chan e = c0 /\
    ((e_side e = s0 /\ e_origin e = m_origin (source_msg s0 (e_id e) src)
                    /\ e_fwd e = m_fwd (source_msg s0 (e_id e) src))
     \/ (e_side e <> s0 /\ e_origin e = Some s0 /\ e_fwd e = Some false)).

(* the only publications ever in flight *)
Definition pub_ok (posts : list post) (p : pub) : Prop :=
  exists i s0 c0 src, nth_error posts i = Some (s0, c0, src) /\
    (p = post_pub i (s0, c0, src)
     \/ p = mkpub (Proxy c0) (Prx c0) (mkmsg i (Some s0) (Some false))
     \/ exists s', s' <> s0 /\ p = mkpub (Local s' c0) (Lcl c0) (mkmsg i (Some s0) (Some false))).

Lemma in_deliveries sides p e :
  In e (deliveries sides p) -> exists s, In s sides /\ In e (side_deliv s p).
Proof. rewrite deliveries_sides. intros H. apply in_flat_map in H. exact H. Qed.

Lemma pub_ok_deliveries sides posts p e :
  pub_ok posts p -> In e (deliveries sides p) -> marked posts e.
Proof.
  intros (i & s0 & c0 & src & Hn & [-> | [-> | (s' & Hne & ->)]]) He;
    apply in_deliveries in He as (s & _ & He).
  - unfold post_pub in He. rewrite side_deliv_local in He.
    destruct (Nat.eqb s0 s) eqn:E; simpl in He; [|contradiction]. apply Nat.eqb_eq in E. subst s.
    rewrite chan_eqb_refl in He. destruct He as [<-|[]]. unfold marked; simpl.
    rewrite source_msg_id. exists s0, c0, src.
    split; [exact Hn|]. split; [reflexivity|]. left. split; [reflexivity | split; reflexivity].
  - rewrite side_deliv_proxy in He. contradiction.
  - rewrite side_deliv_local in He.
    destruct (Nat.eqb s' s) eqn:E; simpl in He; [|contradiction]. apply Nat.eqb_eq in E. subst s.
    rewrite chan_eqb_refl in He. destruct He as [<-|[]]. unfold marked; simpl.
    exists s0, c0, src.
    split; [exact Hn|]. split; [reflexivity|]. right. split; [exact Hne | split; reflexivity].
Qed.

Lemma pub_ok_children sides posts p q :
  pub_ok posts p -> In q (children sides p) -> pub_ok posts q.
Proof.
  intros (i & s0 & c0 & src & Hn & [-> | [-> | (s' & Hne & ->)]]) Hq.
  - unfold post_pub in Hq. apply in_children in Hq as (s & _ & Hq). rewrite side_children_local in Hq.
    destruct (Nat.eqb s0 s) eqn:E; simpl in Hq; [|contradiction]. apply Nat.eqb_eq in E. subst s.
    rewrite chan_eqb_refl in Hq.
    destruct (pubsub_fwd s0 false (source_msg s0 i src)) as [m'|] eqn:Ef; [|contradiction].
    destruct Hq as [<-|[]]. apply fwd_out_spec in Ef as (Ho & Hf & Hi & _).
    rewrite source_msg_id in Hi. destruct m' as [i' o' f']. simpl in *. subst i' o' f'.
    exists i, s0, c0, src. auto.
  - apply child_of_proxy in Hq as (s & o & -> & _ & Ho & Hne). simpl in Ho. injection Ho as <-.
    exists i, s0, c0, src. split; [exact Hn|]. right. right. exists s. auto.
  - rewrite (foreign_local_childless sides s' c0 (Lcl c0) (mkmsg i (Some s0) (Some false)) s0 eq_refl) in Hq;
      [contradiction|]. intros Heq. apply Hne. symmetry. exact Heq.
Qed.

Definition net_ok (posts : list post) (st : net) : Prop :=
  Forall (pub_ok posts) (pending st) /\ Forall (marked posts) (log st).

Lemma step_ok sides posts k st st' : net_ok posts st -> step sides k st = Some st' -> net_ok posts st'.
Proof.
  intros [Hp Hl] H. unfold step in H.
  destruct (pick k (pending st)) as [[p rest]|] eqn:E; [|discriminate]. injection H as <-.
  apply pick_split in E as (a & b & Hab & ->). rewrite Hab in Hp.
  apply Forall_app in Hp as [Ha Hb]. inversion Hb as [|p' b' Hpk Hb' Heq]. subst p' b'.
  split; simpl.
  - apply Forall_app. split; [apply Forall_app; split; assumption|].
    apply Forall_forall. intros q Hq. exact (pub_ok_children sides posts p q Hpk Hq).
  - apply Forall_app. split; [exact Hl|].
    apply Forall_forall. intros e He. exact (pub_ok_deliveries sides posts p e Hpk He).
Qed.

Lemma run_ok sides posts fuel : forall sched st, net_ok posts st -> net_ok posts (run sides fuel sched st).
Proof.
  induction fuel as [|f IH]; intros sched st H; simpl; [exact H|].
  destruct (step sides (hd 0 sched) st) as [st'|] eqn:E; [|exact H].
  apply IH. exact (step_ok sides posts _ st st' H E).
Qed.

Lemma posts_from_ok posts : forall l k,
  (forall j x, nth_error l j = Some x -> nth_error posts (k + j) = Some x) ->
  Forall (pub_ok posts) (posts_from k l).
Proof.
  induction l as [|[[s0 c0] src] l IH]; intros k H; simpl; [constructor|]. constructor.
  - exists k, s0, c0, src. split; [|left; reflexivity].
    rewrite <- (Nat.add_0_r k). apply H. reflexivity.
  - apply IH. intros j x Hj. replace (S k + j) with (k + S j) by lia. apply H. exact Hj.
Qed.

Lemma delivered_copies_marked n posts sched e :
  In e (log (network n posts sched)) -> marked posts e.
Proof.
  assert (H : net_ok posts (network n posts sched)).
  { unfold network. apply run_ok. split; simpl; [|constructor].
    apply posts_from_ok. intros j x Hj. exact Hj. }
  destruct H as [_ H]. rewrite Forall_forall in H. apply H.
Qed.
