(* Fwd.Fault -- hand-overs that fail (C16).  Executable definitions only.

   A forwarder hands a message to its target channel with publisher.put(tgt, msg)
   (Session.crosswire_pubsub.pubsub_fwd).  If that call raises, the exception
   leaves the callback, the subscriber's listener thread logs it and goes on
   (ru.zmq.Subscriber._listener): the message is lost for that hop, nothing is
   kept, nothing is sent again, later messages are not affected.

   A fault schedule names, per crosswire (side, direction, channel), the
   hand-over attempts (1st, 2nd, ... call of put on that crosswire's
   publisher) that raise. *)
From Coq Require Import List Bool Arith PeanoNat.
From RP Require Import Fwd.Model.
Import ListNotations.

Definition wkey := (nat * bool * chan)%type.       (* side, from_proxy, channel *)

Definition cname_chan (c : cname) : chan := match c with Lcl x | Prx x => x end.

Definition wire_key (w : wire) : wkey := (w_side w, w_fp w, cname_chan (w_src w)).

Definition wkey_eqb (a b : wkey) : bool :=
  let '(s1, f1, c1) := a in let '(s2, f2, c2) := b in
  Nat.eqb s1 s2 && Bool.eqb f1 f2 && chan_eqb c1 c2.

Definition faultsched := list (wkey * list nat).   (* failing attempt numbers, 1-based *)

Fixpoint fails (F : faultsched) (k : wkey) (n : nat) : bool :=
  match F with
  | [] => false
  | (k', ns) :: F' => (wkey_eqb k' k && existsb (Nat.eqb n) ns) || fails F' k n
  end.

Definition attempts := list (wkey * nat).          (* put calls made so far per crosswire *)

Fixpoint get_att (a : attempts) (k : wkey) : nat :=
  match a with
  | [] => 0
  | (k', n) :: a' => if wkey_eqb k' k then n else get_att a' k
  end.

Definition set_att (a : attempts) (k : wkey) (n : nat) : attempts := (k, n) :: a.

(* the forwarders react to p one after the other (subscribers in connection
   order); returns (handed over, lost, attempts) *)
Fixpoint fire_all (F : faultsched) (ws : list wire) (p : pub) (a : attempts)
  : list pub * list pub * attempts :=
  match ws with
  | [] => ([], [], a)
  | w :: ws' =>
      match wire_fire w p with
      | [] => fire_all F ws' p a                   (* callback returned without put *)
      | q :: _ =>
          let k := wire_key w in
          let n := S (get_att a k) in
          let '(ok, lost, a') := fire_all F ws' p (set_att a k n) in
          if fails F k n then (ok, q :: lost, a')  (* put raised: nothing published *)
          else (q :: ok, lost, a')
      end
  end.

Definition all_wires (sides : list nat) : list wire := flat_map crosswire_proxy sides.

Record fnet := mkfnet { f_net : net; f_att : attempts; f_lost : list pub }.

Definition step_f (F : faultsched) (sides : list nat) (k : nat) (st : fnet) : option fnet :=
  match pick k (pending (f_net st)) with
  | None => None
  | Some (p, rest) =>
      let '(ok, lost, a') := fire_all F (all_wires sides) p (f_att st) in
      Some (mkfnet (mknet (rest ++ ok) (log (f_net st) ++ deliveries sides p) (S (npub (f_net st))))
                   a' (f_lost st ++ lost))
  end.

Fixpoint run_f (F : faultsched) (sides : list nat) (fuel : nat) (sched : list nat) (st : fnet) : fnet :=
  match fuel with
  | 0 => st
  | S f =>
      match step_f F sides (hd 0 sched) st with
      | None => st
      | Some st' => run_f F sides f (tl sched) st'
      end
  end.

Definition network_f (F : faultsched) (n : nat) (posts : list post) (sched : list nat) : fnet :=
  run_f F (sides_of n) (bound n (length posts)) sched (mkfnet (mknet (posts_from 0 posts) [] 0) [] []).
