(* The ids of the sides do not matter (C16).  The forwarders compare origin
   markers for EQUALITY of side ids (Nat.eqb in pubsub_fwd); nothing else is
   ever done with an id.  Hence the delivery counts hold over ANY
   duplicate-free list of side ids, and are invariant under every injective
   renaming of the sides (that keeps the client the client: the only place
   where a particular id matters is the fwd default of advance(), which
   distinguishes the client from the pilots). *)
From Coq Require Import List Bool Arith PeanoNat Lia FinFun.
From RP Require Import Fwd.Model Fwd.Oracle Fwd.Proofs Fwd.Life Fwd.LifeOracle Fwd.LifeProofs.
Import ListNotations.

(* the network over an arbitrary list of side ids *)
Definition network_on (sides : list nat) (posts : list post) (sched : list nat) : net :=
  run sides (length posts * (length sides + 2)) sched (mknet (posts_from 0 posts) [] 0).

Lemma network_on_sides_of n posts sched : network_on (sides_of n) posts sched = network n posts sched.
Proof.
  unfold network_on, network, bound, sides_of. rewrite seq_length.
  replace (S n + 2) with (n + 3) by lia. reflexivity.
Qed.

Lemma network_on_quiescent sides posts sched : NoDup sides -> pending (network_on sides posts sched) = [].
Proof.
  intros Hnd. unfold network_on. apply run_quiescent. simpl.
  pose proof (pending_weight_le_live sides (posts_from 0 posts) Hnd) as H. rewrite posts_from_length in H.
  assert (H2 : length posts * (length sides + 1) <= length posts * (length sides + 2))
    by (apply Nat.mul_le_mono_l; lia).
  lia.
Qed.

(* exact delivery counts over any duplicate-free list of side ids *)
Lemma any_ids_counts sides posts sched i s0 c0 src s c :
  NoDup sides -> nth_error posts i = Some (s0, c0, src) -> In s0 sides -> In s sides ->
  count_at s c i (log (network_on sides posts sched)) = expected i (s0, c0, src) s c.
Proof.
  intros Hnd Hnth Hs0 Hs.
  pose proof (run_potential sides (cnt sides s c i) (fun l _ => count_at s c i l)) as Hpot.
  assert (Hacc : forall (l : list event) (k : nat) (p : pub),
             count_at s c i (l ++ deliveries sides p) = count_at s c i l + cnt sides s c i p).
  { intros l k p. unfold count_at, cnt, count_at. apply count_ev_app. }
  specialize (Hpot Hacc (length posts * (length sides + 2)) sched (mknet (posts_from 0 posts) [] 0)).
  change (run sides (length posts * (length sides + 2)) sched (mknet (posts_from 0 posts) [] 0))
    with (network_on sides posts sched) in Hpot.
  unfold potential in Hpot. rewrite (network_on_quiescent sides posts sched Hnd) in Hpot.
  cbn [log npub pending sum_map] in Hpot.
  rewrite (sum_posts _ i (tot2_other_id sides s c i)) in Hpot.
  rewrite Nat.sub_0_r in Hpot.
  assert (Hn' : @nth_error post posts i = Some (s0, c0, src)) by exact Hnth.
  rewrite Hn', (tot2_post_live sides s c i s0 c0 src Hnd Hs0 Hs) in Hpot.
  change (0 <=? i) with true in Hpot. change (count_at s c i []) with 0 in Hpot. lia.
Qed.

(* ---- renaming ------------------------------------------------------------------------ *)

Definition rename_src (f : nat -> nat) (s : source) : source :=
  match s with Raw o fl => Raw (option_map f o) fl | x => x end.

Definition rename_post (f : nat -> nat) (x : post) : post :=
  let '(s, c, src) := x in (f s, c, rename_src f src).

Lemma eqb_inj (f : nat -> nat) a b : Injective f -> Nat.eqb (f a) (f b) = Nat.eqb a b.
Proof.
  intros Hf. destruct (Nat.eqb a b) eqn:E.
  - apply Nat.eqb_eq in E. subst b. apply Nat.eqb_refl.
  - apply Nat.eqb_neq. intros H. apply Hf in H. apply Nat.eqb_neq in E. contradiction.
Qed.

Lemma expected_rename f i s0 c0 src s c : Injective f -> f 0 = 0 ->
  expected i (rename_post f (s0, c0, src)) (f s) c = expected i (s0, c0, src) s c.
Proof.
  intros Hf H0. unfold rename_post, expected, post_crosses. rewrite (eqb_inj f s s0 Hf).
  replace (crosses (f s0) (source_msg (f s0) i (rename_src f src))) with (crosses s0 (source_msg s0 i src));
    [reflexivity|].
  destruct src as [o fl|e|t e]; unfold crosses, source_msg, rename_src; simpl.
  - destruct o as [o|]; simpl; [rewrite (eqb_inj f o s0 Hf)|]; reflexivity.
  - unfold advance_default.
    replace (Nat.eqb (f s0) 0) with (Nat.eqb s0 0) by (rewrite <- (eqb_inj f s0 0 Hf), H0; reflexivity).
    reflexivity.
  - reflexivity.
Qed.

(* delivery counts are invariant under every injective renaming of the sides
   (and do not depend on the transport schedule either) *)
Lemma renaming_invariant f sides posts sched sched' i s0 c0 src s c :
  Injective f -> f 0 = 0 -> NoDup sides ->
  nth_error posts i = Some (s0, c0, src) -> In s0 sides -> In s sides ->
  count_at (f s) c i (log (network_on (map f sides) (map (rename_post f) posts) sched'))
  = count_at s c i (log (network_on sides posts sched)).
Proof.
  intros Hf H0 Hnd Hnth Hs0 Hs.
  rewrite (any_ids_counts sides posts sched i s0 c0 src s c Hnd Hnth Hs0 Hs).
  rewrite <- (expected_rename f i s0 c0 src s c Hf H0).
  apply (any_ids_counts (map f sides) (map (rename_post f) posts) sched' i (f s0) c0 (rename_src f src) (f s) c).
  - apply Injective_map_NoDup; assumption.
  - apply (map_nth_error (rename_post f) i posts Hnth).
  - apply in_map. exact Hs0.
  - apply in_map. exact Hs.
Qed.
