(* Proofs about the forwarding network under failing hand-overs (Fwd.Fault).
   The potential of Fwd.Proofs is conserved if the potential of what was lost
   is kept on the books: deliveries so far + potential in flight + potential
   lost = what the property prescribes.  Hence: never more than prescribed
   (at most once), and exactly as prescribed for every message none of whose
   hand-overs failed -- for EVERY fault schedule, batch of posts and transport
   schedule. *)
From Coq Require Import List Bool Arith PeanoNat Lia.
From RP Require Import Fwd.Model Fwd.Oracle Fwd.Proofs Fwd.Fault Fwd.FaultOracle.
Import ListNotations.

Local Arguments pubsub_fwd : simpl never.

Lemma wire_fire_le1 w p : wire_fire w p = [] \/ exists q, wire_fire w p = [q].
Proof.
  unfold wire_fire. destruct (hears (w_side w) (w_src w) p); [|left; reflexivity].
  destruct (pubsub_fwd (w_side w) (w_fp w) (p_msg p)); [right; eexists; reflexivity | left; reflexivity].
Qed.

Lemma flat_map_flat_map {A B C} (f : B -> list C) (g : A -> list B) (l : list A) :
  flat_map f (flat_map g l) = flat_map (fun x => flat_map f (g x)) l.
Proof. induction l as [|x l IH]; simpl; [reflexivity|]. rewrite flat_map_app, IH. reflexivity. Qed.

Lemma children_wires sides p : children sides p = flat_map (fun w => wire_fire w p) (all_wires sides).
Proof. unfold children, all_wires. symmetry. apply flat_map_flat_map. Qed.

(* what is handed over and what is lost together are the fault-free children *)
Lemma fire_all_sum (G : pub -> nat) F p : forall ws a ok lost a',
  fire_all F ws p a = (ok, lost, a') ->
  sum_map G ok + sum_map G lost = sum_map G (flat_map (fun w => wire_fire w p) ws).
Proof.
  induction ws as [|w ws IH]; intros a ok lost a' H; simpl in H.
  - injection H as <- <- _. reflexivity.
  - simpl. rewrite sum_map_app. destruct (wire_fire_le1 w p) as [E|[q E]]; rewrite E in *.
    + simpl. exact (IH _ _ _ _ H).
    + destruct (fire_all F ws p (set_att a (wire_key w) (S (get_att a (wire_key w))))) as [[ok1 lost1] a1] eqn:E1.
      pose proof (IH _ _ _ _ E1) as H1.
      destruct (fails F (wire_key w) (S (get_att a (wire_key w)))); injection H as <- <- _; simpl; lia.
Qed.

Lemma fire_all_ids F p sides : forall ok lost a a',
  fire_all F (all_wires sides) p a = (ok, lost, a') ->
  forall q, In q ok \/ In q lost -> In q (children sides p).
Proof.
  rewrite children_wires. generalize (all_wires sides).
  induction l as [|w ws IH]; intros ok lost a a' H q Hq; simpl in H.
  - injection H as <- <- _. destruct Hq as [[]|[]].
  - simpl. apply in_or_app. destruct (wire_fire_le1 w p) as [E|[q0 E]]; rewrite E in *.
    + right. exact (IH _ _ _ _ H q Hq).
    + destruct (fire_all F ws p (set_att a (wire_key w) (S (get_att a (wire_key w))))) as [[ok1 lost1] a1] eqn:E1.
      destruct (fails F (wire_key w) (S (get_att a (wire_key w)))); injection H as <- <- _.
      * destruct Hq as [Hq|[<-|Hq]]; [right; apply (IH _ _ _ _ E1); left; exact Hq
                                     | left; left; reflexivity
                                     | right; apply (IH _ _ _ _ E1); right; exact Hq].
      * destruct Hq as [[<-|Hq]|Hq]; [left; left; reflexivity
                                     | right; apply (IH _ _ _ _ E1); left; exact Hq
                                     | right; apply (IH _ _ _ _ E1); right; exact Hq].
Qed.

(* no fault, nothing lost *)
Lemma fire_all_nofault p : forall ws a ok lost a',
  fire_all [] ws p a = (ok, lost, a') -> lost = [].
Proof.
  induction ws as [|w ws IH]; intros a ok lost a' H; simpl in H.
  - injection H as _ <- _. reflexivity.
  - destruct (wire_fire w p) as [|q l]; [exact (IH _ _ _ _ H)|].
    destruct (fire_all [] ws p (set_att a (wire_key w) (S (get_att a (wire_key w))))) as [[ok1 lost1] a1] eqn:E1.
    injection H as _ <- _. exact (IH _ _ _ _ E1).
Qed.

Section FaultPotential.
  Variable F : faultsched.
  Variable sides : list nat.
  Variable d : pub -> nat.
  Variable acc : list event -> nat -> nat.
  Hypothesis acc_step : forall l n p, acc (l ++ deliveries sides p) (S n) = acc l n + d p.

  Definition potential_f (st : fnet) : nat :=
    acc (log (f_net st)) (npub (f_net st)) + sum_map (tot2 sides d) (pending (f_net st))
    + sum_map (tot2 sides d) (f_lost st).

  Lemma step_f_potential k st st' : step_f F sides k st = Some st' -> potential_f st' = potential_f st.
  Proof.
    unfold step_f. destruct (pick k (pending (f_net st))) as [[p rest]|] eqn:E; [|discriminate].
    destruct (fire_all F (all_wires sides) p (f_att st)) as [[ok lost] a'] eqn:Ef.
    intros H. injection H as <-. apply pick_split in E as (a & b & Hl & ->).
    pose proof (fire_all_sum (tot2 sides d) F p _ _ _ _ _ Ef) as Hs. rewrite <- children_wires in Hs.
    unfold potential_f; simpl. rewrite acc_step, Hl, !sum_map_app. simpl.
    rewrite (tot2_dec sides d p). lia.
  Qed.

  Lemma run_f_potential fuel : forall sched st, potential_f (run_f F sides fuel sched st) = potential_f st.
  Proof.
    induction fuel as [|f IH]; intros sched st; simpl; [reflexivity|].
    destruct (step_f F sides (hd 0 sched) st) as [st'|] eqn:E; [|reflexivity].
    rewrite IH. exact (step_f_potential _ _ _ E).
  Qed.
End FaultPotential.

(* ---- silence --------------------------------------------------------------------- *)

Lemma step_f_weight F sides k st st' :
  step_f F sides k st = Some st' ->
  npub (f_net st') = S (npub (f_net st)) /\
  S (sum_map (weight sides) (pending (f_net st'))) <= sum_map (weight sides) (pending (f_net st)) /\
  sum_map (weight sides) (f_lost st) <= sum_map (weight sides) (f_lost st').
Proof.
  intros H.
  pose proof (step_f_potential F sides (fun _ => 1) (fun _ n => n) (fun _ n _ => eq_sym (Nat.add_1_r n)) k st st' H) as Hp.
  unfold potential_f in Hp. fold (weight sides) in Hp.
  unfold step_f in H. destruct (pick k (pending (f_net st))) as [[p rest]|] eqn:E; [|discriminate].
  destruct (fire_all F (all_wires sides) p (f_att st)) as [[ok lost] a'].
  injection H as <-. apply pick_split in E as (a & b & Hl & ->).
  cbn [f_net f_lost pending log npub] in *. rewrite Hl in *. rewrite !sum_map_app in *. cbn [sum_map] in *.
  pose proof (weight_pos sides p). lia.
Qed.

Lemma run_f_quiescent F sides fuel : forall sched st,
  sum_map (weight sides) (pending (f_net st)) <= fuel -> pending (f_net (run_f F sides fuel sched st)) = [].
Proof.
  induction fuel as [|f IH]; intros sched st Hf; simpl.
  - destruct (pending (f_net st)) as [|p l]; [reflexivity|]. simpl in Hf. pose proof (weight_pos sides p). lia.
  - destruct (step_f F sides (hd 0 sched) st) as [st'|] eqn:E.
    + apply IH. apply step_f_weight in E as (_ & E & _). lia.
    + unfold step_f in E. destruct (pending (f_net st)) as [|p l] eqn:Ep; [reflexivity|].
      destruct (pick_nonempty (hd 0 sched) (p :: l)) as (p' & rest & Hp); [discriminate|].
      rewrite Hp in E. destruct (fire_all F (all_wires sides) p' (f_att st)) as [[ok lost] a']. discriminate.
Qed.

Lemma network_f_quiescent F n posts sched : pending (f_net (network_f F n posts sched)) = [].
Proof.
  unfold network_f. apply run_f_quiescent. simpl.
  pose proof (pending_weight_le n (posts_from 0 posts)) as H. rewrite posts_from_length in H.
  unfold bound. nia.
Qed.

Lemma network_f_npub F n posts sched : npub (f_net (network_f F n posts sched)) <= length posts * (n + 2).
Proof.
  pose proof (run_f_potential F (sides_of n) (fun _ => 1) (fun _ k => k) (fun _ k _ => eq_sym (Nat.add_1_r k))
                (bound n (length posts)) sched (mkfnet (mknet (posts_from 0 posts) [] 0) [] [])) as H.
  change (run_f F (sides_of n) (bound n (length posts)) sched (mkfnet (mknet (posts_from 0 posts) [] 0) [] []))
    with (network_f F n posts sched) in H.
  unfold potential_f in H. rewrite network_f_quiescent in H. simpl in H. fold (weight (sides_of n)) in H.
  pose proof (pending_weight_le n (posts_from 0 posts)) as Hw. rewrite posts_from_length in Hw. lia.
Qed.

(* ---- the books ---------------------------------------------------------------------- *)

(* deliveries + potential of what was lost = what the property prescribes *)
Lemma fault_conservation F n posts sched i s0 c0 src s c :
  nth_error posts i = Some (s0, c0, src) -> s0 <= n -> s <= n ->
  count_at s c i (log (f_net (network_f F n posts sched)))
  + sum_map (tot2 (sides_of n) (cnt (sides_of n) s c i)) (f_lost (network_f F n posts sched))
  = expected i (s0, c0, src) s c.
Proof.
  intros Hnth Hs0 Hs.
  pose proof (run_f_potential F (sides_of n) (cnt (sides_of n) s c i) (fun l _ => count_at s c i l)) as Hpot.
  assert (Hacc : forall (l : list event) (k : nat) (p : pub),
             count_at s c i (l ++ deliveries (sides_of n) p) = count_at s c i l + cnt (sides_of n) s c i p).
  { intros l k p. unfold count_at, cnt, count_at. apply count_ev_app. }
  specialize (Hpot Hacc (bound n (length posts)) sched (mkfnet (mknet (posts_from 0 posts) [] 0) [] [])).
  change (run_f F (sides_of n) (bound n (length posts)) sched (mkfnet (mknet (posts_from 0 posts) [] 0) [] []))
    with (network_f F n posts sched) in Hpot.
  unfold potential_f in Hpot. rewrite network_f_quiescent in Hpot. cbn [f_net f_lost log npub pending sum_map] in Hpot.
  rewrite (sum_posts _ i (tot2_other_id (sides_of n) s c i)) in Hpot.
  rewrite Nat.sub_0_r in Hpot.
  assert (Hn' : @nth_error post posts i = Some (s0, c0, src)) by exact Hnth.
  rewrite Hn', (tot2_post n s c i s0 c0 src Hs0 Hs) in Hpot.
  change (0 <=? i) with true in Hpot. change (count_at s c i []) with 0 in Hpot. lia.
Qed.

(* AT MOST ONCE, whatever fails *)
Lemma fault_at_most F n posts sched i s0 c0 src s c :
  nth_error posts i = Some (s0, c0, src) -> s0 <= n -> s <= n ->
  count_at s c i (log (f_net (network_f F n posts sched))) <= expected i (s0, c0, src) s c.
Proof. intros H1 H2 H3. pose proof (fault_conservation F n posts sched i s0 c0 src s c H1 H2 H3). lia. Qed.

Lemma expected_le1 i x s c : expected i x s c <= 1.
Proof.
  destruct x as [[s0 c0] src]. unfold expected.
  destruct (chan_eqb c c0); [|lia]. destruct (Nat.eqb s s0); [lia|]. destruct (post_crosses i (s0, c0, src)); lia.
Qed.

Lemma fault_never_twice F n posts sched i s0 c0 src s c :
  nth_error posts i = Some (s0, c0, src) -> s0 <= n -> s <= n ->
  count_at s c i (log (f_net (network_f F n posts sched))) <= 1.
Proof.
  intros H1 H2 H3. pose proof (fault_at_most F n posts sched i s0 c0 src s c H1 H2 H3).
  pose proof (expected_le1 i (s0, c0, src) s c). lia.
Qed.

(* EXACTLY as prescribed for a message none of whose hand-overs failed *)
Lemma fault_exact_if_handed_over F n posts sched i s0 c0 src s c :
  nth_error posts i = Some (s0, c0, src) -> s0 <= n -> s <= n ->
  (forall q, In q (f_lost (network_f F n posts sched)) -> m_id (p_msg q) <> i) ->
  count_at s c i (log (f_net (network_f F n posts sched))) = expected i (s0, c0, src) s c.
Proof.
  intros H1 H2 H3 Hl. pose proof (fault_conservation F n posts sched i s0 c0 src s c H1 H2 H3) as H.
  rewrite sum_map_zero in H; [lia|]. intros q Hq. apply tot2_other_id. exact (Hl q Hq).
Qed.

(* the publishing side's own delivery needs no hand-over: exactly once, whatever fails *)
Lemma lost_not_initial F sides fuel : forall sched st,
  (forall q, In q (f_lost st) -> exists p, In q (children sides p)) ->
  forall q, In q (f_lost (run_f F sides fuel sched st)) -> exists p, In q (children sides p).
Proof.
  induction fuel as [|f IH]; intros sched st H; simpl; [exact H|].
  destruct (step_f F sides (hd 0 sched) st) as [st'|] eqn:E; [|exact H].
  apply IH. unfold step_f in E. destruct (pick (hd 0 sched) (pending (f_net st))) as [[p rest]|]; [|discriminate].
  destruct (fire_all F (all_wires sides) p (f_att st)) as [[ok lost] a'] eqn:Ef.
  injection E as <-. simpl. intros q Hq. apply in_app_or in Hq as [Hq|Hq]; [exact (H q Hq)|].
  exists p. apply (fire_all_ids F p sides _ _ _ _ Ef). right. exact Hq.
Qed.

(* without faults nothing is lost: the fault-free counts *)
Lemma run_f_nofault sides fuel : forall sched st, f_lost st = [] -> f_lost (run_f [] sides fuel sched st) = [].
Proof.
  induction fuel as [|f IH]; intros sched st H; simpl; [exact H|].
  destruct (step_f [] sides (hd 0 sched) st) as [st'|] eqn:E; [|exact H].
  apply IH. unfold step_f in E. destruct (pick (hd 0 sched) (pending (f_net st))) as [[p rest]|]; [|discriminate].
  destruct (fire_all [] (all_wires sides) p (f_att st)) as [[ok lost] a'] eqn:Ef.
  injection E as <-. simpl. rewrite H, (fire_all_nofault p _ _ _ _ _ Ef). reflexivity.
Qed.

Lemma nofault_exact n posts sched i s0 c0 src s c :
  nth_error posts i = Some (s0, c0, src) -> s0 <= n -> s <= n ->
  count_at s c i (log (f_net (network_f [] n posts sched))) = expected i (s0, c0, src) s c.
Proof.
  intros H1 H2 H3. apply fault_exact_if_handed_over; try assumption.
  unfold network_f. rewrite run_f_nofault; [intros q []|reflexivity].
Qed.

Lemma fault_no_circulation F n posts sched :
  pending (f_net (network_f F n posts sched)) = [] /\
  npub (f_net (network_f F n posts sched)) <= length posts * (n + 2).
Proof. split; [apply network_f_quiescent | apply network_f_npub]. Qed.

(* ---- per receiving side: the two hand-overs that matter ------------------------------- *)

(* what can get lost: a copy on its way to the proxy, or a copy on its way from
   the proxy to some other side *)
Definition fwd_ok (posts : list post) (q : pub) : Prop :=
  exists i s0 c0 src, nth_error posts i = Some (s0, c0, src) /\
    (q = mkpub (Proxy c0) (Prx c0) (mkmsg i (Some s0) (Some false))
     \/ exists s', s' <> s0 /\ q = mkpub (Local s' c0) (Lcl c0) (mkmsg i (Some s0) (Some false))).

Lemma fwd_ok_pub_ok posts q : fwd_ok posts q -> pub_ok posts q.
Proof. intros (i & s0 & c0 & src & Hn & H). exists i, s0, c0, src. split; [exact Hn | right; exact H]. Qed.

Lemma pub_ok_children_fwd sides posts p q : pub_ok posts p -> In q (children sides p) -> fwd_ok posts q.
Proof.
  intros (i & s0 & c0 & src & Hn & [-> | [-> | (s' & Hne & ->)]]) Hq.
  - unfold post_pub in Hq. apply in_children in Hq as (s & _ & Hq). rewrite side_children_local in Hq.
    destruct (Nat.eqb s0 s) eqn:E; simpl in Hq; [|contradiction]. apply Nat.eqb_eq in E. subst s.
    rewrite chan_eqb_refl in Hq.
    destruct (pubsub_fwd s0 false (source_msg s0 i src)) as [m'|] eqn:Ef; [|contradiction].
    destruct Hq as [<-|[]]. apply fwd_out_spec in Ef as (Ho & Hf & Hi & _).
    rewrite source_msg_id in Hi. destruct m' as [i' o' f']. simpl in *. subst i' o' f'.
    exists i, s0, c0, src. auto.
  - apply child_of_proxy in Hq as (s & o & -> & _ & Ho & Hne). simpl in Ho. injection Ho as <-.
    exists i, s0, c0, src. split; [exact Hn|]. right. exists s. auto.
  - rewrite (foreign_local_childless sides s' c0 (Lcl c0) (mkmsg i (Some s0) (Some false)) s0 eq_refl) in Hq;
      [contradiction|]. intros Heq. apply Hne. symmetry. exact Heq.
Qed.

Definition fnet_ok (posts : list post) (st : fnet) : Prop :=
  Forall (pub_ok posts) (pending (f_net st)) /\ Forall (fwd_ok posts) (f_lost st).

Lemma step_f_ok F sides posts k st st' : fnet_ok posts st -> step_f F sides k st = Some st' -> fnet_ok posts st'.
Proof.
  intros [Hp Hl] H. unfold step_f in H.
  destruct (pick k (pending (f_net st))) as [[p rest]|] eqn:E; [|discriminate].
  destruct (fire_all F (all_wires sides) p (f_att st)) as [[ok lost] a'] eqn:Ef.
  injection H as <-. apply pick_split in E as (a & b & Hab & ->). rewrite Hab in Hp.
  apply Forall_app in Hp as [Ha Hb]. inversion Hb as [|p' b' Hpk Hb' Heq]. subst p' b'.
  split; simpl.
  - apply Forall_app. split; [apply Forall_app; split; assumption|].
    apply Forall_forall. intros q Hq. apply fwd_ok_pub_ok.
    apply (pub_ok_children_fwd sides posts p q Hpk). apply (fire_all_ids F p sides _ _ _ _ Ef). left. exact Hq.
  - apply Forall_app. split; [exact Hl|].
    apply Forall_forall. intros q Hq.
    apply (pub_ok_children_fwd sides posts p q Hpk). apply (fire_all_ids F p sides _ _ _ _ Ef). right. exact Hq.
Qed.

Lemma run_f_ok F sides posts fuel : forall sched st, fnet_ok posts st -> fnet_ok posts (run_f F sides fuel sched st).
Proof.
  induction fuel as [|f IH]; intros sched st H; simpl; [exact H|].
  destruct (step_f F sides (hd 0 sched) st) as [st'|] eqn:E; [|exact H].
  apply IH. exact (step_f_ok F sides posts _ st st' H E).
Qed.

Lemma network_f_lost_ok F n posts sched : Forall (fwd_ok posts) (f_lost (network_f F n posts sched)).
Proof.
  assert (H : fnet_ok posts (network_f F n posts sched)).
  { unfold network_f. apply run_f_ok. split; simpl; [|constructor].
    apply posts_from_ok. intros j x Hj. exact Hj. }
  exact (proj2 H).
Qed.

Lemma wkey_eqb_refl k : wkey_eqb k k = true.
Proof. destruct k as [[s f] c]. simpl. rewrite Nat.eqb_refl, chan_eqb_refl. destruct f; reflexivity. Qed.

Lemma failed_at_in (lost : list pub) q k i :
  In q lost -> lost_failure tt q = (k, i) -> failed_at (map (lost_failure tt) lost) k i = true.
Proof.
  intros Hin Hq. unfold failed_at. apply existsb_exists. exists (k, i). split.
  - rewrite <- Hq. apply in_map. exact Hin.
  - simpl. rewrite wkey_eqb_refl, Nat.eqb_refl. reflexivity.
Qed.

(* a flagged message is received exactly once by every other side for which the
   hand-over out of the publishing side and the hand-over into that side succeeded *)
Lemma fault_exact_receiver F n posts sched i s0 c0 src s :
  nth_error posts i = Some (s0, c0, src) -> s0 <= n -> s <= n -> s <> s0 ->
  post_crosses i (s0, c0, src) = true ->
  let fl := map (lost_failure tt) (f_lost (network_f F n posts sched)) in
  failed_at fl (s0, false, c0) i = false -> failed_at fl (s, true, c0) i = false ->
  count_at s c0 i (log (f_net (network_f F n posts sched))) = 1.
Proof.
  intros Hn Hs0 Hs Hne Hc fl F1 F2. subst fl.
  pose proof (fault_conservation F n posts sched i s0 c0 src s c0 Hn Hs0 Hs) as H.
  rewrite (expected_other _ _ _ _ _ Hne), Hc in H.
  rewrite sum_map_zero in H; [lia|]. intros q Hq.
  pose proof (network_f_lost_ok F n posts sched) as Hok. rewrite Forall_forall in Hok.
  destruct (Hok q Hq) as (i' & s0' & c0' & src' & Hn' & Hcase).
  destruct (Nat.eq_dec i' i) as [->|Hi].
  - pose proof (eq_trans (eq_sym Hn') Hn) as Heq. injection Heq as -> -> ->.
    destruct Hcase as [-> | (s' & Hs' & ->)].
    + (* lost on the way to the proxy *)
      exfalso. pose proof (failed_at_in _ _ (s0, false, c0) i Hq eq_refl) as Hf. congruence.
    + destruct (Nat.eq_dec s' s) as [->|Hss].
      * exfalso. pose proof (failed_at_in _ _ (s, true, c0) i Hq eq_refl) as Hf. congruence.
      * (* lost on the way into ANOTHER side: irrelevant for s *)
        unfold tot2.
        rewrite (foreign_local_childless (sides_of n) s' c0 (Lcl c0) (mkmsg i (Some s0) (Some false)) s0 eq_refl)
          by (intros E; apply Hs'; symmetry; exact E).
        cbn [sum_map]. rewrite Nat.add_0_r.
        unfold cnt, count_at. rewrite deliveries_sides, count_ev_flat_map. apply sum_map_zero. intros x _.
        rewrite side_deliv_local. destruct (Nat.eqb s' x && cname_eqb (Lcl c0) (Lcl c0)) eqn:E; [|reflexivity].
        apply andb_true_iff in E as [E _]. apply Nat.eqb_eq in E. subst x. simpl. unfold ev_is. simpl.
        replace (Nat.eqb s' s) with false by (symmetry; apply Nat.eqb_neq; exact Hss). reflexivity.
  - apply tot2_other_id. destruct Hcase as [-> | (s' & _ & ->)]; simpl; exact Hi.
Qed.

(* ---- the model satisfies the fault oracle ------------------------------------------------ *)

Lemma model_at_most F n posts sched : ok_at_most n posts (log (f_net (network_f F n posts sched))) = true.
Proof.
  unfold ok_at_most. apply all_posts_spec. intros j [[s0 c0] src] Hn. rewrite Nat.add_0_l. cbv beta iota.
  destruct (s0 <=? n) eqn:E1; cbn [negb orb]; [|reflexivity]. apply Nat.leb_le in E1.
  apply forallb_forall. intros s Hs. apply in_sides in Hs. apply andb_true_iff. split.
  - apply Nat.leb_le. exact (fault_at_most F n posts sched j s0 c0 src s c0 Hn E1 Hs).
  - apply Nat.eqb_eq. pose proof (fault_at_most F n posts sched j s0 c0 src s (other_chan c0) Hn E1 Hs) as H.
    rewrite expected_stray in H. lia.
Qed.

Lemma model_exactly_once_f F n posts sched :
  let st := network_f F n posts sched in
  ok_exactly_once_f n posts (map (lost_failure tt) (f_lost st)) (log (f_net st)) = true.
Proof.
  cbv zeta. unfold ok_exactly_once_f. apply all_posts_spec. intros j [[s0 c0] src] Hn.
  rewrite Nat.add_0_l. cbv beta iota.
  destruct (s0 <=? n) eqn:E1; cbn [negb orb]; [|reflexivity]. apply Nat.leb_le in E1.
  destruct (post_crosses j (s0, c0, src)) eqn:E2; cbn [negb orb]; [|reflexivity].
  apply forallb_forall. intros s Hs. apply in_others in Hs as [Hs Hne].
  destruct (failed_at _ (s0, false, c0) j) eqn:F1; [reflexivity|].
  destruct (failed_at _ (s, true, c0) j) eqn:F2; [reflexivity|]. cbn [orb]. apply Nat.eqb_eq.
  exact (fault_exact_receiver F n posts sched j s0 c0 src s Hn E1 Hs Hne E2 F1 F2).
Qed.
