(* Fwd -- the message forwarding protocol between the client and the pilots
   (C16).  Executable definitions only.

   Code modelled (src/radical/pilot):
     session.py    Session.crosswire_pubsub (closure pubsub_fwd), _crosswire_proxy,
                   the registry look-up of bridge addresses, _module
     utils/component.py  ClientComponent.advance / AgentComponent.advance (fwd default),
                   BaseComponent.publish / register_subscriber (topic = pubsub name)
     messages.py   `fwd` defaults of the typed control messages

   Sides are numbered 0..n: 0 is the client (module name 'client'), k >= 1 is
   pilot k (module name = its pilot id).  A module name that belongs to no
   connected side is a number > n. *)
From Coq Require Import List Bool Arith PeanoNat.
Import ListNotations.

(* ---- channels, bridges, topics ------------------------------------------- *)

Inductive chan := Control | State.

(* the four pubsub names of constants.py that take part *)
Inductive cname := Lcl (c : chan)     (* CONTROL_PUBSUB / STATE_PUBSUB             *)
                 | Prx (c : chan).    (* PROXY_CONTROL_PUBSUB / PROXY_STATE_PUBSUB *)

(* a bridge (what an address of the registry denotes): the local bridge of one
   side, or the single proxy bridge all sides of the session connect to *)
Inductive bus := Local (s : nat) (c : chan) | Proxy (c : chan).

Definition chan_eqb (a b : chan) : bool :=
  match a, b with Control, Control | State, State => true | _, _ => false end.

Definition cname_eqb (a b : cname) : bool :=
  match a, b with
  | Lcl x, Lcl y | Prx x, Prx y => chan_eqb x y
  | _, _ => false
  end.

Definition bus_eqb (a b : bus) : bool :=
  match a, b with
  | Local s x, Local t y => Nat.eqb s t && chan_eqb x y
  | Proxy x, Proxy y => chan_eqb x y
  | _, _ => false
  end.

(* reg['bridges.<name>.addr_*'] as seen from side s: local names resolve to the
   side's own bridge, proxy names to the shared one (Session._publish_cfg copies
   the proxy's channel table into every side's registry) *)
Definition reg_bridge (s : nat) (c : cname) : bus :=
  match c with Lcl x => Local s x | Prx x => Proxy x end.

(* ---- messages ------------------------------------------------------------- *)

Record msg := mkmsg {
  m_id     : nat;             (* payload, never touched by the forwarders *)
  m_origin : option nat;      (* msg['origin']: absent, or a module name  *)
  m_fwd    : option bool      (* msg['fwd']:    absent, False, True       *)
}.

Definition set_origin (m : msg) (o : option nat) := mkmsg (m_id m) o (m_fwd m).
Definition set_fwd    (m : msg) (f : option bool) := mkmsg (m_id m) (m_origin m) f.

(* truth value of msg.get('fwd') *)
Definition truthy (f : option bool) : bool :=
  match f with Some true => true | _ => false end.

Definition origin_is (me : nat) (m : msg) : bool :=
  match m_origin m with Some o => Nat.eqb o me | None => false end.

(* Session.crosswire_pubsub.<locals>.pubsub_fwd, for a session whose _module is
   `me`; None = `return` without publishing, Some m' = publisher.put(tgt, m') *)
Definition pubsub_fwd (me : nat) (from_proxy : bool) (m : msg) : option msg :=
  (* if 'origin' not in msg: msg['origin'] = self._module *)
  let m1 := match m_origin m with None => set_origin m (Some me) | Some _ => m end in
  if from_proxy then
    (* everything from the proxy is forwarded, except what originated here *)
    if origin_is me m1 then None
    else Some m1
  else
    (* if not msg.get('fwd'): return *)
    if negb (truthy (m_fwd m1)) then None
    (* if not msg['origin'] == self._module: return *)
    else if negb (origin_is me m1) then None
    (* msg['fwd'] = False ; publish *)
    else Some (set_fwd m1 (Some false)).

(* ---- wiring --------------------------------------------------------------- *)

(* one call crosswire_pubsub(src, tgt, from_proxy) on side w_side: a
   Subscriber(channel=src, topic=src, url=reg[src].addr_sub, cb=pubsub_fwd)
   and a Publisher(channel=tgt, url=reg[tgt].addr_pub) used as put(tgt, msg) *)
Record wire := mkwire { w_side : nat; w_src : cname; w_tgt : cname; w_fp : bool }.

(* Session._crosswire_proxy *)
Definition crosswire_proxy (s : nat) : list wire :=
  [ mkwire s (Lcl Control) (Prx Control) false;
    mkwire s (Prx Control) (Lcl Control) true;
    mkwire s (Lcl State)   (Prx State)   false;
    mkwire s (Prx State)   (Lcl State)   true ].

(* a publication in flight: which bridge, which topic, what message *)
Record pub := mkpub { p_bus : bus; p_topic : cname; p_msg : msg }.

(* does a subscription (bridge of `name` as seen from side s, topic `name`)
   receive publication p? *)
Definition hears (s : nat) (name : cname) (p : pub) : bool :=
  bus_eqb (p_bus p) (reg_bridge s name) && cname_eqb (p_topic p) name.

Definition wire_fire (w : wire) (p : pub) : list pub :=
  if hears (w_side w) (w_src w) p then
    match pubsub_fwd (w_side w) (w_fp w) (p_msg p) with
    | Some m' => [ mkpub (reg_bridge (w_side w) (w_tgt w)) (w_tgt w) m' ]
    | None    => []
    end
  else [].

(* what the forwarders of all sides publish in reaction to p *)
Definition children (sides : list nat) (p : pub) : list pub :=
  flat_map (fun s => flat_map (fun w => wire_fire w p) (crosswire_proxy s)) sides.

(* ---- application subscribers ---------------------------------------------- *)

(* a delivery to the components of one side (register_subscriber(pubsub, cb)
   for CONTROL_PUBSUB and STATE_PUBSUB: topic = pubsub) *)
Record event := mkev {
  e_side : nat; e_chan : chan; e_id : nat; e_origin : option nat; e_fwd : option bool }.

Definition listen (s : nat) (c : chan) (p : pub) : list event :=
  if hears s (Lcl c) p
  then [ mkev s c (m_id (p_msg p)) (m_origin (p_msg p)) (m_fwd (p_msg p)) ]
  else [].

Definition deliveries (sides : list nat) (p : pub) : list event :=
  flat_map (fun s => listen s Control p ++ listen s State p) sides.

(* ---- the network ---------------------------------------------------------- *)

Record net := mknet { pending : list pub; log : list event; npub : nat }.

(* the in-memory network takes the (k mod len)-th pending publication *)
Definition pick (k : nat) (l : list pub) : option (pub * list pub) :=
  match l with
  | [] => None
  | _ :: _ =>
      let i := Nat.modulo k (length l) in
      match nth_error l i with
      | Some p => Some (p, firstn i l ++ skipn (S i) l)
      | None => None
      end
  end.

Definition step (sides : list nat) (k : nat) (st : net) : option net :=
  match pick k (pending st) with
  | None => None
  | Some (p, rest) =>
      Some (mknet (rest ++ children sides p) (log st ++ deliveries sides p) (S (npub st)))
  end.

(* at most `fuel` publications are transported (the harness stops a
   circulating implementation at the same bound) *)
Fixpoint run (sides : list nat) (fuel : nat) (sched : list nat) (st : net) : net :=
  match fuel with
  | 0 => st
  | S f =>
      match step sides (hd 0 sched) st with
      | None => st
      | Some st' => run sides f (tl sched) st'
      end
  end.

Definition quiescent (st : net) : bool :=
  match pending st with [] => true | _ => false end.

(* ---- where messages come from --------------------------------------------- *)

Inductive mtype := RpcReq | RpcRes | CompStart | BaseMsg.

(* messages.py: _defaults['fwd'] *)
Definition mtype_fwd (t : mtype) : bool :=
  match t with RpcReq | RpcRes => true | CompStart | BaseMsg => false end.

Inductive source :=
  | Raw (origin : option nat) (fwd : option bool)   (* component.publish(pubsub, dict) *)
  | Advance (explicit : option bool)                (* component.advance(..., publish=True[, fwd=..]) *)
  | Typed (t : mtype) (explicit : option bool).     (* component.publish(pubsub, <Message>(..[, fwd=..])) *)

(* ClientComponent.advance: fwd=False ; AgentComponent.advance: fwd=True *)
Definition advance_default (side : nat) : bool := negb (Nat.eqb side 0).

Definition source_msg (side id : nat) (s : source) : msg :=
  match s with
  | Raw o f => mkmsg id o f
  | Advance e => mkmsg id None (Some (match e with Some b => b | None => advance_default side end))
  | Typed t e => mkmsg id None (Some (match e with Some b => b | None => mtype_fwd t end))
  end.

(* an application-level publication: on which side, on which channel, what *)
Definition post := (nat * chan * source)%type.

(* BaseComponent.publish: publishers[pubsub].put(topic=pubsub, msg) *)
Definition post_pub (id : nat) (x : post) : pub :=
  let '(s, c, src) := x in mkpub (Local s c) (Lcl c) (source_msg s id src).

Fixpoint posts_from (id : nat) (l : list post) : list pub :=
  match l with [] => [] | x :: l' => post_pub id x :: posts_from (S id) l' end.

Definition sides_of (n : nat) : list nat := seq 0 (S n).

(* hard bound on transported publications: n + 3 per posted message *)
Definition bound (n len : nat) : nat := len * (n + 3).

(* 1 client + n pilots; all posts are published, then the network runs *)
Definition network (n : nat) (posts : list post) (sched : list nat) : net :=
  run (sides_of n) (bound n (length posts)) sched (mknet (posts_from 0 posts) [] 0).
