(* Fwd.Life -- life cycle of the forwarding fabric (C16): sides connect to the
   proxy, exchange messages and close, in any order.  Executable definitions
   only.

   Code modelled (src/radical/pilot), on top of Fwd.Model:
     session.py  Session._start_proxy  (primary: `register` at the proxy service)
                 Session._connect_proxy (agent_0: `lookup`)
                 Session.close          (primary only: `unregister`; cmgr.close;
                                         the crosswire subscribers are stopped)
     proxy.py    Proxy._register / _lookup / _unregister (book keeping of the
                 session's proxy bridges: created on register, terminated with
                 all undelivered messages on unregister)

   One session id is shared by the client and all its pilots: the proxy keeps
   ONE entry (and one set of proxy bridges) for all of them. *)
From Coq Require Import List Bool Arith PeanoNat.
From RP Require Import Fwd.Model.
Import ListNotations.

Definition mem (a : nat) (l : list nat) : bool := existsb (Nat.eqb a) l.

Definition on_proxy (p : pub) : bool :=
  match p_bus p with Proxy _ => true | Local _ _ => false end.

Definition on_local (s : nat) (p : pub) : bool :=
  match p_bus p with Local t _ => Nat.eqb t s | Proxy _ => false end.

(* while the session is not registered at the proxy there are no proxy bridges:
   what a forwarder puts there is lost *)
Definition kids (up : bool) (sides : list nat) (p : pub) : list pub :=
  if up then children sides p else filter (fun q => negb (on_proxy q)) (children sides p).

Definition step_up (up : bool) (sides : list nat) (k : nat) (st : net) : option net :=
  match pick k (pending st) with
  | None => None
  | Some (p, rest) =>
      Some (mknet (rest ++ kids up sides p) (log st ++ deliveries sides p) (S (npub st)))
  end.

Fixpoint run_up (up : bool) (sides : list nat) (fuel : nat) (sched : list nat) (st : net) : net :=
  match fuel with
  | 0 => st
  | S f =>
      match step_up up sides (hd 0 sched) st with
      | None => st
      | Some st' => run_up up sides f (tl sched) st'
      end
  end.

(* ---- events of the life cycle ----------------------------------------------- *)

Inductive lop :=
  | Connect (s : nat)                               (* Session(...) of side s: proxy hand-shake + _crosswire_proxy *)
  | Close (s : nat)                                 (* Session.close() of side s (and the end of its process)   *)
  | Round (posts : list post) (sched : list nat).   (* live sides publish; the network runs until silent        *)

(* requests seen by the proxy service *)
Inductive preq := Register | Lookup | Unregister.

Record world := mkworld {
  w_live  : list nat;          (* connected sides, in connection order               *)
  w_reg   : bool;              (* Proxy._clients has the session id (bridges exist)  *)
  w_done  : bool;              (* the client session was closed                      *)
  w_net   : net;
  w_next  : nat;               (* id of the next posted message                      *)
  w_reqs  : list (nat * preq); (* (requesting side, request) in order                *)
  w_fails : nat                (* Connect events that did not produce a live side    *)
}.

Definition world0 : world := mkworld [] false false (mknet [] [] 0) 0 [] 0.

Definition set_net (w : world) (n : net) : world :=
  mkworld (w_live w) (w_reg w) (w_done w) n (w_next w) (w_reqs w) (w_fails w).

Definition failed (w : world) (rq : list (nat * preq)) : world :=
  mkworld (w_live w) (w_reg w) (w_done w) (w_net w) (w_next w) (w_reqs w ++ rq) (S (w_fails w)).

Definition drop_pending (f : pub -> bool) (n : net) : net :=
  mknet (filter (fun p => negb (f p)) (pending n)) (log n) (npub n).

Definition do_connect (w : world) (s : nat) : world :=
  if mem s (w_live w) then failed w []             (* not attempted *)
  else if Nat.eqb s 0 then
    (* primary: _start_proxy -> request('register'); Proxy._register creates the bridges *)
    if w_done w || w_reg w then failed w []        (* not attempted: one client session per session id *)
    else mkworld (w_live w ++ [0]) true false (drop_pending (on_local 0) (w_net w))
                 (w_next w) (w_reqs w ++ [(0, Register)]) (w_fails w)
  else
    (* agent_0: _connect_proxy -> request('lookup'); Proxy._lookup raises unless registered *)
    if w_reg w
    then mkworld (w_live w ++ [s]) true (w_done w) (drop_pending (on_local s) (w_net w))
                 (w_next w) (w_reqs w ++ [(s, Lookup)]) (w_fails w)
    else failed w [(s, Lookup)].

Definition remove_side (s : nat) (l : list nat) : list nat :=
  filter (fun x => negb (Nat.eqb x s)) l.

Definition do_close (w : world) (s : nat) : world :=
  if negb (mem s (w_live w)) then w
  else if Nat.eqb s 0 then
    (* primary: cmgr.close(); request('unregister') -> Proxy._unregister ends the
       proxy bridges and disposes what they hold; subscribers stopped *)
    mkworld (remove_side 0 (w_live w)) false true
            (drop_pending on_proxy (drop_pending (on_local 0) (w_net w)))
            (w_next w) (w_reqs w ++ [(0, Unregister)]) (w_fails w)
  else
    (* agent_0: cmgr.close(); proxy client closed WITHOUT unregister; subscribers stopped *)
    mkworld (remove_side s (w_live w)) (w_reg w) (w_done w)
            (drop_pending (on_local s) (w_net w))
            (w_next w) (w_reqs w) (w_fails w).

(* only live sides can publish *)
Definition live_pub (sides : list nat) (p : pub) : bool :=
  match p_bus p with Local s _ => mem s sides | Proxy _ => false end.

Definition round_bound (sides : list nat) (len : nat) : nat := len * (length sides + 2).

Definition do_round (w : world) (posts : list post) (sched : list nat) : world :=
  let new := filter (live_pub (w_live w)) (posts_from (w_next w) posts) in
  let st0 := mknet (pending (w_net w) ++ new) (log (w_net w)) (npub (w_net w)) in
  let st := run_up (w_reg w) (w_live w) (round_bound (w_live w) (length posts)) sched st0 in
  mkworld (w_live w) (w_reg w) (w_done w) st (w_next w + length posts) (w_reqs w) (w_fails w).

Definition life_step (w : world) (o : lop) : world :=
  match o with
  | Connect s => do_connect w s
  | Close s => do_close w s
  | Round posts sched => do_round w posts sched
  end.

Definition life_run (ops : list lop) (w : world) : world := fold_left life_step ops w.

(* the rounds of a history with the situation they were played in:
   (live sides, registered, id of the first post, posts) *)
Definition rctx := (list nat * bool * nat * list post)%type.

Fixpoint rounds_from (w : world) (ops : list lop) : list rctx :=
  match ops with
  | [] => []
  | o :: ops' =>
      match o with
      | Round posts _ => [(w_live w, w_reg w, w_next w, posts)]
      | _ => []
      end ++ rounds_from (life_step w o) ops'
  end.
