(* Oracle clauses of C16 under failing hand-overs, and the row evaluated by
   the harness. *)
From Coq Require Import List Bool Arith PeanoNat.
From RP Require Import Common.Eqb Fwd.Model Fwd.Oracle Fwd.Fault.
Import ListNotations.

(* a failed hand-over as the harness sees it: which crosswire, which message *)
Definition failure := (wkey * nat)%type.

Definition lost_failure (sides_unused : unit) (q : pub) : failure :=
  (* the crosswire that tried to publish q: towards the proxy = the local->proxy
     forwarder of the side named in the origin marker; towards a local bridge =
     the proxy->local forwarder of that side *)
  match p_bus q with
  | Proxy c => ((match m_origin (p_msg q) with Some s => s | None => 0 end, false, c), m_id (p_msg q))
  | Local s c => ((s, true, c), m_id (p_msg q))
  end.

Definition failure_eqb (a b : failure) : bool := wkey_eqb (fst a) (fst b) && Nat.eqb (snd a) (snd b).

Definition failed_at (fl : list failure) (k : wkey) (i : nat) : bool :=
  existsb (fun f => wkey_eqb (fst f) k && Nat.eqb (snd f) i) fl.

(* NEVER more often than prescribed, whatever fails: at most once on every
   side, nothing on the other channel, nothing off-side for unflagged messages *)
Definition ok_at_most (n : nat) (posts : list post) (l : list event) : bool :=
  all_posts (fun i x => let '(s0, c0, _) := x in
     negb (Nat.leb s0 n) ||
     forallb (fun s => Nat.leb (count_at s c0 i l) (expected i x s c0)
                       && Nat.eqb (count_at s (other_chan c0) i l) 0) (sides_of n)) 0 posts.

(* exactly once on every other side whose hand-overs succeeded: the one out of
   the publishing side and the one into the receiving side *)
Definition ok_exactly_once_f (n : nat) (posts : list post) (fl : list failure) (l : list event) : bool :=
  all_posts (fun i x => let '(s0, c0, _) := x in
     negb (Nat.leb s0 n) || negb (post_crosses i x) ||
     forallb (fun s => failed_at fl (s0, false, c0) i || failed_at fl (s, true, c0) i
                       || Nat.eqb (count_at s c0 i l) 1) (others n s0)) 0 posts.

Definition fobs := (list event * nat * bool * nat * list failure)%type.

Definition model_fobs (F : faultsched) (n : nat) (posts : list post) (sched : list nat) : fobs :=
  let st := network_f F n posts sched in
  (log (f_net st), npub (f_net st), quiescent (f_net st), length (f_lost st),
   map (lost_failure tt) (f_lost st)).

Definition fobs_eqb (a b : fobs) : bool :=
  let '(la, na, qa, ea, fa) := a in
  let '(lb, nb, qb, eb, fb) := b in
  eqb_list event_eqb la lb && Nat.eqb na nb && bool_eqb qa qb && Nat.eqb ea eb
  && eqb_list failure_eqb fa fb.

(* [corr; exactly_once; not_back; stays_local; no_stray; no_circulation;
    only_owner_unregisters (n/a); at_most_once_under_faults] *)
Definition c16_fault_row (F : faultsched) (n : nat) (posts : list post) (sched : list nat) (o : fobs)
  : list bool :=
  let '(l, np, quiet, _, fl) := o in
  [ fobs_eqb (model_fobs F n posts sched) o;
    ok_exactly_once_f n posts fl l;
    ok_not_back n posts l;
    ok_stays_local n posts l;
    ok_no_stray n posts l;
    ok_no_circulation n (length posts) np quiet;
    true;
    ok_at_most n posts l ].
