(* Oracle clauses of C16 on the trace of a whole life cycle (connects, rounds
   of messages, closes in any order), and the row evaluated by the harness. *)
From Coq Require Import List Bool Arith PeanoNat.
From RP Require Import Common.Eqb Fwd.Model Fwd.Oracle Fwd.Life.
Import ListNotations.

Definition others_of (live : list nat) (s0 : nat) : list nat :=
  filter (fun s => negb (Nat.eqb s s0)) live.

(* every side that ever tries to connect *)
Fixpoint universe (ops : list lop) : list nat :=
  match ops with
  | [] => []
  | Connect s :: ops' => s :: universe ops'
  | _ :: ops' => universe ops'
  end.

Definition all_rounds (f : rctx -> bool) (ops : list lop) : bool :=
  forallb f (rounds_from world0 ops).

(* while the client session is up: a forward-flagged message published on a
   live side reaches every other LIVE side exactly once -- whichever pilots
   have come and gone before *)
Definition ok_life_exactly_once (ops : list lop) (l : list event) : bool :=
  all_rounds (fun r => let '(live, reg, k, posts) := r in
    all_posts (fun i x => let '(s0, c0, _) := x in
      negb (mem s0 live) || negb (mem 0 live) || negb (post_crosses i x) ||
      forallb (fun s => Nat.eqb (count_at s c0 i l) 1) (others_of live s0)) k posts) ops.

(* the publishing side sees its message exactly once *)
Definition ok_life_not_back (ops : list lop) (l : list event) : bool :=
  all_rounds (fun r => let '(live, reg, k, posts) := r in
    all_posts (fun i x => let '(s0, c0, _) := x in
      negb (mem s0 live) || Nat.eqb (count_at s0 c0 i l) 1) k posts) ops.

(* unflagged messages stay where they were published *)
Definition ok_life_stays_local (ops : list lop) (l : list event) : bool :=
  all_rounds (fun r => let '(live, reg, k, posts) := r in
    all_posts (fun i x => let '(s0, c0, _) := x in
      negb (mem s0 live) || post_crosses i x ||
      forallb (fun s => Nat.eqb (count_at s c0 i l) 0) (others_of live s0)) k posts) ops.

(* nothing on the other channel, nothing on sides that were not connected when
   the message was published *)
Definition ok_life_no_stray (ops : list lop) (l : list event) : bool :=
  all_rounds (fun r => let '(live, reg, k, posts) := r in
    all_posts (fun i x => let '(s0, c0, _) := x in
      forallb (fun s => Nat.eqb (count_at s (other_chan c0) i l) 0) (universe ops) &&
      forallb (fun s => (mem s live && mem s0 live) || Nat.eqb (count_at s c0 i l) 0) (universe ops)) k posts) ops.

Fixpoint pub_budget (rs : list rctx) : nat :=
  match rs with
  | [] => 0
  | (live, _, _, posts) :: rs' => length posts * (length live + 1) + pub_budget rs'
  end.

Definition ok_life_no_circulation (ops : list lop) (np : nat) (quiet : bool) : bool :=
  quiet && Nat.leb np (pub_budget (rounds_from world0 ops)).

(* only the owner of the session id (the client) ever unregisters it *)
Definition ok_only_owner_unregisters (reqs : list (nat * preq)) : bool :=
  forallb (fun x => match snd x with Unregister => Nat.eqb (fst x) 0 | _ => true end) reqs.

(* ---- observation ------------------------------------------------------------ *)

Definition preq_eqb (a b : preq) : bool :=
  match a, b with
  | Register, Register | Lookup, Lookup | Unregister, Unregister => true
  | _, _ => false
  end.

(* deliveries, publications transported, silent at the end, callback errors,
   requests seen by the proxy, failed connects *)
Definition lobs := (list event * nat * bool * nat * list (nat * preq) * nat)%type.

Definition life_obs (ops : list lop) : lobs :=
  let w := life_run ops world0 in
  (log (w_net w), npub (w_net w), quiescent (w_net w), 0, w_reqs w, w_fails w).

Definition lobs_eqb (a b : lobs) : bool :=
  let '(la, na, qa, ea, ra, fa) := a in
  let '(lb, nb, qb, eb, rb, fb) := b in
  eqb_list event_eqb la lb && Nat.eqb na nb && bool_eqb qa qb && Nat.eqb ea eb
  && eqb_list (eqb_prod Nat.eqb preq_eqb) ra rb && Nat.eqb fa fb.

Definition c16_life_row (ops : list lop) (o : lobs) : list bool :=
  let '(l, np, quiet, _, reqs, _) := o in
  [ lobs_eqb (life_obs ops) o;
    ok_life_exactly_once ops l;
    ok_life_not_back ops l;
    ok_life_stays_local ops l;
    ok_life_no_stray ops l;
    ok_life_no_circulation ops np quiet;
    ok_only_owner_unregisters reqs ].
