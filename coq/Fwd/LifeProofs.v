(* Proofs about the life cycle of the forwarding fabric (Fwd.Life).
   Part 1 generalises the counting lemmas of Fwd.Proofs from the side list
   0..n to an arbitrary duplicate-free list of live sides; part 2 is the
   induction over histories of connects, rounds and closes. *)
From Coq Require Import List Bool Arith PeanoNat Lia.
From RP Require Import Fwd.Model Fwd.Oracle Fwd.Proofs Fwd.Life Fwd.LifeOracle.
Import ListNotations.

Local Arguments pubsub_fwd : simpl never.

(* ---- part 1: arbitrary live sets ---------------------------------------------- *)

Lemma mem_In a l : mem a l = true <-> In a l.
Proof.
  unfold mem. rewrite existsb_exists. split.
  - intros (x & Hx & E). apply Nat.eqb_eq in E. subst x. exact Hx.
  - intros H. exists a. split; [exact H | apply Nat.eqb_refl].
Qed.

Lemma mem_false a l : mem a l = false <-> ~ In a l.
Proof.
  split.
  - intros H Hin. apply mem_In in Hin. congruence.
  - intros H. destruct (mem a l) eqn:E; [|reflexivity]. apply mem_In in E. contradiction.
Qed.

Lemma sum_point (g : nat -> nat) (a : nat) (l : list nat) : NoDup l ->
  sum_map (fun x => if Nat.eqb x a then g x else 0) l = if mem a l then g a else 0.
Proof.
  induction 1 as [|x l Hx Hnd IH]; simpl; [reflexivity|]. rewrite IH.
  destruct (Nat.eqb x a) eqn:E.
  - apply Nat.eqb_eq in E. subst x. rewrite Nat.eqb_refl. simpl.
    replace (mem a l) with false by (symmetry; apply mem_false; exact Hx). lia.
  - rewrite (Nat.eqb_sym a x), E. simpl. reflexivity.
Qed.

Lemma sum_others (a : nat) (l : list nat) : NoDup l -> In a l ->
  S (sum_map (fun x => if Nat.eqb x a then 0 else 1) l) = length l.
Proof.
  intros Hnd Hin.
  assert (H : sum_map (fun x => if Nat.eqb x a then 0 else 1) l
              + sum_map (fun x => if Nat.eqb x a then 1 else 0) l = length l).
  { clear. induction l as [|x l IH]; simpl; [reflexivity|]. destruct (Nat.eqb x a); lia. }
  rewrite (sum_point (fun _ => 1) a l Hnd) in H.
  replace (mem a l) with true in H by (symmetry; apply mem_In; exact Hin). lia.
Qed.

Lemma proxy_children_len sides c t m :
  length (children sides (mkpub (Proxy c) t m)) <= length sides.
Proof.
  rewrite children_sides, <- sum_map_const1, sum_map_flat_map.
  replace (length sides) with (length sides * 1) by lia.
  apply sum_map_le. intros s _. rewrite side_children_proxy, sum_map_const1.
  destruct (cname_eqb t (Prx c)); [|simpl; lia]. destruct (pubsub_fwd s true m); simpl; lia.
Qed.

Lemma proxy_children_len_own sides c t m s :
  NoDup sides -> m_origin m = Some s -> In s sides ->
  S (length (children sides (mkpub (Proxy c) t m))) <= length sides.
Proof.
  intros Hnd Ho Hs. rewrite children_sides, <- sum_map_const1, sum_map_flat_map.
  rewrite <- (sum_others s sides Hnd Hs). apply le_n_S.
  apply sum_map_mono. intros x _.
  rewrite side_children_proxy, sum_map_const1. destruct m as [i o f]. simpl in Ho. subst o.
  rewrite fwd_in_some. rewrite (Nat.eqb_sym s x).
  destruct (cname_eqb t (Prx c)); destruct (Nat.eqb x s); simpl; lia.
Qed.

Lemma weight_le_live sides p : NoDup sides -> weight sides p <= length sides + 1.
Proof.
  intros Hnd. unfold weight, tot2, tot1, tot0. destruct p as [[s c|c] t m].
  - destruct (children sides (mkpub (Local s c) t m)) as [|q l] eqn:E; [simpl; lia|].
    assert (Hq : In q (children sides (mkpub (Local s c) t m))) by (rewrite E; left; reflexivity).
    pose proof Hq as Hq'. apply child_of_local in Hq' as (m' & -> & Ho & _ & Hs).
    assert (Hl : l = []).
    { rewrite children_sides in E.
      assert (Hlen : length (flat_map (fun s0 => side_children s0 (mkpub (Local s c) t m)) sides) <= 1).
      { rewrite <- sum_map_const1, sum_map_flat_map.
        transitivity (sum_map (fun x => if Nat.eqb x s then 1 else 0) sides).
        - apply sum_map_mono. intros x _. rewrite side_children_local, sum_map_const1, (Nat.eqb_sym s x).
          destruct (Nat.eqb x s); simpl; [|lia].
          destruct (cname_eqb t (Lcl c)); [|simpl; lia]. destruct (pubsub_fwd x false m); simpl; lia.
        - rewrite (sum_point (fun _ => 1) s sides Hnd). destruct (mem s sides); lia. }
      rewrite E in Hlen. simpl in Hlen. destruct l; [reflexivity | simpl in Hlen; lia]. }
    subst l. cbn [sum_map]. rewrite sum_map_const1.
    pose proof (proxy_children_len_own sides c (Prx c) m' s Hnd Ho Hs) as Hb. lia.
  - rewrite (sum_map_ext _ (fun _ => 1)).
    + rewrite sum_map_const1. pose proof (proxy_children_len sides c t m). lia.
    + intros q Hq. apply child_of_proxy in Hq as (s' & o & -> & _ & Ho & Hne).
      rewrite (foreign_local_childless sides s' c (Lcl c) m o Ho Hne). reflexivity.
Qed.

Lemma pending_weight_le_live sides (l : list pub) :
  NoDup sides -> sum_map (weight sides) l <= length l * (length sides + 1).
Proof. intros Hnd. apply sum_map_le. intros p _. apply weight_le_live. exact Hnd. Qed.

Lemma cnt_local_live sides s c i s' c0 m : NoDup sides ->
  cnt sides s c i (mkpub (Local s' c0) (Lcl c0) m)
  = if mem s' sides && (Nat.eqb s' s && chan_eqb c0 c && Nat.eqb (m_id m) i) then 1 else 0.
Proof.
  intros Hnd. unfold cnt, count_at. rewrite deliveries_sides, count_ev_flat_map.
  rewrite (sum_map_ext _ (fun x => if Nat.eqb x s'
             then (if Nat.eqb x s && chan_eqb c0 c && Nat.eqb (m_id m) i then 1 else 0) else 0)).
  - rewrite (sum_point (fun x => if Nat.eqb x s && chan_eqb c0 c && Nat.eqb (m_id m) i then 1 else 0) s' sides Hnd).
    destruct (mem s' sides); reflexivity.
  - intros x _. rewrite side_deliv_local, (Nat.eqb_sym s' x). simpl. rewrite chan_eqb_refl.
    destruct (Nat.eqb x s'); simpl; [|reflexivity]. unfold ev_is; simpl.
    destruct (Nat.eqb x s && chan_eqb c0 c && Nat.eqb (m_id m) i); reflexivity.
Qed.

Lemma sum_children_local_live (F : pub -> nat) sides s0 c0 m : NoDup sides ->
  sum_map F (children sides (mkpub (Local s0 c0) (Lcl c0) m))
  = if mem s0 sides
    then match pubsub_fwd s0 false m with
         | Some m' => F (mkpub (Proxy c0) (Prx c0) m')
         | None => 0
         end
    else 0.
Proof.
  intros Hnd. rewrite children_sides, sum_map_flat_map.
  rewrite (sum_map_ext _ (fun x => if Nat.eqb x s0
             then match pubsub_fwd x false m with
                  | Some m' => F (mkpub (Proxy c0) (Prx c0) m')
                  | None => 0
                  end else 0)).
  - rewrite (sum_point (fun x => match pubsub_fwd x false m with
                                 | Some m' => F (mkpub (Proxy c0) (Prx c0) m')
                                 | None => 0 end) s0 sides Hnd). reflexivity.
  - intros x _. rewrite side_children_local, (Nat.eqb_sym s0 x). simpl. rewrite chan_eqb_refl.
    destruct (Nat.eqb x s0); simpl; [|reflexivity].
    destruct (pubsub_fwd x false m); simpl; lia.
Qed.

(* the potential of a message posted on a live side, seen from a live side *)
Lemma tot2_post_live sides s c i s0 c0 src :
  NoDup sides -> In s0 sides -> In s sides ->
  tot2 sides (cnt sides s c i) (post_pub i (s0, c0, src)) = expected i (s0, c0, src) s c.
Proof.
  intros Hnd Hs0 Hs. unfold post_pub, expected, post_crosses. set (m := source_msg s0 i src).
  assert (Hid : m_id m = i) by apply source_msg_id.
  assert (M0 : mem s0 sides = true) by (apply mem_In; exact Hs0).
  assert (M : mem s sides = true) by (apply mem_In; exact Hs).
  unfold tot2. rewrite (cnt_local_live sides s c i s0 c0 m Hnd), M0, Hid, Nat.eqb_refl, andb_true_r.
  rewrite (sum_children_local_live _ sides s0 c0 m Hnd), M0. cbn [andb].
  destruct (crosses s0 m) eqn:Ec.
  - rewrite (fwd_out_crosses s0 m Ec), Hid. unfold tot1, tot0. rewrite cnt_proxy, sum_children_proxy.
    rewrite Nat.add_0_l.
    rewrite (sum_map_ext _ (fun x => if Nat.eqb x s
               then (if Nat.eqb x s0 then 0 else if chan_eqb c0 c then 1 else 0) else 0)).
    + rewrite (sum_point (fun x => if Nat.eqb x s0 then 0 else if chan_eqb c0 c then 1 else 0) s sides Hnd), M.
      rewrite (Nat.eqb_sym s0 s), (chan_eqb_sym c c0).
      destruct (Nat.eqb s s0); destruct (chan_eqb c0 c); reflexivity.
    + intros x Hx. apply mem_In in Hx.
      destruct (Nat.eqb x s0) eqn:E0; [destruct (Nat.eqb x s); reflexivity|].
      rewrite (cnt_local_live sides s c i x c0 _ Hnd), Hx. simpl. rewrite Nat.eqb_refl, andb_true_r.
      destruct (Nat.eqb x s); destruct (chan_eqb c0 c); reflexivity.
  - rewrite (fwd_out_not_crosses s0 m Ec).
    rewrite (Nat.eqb_sym s0 s), (chan_eqb_sym c c0).
    destruct (Nat.eqb s s0); destruct (chan_eqb c0 c); reflexivity.
Qed.

(* ---- part 2: transport while registered / not registered ------------------------ *)

Lemma run_up_true sides fuel : forall sched st, run_up true sides fuel sched st = run sides fuel sched st.
Proof. induction fuel as [|f IH]; intros sched st; simpl; [reflexivity|].
  unfold step_up, step, kids. destruct (pick (hd 0 sched) (pending st)) as [[p rest]|]; [apply IH | reflexivity]. Qed.

Lemma filter_none {A} (f : A -> bool) (l : list A) : (forall x, In x l -> f x = false) -> filter f l = [].
Proof.
  induction l as [|x l IH]; intros H; simpl; [reflexivity|].
  rewrite (H x (or_introl eq_refl)). apply IH. intros y Hy. apply H. right. exact Hy.
Qed.

(* not registered: what a local publication would send to the proxy is lost *)
Lemma kids_down_local sides p : on_proxy p = false -> kids false sides p = [].
Proof.
  intros Hp. unfold kids. apply filter_none. intros q Hq.
  destruct p as [[s c|c] t m]; [|discriminate].
  apply child_of_local in Hq as (m' & -> & _). reflexivity.
Qed.

Lemma run_down sides fuel : forall sched st,
  (forall p, In p (pending st) -> on_proxy p = false) -> length (pending st) <= fuel ->
  pending (run_up false sides fuel sched st) = [] /\
  npub (run_up false sides fuel sched st) = npub st + length (pending st).
Proof.
  induction fuel as [|f IH]; intros sched st Hloc Hf; simpl.
  - destruct (pending st); simpl in *; [split; [reflexivity|lia] | lia].
  - unfold step_up. destruct (pick (hd 0 sched) (pending st)) as [[p rest]|] eqn:E.
    + apply pick_split in E as (a & b & Hab & ->).
      assert (Hp : on_proxy p = false) by (apply Hloc; rewrite Hab; apply in_or_app; right; left; reflexivity).
      rewrite (kids_down_local sides p Hp), app_nil_r.
      destruct (IH (tl sched) (mknet (a ++ b) (log st ++ deliveries sides p) (S (npub st)))) as [H1 H2].
      * simpl. intros q Hq. apply Hloc. rewrite Hab. apply in_app_or in Hq as [Hq|Hq]; apply in_or_app;
          [left; exact Hq | right; right; exact Hq].
      * simpl. rewrite Hab, app_length in Hf. simpl in Hf. rewrite app_length. lia.
      * split; [exact H1|]. rewrite H2. simpl. rewrite Hab, !app_length. simpl. lia.
    + destruct (pending st) as [|p l] eqn:Ep; [split; [reflexivity | simpl; lia]|].
      destruct (pick_nonempty (hd 0 sched) (p :: l)) as (p' & rest & Hp); [discriminate|].
      rewrite Hp in E. discriminate.
Qed.

(* transport never touches the count of a message that is not in flight *)
Lemma in_kids up sides p q : In q (kids up sides p) -> In q (children sides p).
Proof. unfold kids. destruct up; [auto|]. intros H. apply filter_In in H as [H _]. exact H. Qed.

Lemma deliveries_id sides p e : In e (deliveries sides p) -> e_id e = m_id (p_msg p).
Proof.
  intros H. apply in_deliveries in H as (s & _ & H). destruct p as [[s' c|c] t m].
  - rewrite side_deliv_local in H. destruct (Nat.eqb s' s && cname_eqb t (Lcl c)); [|contradiction].
    destruct H as [<-|[]]. reflexivity.
  - rewrite side_deliv_proxy in H. contradiction.
Qed.

Lemma run_up_other_id up sides s c i fuel : forall sched st,
  (forall p, In p (pending st) -> m_id (p_msg p) <> i) ->
  count_at s c i (log (run_up up sides fuel sched st)) = count_at s c i (log st).
Proof.
  induction fuel as [|f IH]; intros sched st Hid; simpl; [reflexivity|].
  unfold step_up. destruct (pick (hd 0 sched) (pending st)) as [[p rest]|] eqn:E; [|reflexivity].
  apply pick_split in E as (a & b & Hab & ->).
  assert (Hp : m_id (p_msg p) <> i) by (apply Hid; rewrite Hab; apply in_or_app; right; left; reflexivity).
  rewrite IH; simpl.
  - unfold count_at. rewrite count_ev_app. fold (count_at s c i (deliveries sides p)).
    fold (cnt sides s c i p). rewrite (cnt_other_id sides s c i p Hp). lia.
  - intros q Hq. apply in_app_or in Hq as [Hq|Hq].
    + apply Hid. rewrite Hab. apply in_app_or in Hq as [Hq|Hq]; apply in_or_app; [left; exact Hq | right; right; exact Hq].
    + apply in_kids in Hq. rewrite (children_id sides p q Hq). exact Hp.
Qed.

(* ids in the log stay below a bound that covers everything in flight *)
Lemma run_up_ids up sides N fuel : forall sched st,
  (forall p, In p (pending st) -> m_id (p_msg p) < N) -> (forall e, In e (log st) -> e_id e < N) ->
  forall e, In e (log (run_up up sides fuel sched st)) -> e_id e < N.
Proof.
  induction fuel as [|f IH]; intros sched st Hp Hl; simpl; [exact Hl|].
  unfold step_up. destruct (pick (hd 0 sched) (pending st)) as [[p rest]|] eqn:E; [|exact Hl].
  apply pick_split in E as (a & b & Hab & ->).
  assert (Hpp : m_id (p_msg p) < N) by (apply Hp; rewrite Hab; apply in_or_app; right; left; reflexivity).
  apply IH; simpl.
  - intros q Hq. apply in_app_or in Hq as [Hq|Hq].
    + apply Hp. rewrite Hab. apply in_app_or in Hq as [Hq|Hq]; apply in_or_app; [left; exact Hq | right; right; exact Hq].
    + apply in_kids in Hq. rewrite (children_id sides p q Hq). exact Hpp.
  - intros e He. apply in_app_or in He as [He|He]; [apply Hl; exact He|].
    rewrite (deliveries_id sides p e He). exact Hpp.
Qed.

Lemma sum_map_filter {A} (F : A -> nat) (f : A -> bool) (l : list A) :
  sum_map F (filter f l) = sum_map (fun x => if f x then F x else 0) l.
Proof. induction l as [|x l IH]; simpl; [reflexivity|]. destruct (f x); simpl; rewrite IH; reflexivity. Qed.

Lemma posts_from_ids posts : forall k p, In p (posts_from k posts) -> k <= m_id (p_msg p) < k + length posts.
Proof.
  induction posts as [|x l IH]; intros k p H; simpl in H; [contradiction|].
  destruct H as [<-|H]; [rewrite post_pub_id; simpl; lia|]. apply IH in H. simpl. lia.
Qed.

Lemma posts_from_local posts : forall k p, In p (posts_from k posts) -> on_proxy p = false.
Proof.
  induction posts as [|[[s c] src] l IH]; intros k p H; simpl in H; [contradiction|].
  destruct H as [<-|H]; [reflexivity | exact (IH _ _ H)].
Qed.

(* ---- the invariant of a history --------------------------------------------------- *)

Definition inv (w : world) : Prop :=
  NoDup (w_live w) /\ w_reg w = mem 0 (w_live w) /\ pending (w_net w) = [] /\
  (forall e, In e (log (w_net w)) -> e_id e < w_next w).

Lemma inv0 : inv world0.
Proof. repeat split; simpl; [constructor | contradiction]. Qed.

Lemma mem_app a l x : mem a (l ++ [x]) = mem a l || Nat.eqb a x.
Proof. unfold mem. rewrite existsb_app. simpl. rewrite orb_false_r. reflexivity. Qed.

Lemma NoDup_snoc (l : list nat) x : NoDup l -> ~ In x l -> NoDup (l ++ [x]).
Proof.
  intros Hnd Hx. induction Hnd as [|y l Hy Hnd IH]; simpl; [constructor; [intros []|constructor]|].
  constructor.
  - intros H. apply in_app_or in H as [H|[<-|[]]]; [contradiction|]. apply Hx. left. reflexivity.
  - apply IH. intros H. apply Hx. right. exact H.
Qed.

Lemma mem_remove a s l : mem a (remove_side s l) = mem a l && negb (Nat.eqb a s).
Proof.
  unfold mem, remove_side. induction l as [|x l IH]; simpl; [reflexivity|].
  destruct (Nat.eqb x s) eqn:E; simpl.
  - rewrite IH. apply Nat.eqb_eq in E. subst x. destruct (Nat.eqb a s) eqn:E2; simpl.
    + rewrite andb_false_r. reflexivity.
    + rewrite andb_true_r. reflexivity.
  - rewrite IH. destruct (Nat.eqb a x) eqn:E2; simpl; [|reflexivity].
    apply Nat.eqb_eq in E2. subst x. rewrite E. simpl. reflexivity.
Qed.

Lemma NoDup_remove s l : NoDup l -> NoDup (remove_side s l).
Proof. intros H. apply NoDup_filter. exact H. Qed.

Lemma drop_pending_nil f n : pending n = [] -> pending (drop_pending f n) = [].
Proof. intros H. unfold drop_pending. simpl. rewrite H. reflexivity. Qed.

Lemma inv_connect w s : inv w -> inv (do_connect w s).
Proof.
  intros (Hnd & Hreg & Hp & Hl). unfold do_connect, failed.
  destruct (mem s (w_live w)) eqn:Em; [repeat split; assumption|].
  assert (Hs : ~ In s (w_live w)) by (apply mem_false; exact Em).
  destruct (Nat.eqb s 0) eqn:E0.
  - apply Nat.eqb_eq in E0. subst s.
    destruct (w_done w || w_reg w); [repeat split; assumption|].
    repeat split; simpl.
    + apply NoDup_snoc; assumption.
    + rewrite mem_app. simpl. rewrite orb_true_r. reflexivity.
    + rewrite Hp. reflexivity.
    + exact Hl.
  - destruct (w_reg w) eqn:Er; [|repeat split; assumption].
    repeat split; simpl.
    + apply NoDup_snoc; assumption.
    + rewrite mem_app, <- Hreg. reflexivity.
    + rewrite Hp. reflexivity.
    + exact Hl.
Qed.

Lemma inv_close w s : inv w -> inv (do_close w s).
Proof.
  intros (Hnd & Hreg & Hp & Hl). unfold do_close.
  destruct (negb (mem s (w_live w))); [repeat split; assumption|].
  destruct (Nat.eqb s 0) eqn:E0.
  - repeat split; simpl.
    + apply NoDup_remove. exact Hnd.
    + rewrite mem_remove. simpl. rewrite andb_false_r. reflexivity.
    + rewrite Hp. reflexivity.
    + exact Hl.
  - repeat split; simpl.
    + apply NoDup_remove. exact Hnd.
    + rewrite mem_remove, <- Hreg. rewrite (Nat.eqb_sym 0 s), E0. simpl. rewrite andb_true_r. reflexivity.
    + rewrite Hp. reflexivity.
    + exact Hl.
Qed.

Definition new_pubs (w : world) (posts : list post) : list pub :=
  filter (live_pub (w_live w)) (posts_from (w_next w) posts).

Lemma filter_len {A} (f : A -> bool) (l : list A) : length (filter f l) <= length l.
Proof. induction l as [|x l IH]; simpl; [lia|]. destruct (f x); simpl; lia. Qed.

Lemma new_pubs_length w posts : length (new_pubs w posts) <= length posts.
Proof. unfold new_pubs. rewrite <- (posts_from_length posts (w_next w)). apply filter_len. Qed.

Lemma new_pubs_in w posts p : In p (new_pubs w posts) -> In p (posts_from (w_next w) posts).
Proof. unfold new_pubs. intros H. apply filter_In in H as [H _]. exact H. Qed.

(* a round: silent afterwards, publications within the budget *)
Lemma round_quiet w posts sched : inv w ->
  pending (w_net (do_round w posts sched)) = [] /\
  npub (w_net (do_round w posts sched)) <= npub (w_net w) + length posts * (length (w_live w) + 1).
Proof.
  intros (Hnd & Hreg & Hp & Hl). unfold do_round. rewrite Hp. cbn [app w_net].
  fold (new_pubs w posts). pose proof (new_pubs_length w posts) as Hlen.
  destruct (w_reg w).
  - rewrite run_up_true.
    pose proof (pending_weight_le_live (w_live w) (new_pubs w posts) Hnd) as Hw.
    set (st0 := mknet (new_pubs w posts) (log (w_net w)) (npub (w_net w))).
    assert (Hq : pending (run (w_live w) (round_bound (w_live w) (length posts)) sched st0) = []).
    { apply run_quiescent. simpl. unfold round_bound. nia. }
    split; [exact Hq|].
    pose proof (run_npub (w_live w) (round_bound (w_live w) (length posts)) sched st0) as H.
    rewrite Hq in H. simpl in H. nia.
  - destruct (run_down (w_live w) (round_bound (w_live w) (length posts)) sched
                (mknet (new_pubs w posts) (log (w_net w)) (npub (w_net w)))) as [H1 H2].
    + simpl. intros p Hin. apply new_pubs_in in Hin. exact (posts_from_local _ _ _ Hin).
    + simpl. unfold round_bound. nia.
    + split; [exact H1|]. rewrite H2. simpl. nia.
Qed.

Lemma inv_round w posts sched : inv w -> inv (do_round w posts sched).
Proof.
  intros Hi. pose proof (round_quiet w posts sched Hi) as [Hq _].
  destruct Hi as (Hnd & Hreg & Hp & Hl). repeat split; try assumption.
  unfold do_round. cbn [w_net w_next]. rewrite Hp. cbn [app].
  apply run_up_ids; simpl.
  - intros p Hin. fold (new_pubs w posts) in Hin. apply new_pubs_in, posts_from_ids in Hin. lia.
  - intros e He. apply Hl in He. lia.
Qed.

Lemma inv_step w o : inv w -> inv (life_step w o).
Proof. destruct o; simpl; [apply inv_connect | apply inv_close | apply inv_round]. Qed.

Lemma inv_run ops : forall w, inv w -> inv (life_run ops w).
Proof. induction ops as [|o ops IH]; intros w H; simpl; [exact H | apply IH, inv_step, H]. Qed.

(* later events never change the count of an earlier message *)
Lemma step_log_stable w o s c i : inv w -> i < w_next w ->
  count_at s c i (log (w_net (life_step w o))) = count_at s c i (log (w_net w)) /\
  w_next w <= w_next (life_step w o).
Proof.
  intros (Hnd & Hreg & Hp & Hl) Hi. destruct o as [x|x|posts sched]; simpl.
  - unfold do_connect, failed. destruct (mem x (w_live w)); [simpl; split; [reflexivity|lia]|].
    destruct (Nat.eqb x 0); [destruct (w_done w || w_reg w)|destruct (w_reg w)]; simpl; split; try reflexivity; lia.
  - unfold do_close. destruct (negb (mem x (w_live w))); [split; [reflexivity|lia]|].
    destruct (Nat.eqb x 0); simpl; split; try reflexivity; lia.
  - unfold do_round. cbn [w_net w_next]. split; [|lia]. rewrite Hp. cbn [app].
    rewrite run_up_other_id; [reflexivity|]. simpl. intros p Hin.
    fold (new_pubs w posts) in Hin. apply new_pubs_in, posts_from_ids in Hin. lia.
Qed.

Lemma run_log_stable ops s c i : forall w, inv w -> i < w_next w ->
  count_at s c i (log (w_net (life_run ops w))) = count_at s c i (log (w_net w)).
Proof.
  induction ops as [|o ops IH]; intros w Hinv Hi; simpl; [reflexivity|].
  destruct (step_log_stable w o s c i Hinv Hi) as [H1 H2].
  rewrite IH; [exact H1 | apply inv_step; exact Hinv | lia].
Qed.

Lemma count_fresh w s c i : inv w -> w_next w <= i -> count_at s c i (log (w_net w)) = 0.
Proof.
  intros (_ & _ & _ & Hl) Hi. unfold count_at.
  induction (log (w_net w)) as [|e l IH]; simpl; [reflexivity|].
  rewrite IH by (intros e' He'; apply Hl; right; exact He').
  assert (He : e_id e < w_next w) by (apply Hl; left; reflexivity).
  unfold ev_is. replace (Nat.eqb (e_id e) i) with false by (symmetry; apply Nat.eqb_neq; lia).
  rewrite andb_false_r. reflexivity.
Qed.

(* a round played while the client session is up *)
Lemma round_counts w posts sched j s0 c0 src s c :
  inv w -> mem 0 (w_live w) = true ->
  nth_error posts j = Some (s0, c0, src) -> mem s0 (w_live w) = true -> mem s (w_live w) = true ->
  count_at s c (w_next w + j) (log (w_net (do_round w posts sched))) = expected (w_next w + j) (s0, c0, src) s c.
Proof.
  intros Hinv H0 Hnth Hs0 Hs. pose proof Hinv as (Hnd & Hreg & Hp & Hl).
  set (i := w_next w + j).
  assert (Hreg' : w_reg w = true) by (rewrite Hreg; exact H0).
  set (st0 := mknet (new_pubs w posts) (log (w_net w)) (npub (w_net w))).
  assert (Hlog : log (w_net (do_round w posts sched))
                 = log (run (w_live w) (round_bound (w_live w) (length posts)) sched st0)).
  { unfold do_round. cbn [w_net]. rewrite Hp, Hreg', run_up_true. reflexivity. }
  assert (Hq : pending (run (w_live w) (round_bound (w_live w) (length posts)) sched st0) = []).
  { apply run_quiescent. simpl.
    pose proof (pending_weight_le_live (w_live w) (new_pubs w posts) Hnd) as Hw.
    pose proof (new_pubs_length w posts) as Hlen. unfold round_bound.
    assert (H1 : length (new_pubs w posts) * (length (w_live w) + 1) <= length posts * (length (w_live w) + 1))
      by (apply Nat.mul_le_mono_r; exact Hlen).
    assert (H2 : length posts * (length (w_live w) + 1) <= length posts * (length (w_live w) + 2))
      by (apply Nat.mul_le_mono_l; lia).
    lia. }
  rewrite Hlog.
  pose proof (run_potential (w_live w) (cnt (w_live w) s c i) (fun l _ => count_at s c i l)) as Hpot.
  assert (Hacc : forall (l : list event) (k : nat) (p : pub),
             count_at s c i (l ++ deliveries (w_live w) p) = count_at s c i l + cnt (w_live w) s c i p).
  { intros l k p. unfold count_at, cnt, count_at. apply count_ev_app. }
  specialize (Hpot Hacc (round_bound (w_live w) (length posts)) sched st0).
  unfold potential in Hpot. rewrite Hq in Hpot. cbn [sum_map] in Hpot. subst st0. cbn [log npub pending] in Hpot.
  rewrite (count_fresh w s c i Hinv) in Hpot by (unfold i; lia).
  unfold new_pubs in Hpot. rewrite sum_map_filter in Hpot.
  rewrite (sum_posts (fun p => if live_pub (w_live w) p then tot2 (w_live w) (cnt (w_live w) s c i) p else 0) i) in Hpot.
  - replace (w_next w <=? i) with true in Hpot by (symmetry; apply Nat.leb_le; unfold i; lia).
    replace (i - w_next w) with j in Hpot by (unfold i; lia).
    assert (Hn' : @nth_error post posts j = Some (s0, c0, src)) by exact Hnth.
    rewrite Hn' in Hpot. unfold post_pub at 1 in Hpot. cbn [live_pub p_bus] in Hpot. rewrite Hs0 in Hpot.
    rewrite (tot2_post_live (w_live w) s c i s0 c0 src Hnd) in Hpot
      by (apply mem_In; assumption). unfold new_pubs. lia.
  - intros p Hne. destruct (live_pub (w_live w) p); [|reflexivity]. apply tot2_other_id. exact Hne.
Qed.

(* THE life-cycle theorem: in whatever order sides have connected and closed,
   a message published in a round played while the client session is up has
   the prescribed delivery count on every side that is live in that round --
   in the final log of the whole history *)
Lemma life_counts ops : forall w, inv w ->
  forall live reg k posts, In (live, reg, k, posts) (rounds_from w ops) ->
  forall j s0 c0 src, nth_error posts j = Some (s0, c0, src) ->
  mem 0 live = true -> mem s0 live = true ->
  forall s c, mem s live = true ->
  count_at s c (k + j) (log (w_net (life_run ops w))) = expected (k + j) (s0, c0, src) s c.
Proof.
  induction ops as [|o ops IH]; intros w Hinv live reg k posts Hin j s0 c0 src Hnth H0 Hs0 s c Hs;
    simpl in Hin; [contradiction|].
  apply in_app_or in Hin as [Hin|Hin].
  - destruct o as [x|x|posts' sched]; try contradiction.
    destruct Hin as [Hin|[]]. injection Hin as <- <- <- <-. simpl.
    rewrite run_log_stable.
    + apply round_counts; assumption.
    + apply inv_round. exact Hinv.
    + unfold do_round. cbn [w_next]. assert (j < length posts') by (apply nth_error_Some; congruence). lia.
  - simpl. apply (IH (life_step w o) (inv_step w o Hinv) live reg k posts Hin j s0 c0 src Hnth H0 Hs0 s c Hs).
Qed.

(* the whole history ends silent and within the publication budget *)
Lemma life_quiet ops : forall w, inv w ->
  pending (w_net (life_run ops w)) = [] /\
  npub (w_net (life_run ops w)) <= npub (w_net w) + pub_budget (rounds_from w ops).
Proof.
  induction ops as [|o ops IH]; intros w Hinv.
  - simpl. destruct Hinv as (_ & _ & Hp & _). split; [exact Hp | lia].
  - change (life_run (o :: ops) w) with (life_run ops (life_step w o)).
    destruct (IH (life_step w o) (inv_step w o Hinv)) as [H1 H2]. split; [exact H1|].
    destruct o as [x|x|posts sched].
    + change (rounds_from w (Connect x :: ops)) with (rounds_from (life_step w (Connect x)) ops).
      assert (Hn : npub (w_net (life_step w (Connect x))) = npub (w_net w)).
      { simpl. unfold do_connect, failed. destruct (mem x (w_live w)); [reflexivity|].
        destruct (Nat.eqb x 0); [destruct (w_done w || w_reg w)|destruct (w_reg w)]; reflexivity. }
      lia.
    + change (rounds_from w (Close x :: ops)) with (rounds_from (life_step w (Close x)) ops).
      assert (Hn : npub (w_net (life_step w (Close x))) = npub (w_net w)).
      { simpl. unfold do_close. destruct (negb (mem x (w_live w))); [reflexivity|].
        destruct (Nat.eqb x 0); reflexivity. }
      lia.
    + change (rounds_from w (Round posts sched :: ops))
        with ((w_live w, w_reg w, w_next w, posts) :: rounds_from (life_step w (Round posts sched)) ops).
      cbn [pub_budget]. pose proof (round_quiet w posts sched Hinv) as [_ Hb].
      change (life_step w (Round posts sched)) with (do_round w posts sched) in *. lia.
Qed.

(* who talks to the proxy: only the client ever unregisters the session id *)
Lemma step_unregister w o :
  ok_only_owner_unregisters (w_reqs w) = true -> ok_only_owner_unregisters (w_reqs (life_step w o)) = true.
Proof.
  unfold ok_only_owner_unregisters. intros H. destruct o as [x|x|posts sched]; simpl.
  - unfold do_connect, failed. destruct (mem x (w_live w)); simpl; [rewrite app_nil_r; exact H|].
    destruct (Nat.eqb x 0); [destruct (w_done w || w_reg w)|destruct (w_reg w)]; simpl;
      rewrite ?app_nil_r, ?forallb_app, ?H; reflexivity.
  - unfold do_close. destruct (negb (mem x (w_live w))); [exact H|].
    destruct (Nat.eqb x 0); simpl; rewrite ?forallb_app, ?H; reflexivity.
  - exact H.
Qed.

Lemma life_unregister ops : forall w,
  ok_only_owner_unregisters (w_reqs w) = true -> ok_only_owner_unregisters (w_reqs (life_run ops w)) = true.
Proof. induction ops as [|o ops IH]; intros w H; simpl; [exact H | apply IH, step_unregister, H]. Qed.

(* ---- the closing of a pilot's session changes nothing for the others ------------ *)

Lemma life_run_app a b w : life_run (a ++ b) w = life_run b (life_run a w).
Proof. unfold life_run. apply fold_left_app. Qed.

Lemma close_pilot_facts w k : k <> 0 ->
  w_next (do_close w k) = w_next w /\
  (forall x, mem x (w_live w) = true -> x <> k -> mem x (w_live (do_close w k)) = true).
Proof.
  intros Hk. unfold do_close. destruct (negb (mem k (w_live w))); [split; [reflexivity|auto]|].
  apply Nat.eqb_neq in Hk. rewrite Hk. simpl. split; [reflexivity|].
  intros x Hx Hne. rewrite mem_remove, Hx. apply Nat.eqb_neq in Hne. rewrite Hne. reflexivity.
Qed.

Lemma pilot_close_changes_nothing pre k posts sched rest j s0 c0 src s c :
  k <> 0 ->
  let w := life_run pre world0 in
  nth_error posts j = Some (s0, c0, src) ->
  mem 0 (w_live w) = true -> mem s0 (w_live w) = true -> s0 <> k ->
  mem s (w_live w) = true -> s <> k ->
  count_at s c (w_next w + j)
    (log (w_net (life_run (pre ++ Close k :: Round posts sched :: rest) world0)))
  = expected (w_next w + j) (s0, c0, src) s c.
Proof.
  intros Hk w Hnth H0 Hs0 Hs0k Hs Hsk. rewrite life_run_app. fold w.
  assert (Hinv : inv w) by (apply inv_run, inv0).
  destruct (close_pilot_facts w k Hk) as [Hn Hm].
  rewrite <- Hn.
  apply (life_counts (Close k :: Round posts sched :: rest) w Hinv
           (w_live (do_close w k)) (w_reg (do_close w k)) (w_next (do_close w k)) posts).
  - simpl. left. reflexivity.
  - exact Hnth.
  - apply Hm; [exact H0 | intros E; apply Hk; symmetry; exact E].
  - apply Hm; assumption.
  - apply Hm; assumption.
Qed.

(* ---- the model satisfies the life-cycle oracle ------------------------------------ *)

Lemma in_others_of live s0 s : In s (others_of live s0) <-> In s live /\ s <> s0.
Proof. unfold others_of. rewrite filter_In, negb_true_iff, Nat.eqb_neq. reflexivity. Qed.

Lemma model_life_exactly_once ops :
  ok_life_exactly_once ops (log (w_net (life_run ops world0))) = true.
Proof.
  unfold ok_life_exactly_once, all_rounds. apply forallb_forall. intros [[[live reg] k] posts] Hin.
  apply all_posts_spec. intros j [[s0 c0] src] Hnth.
  destruct (mem s0 live) eqn:E1; cbn [negb orb]; [|reflexivity].
  destruct (mem 0 live) eqn:E2; cbn [negb orb]; [|reflexivity].
  destruct (post_crosses (k + j) (s0, c0, src)) eqn:E3; cbn [negb orb]; [|reflexivity].
  apply forallb_forall. intros s Hs. apply in_others_of in Hs as [Hs Hne]. apply Nat.eqb_eq.
  rewrite (life_counts ops world0 inv0 live reg k posts Hin j s0 c0 src Hnth E2 E1 s c0)
    by (apply mem_In; exact Hs).
  rewrite (expected_other _ _ _ _ _ Hne), E3. reflexivity.
Qed.

(* rounds played without the client session (before it connects there is no
   live side; after it closed the remaining pilots only talk to themselves) *)
Lemma run_down_counts sides s c i fuel : forall sched st,
  (forall p, In p (pending st) -> on_proxy p = false) -> length (pending st) <= fuel ->
  count_at s c i (log (run_up false sides fuel sched st))
  = count_at s c i (log st) + sum_map (cnt sides s c i) (pending st).
Proof.
  induction fuel as [|f IH]; intros sched st Hloc Hf; simpl.
  - destruct (pending st); simpl in *; lia.
  - unfold step_up. destruct (pick (hd 0 sched) (pending st)) as [[p rest]|] eqn:E.
    + apply pick_split in E as (a & b & Hab & ->).
      assert (Hp : on_proxy p = false) by (apply Hloc; rewrite Hab; apply in_or_app; right; left; reflexivity).
      rewrite (kids_down_local sides p Hp), app_nil_r. rewrite IH; simpl.
      * rewrite Hab, !sum_map_app. simpl. unfold count_at at 1. rewrite count_ev_app.
        fold (count_at s c i (log st)). fold (count_at s c i (deliveries sides p)). fold (cnt sides s c i p). lia.
      * intros q Hq. apply Hloc. rewrite Hab. apply in_app_or in Hq as [Hq|Hq]; apply in_or_app;
          [left; exact Hq | right; right; exact Hq].
      * rewrite Hab, app_length in Hf. simpl in Hf. rewrite app_length. lia.
    + destruct (pending st) as [|p l] eqn:Ep; [simpl; lia|].
      destruct (pick_nonempty (hd 0 sched) (p :: l)) as (p' & rest & Hp); [discriminate|].
      rewrite Hp in E. discriminate.
Qed.

Lemma round_counts_down w posts sched j s0 c0 src s c :
  inv w -> mem 0 (w_live w) = false ->
  nth_error posts j = Some (s0, c0, src) -> mem s0 (w_live w) = true ->
  count_at s c (w_next w + j) (log (w_net (do_round w posts sched)))
  = if Nat.eqb s0 s && chan_eqb c0 c then 1 else 0.
Proof.
  intros Hinv H0 Hnth Hs0. pose proof Hinv as (Hnd & Hreg & Hp & Hl).
  set (i := w_next w + j).
  assert (Hreg' : w_reg w = false) by (rewrite Hreg; exact H0).
  unfold do_round. cbn [w_net]. rewrite Hp, Hreg'. cbn [app]. fold (new_pubs w posts).
  rewrite run_down_counts; simpl.
  - rewrite (count_fresh w s c i Hinv) by (unfold i; lia).
    unfold new_pubs. rewrite sum_map_filter.
    rewrite (sum_posts (fun p => if live_pub (w_live w) p then cnt (w_live w) s c i p else 0) i).
    + replace (w_next w <=? i) with true by (symmetry; apply Nat.leb_le; unfold i; lia).
      replace (i - w_next w) with j by (unfold i; lia).
      assert (Hn' : @nth_error post posts j = Some (s0, c0, src)) by exact Hnth.
      rewrite Hn'. unfold post_pub. cbn [live_pub p_bus]. rewrite Hs0.
      rewrite (cnt_local_live (w_live w) s c i s0 c0 _ Hnd), Hs0, source_msg_id, Nat.eqb_refl, andb_true_r.
      simpl. reflexivity.
    + intros p Hne. destruct (live_pub (w_live w) p); [|reflexivity]. apply cnt_other_id. exact Hne.
  - intros p Hin. apply new_pubs_in in Hin. exact (posts_from_local _ _ _ Hin).
  - pose proof (new_pubs_length w posts). unfold round_bound. nia.
Qed.

Lemma life_counts_down ops : forall w, inv w ->
  forall live reg k posts, In (live, reg, k, posts) (rounds_from w ops) ->
  forall j s0 c0 src, nth_error posts j = Some (s0, c0, src) ->
  mem 0 live = false -> mem s0 live = true ->
  forall s c,
  count_at s c (k + j) (log (w_net (life_run ops w))) = if Nat.eqb s0 s && chan_eqb c0 c then 1 else 0.
Proof.
  induction ops as [|o ops IH]; intros w Hinv live reg k posts Hin j s0 c0 src Hnth H0 Hs0 s c;
    simpl in Hin; [contradiction|].
  apply in_app_or in Hin as [Hin|Hin].
  - destruct o as [x|x|posts' sched]; try contradiction.
    destruct Hin as [Hin|[]]. injection Hin as <- <- <- <-. simpl.
    rewrite run_log_stable.
    + apply (round_counts_down w posts' sched j s0 c0 src s c); assumption.
    + apply inv_round. exact Hinv.
    + unfold do_round. cbn [w_next]. assert (j < length posts') by (apply nth_error_Some; congruence). lia.
  - simpl. apply (IH (life_step w o) (inv_step w o Hinv) live reg k posts Hin j s0 c0 src Hnth H0 Hs0 s c).
Qed.

Lemma model_life_not_back ops :
  ok_life_not_back ops (log (w_net (life_run ops world0))) = true.
Proof.
  unfold ok_life_not_back, all_rounds. apply forallb_forall. intros [[[live reg] k] posts] Hin.
  apply all_posts_spec. intros j [[s0 c0] src] Hnth.
  destruct (mem s0 live) eqn:E1; cbn [negb orb]; [|reflexivity].
  apply Nat.eqb_eq. destruct (mem 0 live) eqn:E2.
  - rewrite (life_counts ops world0 inv0 live reg k posts Hin j s0 c0 src Hnth E2 E1 s0 c0 E1).
    apply expected_own.
  - rewrite (life_counts_down ops world0 inv0 live reg k posts Hin j s0 c0 src Hnth E2 E1 s0 c0).
    rewrite Nat.eqb_refl, chan_eqb_refl. reflexivity.
Qed.

Lemma model_life_stays_local ops :
  ok_life_stays_local ops (log (w_net (life_run ops world0))) = true.
Proof.
  unfold ok_life_stays_local, all_rounds. apply forallb_forall. intros [[[live reg] k] posts] Hin.
  apply all_posts_spec. intros j [[s0 c0] src] Hnth.
  destruct (mem s0 live) eqn:E1; cbn [negb orb]; [|reflexivity].
  destruct (post_crosses (k + j) (s0, c0, src)) eqn:E3; cbn [negb orb]; [reflexivity|].
  apply forallb_forall. intros s Hs. apply in_others_of in Hs as [Hs Hne]. apply Nat.eqb_eq.
  destruct (mem 0 live) eqn:E2.
  - rewrite (life_counts ops world0 inv0 live reg k posts Hin j s0 c0 src Hnth E2 E1 s c0)
      by (apply mem_In; exact Hs).
    rewrite (expected_other _ _ _ _ _ Hne), E3. reflexivity.
  - rewrite (life_counts_down ops world0 inv0 live reg k posts Hin j s0 c0 src Hnth E2 E1 s c0).
    replace (Nat.eqb s0 s) with false by (symmetry; apply Nat.eqb_neq; intros E; apply Hne; symmetry; exact E).
    reflexivity.
Qed.

Lemma model_life_no_circulation ops :
  let w := life_run ops world0 in
  ok_life_no_circulation ops (npub (w_net w)) (quiescent (w_net w)) = true.
Proof.
  destruct (life_quiet ops world0 inv0) as [Hq Hn]. unfold ok_life_no_circulation, quiescent.
  cbv zeta. rewrite Hq. simpl in Hn. apply Nat.leb_le in Hn. rewrite Hn. reflexivity.
Qed.

Lemma model_only_owner_unregisters ops :
  ok_only_owner_unregisters (w_reqs (life_run ops world0)) = true.
Proof. apply life_unregister. reflexivity. Qed.

(* ---- statements from the empty world ------------------------------------------------ *)

Lemma life_counts0 ops live reg k posts :
  In (live, reg, k, posts) (rounds_from world0 ops) ->
  forall j s0 c0 src, nth_error posts j = Some (s0, c0, src) ->
  mem 0 live = true -> mem s0 live = true ->
  forall s c, mem s live = true ->
  count_at s c (k + j) (log (w_net (life_run ops world0))) = expected (k + j) (s0, c0, src) s c.
Proof. exact (life_counts ops world0 inv0 live reg k posts). Qed.

Lemma life_counts_down0 ops live reg k posts :
  In (live, reg, k, posts) (rounds_from world0 ops) ->
  forall j s0 c0 src, nth_error posts j = Some (s0, c0, src) ->
  mem 0 live = false -> mem s0 live = true ->
  forall s c,
  count_at s c (k + j) (log (w_net (life_run ops world0))) = if Nat.eqb s0 s && chan_eqb c0 c then 1 else 0.
Proof. exact (life_counts_down ops world0 inv0 live reg k posts). Qed.

Lemma life_quiet0 ops :
  pending (w_net (life_run ops world0)) = [] /\
  npub (w_net (life_run ops world0)) <= pub_budget (rounds_from world0 ops).
Proof. exact (life_quiet ops world0 inv0). Qed.

Lemma model_life_all_clauses ops :
  let w := life_run ops world0 in
  ok_life_exactly_once ops (log (w_net w)) = true /\ ok_life_not_back ops (log (w_net w)) = true /\
  ok_life_stays_local ops (log (w_net w)) = true /\
  ok_life_no_circulation ops (npub (w_net w)) (quiescent (w_net w)) = true /\
  ok_only_owner_unregisters (w_reqs w) = true.
Proof.
  repeat split; [apply model_life_exactly_once | apply model_life_not_back | apply model_life_stays_local
                 | apply model_life_no_circulation | apply model_only_owner_unregisters].
Qed.
