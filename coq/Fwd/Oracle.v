(* Oracle clauses of C16 on an observed delivery log, and the rows evaluated
   by the harness (model-vs-implementation bit first). *)
From Coq Require Import List Bool Arith PeanoNat.
From RP Require Import Common.Eqb Fwd.Model.
Import ListNotations.

(* ---- counting ------------------------------------------------------------- *)

Definition ev_is (s : nat) (c : chan) (i : nat) (e : event) : bool :=
  Nat.eqb (e_side e) s && chan_eqb (e_chan e) c && Nat.eqb (e_id e) i.

Fixpoint count_ev (f : event -> bool) (l : list event) : nat :=
  match l with [] => 0 | e :: l' => (if f e then 1 else 0) + count_ev f l' end.

(* how often message i was delivered to the subscribers of side s on channel c *)
Definition count_at (s : nat) (c : chan) (i : nat) (l : list event) : nat :=
  count_ev (ev_is s c i) l.

(* ---- what the property demands -------------------------------------------- *)

(* a posted message leaves its side iff it carries a true forward flag and no
   foreign origin marker (a foreign marker says: this already came from elsewhere) *)
Definition crosses (s0 : nat) (m : msg) : bool :=
  truthy (m_fwd m) &&
  match m_origin m with None => true | Some o => Nat.eqb o s0 end.

Definition post_crosses (i : nat) (x : post) : bool :=
  let '(s0, _, src) := x in crosses s0 (source_msg s0 i src).

Definition other_chan (c : chan) : chan := match c with Control => State | State => Control end.

(* the number of deliveries the property prescribes *)
Definition expected (i : nat) (x : post) (s : nat) (c : chan) : nat :=
  let '(s0, c0, _) := x in
  if chan_eqb c c0
  then if Nat.eqb s s0 then 1 else if post_crosses i x then 1 else 0
  else 0.

(* iterate over the posts with their ids *)
Fixpoint all_posts (f : nat -> post -> bool) (id : nat) (l : list post) : bool :=
  match l with [] => true | x :: l' => f id x && all_posts f (S id) l' end.

Definition others (n s0 : nat) : list nat := filter (fun s => negb (Nat.eqb s s0)) (sides_of n).

(* "delivered exactly once to the subscribers of every other connected side" *)
Definition ok_exactly_once (n : nat) (posts : list post) (l : list event) : bool :=
  all_posts (fun i x => let '(s0, c0, _) := x in
     negb (Nat.leb s0 n) || negb (post_crosses i x) ||
     forallb (fun s => Nat.eqb (count_at s c0 i l) 1) (others n s0)) 0 posts.

(* "never a second time to the side it came from" (once = the local delivery) *)
Definition ok_not_back (n : nat) (posts : list post) (l : list event) : bool :=
  all_posts (fun i x => let '(s0, c0, _) := x in
     negb (Nat.leb s0 n) || Nat.eqb (count_at s0 c0 i l) 1) 0 posts.

(* "messages without the forward flag stay on the side where they were published" *)
Definition ok_stays_local (n : nat) (posts : list post) (l : list event) : bool :=
  all_posts (fun i x => let '(s0, c0, _) := x in
     negb (Nat.leb s0 n) || post_crosses i x ||
     forallb (fun s => Nat.eqb (count_at s c0 i l) 0) (others n s0)) 0 posts.

(* nothing shows up on the other channel *)
Definition ok_no_stray (n : nat) (posts : list post) (l : list event) : bool :=
  all_posts (fun i x => let '(s0, c0, _) := x in
     negb (Nat.leb s0 n) ||
     forallb (fun s => Nat.eqb (count_at s (other_chan c0) i l) 0) (sides_of n)) 0 posts.

(* "no message circulates": the network falls silent after at most n + 2
   publications per posted message (1 local + 1 on the proxy + n remote) *)
Definition ok_no_circulation (n len : nat) (np : nat) (quiet : bool) : bool :=
  quiet && Nat.leb np (len * (n + 2)).

(* ---- observation equality -------------------------------------------------- *)

Definition bool_eqb (a b : bool) : bool := Bool.eqb a b.

Definition event_eqb (a b : event) : bool :=
  Nat.eqb (e_side a) (e_side b) && chan_eqb (e_chan a) (e_chan b) && Nat.eqb (e_id a) (e_id b)
  && eqb_option Nat.eqb (e_origin a) (e_origin b) && eqb_option bool_eqb (e_fwd a) (e_fwd b).

(* what the harness observes: deliveries in order, publications transported,
   pending empty at the end, callback errors swallowed by the listener *)
Definition obs := (list event * nat * bool * nat)%type.

Definition model_obs (n : nat) (posts : list post) (sched : list nat) : obs :=
  let st := network n posts sched in (log st, npub st, quiescent st, 0).

Definition obs_eqb (a b : obs) : bool :=
  let '(la, na, qa, ea) := a in
  let '(lb, nb, qb, eb) := b in
  eqb_list event_eqb la lb && Nat.eqb na nb && bool_eqb qa qb && Nat.eqb ea eb.

Definition c16_row (n : nat) (posts : list post) (sched : list nat) (o : obs) : list bool :=
  let '(l, np, quiet, _) := o in
  [ obs_eqb (model_obs n posts sched) o;
    ok_exactly_once n posts l;
    ok_not_back n posts l;
    ok_stays_local n posts l;
    ok_no_stray n posts l;
    ok_no_circulation n (length posts) np quiet ].

(* single forwarder call: pubsub_fwd on one message (exhaustive table) *)
Definition msg_eqb (a b : msg) : bool :=
  Nat.eqb (m_id a) (m_id b) && eqb_option Nat.eqb (m_origin a) (m_origin b)
  && eqb_option bool_eqb (m_fwd a) (m_fwd b).

Definition c16_fwd_row (me : nat) (fp : bool) (m : msg) (o : option msg) : list bool :=
  [ eqb_option msg_eqb (pubsub_fwd me fp m) o; true; true; true; true; true ].
