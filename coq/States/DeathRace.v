(* A state notification for a task (TaskManager._update_tasks) and the death
   of its pilot (TaskManager._pilot_state_cb) are handled by two threads; both
   run under the tasks lock, so one comes first.  In either order the
   application is told at most one final state for the task, and it is the
   state the Task object ends in.  Finite domain: every pair (current state,
   notified state) of the generated task state table. *)
From Coq Require Import ZArith List Bool.
From RP Require Import Common.Eqb Gen.StatesTables States.Model States.Inst.
Import ListNotations.

(* _pilot_state_cb on a task bound to the dead pilot: (new state, was FAILED announced) *)
Definition death (s : tstate) : tstate * bool :=
  if t_is_final s then (s, false) else (T_FAILED, true).

Definition finals_of (l : list tstate) : list tstate := filter t_is_final l.

(* announced final states and the end state, update first *)
Definition order_ud (cur tgt : tstate) : list tstate * tstate :=
  let '(s1, cbs, _) := t_notify cur tgt in
  let '(s2, ann) := death s1 in
  (finals_of cbs ++ (if ann then [T_FAILED] else []), s2).

(* ... pilot death first *)
Definition order_du (cur tgt : tstate) : list tstate * tstate :=
  let '(s1, ann) := death cur in
  let '(s2, cbs, _) := t_notify s1 tgt in
  ((if ann then [T_FAILED] else []) ++ finals_of cbs, s2).

Definition one_final (r : list tstate * tstate) : bool :=
  match fst r with
  | [] => true
  | [f] => tstate_beq f (snd r) && t_is_final (snd r)
  | _ => false
  end.

Lemma race_all :
  forallb (fun cur => forallb (fun tgt => one_final (order_ud cur tgt) && one_final (order_du cur tgt))
                              tstate_all) tstate_all = true.
Proof. vm_compute. reflexivity. Qed.

Theorem death_race_one_final (cur tgt : tstate) :
  one_final (order_ud cur tgt) = true /\ one_final (order_du cur tgt) = true.
Proof.
  pose proof race_all as H. rewrite forallb_forall in H.
  specialize (H cur (tstate_all_complete cur)). rewrite forallb_forall in H.
  specialize (H tgt (tstate_all_complete tgt)). apply andb_true_iff in H. exact H.
Qed.

(* row for the two-thread cases of the C13 check: the observed announcements of
   final states (callbacks and the FAILED published by the pilot callback, in
   the order they happened) and the state the Task object ended in must be
   those of one of the two orders; the clause judges the observation itself *)
Definition race_obs_eqb (a b : list tstate * tstate) : bool :=
  Common.Eqb.eqb_list tstate_beq (fst a) (fst b) && tstate_beq (snd a) (snd b).
(* [cbs]: every state the application's task callback was called with, in order
   (whichever thread called it): it must be a chain from the task's state --
   in particular nothing is announced after a final state *)
Definition c13_race_row (cur tgt : tstate) (ann : list tstate) (fin : tstate) (cbs : list tstate) : list bool :=
  [ race_obs_eqb (order_ud cur tgt) (ann, fin) || race_obs_eqb (order_du cur tgt) (ann, fin);
    true; true; true;
    one_final (ann, fin);
    chainb tstate_beq T_DONE T_FAILED T_CANCELED tvalue cur cbs ].
