(* a pilot that ends is seen to end: one final notification for a pilot that
   is not final yet makes Pilot.state that final state, raises nothing and
   ends the callback sequence with it -- whatever state the client still had
   the pilot in (finite domain: every pair of pilot states of the generated
   table, checked by the kernel and lifted with pstate_all_complete) *)
From Coq Require Import ZArith List Bool.
From RP Require Import Gen.StatesTables States.Model States.Inst.
Import ListNotations.


Definition end_ok (cur tgt : pstate) : bool :=
  if negb (p_is_final cur) && p_is_final tgt then
    match p_notify cur tgt with
    | (c, cbs, None) => pstate_beq c tgt && match rev cbs with x :: _ => pstate_beq x tgt | [] => false end
    | _ => false
    end
  else true.

Lemma end_ok_all : forallb (fun cur => forallb (end_ok cur) pstate_all) pstate_all = true.
Proof. vm_compute. reflexivity. Qed.

Theorem pilot_end_is_observed (cur tgt : pstate) :
  p_is_final cur = false -> p_is_final tgt = true ->
  exists cbs, p_notify cur tgt = (tgt, cbs ++ [tgt], None).
Proof.
  intros Hc Ht.
  pose proof end_ok_all as H. rewrite forallb_forall in H.
  specialize (H cur (pstate_all_complete cur)). rewrite forallb_forall in H.
  specialize (H tgt (pstate_all_complete tgt)). unfold end_ok in H. rewrite Hc, Ht in H. cbn [negb andb] in H.
  destruct (p_notify cur tgt) as [[c cbs] [e|]]; [discriminate|].
  apply andb_true_iff in H as [H1 H2]. apply pstate_beq_spec in H1. subst c.
  destruct (rev cbs) as [|x r] eqn:Er; [discriminate|]. apply pstate_beq_spec in H2. subst x.
  exists (rev r). rewrite <- (rev_involutive cbs), Er. cbn [rev]. reflexivity.
Qed.
