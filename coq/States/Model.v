(* Executable model of radical.pilot's client-side state bookkeeping:
     states._task_state_progress / _pilot_state_progress
     Task._update, TaskManager._update_tasks (+ callback delivery)
     Pilot._update, PilotManager._update_pilot (+ advance/callback delivery)
   The model is parametric in the state tables; RP.Gen.StatesTables (generated
   from states.py on every run) instantiates it.  Definitions only. *)
From Coq Require Import ZArith List Bool.
Import ListNotations.
Open Scope Z_scope.

Inductive perr := ValueError | RuntimeError | OtherError.

Section Tables.
  Context {state : Type}.
  Variable seqb : state -> state -> bool.
  Variables sDONE sFAILED sCANCELED : state.
  Variable value : state -> Z.
  Variable inv : Z -> state.

  Definition is_final (s : state) : bool :=
    seqb s sDONE || seqb s sFAILED || seqb s sCANCELED.
  Definition is_fc (s : state) : bool := seqb s sFAILED || seqb s sCANCELED.

  (* [inv from; inv (from+1); ...] of length n : range(cur+1, tgt) *)
  Fixpoint between (n : nat) (from : Z) : list state :=
    match n with O => [] | S k => inv from :: between k (from + 1) end.

  Definition passed_states (cur tgt : state) : list state :=
    between (Z.to_nat (value tgt - value cur - 1)) (value cur + 1) ++ [tgt].

  (* states._task_state_progress *)
  Definition task_progress (cur tgt : state) : perr + (state * list state) :=
    if seqb cur sCANCELED && is_final tgt then inr (tgt, [])
    else if is_final cur && is_final tgt then inr (cur, [])
    else if value tgt <=? value cur then inr (cur, [])
    else inr (tgt, passed_states cur tgt).

  (* states._pilot_state_progress *)
  Definition pilot_progress (cur tgt : state) : perr + (state * list state) :=
    if seqb cur sCANCELED && is_final tgt then inr (tgt, [])
    else if seqb cur sFAILED && is_final tgt then inr (tgt, [])
    else if is_final cur && negb (seqb tgt cur) && is_final tgt then inl ValueError
    else if value tgt <=? value cur then inr (cur, [])
    else inr (tgt, passed_states cur tgt).

  (* passed[-1:] *)
  Definition last1 (l : list state) : list state :=
    match rev l with [] => [] | x :: _ => [x] end.

  (* Task._update(cur, s): the new Task.state, or the exception raised *)
  Definition task_update (cur s : state) : perr + state :=
    if seqb cur sFAILED || seqb cur sDONE then inr cur
    else
      let target := if seqb cur sCANCELED && negb (seqb s sDONE) then cur else s in
      if negb (is_fc target) && negb (value target - value cur =? 1)
      then inl RuntimeError
      else inr s.

  (* the loop `for s in passed: task._update(..); to_notify.append(..)` *)
  Fixpoint task_replay (cur : state) (passed : list state)
    : state * list state * option perr :=
    match passed with
    | [] => (cur, [], None)
    | s :: rest =>
        match task_update cur s with
        | inl e => (cur, [], Some e)
        | inr cur' =>
            let '(c, ns, e) := task_replay cur' rest in (c, s :: ns, e)
        end
    end.

  (* one notification for one known task: new state, callbacks, exception *)
  Definition task_notify (cur tgt : state) : state * list state * option perr :=
    if seqb cur tgt then (cur, [], None)
    else match task_progress cur tgt with
         | inl e => (cur, [], Some e)
         | inr (target, passed) =>
             task_replay cur (if is_fc target then last1 passed else passed)
         end.

  (* ---- TaskManager._update_tasks over a table uid -> state ---- *)
  Definition tasks := list (Z * state).

  Fixpoint lookup (u : Z) (t : tasks) : option state :=
    match t with
    | [] => None
    | (k, s) :: t' => if k =? u then Some s else lookup u t'
    end.

  Fixpoint store (u : Z) (s : state) (t : tasks) : tasks :=
    match t with
    | [] => []
    | (k, s0) :: t' => if k =? u then (k, s) :: t' else (k, s0) :: store u s t'
    end.

  (* one batch; callbacks are delivered after the loop and are lost when the
     loop raises (the state changes made before the exception stay) *)
  Fixpoint batch_loop (t : tasks) (b : list (Z * state))
    : tasks * list (Z * state) * option perr :=
    match b with
    | [] => (t, [], None)
    | (u, tgt) :: b' =>
        match lookup u t with
        | None => batch_loop t b'
        | Some cur =>
            let '(c, ns, e) := task_notify cur tgt in
            let t1 := store u c t in
            let cbs := map (fun s => (u, s)) ns in
            match e with
            | Some err => (t1, cbs, Some err)
            | None =>
                let '(t2, cbs2, e2) := batch_loop t1 b' in (t2, cbs ++ cbs2, e2)
            end
        end
    end.

  Definition update_batch (t : tasks) (b : list (Z * state))
    : tasks * list (Z * state) * option perr :=
    let '(t', cbs, e) := batch_loop t b in
    match e with Some _ => (t', [], e) | None => (t', cbs, None) end.

  (* a history of batches: table and callbacks observed after each batch *)
  Fixpoint run_batches (t : tasks) (bs : list (list (Z * state)))
    : list (tasks * list (Z * state) * option perr) :=
    match bs with
    | [] => []
    | b :: bs' =>
        let r := update_batch t b in
        r :: run_batches (fst (fst r)) bs'
    end.

  (* all callbacks of a history, in delivery order, and the final table *)
  Fixpoint run_cbs (t : tasks) (bs : list (list (Z * state)))
    : tasks * list (Z * state) :=
    match bs with
    | [] => (t, [])
    | b :: bs' =>
        let '(t1, cbs, _) := update_batch t b in
        let '(t2, cbs2) := run_cbs t1 bs' in (t2, cbs ++ cbs2)
    end.

  (* ---- Pilot._update / PilotManager._update_pilot ----
     Pilot._update invokes the state callbacks on every call, so the observed
     callback sequence is the sequence of states passed to Pilot._update. *)
  Definition pilot_update (cur s : state) : perr + state :=
    if negb (is_fc s) && (1 <? value s - value cur) then inl RuntimeError
    else inr s.

  Fixpoint pilot_replay (cur : state) (passed : list state)
    : state * list state * option perr :=
    match passed with
    | [] => (cur, [], None)
    | s :: rest =>
        match pilot_update cur s with
        | inl e => (cur, [], Some e)
        | inr cur' =>
            let '(c, ns, e) := pilot_replay cur' rest in (c, s :: ns, e)
        end
    end.

  (* one notification for a known pilot: new state, callbacks, exception *)
  Definition pilot_notify (cur tgt : state) : state * list state * option perr :=
    if seqb cur tgt then (cur, [cur], None)
    else match pilot_progress cur tgt with
         | inl e => (cur, [], Some e)
         | inr (target, passed) =>
             pilot_replay cur (if is_fc target then last1 passed else passed)
         end.

  (* a sequence of notifications (pid, state) over a table of known pilots;
     unknown pids are ignored; an exception aborts that notification only *)
  Fixpoint pilot_run (t : tasks) (ns : list (Z * state))
    : tasks * list (Z * state) * list perr :=
    match ns with
    | [] => (t, [], [])
    | (p, tgt) :: ns' =>
        match lookup p t with
        | None => pilot_run t ns'
        | Some cur =>
            let '(c, cbs, e) := pilot_notify cur tgt in
            let '(t2, cbs2, es) := pilot_run (store p c t) ns' in
            (t2, map (fun s => (p, s)) cbs ++ cbs2,
             match e with Some x => x :: es | None => es end)
        end
    end.
  (* ---- boolean oracles over an observed callback sequence ---- *)
  Definition step_okb (p s : state) : bool :=
    negb (is_final p) && (is_fc s || (value s =? value p + 1)).
  Fixpoint chainb (p : state) (ns : list state) : bool :=
    match ns with [] => true | s :: r => step_okb p s && chainb s r end.
  Definition pstep_okb (p s : state) : bool := seqb s p || step_okb p s.
  Fixpoint pchainb (p : state) (ns : list state) : bool :=
    match ns with [] => true | s :: r => pstep_okb p s && pchainb s r end.
  Fixpoint last_of (p : state) (ns : list state) : state :=
    match ns with [] => p | s :: r => last_of s r end.
  Definition proj (u : Z) (l : list (Z * state)) : list state :=
    map snd (filter (fun p => fst p =? u) l).
  Definition only (u : Z) (b : list (Z * state)) : list (Z * state) :=
    filter (fun p => fst p =? u) b.

  (* oracle for one observed history: initial table, all callbacks in
     delivery order, final table *)
  Definition ok_progression (t0 : tasks) (cbs : list (Z * state)) : bool :=
    forallb (fun '(u, cur) => chainb cur (proj u cbs)) t0.
  Definition ok_final_state (t0 t1 : tasks) (cbs : list (Z * state)) : bool :=
    forallb (fun '(u, cur) =>
      match lookup u t1 with
      | Some s => seqb s (last_of cur (proj u cbs))
      | None => false end) t0.
  Definition ok_known_only (t0 : tasks) (cbs : list (Z * state)) : bool :=
    forallb (fun '(u, _) => match lookup u t0 with Some _ => true | None => false end) cbs.
  Definition ok_pprogression (t0 : tasks) (cbs : list (Z * state)) : bool :=
    forallb (fun '(u, cur) => pchainb cur (proj u cbs)) t0.
End Tables.
