(* Invariants of the state-update model, for any well-formed state table. *)
From Coq Require Import ZArith List Bool Lia.
From RP Require Import States.Model.
Import ListNotations.
Open Scope Z_scope.

Section Proofs.
  Context {state : Type}.
  Variable seqb : state -> state -> bool.
  Variables sDONE sFAILED sCANCELED : state.
  Variable value : state -> Z.
  Variable inv : Z -> state.
  Variable top : Z.

  Notation is_final := (is_final seqb sDONE sFAILED sCANCELED).
  Notation is_fc := (is_fc seqb sFAILED sCANCELED).

  (* well-formedness of the tables; discharged by computation on the
     generated tables (Gen/StatesTables.v) *)
  Record wf : Prop := {
    seqb_spec   : forall a b, seqb a b = true <-> a = b;
    final_value : forall s, is_final s = true -> value s = top;
    nonfinal_rg : forall s, is_final s = false -> 0 <= value s < top;
    inv_value   : forall s, is_final s = false -> inv (value s) = s;
    value_inv   : forall i, 0 <= i < top ->
                    value (inv i) = i /\ is_final (inv i) = false
  }.

  Hypothesis W : wf.

  Lemma seqb_refl s : seqb s s = true.
  Proof. apply (seqb_spec W); reflexivity. Qed.

  Lemma seqb_false a b : a <> b -> seqb a b = false.
  Proof.
    intro H; destruct (seqb a b) eqn:E; [|reflexivity].
    apply (seqb_spec W) in E; contradiction.
  Qed.

  Lemma fc_final s : is_fc s = true -> is_final s = true.
  Proof.
    unfold Model.is_fc, Model.is_final; intro H.
    apply orb_true_iff in H as [H|H]; rewrite H; rewrite ?orb_true_r; reflexivity.
  Qed.

  Lemma final_cases s :
    is_final s = true -> s = sDONE \/ s = sFAILED \/ s = sCANCELED.
  Proof.
    unfold Model.is_final; intro H.
    apply orb_true_iff in H as [H|H]; [apply orb_true_iff in H as [H|H]|];
      apply (seqb_spec W) in H; auto.
  Qed.

  Lemma value_le_top s : value s <= top.
  Proof.
    destruct (is_final s) eqn:E.
    - rewrite (final_value W _ E); lia.
    - pose proof (nonfinal_rg W _ E); lia.
  Qed.

  Lemma lt_top_nonfinal s : value s < top -> is_final s = false.
  Proof.
    intro H; destruct (is_final s) eqn:E; [|reflexivity].
    rewrite (final_value W _ E) in H; lia.
  Qed.

  (* ---- what an application may observe for one entity ---- *)

  (* one observed transition p -> s *)
  Definition step_ok (p s : state) : Prop :=
    is_final p = false /\ (is_fc s = true \/ value s = value p + 1).

  Fixpoint chain (p : state) (ns : list state) : Prop :=
    match ns with
    | [] => True
    | s :: r => step_ok p s /\ chain s r
    end.

  Notation last_of := (@last_of state).

  Lemma chain_app p a b :
    chain p a -> chain (last_of p a) b -> chain p (a ++ b).
  Proof.
    revert p; induction a as [|s a IH]; simpl; intros p Ha Hb; [exact Hb|].
    destruct Ha as [H1 H2]; split; [exact H1|apply IH; assumption].
  Qed.

  Lemma last_of_app p a b : last_of p (a ++ b) = last_of (last_of p a) b.
  Proof. revert p; induction a as [|s a IH]; simpl; intros p; [reflexivity|apply IH]. Qed.

  Lemma chain_final_nil p ns : is_final p = true -> chain p ns -> ns = [].
  Proof.
    destruct ns as [|s r]; [reflexivity|]; simpl; intros Hf [[Hn _] _]; congruence.
  Qed.

  (* values strictly increase along a chain *)
  Lemma step_ok_lt p s : step_ok p s -> value p < value s.
  Proof.
    intros [Hp [Hs|Hs]]; pose proof (nonfinal_rg W _ Hp).
    - rewrite (final_value W _ (fc_final _ Hs)); lia.
    - lia.
  Qed.

  (* ---- between / passed_states ---- *)
  Lemma between_chain n : forall c p,
    value p = c -> is_final p = false -> c + Z.of_nat n < top -> 0 <= c ->
    chain p (between inv n (c + 1)) /\
    value (last_of p (between inv n (c + 1))) = c + Z.of_nat n /\
    is_final (last_of p (between inv n (c + 1))) = false.
  Proof.
    induction n as [|n IH]; intros c p Hv Hp Hlt H0; simpl.
    - repeat split; [lia | exact Hp].
    - destruct (value_inv W (c + 1)) as [V1 V2]; [lia|].
      destruct (IH (c + 1) (inv (c + 1)) V1 V2) as (A & B & C); [lia|lia|].
      repeat split; auto.
      + right; lia.
      + rewrite B; lia.
  Qed.

  Lemma passed_chain cur tgt :
    is_final cur = false -> value cur < value tgt ->
    (is_final tgt = true -> is_fc tgt = false) ->
    chain cur (passed_states value inv cur tgt) /\
    last_of cur (passed_states value inv cur tgt) = tgt.
  Proof.
    intros Hc Hlt Hd; unfold passed_states.
    pose proof (nonfinal_rg W _ Hc) as Hr.
    pose proof (value_le_top tgt) as Ht.
    set (n := Z.to_nat (value tgt - value cur - 1)).
    destruct (between_chain n (value cur) cur eq_refl Hc) as (A & B & C);
      [subst n; lia | lia |].
    split.
    - apply chain_app; [exact A|]. simpl; split; [|exact I]. split; [exact C|].
      right; rewrite B; subst n; lia.
    - rewrite last_of_app; reflexivity.
  Qed.

  Lemma last1_last (l : list state) x : last1 (l ++ [x]) = [x].
  Proof. unfold last1; rewrite rev_app_distr; reflexivity. Qed.

  (* ---- Task._update never raises along a chain and follows it ---- *)
  Lemma task_replay_chain ns : forall p,
    chain p ns ->
    task_replay seqb sDONE sFAILED sCANCELED value p ns = (last_of p ns, ns, None).
  Proof.
    induction ns as [|s r IH]; intros p H; simpl; [reflexivity|].
    destruct H as [[Hp Hs] Hr].
    assert (Hnf : seqb p sFAILED = false /\ seqb p sDONE = false /\ seqb p sCANCELED = false).
    { unfold Model.is_final in Hp. apply orb_false_iff in Hp as [Hp H3].
      apply orb_false_iff in Hp as [H1 H2]. auto. }
    destruct Hnf as (F1 & F2 & F3).
    unfold task_update. rewrite F1, F2, F3. simpl.
    destruct Hs as [Hs|Hs].
    - fold (is_fc s). rewrite Hs. simpl. rewrite (IH s Hr). reflexivity.
    - fold (is_fc s). replace (value s - value p =? 1) with true by (symmetry; apply Z.eqb_eq; lia).
      rewrite andb_false_r. rewrite (IH s Hr). reflexivity.
  Qed.

  (* ---- one notification: the central characterisation ---- *)
  Theorem task_notify_ok cur tgt :
    exists ns,
      task_notify seqb sDONE sFAILED sCANCELED value inv cur tgt
        = (last_of cur ns, ns, None) /\ chain cur ns.
  Proof.
    unfold task_notify.
    destruct (seqb cur tgt) eqn:E; [exists []; simpl; auto|].
    unfold task_progress.
    destruct (seqb cur sCANCELED && is_final tgt) eqn:E1.
    { exists []. destruct (is_fc tgt); simpl; auto. }
    destruct (is_final cur && is_final tgt) eqn:E2.
    { exists []. destruct (is_fc cur); simpl; auto. }
    destruct (value tgt <=? value cur) eqn:E3.
    { exists []. destruct (is_fc cur); simpl; auto. }
    apply Z.leb_gt in E3.
    assert (Hc : is_final cur = false).
    { apply lt_top_nonfinal. pose proof (value_le_top tgt). lia. }
    destruct (is_fc tgt) eqn:E4.
    - exists [tgt]. unfold passed_states. rewrite last1_last.
      rewrite task_replay_chain; [auto|]. simpl; repeat split; auto.
      simpl. repeat split; auto.
    - destruct (passed_chain cur tgt Hc E3) as [A B]; [intros _; exact E4|].
      exists (passed_states value inv cur tgt).
      rewrite task_replay_chain by exact A. auto.
  Qed.

  Corollary task_notify_noerr cur tgt :
    snd (task_notify seqb sDONE sFAILED sCANCELED value inv cur tgt) = None.
  Proof. destruct (task_notify_ok cur tgt) as (ns & -> & _); reflexivity. Qed.

  (* ---- batches ---- *)
  Notation lookup := (@lookup state).
  Notation store := (@store state).

  Notation proj := (@proj state).

  Lemma proj_app u a b : proj u (a ++ b) = proj u a ++ proj u b.
  Proof. unfold proj; rewrite filter_app, map_app; reflexivity. Qed.

  Lemma proj_same u ns : proj u (map (fun s => (u, s)) ns) = ns.
  Proof.
    unfold proj; induction ns as [|s r IH]; simpl; [reflexivity|].
    rewrite Z.eqb_refl; simpl; f_equal; exact IH.
  Qed.

  Lemma proj_other u v ns : u <> v -> proj u (map (fun s => (v, s)) ns) = [].
  Proof.
    intro H; unfold proj; induction ns as [|s r IH]; simpl; [reflexivity|].
    destruct (v =? u) eqn:E; [apply Z.eqb_eq in E; congruence|exact IH].
  Qed.

  Lemma lookup_store_same u s t c :
    lookup u t = Some c -> lookup u (store u s t) = Some s.
  Proof.
    induction t as [|[k s0] t IH]; simpl; [discriminate|].
    destruct (k =? u) eqn:E; simpl; rewrite E; auto.
  Qed.

  Lemma lookup_store_other u v s t : u <> v -> lookup u (store v s t) = lookup u t.
  Proof.
    intro H; induction t as [|[k s0] t IH]; simpl; [reflexivity|].
    destruct (k =? v) eqn:E; simpl.
    - apply Z.eqb_eq in E; subst k.
      destruct (v =? u) eqn:E2; [apply Z.eqb_eq in E2; congruence|reflexivity].
    - destruct (k =? u); [reflexivity|exact IH].
  Qed.

  Notation batch_loop := (batch_loop seqb sDONE sFAILED sCANCELED value inv).
  Notation update_batch := (update_batch seqb sDONE sFAILED sCANCELED value inv).
  Notation run_cbs := (run_cbs seqb sDONE sFAILED sCANCELED value inv).

  (* the whole effect of one batch on task u *)
  Lemma batch_loop_ok b : forall t u cur,
    lookup u t = Some cur ->
    exists t' cbs,
      batch_loop t b = (t', cbs, None) /\
      chain cur (proj u cbs) /\
      lookup u t' = Some (last_of cur (proj u cbs)).
  Proof.
    induction b as [|[v tgt] b IH]; intros t u cur Hl; simpl.
    - exists t, []; simpl; auto.
    - destruct (lookup v t) as [cv|] eqn:Hv; [|apply IH; exact Hl].
      destruct (task_notify_ok cv tgt) as (ns & Hn & Hch). rewrite Hn.
      destruct (Z.eq_dec u v) as [->|Hne].
      + assert (cv = cur) by congruence; subst cv.
        destruct (IH (store v (last_of cur ns) t) v (last_of cur ns)) as (t' & cbs & A & B & C).
        { eapply lookup_store_same; exact Hl. }
        rewrite A. exists t', (map (fun s => (v, s)) ns ++ cbs).
        rewrite proj_app, proj_same, last_of_app. repeat split; auto.
        apply chain_app; assumption.
      + destruct (IH (store v (last_of cv ns) t) u cur) as (t' & cbs & A & B & C).
        { rewrite lookup_store_other by exact Hne; exact Hl. }
        rewrite A. exists t', (map (fun s => (v, s)) ns ++ cbs).
        rewrite proj_app, proj_other by exact Hne. simpl. auto.
  Qed.

  Lemma batch_loop_noerr b t : snd (batch_loop t b) = None.
  Proof.
    revert t; induction b as [|[v tgt] b IH]; intros t; simpl; [reflexivity|].
    destruct (lookup v t) as [cv|]; [|apply IH].
    destruct (task_notify_ok cv tgt) as (ns & -> & _).
    specialize (IH (store v (last_of cv ns) t)).
    destruct (batch_loop (store v (last_of cv ns) t) b) as [[t2 c2] e2]; simpl in *; exact IH.
  Qed.

  Lemma update_batch_eq t b : update_batch t b = batch_loop t b.
  Proof.
    unfold Model.update_batch. pose proof (batch_loop_noerr b t) as H.
    destruct (batch_loop t b) as [[t' cbs] e]; simpl in H; subst e; reflexivity.
  Qed.

  (* every history of batches: what the application sees of task u is a
     chain from its initial state, and Task.state is the end of that chain *)
  Theorem history_chain bs : forall t u cur,
    lookup u t = Some cur ->
    chain cur (proj u (snd (run_cbs t bs))) /\
    lookup u (fst (run_cbs t bs)) = Some (last_of cur (proj u (snd (run_cbs t bs)))).
  Proof.
    induction bs as [|b bs IH]; intros t u cur Hl; simpl; [auto|].
    rewrite update_batch_eq.
    destruct (batch_loop_ok b t u cur Hl) as (t1 & cbs & A & B & C). rewrite A.
    specialize (IH t1 u _ C).
    destruct (run_cbs t1 bs) as [t2 cbs2]; simpl in *.
    rewrite proj_app, last_of_app. destruct IH as [I1 I2]. split; [|exact I2].
    apply chain_app; assumption.
  Qed.

  (* no batch ever raises *)
  Theorem history_no_exception t b : snd (update_batch t b) = None.
  Proof. rewrite update_batch_eq; apply batch_loop_noerr. Qed.

  (* unknown uids stay unknown, known uids stay known: the table's keys are untouched *)
  Lemma store_keys u s t : map fst (store u s t) = map fst t.
  Proof.
    induction t as [|[k s0] t IH]; simpl; [reflexivity|].
    destruct (k =? u); simpl; [reflexivity|f_equal; exact IH].
  Qed.

  (* ---- isolation: task u's observations depend only on u's notifications ---- *)
  Notation only := (@only state).

  Lemma batch_isolation b : forall t u cur,
    lookup u t = Some cur ->
    proj u (snd (fst (batch_loop t b))) =
    proj u (snd (fst (batch_loop [(u, cur)] (only u b)))) /\
    lookup u (fst (fst (batch_loop t b))) =
    lookup u (fst (fst (batch_loop [(u, cur)] (only u b)))).
  Proof.
    induction b as [|[v tgt] b IH]; intros t u cur Hl; simpl.
    - rewrite Z.eqb_refl; auto.
    - destruct (Z.eq_dec v u) as [->|Hne].
      + rewrite Z.eqb_refl; simpl. rewrite Hl, Z.eqb_refl.
        destruct (task_notify_ok cur tgt) as (ns & -> & _).
        specialize (IH (store u (last_of cur ns) t) u (last_of cur ns)
                       (lookup_store_same _ _ _ _ Hl)).
        destruct (batch_loop (store u (last_of cur ns) t) b) as [[t2 c2] e2].
        destruct (batch_loop [(u, last_of cur ns)] (only u b)) as [[t3 c3] e3].
        simpl in *. rewrite !proj_app. destruct IH as [-> ->]; auto.
      + assert (E : (v =? u) = false) by (apply Z.eqb_neq; exact Hne). rewrite E.
        destruct (lookup v t) as [cv|] eqn:Hv; [|apply IH; exact Hl].
        destruct (task_notify_ok cv tgt) as (ns & -> & _).
        assert (Hl' : lookup u (store v (last_of cv ns) t) = Some cur)
          by (rewrite lookup_store_other by congruence; exact Hl).
        specialize (IH _ u cur Hl').
        destruct (batch_loop (store v (last_of cv ns) t) b) as [[t2 c2] e2].
        simpl in *. rewrite proj_app, proj_other by congruence. exact IH.
  Qed.

  Theorem history_isolation bs : forall t u cur,
    lookup u t = Some cur ->
    proj u (snd (run_cbs t bs)) = proj u (snd (run_cbs [(u, cur)] (map (only u) bs))).
  Proof.
    induction bs as [|b bs IH]; intros t u cur Hl; simpl; [reflexivity|].
    rewrite !update_batch_eq.
    destruct (batch_isolation b t u cur Hl) as [A B].
    destruct (batch_loop_ok b t u cur Hl) as (t1 & cbs & E1 & _ & L1).
    assert (Hs : lookup u [(u, cur)] = Some cur) by (simpl; rewrite Z.eqb_refl; reflexivity).
    destruct (batch_loop_ok (only u b) [(u, cur)] u cur Hs) as (t1' & cbs' & E2 & _ & L2).
    rewrite E1, E2 in *. simpl in A, B.
    assert (Ht1' : t1' = [(u, last_of cur (proj u cbs'))]).
    { assert (K : map fst t1' = [u]).
      { clear -E2. revert E2. generalize (only u b) as l. intros l.
        assert (G : forall l t t' c e, batch_loop t l = (t', c, e) -> map fst t' = map fst t).
        { clear. induction l as [|[v tgt] l IH]; intros t t' c e H; simpl in H.
          - injection H as <- _ _; reflexivity.
          - destruct (lookup v t) as [cv|]; [|eapply IH; exact H].
            destruct (task_notify seqb sDONE sFAILED sCANCELED value inv cv tgt) as [[c1 n1] [e1|]].
            + injection H as <- _ _. apply store_keys.
            + destruct (batch_loop (store v c1 t) l) as [[t2 c2] e2] eqn:E.
              injection H as <- _ _. rewrite (IH _ _ _ _ E). apply store_keys. }
        intro E2; apply (G _ _ _ _ _ E2). }
      destruct t1' as [|[k s] [|x r]]; simpl in K; try discriminate.
      injection K as ->. simpl in L2. rewrite Z.eqb_refl in L2. congruence. }
    specialize (IH t1 u _ L1).
    destruct (run_cbs t1 bs) as [t2 c2].
    rewrite L1 in B. rewrite L2 in B. injection B as B.
    rewrite Ht1'. rewrite <- B.
    destruct (run_cbs [(u, last_of cur (proj u cbs))] (map (only u) bs)) as [t3 c3].
    simpl in *. rewrite !proj_app. rewrite A, IH. reflexivity.
  Qed.

  (* ================= pilots ================= *)
  Definition pstep_ok (p s : state) : Prop := s = p \/ step_ok p s.

  Fixpoint pchain (p : state) (ns : list state) : Prop :=
    match ns with
    | [] => True
    | s :: r => pstep_ok p s /\ pchain s r
    end.

  Lemma chain_pchain p ns : chain p ns -> pchain p ns.
  Proof.
    revert p; induction ns as [|s r IH]; simpl; intros p H; [exact I|].
    destruct H as [H1 H2]; split; [right; exact H1|apply IH; exact H2].
  Qed.

  Lemma pchain_app p a b :
    pchain p a -> pchain (last_of p a) b -> pchain p (a ++ b).
  Proof.
    revert p; induction a as [|s a IH]; simpl; intros p Ha Hb; [exact Hb|].
    destruct Ha as [H1 H2]; split; [exact H1|apply IH; assumption].
  Qed.

  (* a final state is never left, and values never decrease *)
  Lemma pstep_final p s : pstep_ok p s -> is_final p = true -> s = p.
  Proof. intros [H|[H _]] Hf; [exact H|congruence]. Qed.

  Lemma pstep_le p s : pstep_ok p s -> value p <= value s.
  Proof. intros [->|H]; [lia|apply step_ok_lt in H; lia]. Qed.

  Lemma pilot_replay_chain ns : forall p,
    chain p ns ->
    pilot_replay seqb sFAILED sCANCELED value p ns = (last_of p ns, ns, None).
  Proof.
    induction ns as [|s r IH]; intros p H; simpl; [reflexivity|].
    destruct H as [[Hp Hs] Hr]. unfold pilot_update. fold (is_fc s).
    destruct Hs as [Hs|Hs].
    - rewrite Hs. simpl. rewrite (IH s Hr). reflexivity.
    - replace (1 <? value s - value p) with false by (symmetry; apply Z.ltb_ge; lia).
      rewrite andb_false_r. rewrite (IH s Hr). reflexivity.
  Qed.

  Ltac nonone := try (intros HH; exfalso; apply HH; reflexivity);
    try (exfalso; match goal with H : None <> None |- _ => apply H; reflexivity end).

  Theorem pilot_notify_ok cur tgt :
    exists ns e,
      pilot_notify seqb sDONE sFAILED sCANCELED value inv cur tgt
        = (last_of cur ns, ns, e) /\ pchain cur ns /\
      (e <> None -> e = Some ValueError /\ ns = [] /\ is_final cur = true /\ is_final tgt = true).
  Proof.
    unfold pilot_notify.
    destruct (seqb cur tgt) eqn:E.
    { exists [cur], None; simpl; repeat split; auto; try (left; reflexivity); nonone. }
    unfold pilot_progress.
    destruct (seqb cur sCANCELED && is_final tgt) eqn:E1.
    { exists [], None. destruct (is_fc tgt); simpl; repeat split; auto; nonone. }
    destruct (seqb cur sFAILED && is_final tgt) eqn:E1'.
    { exists [], None. destruct (is_fc tgt); simpl; repeat split; auto; nonone. }
    destruct (is_final cur && negb (seqb tgt cur) && is_final tgt) eqn:E2.
    { exists [], (Some ValueError). simpl; repeat split; auto.
      - apply andb_true_iff in E2 as [E2 _]; apply andb_true_iff in E2 as [E2 _]; exact E2.
      - apply andb_true_iff in E2 as [_ E2]; exact E2. }
    destruct (value tgt <=? value cur) eqn:E3.
    { exists [], None. destruct (is_fc cur); simpl; repeat split; auto; nonone. }
    apply Z.leb_gt in E3.
    assert (Hc : is_final cur = false).
    { apply lt_top_nonfinal. pose proof (value_le_top tgt). lia. }
    destruct (is_fc tgt) eqn:E4.
    - exists [tgt], None. unfold passed_states. rewrite last1_last.
      rewrite pilot_replay_chain.
      + simpl; repeat split; auto; try (right; split; auto); nonone.
      + simpl; repeat split; auto.
    - destruct (passed_chain cur tgt Hc E3) as [A B]; [intros _; exact E4|].
      exists (passed_states value inv cur tgt), None.
      rewrite pilot_replay_chain by exact A.
      repeat split; auto; try (apply chain_pchain; exact A); nonone.
  Qed.

  Notation pilot_run := (pilot_run seqb sDONE sFAILED sCANCELED value inv).

  Theorem pilot_history_chain ns : forall t p cur,
    lookup p t = Some cur ->
    pchain cur (proj p (snd (fst (pilot_run t ns)))) /\
    lookup p (fst (fst (pilot_run t ns))) =
      Some (last_of cur (proj p (snd (fst (pilot_run t ns))))).
  Proof.
    induction ns as [|[q tgt] ns IH]; intros t p cur Hl; simpl; [auto|].
    destruct (lookup q t) as [cq|] eqn:Hq; [|apply IH; exact Hl].
    destruct (pilot_notify_ok cq tgt) as (l & e & Hn & Hch & _). rewrite Hn.
    destruct (Z.eq_dec p q) as [->|Hne].
    - assert (cq = cur) by congruence; subst cq.
      specialize (IH (store q (last_of cur l) t) q _ (lookup_store_same _ _ _ _ Hl)).
      destruct (pilot_run (store q (last_of cur l) t) ns) as [[t2 c2] es]. simpl in *.
      rewrite proj_app, proj_same, last_of_app. destruct IH as [I1 I2]; split; [|exact I2].
      apply pchain_app; assumption.
    - assert (Hl' : lookup p (store q (last_of cq l) t) = Some cur)
        by (rewrite lookup_store_other by exact Hne; exact Hl).
      specialize (IH _ p cur Hl').
      destruct (pilot_run (store q (last_of cq l) t) ns) as [[t2 c2] es]. simpl in *.
      rewrite proj_app, proj_other by exact Hne. exact IH.
  Qed.

  (* notifications for unknown pilots are ignored: no callback, no new entry *)
  Theorem pilot_unknown_ignored ns : forall t p,
    lookup p t = None ->
    proj p (snd (fst (pilot_run t ns))) = [] /\
    lookup p (fst (fst (pilot_run t ns))) = None.
  Proof.
    induction ns as [|[q tgt] ns IH]; intros t p Hl; simpl; [auto|].
    destruct (lookup q t) as [cq|] eqn:Hq; [|apply IH; exact Hl].
    assert (Hne : p <> q) by congruence.
    destruct (pilot_notify_ok cq tgt) as (l & e & Hn & _ & _). rewrite Hn.
    assert (Hl' : lookup p (store q (last_of cq l) t) = None)
      by (rewrite lookup_store_other by exact Hne; exact Hl).
    specialize (IH _ p Hl').
    destruct (pilot_run (store q (last_of cq l) t) ns) as [[t2 c2] es]. simpl in *.
    rewrite proj_app, proj_other by exact Hne. exact IH.
  Qed.

  (* ---- boolean oracles reflect the propositions ---- *)
  Lemma step_okb_spec p s : step_okb seqb sDONE sFAILED sCANCELED value p s = true <-> step_ok p s.
  Proof.
    unfold step_okb, step_ok. fold (is_final p) (is_fc s).
    rewrite andb_true_iff, negb_true_iff, orb_true_iff, Z.eqb_eq. tauto.
  Qed.

  Lemma chainb_spec ns : forall p, chainb seqb sDONE sFAILED sCANCELED value p ns = true <-> chain p ns.
  Proof.
    induction ns as [|s r IH]; intros p; simpl; [tauto|].
    rewrite andb_true_iff, step_okb_spec, IH. tauto.
  Qed.

  Lemma pchainb_spec ns : forall p, pchainb seqb sDONE sFAILED sCANCELED value p ns = true <-> pchain p ns.
  Proof.
    induction ns as [|s r IH]; intros p; simpl; [tauto|].
    unfold pstep_okb, pstep_ok.
    rewrite andb_true_iff, orb_true_iff, step_okb_spec, IH, (seqb_spec W). tauto.
  Qed.

  (* ---- consequences of a chain, in the words of the property ---- *)
  Fixpoint incr (p : state) (ns : list state) : Prop :=
    match ns with [] => True | s :: r => value p < value s /\ incr s r end.

  Lemma chain_incr ns : forall p, chain p ns -> incr p ns.
  Proof.
    induction ns as [|s r IH]; simpl; intros p H; [exact I|].
    destruct H as [H1 H2]; split; [apply step_ok_lt; exact H1|apply IH; exact H2].
  Qed.

  Lemma incr_gt ns : forall p s, incr p ns -> In s ns -> value p < value s.
  Proof.
    induction ns as [|x r IH]; simpl; intros p s H Hin; [contradiction|].
    destruct H as [H1 H2]. destruct Hin as [->|Hin]; [exact H1|].
    specialize (IH x s H2 Hin). lia.
  Qed.

  (* each state is announced at most once, and never the current one again *)
  Lemma chain_NoDup ns : forall p, chain p ns -> NoDup (p :: ns).
  Proof.
    induction ns as [|x r IH]; intros p H; [constructor; [intros []|constructor]|].
    pose proof (chain_incr _ _ H) as Hi. destruct H as [H1 H2].
    constructor; [|apply IH; exact H2].
    intro Hin. pose proof (incr_gt _ p p Hi Hin). lia.
  Qed.

  (* once final, nothing more is observed *)
  Lemma chain_after_final : forall p a ns b,
    chain p ns -> ns = a ++ b -> is_final (last_of p a) = true -> b = [].
  Proof.
    intros p a; revert p; induction a as [|x a IH]; simpl; intros p ns b H -> Hf.
    - eapply chain_final_nil; eassumption.
    - simpl in H. destruct H as [_ H]. eapply IH; [exact H|reflexivity|exact Hf].
  Qed.

End Proofs.
