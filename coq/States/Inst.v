(* The state model instantiated with the tables generated from states.py,
   and the proof (by computation over the finite tables) that they are
   well-formed.  A change to states.py regenerates RP.Gen.StatesTables and
   re-opens these obligations. *)
From Coq Require Import ZArith List Bool Lia.
From RP Require Import Common.ZRange Gen.StatesTables States.Model States.Proofs.
Import ListNotations.
Open Scope Z_scope.

Fixpoint zassoc {A} (d : A) (i : Z) (l : list (Z * A)) : A :=
  match l with [] => d | (k, v) :: l' => if k =? i then v else zassoc d i l' end.

(* ---------------- tasks ---------------- *)
Definition tinv (i : Z) : tstate := zassoc T_NEW i tinv_tab.
Definition ttop : Z := tvalue T_DONE.

Definition t_is_final := is_final tstate_beq T_DONE T_FAILED T_CANCELED.
Definition t_progress := task_progress tstate_beq T_DONE T_FAILED T_CANCELED tvalue tinv.
Definition t_update := task_update tstate_beq T_DONE T_FAILED T_CANCELED tvalue.
Definition t_notify := task_notify tstate_beq T_DONE T_FAILED T_CANCELED tvalue tinv.
Definition t_update_batch := update_batch tstate_beq T_DONE T_FAILED T_CANCELED tvalue tinv.
Definition t_run_batches := run_batches tstate_beq T_DONE T_FAILED T_CANCELED tvalue tinv.
Definition t_run_cbs := run_cbs tstate_beq T_DONE T_FAILED T_CANCELED tvalue tinv.

Lemma tstate_beq_spec a b : tstate_beq a b = true <-> a = b.
Proof.
  split; [apply internal_tstate_dec_bl | apply internal_tstate_dec_lb].
Qed.

Definition t_tables_ok : bool :=
  forallb (fun s => if t_is_final s then tvalue s =? ttop
                    else (0 <=? tvalue s) && (tvalue s <? ttop)
                         && tstate_beq (tinv (tvalue s)) s) tstate_all
  && forallb (fun i => (tvalue (tinv i) =? i) && negb (t_is_final (tinv i)))
             (zrange (Z.to_nat ttop))
  && (0 <=? ttop)
  && forallb (fun s => tstate_beq s T_DONE || tstate_beq s T_FAILED || tstate_beq s T_CANCELED
                       || negb (existsb (tstate_beq s) tfinal)) tstate_all
  && forallb (fun s => existsb (tstate_beq s) tfinal) [T_DONE; T_FAILED; T_CANCELED].

Lemma t_tables_ok_true : t_tables_ok = true.
Proof. vm_compute. reflexivity. Qed.

Lemma tstate_all_complete s : In s tstate_all.
Proof. destruct s; vm_compute; tauto. Qed.

Theorem t_wf : wf tstate_beq T_DONE T_FAILED T_CANCELED tvalue tinv ttop.
Proof.
  pose proof t_tables_ok_true as H. unfold t_tables_ok in H.
  do 4 (apply andb_true_iff in H; destruct H as [H ?]).
  rewrite forallb_forall in H.
  constructor.
  - apply tstate_beq_spec.
  - intros s Hs. specialize (H s (tstate_all_complete s)). fold (t_is_final s) in Hs.
    rewrite Hs in H. apply Z.eqb_eq in H. exact H.
  - intros s Hs. specialize (H s (tstate_all_complete s)). fold (t_is_final s) in Hs.
    rewrite Hs in H. apply andb_true_iff in H as [H _]. apply andb_true_iff in H as [Ha Hb].
    apply Z.leb_le in Ha. apply Z.ltb_lt in Hb. lia.
  - intros s Hs. specialize (H s (tstate_all_complete s)). fold (t_is_final s) in Hs.
    rewrite Hs in H. apply andb_true_iff in H as [_ H]. apply tstate_beq_spec in H. exact H.
  - intros i Hi.
    match goal with K : forallb _ (zrange _) = true |- _ =>
      pose proof (zrange_forall _ _ K i) as G end.
    assert (Hr : 0 <= i < Z.of_nat (Z.to_nat ttop)) by lia. specialize (G Hr).
    apply andb_true_iff in G as [G1 G2]. apply Z.eqb_eq in G1. apply negb_true_iff in G2.
    split; assumption.
Qed.

(* ---------------- pilots ---------------- *)
Definition pinv (i : Z) : pstate := zassoc P_NEW i pinv_tab.
Definition ptop : Z := pvalue P_DONE.

Definition p_is_final := is_final pstate_beq P_DONE P_FAILED P_CANCELED.
Definition p_progress := pilot_progress pstate_beq P_DONE P_FAILED P_CANCELED pvalue pinv.
Definition p_update := pilot_update pstate_beq P_FAILED P_CANCELED pvalue.
Definition p_notify := pilot_notify pstate_beq P_DONE P_FAILED P_CANCELED pvalue pinv.
Definition p_run := pilot_run pstate_beq P_DONE P_FAILED P_CANCELED pvalue pinv.

Lemma pstate_beq_spec a b : pstate_beq a b = true <-> a = b.
Proof.
  split; [apply internal_pstate_dec_bl | apply internal_pstate_dec_lb].
Qed.

Definition p_tables_ok : bool :=
  forallb (fun s => if p_is_final s then pvalue s =? ptop
                    else (0 <=? pvalue s) && (pvalue s <? ptop)
                         && pstate_beq (pinv (pvalue s)) s) pstate_all
  && forallb (fun i => (pvalue (pinv i) =? i) && negb (p_is_final (pinv i)))
             (zrange (Z.to_nat ptop))
  && (0 <=? ptop).

Lemma p_tables_ok_true : p_tables_ok = true.
Proof. vm_compute. reflexivity. Qed.

Lemma pstate_all_complete s : In s pstate_all.
Proof. destruct s; vm_compute; tauto. Qed.

Theorem p_wf : wf pstate_beq P_DONE P_FAILED P_CANCELED pvalue pinv ptop.
Proof.
  pose proof p_tables_ok_true as H. unfold p_tables_ok in H.
  do 2 (apply andb_true_iff in H; destruct H as [H ?]).
  rewrite forallb_forall in H.
  constructor.
  - apply pstate_beq_spec.
  - intros s Hs. specialize (H s (pstate_all_complete s)). fold (p_is_final s) in Hs.
    rewrite Hs in H. apply Z.eqb_eq in H. exact H.
  - intros s Hs. specialize (H s (pstate_all_complete s)). fold (p_is_final s) in Hs.
    rewrite Hs in H. apply andb_true_iff in H as [H _]. apply andb_true_iff in H as [Ha Hb].
    apply Z.leb_le in Ha. apply Z.ltb_lt in Hb. lia.
  - intros s Hs. specialize (H s (pstate_all_complete s)). fold (p_is_final s) in Hs.
    rewrite Hs in H. apply andb_true_iff in H as [_ H]. apply pstate_beq_spec in H. exact H.
  - intros i Hi.
    match goal with K : forallb _ (zrange _) = true |- _ =>
      pose proof (zrange_forall _ _ K i) as G end.
    assert (Hr : 0 <= i < Z.of_nat (Z.to_nat ptop)) by lia. specialize (G Hr).
    apply andb_true_iff in G as [G1 G2]. apply Z.eqb_eq in G1. apply negb_true_iff in G2.
    split; assumption.
Qed.
