(* Rows evaluated by the harness: model-vs-implementation agreement and the
   oracle clauses of C06 / C14 applied to the implementation's trace. *)
From Coq Require Import ZArith List Bool.
From RP Require Import Common.Eqb Gen.StatesTables States.Model States.Inst.
Import ListNotations.
Open Scope Z_scope.

Definition perr_eqb (a b : perr) : bool :=
  match a, b with
  | ValueError, ValueError | RuntimeError, RuntimeError | OtherError, OtherError => true
  | _, _ => false
  end.

Definition ttab_eqb := eqb_list (eqb_prod Z.eqb tstate_beq).
Definition ptab_eqb := eqb_list (eqb_prod Z.eqb pstate_beq).

Definition tobs := (list (Z * tstate) * list (Z * tstate) * option perr)%type.

Definition tobs_eqb (a b : tobs) : bool :=
  ttab_eqb (fst (fst a)) (fst (fst b)) && ttab_eqb (snd (fst a)) (snd (fst b))
  && eqb_option perr_eqb (snd a) (snd b).

Definition c06_batches_row (t0 : list (Z * tstate)) (bs : list (list (Z * tstate)))
  (obs : list tobs) : list bool :=
  let all_cbs := concat (map (fun o => snd (fst o)) obs) in
  let t_end := last (map (fun o => fst (fst o)) obs) t0 in
  [ eqb_list tobs_eqb (t_run_batches t0 bs) obs;
    ok_progression tstate_beq T_DONE T_FAILED T_CANCELED tvalue t0 all_cbs;
    ok_final_state tstate_beq t0 t_end all_cbs;
    forallb (fun o => match snd o with None => true | Some _ => false end) obs;
    ok_known_only t0 all_cbs ].

(* states._task_state_progress on one pair *)
Definition tprog_eqb (a b : perr + (tstate * list tstate)) : bool :=
  eqb_sum perr_eqb (eqb_prod tstate_beq (eqb_list tstate_beq)) a b.

Definition c06_progress_row (cur tgt : tstate) (obs : perr + (tstate * list tstate)) : list bool :=
  [ tprog_eqb (t_progress cur tgt) obs;
    match obs with
    | inr (n, passed) =>
        (* the announced states are a chain, or -- for a FAILED/CANCELED target --
           end in the target (the caller keeps only the last) *)
        if is_fc tstate_beq T_FAILED T_CANCELED n
        then match rev passed with [] => true | x :: _ => tstate_beq x n && negb (t_is_final cur) end
        else chainb tstate_beq T_DONE T_FAILED T_CANCELED tvalue cur passed
             && tstate_beq (last_of cur passed) (if passed then cur else n)
    | inl _ => true end;
    true;
    match obs with inl _ => false | inr _ => true end;
    true ].

(* Task._update on one pair *)
Definition c06_update_row (cur s : tstate) (obs : perr + tstate) : list bool :=
  [ eqb_sum perr_eqb tstate_beq (t_update cur s) obs; true; true; true; true ].

(* ---- C14: pilots ---- *)
Definition c14_run_row (t0 : list (Z * pstate)) (ns : list (Z * pstate))
  (obs : list (Z * pstate) * list (Z * pstate) * list perr) : list bool :=
  let '(t1, cbs, errs) := obs in
  [ let '(mt, mc, me) := p_run t0 ns in
    ptab_eqb mt t1 && ptab_eqb mc cbs && eqb_list perr_eqb me errs;
    ok_pprogression pstate_beq P_DONE P_FAILED P_CANCELED pvalue t0 cbs;
    ok_final_state pstate_beq t0 t1 cbs;
    ok_known_only t0 cbs ].

(* two notifications handled by two threads at once: the outcome must be that of
   one of the two orders (obs_ab / obs_ba carry the same observation with the
   raised exceptions listed in that order); the clauses judge the observation *)
Definition c14_race_row (t0 : list (Z * pstate)) (a b : Z * pstate)
  (obs_ab obs_ba : list (Z * pstate) * list (Z * pstate) * list perr) : list bool :=
  match c14_run_row t0 [a; b] obs_ab, c14_run_row t0 [b; a] obs_ba with
  | c1 :: cl, c2 :: _ => (c1 || c2) :: cl
  | _, _ => []
  end.

Definition pprog_eqb (a b : perr + (pstate * list pstate)) : bool :=
  eqb_sum perr_eqb (eqb_prod pstate_beq (eqb_list pstate_beq)) a b.

Definition c14_progress_row (cur tgt : pstate) (obs : perr + (pstate * list pstate)) : list bool :=
  [ pprog_eqb (p_progress cur tgt) obs;
    match obs with
    | inr (n, passed) =>
        if is_fc pstate_beq P_FAILED P_CANCELED n
        then match rev passed with [] => true | x :: _ => pstate_beq x n && negb (p_is_final cur) end
        else chainb pstate_beq P_DONE P_FAILED P_CANCELED pvalue cur passed
    | inl _ => true end;
    true; true ].
