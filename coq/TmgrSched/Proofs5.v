(* C12: the sequential specification of the linearizability check satisfies
   "exactly once": after a prefix and the two messages of a pair, handled one
   after the other in either order, every submitted task is -- with
   multiplicity -- either held back or handed on. *)
From Coq Require Import ZArith List Bool Lia.
From RP Require Import Gen.StatesTables States.Model States.Inst
  TmgrSched.Model TmgrSched.Oracle TmgrSched.Lin TmgrSched.Proofs.
Import ListNotations.
Open Scope Z_scope.

Lemma step_at_cons u c s0 s o s' ev e :
  step_at c s0 s o = (s', ev, e) -> pcnt u s' + fcnt u ev = pcnt u s + cnt u (op_tasks o).
Proof.
  destruct o as [ts|t ps|t pids|ps|ns|]; try apply step_cons.
  cbn [step_at op_tasks]. rewrite cnt_nil, Z.add_0_r.
  destruct (update_tasks c s (map (resolve (s_tk s0)) ns)) as [[s2 ev2] e2] eqn:E.
  intro H. injection H as <- <- <-. apply (update_tasks_cons u) in E.
  unfold fcnt, fwd_uids in *. cbn [fwd_of]. exact E.
Qed.

Lemma submitted_app a b : submitted (a ++ b) = submitted a ++ submitted b.
Proof.
  induction a as [|o a IH]; [reflexivity|]. cbn [app]. destruct o; cbn [submitted]; rewrite IH, ?app_assoc; reflexivity.
Qed.

Lemma submitted_two a b : submitted [a; b] = op_tasks a ++ op_tasks b.
Proof. destruct a, b; cbn [submitted op_tasks]; rewrite ?app_nil_r; reflexivity. Qed.

Lemma lin_spec_exactly_once c prefix a b u s1 ev1 e1 s2 ev2 e2 :
  let s0 := fst (run_st c st0 prefix) in
  let ev0 := snd (run_st c st0 prefix) in
  step_at c s0 s0 a = (s1, ev1, e1) -> step_at c s0 s1 b = (s2, ev2, e2) ->
  countz u (uids (submitted (prefix ++ [a; b]))) =
  countz u (waiting s2) + countz u (fwd_uids (ev0 ++ ev1 ++ ev2)).
Proof.
  intros s0 ev0 H1 H2.
  pose proof (run_conservation u c prefix st0 s0 ev0) as H0.
  destruct (run_st c st0 prefix) as [s ev] eqn:E. cbn [fst snd] in s0, ev0. specialize (H0 eq_refl).
  apply (step_at_cons u) in H1. apply (step_at_cons u) in H2.
  rewrite submitted_app, submitted_two. rewrite waiting_count.
  change (countz u (fwd_uids (ev0 ++ ev1 ++ ev2))) with (fcnt u (ev0 ++ ev1 ++ ev2)).
  rewrite !fcnt_app. unfold uids. rewrite !map_app, !countz_app.
  change (pcnt u st0) with 0 in H0. unfold cnt, uids in *. subst s0 ev0. lia.
Qed.
