(* C12: round-robin balance.  RoundRobin._schedule_tasks walks the pilot list
   cyclically from any start index; over one call the numbers of tasks given
   to any two list positions differ by at most one. *)
From Coq Require Import ZArith List Bool Lia.
From RP Require Import Gen.StatesTables States.Model States.Inst
  TmgrSched.Model TmgrSched.Oracle.
Import ListNotations.
Open Scope Z_scope.

(* the list positions chosen for n tasks over k pilots from index idx *)
Fixpoint rr_pos (n : nat) (k idx : Z) : list Z :=
  match n with
  | O => []
  | S m => let i := if k <=? idx then 0 else idx in i :: rr_pos m k (i + 1)
  end.

Lemma rr_loop_pos pl pids : forall ts idx idx' ok ev,
  rr_loop pl pids idx ts = (idx', ok, ev) ->
  map a_pid (asgs_of ev) =
  map (fun i => nth (Z.to_nat i) pids 0) (rr_pos (length ts) (Z.of_nat (length pids)) idx).
Proof.
  induction ts as [|t ts IH]; intros idx idx' ok ev H; simpl in H.
  - injection H as <- <- <-. reflexivity.
  - destruct (rr_loop pl pids ((if Z.of_nat (length pids) <=? idx then 0 else idx) + 1) ts)
      as [[i2 ok2] ev2] eqn:E.
    injection H as <- <- <-. cbn [asgs_of map length rr_pos]. rewrite (IH _ _ _ _ E). reflexivity.
Qed.

(* cyclic distance from position i0 to position p *)
Definition cdist (k i0 p : Z) : Z := if i0 <=? p then p - i0 else p - i0 + k.

Ltac split_ifs :=
  repeat match goal with
         | |- context [?a <=? ?b] => destruct (Z.leb_spec a b)
         | |- context [?a <? ?b] => destruct (Z.ltb_spec a b)
         | |- context [?a =? ?b] => destruct (Z.eqb_spec a b)
         end.

Lemma rr_pos_shape k : 0 < k -> forall n idx, 0 <= idx ->
  exists m r, 0 <= r < k /\
    forall p, 0 <= p < k ->
      countz p (rr_pos n k idx) =
      m + (if cdist k (if k <=? idx then 0 else idx) p <? r then 1 else 0).
Proof.
  intro Hk. induction n as [|n IH]; intros idx Hidx.
  - exists 0, 0. split; [lia|]. intros p Hp. cbn [rr_pos countz]. unfold cdist. split_ifs; lia.
  - cbn [rr_pos countz].
    set (i0 := if k <=? idx then 0 else idx).
    assert (Hi0 : 0 <= i0 < k) by (subst i0; split_ifs; lia).
    destruct (IH (i0 + 1)) as [m' [r' [Hr' Hc]]]; [lia|].
    destruct (Z.ltb_spec (r' + 1) k) as [Hlt|Hge].
    + exists m', (r' + 1). split; [lia|]. intros p Hp. rewrite (Hc p Hp).
      unfold cdist. split_ifs; lia.
    + exists (m' + 1), 0. split; [lia|]. intros p Hp. rewrite (Hc p Hp).
      unfold cdist. split_ifs; lia.
Qed.

Lemma rr_balance pl pids idx ts idx' ok ev :
  pids <> [] -> 0 <= idx -> rr_loop pl pids idx ts = (idx', ok, ev) ->
  let k := Z.of_nat (length pids) in
  let pos := rr_pos (length ts) k idx in
  map a_pid (asgs_of ev) = map (fun i => nth (Z.to_nat i) pids 0) pos /\
  forall p q, 0 <= p < k -> 0 <= q < k -> Z.abs (countz p pos - countz q pos) <= 1.
Proof.
  intros Hne Hidx H k pos. split; [exact (rr_loop_pos _ _ _ _ _ _ _ H)|].
  assert (Hk : 0 < k) by (subst k; destruct pids; [congruence|cbn [length]; lia]).
  destruct (rr_pos_shape k Hk (length ts) idx Hidx) as [m [r [Hr Hc]]].
  intros p q Hp Hq. subst pos. rewrite (Hc p Hp), (Hc q Hq).
  repeat match goal with |- context [if ?b then 1 else 0] => destruct b end; lia.
Qed.

Lemma In_memz x l : In x l -> memz x l = true.
Proof.
  induction l as [|y l IH]; simpl; [tauto|]. intros [->|H].
  - rewrite Z.eqb_refl. reflexivity.
  - rewrite (IH H). apply orb_true_r.
Qed.

(* round robin places only on registered pilots: if every pilot in self._pids
   has role ADDED (the registration invariant of add_pilots/remove_pilots),
   every placement of one _schedule_tasks call goes to a pilot with role ADDED *)
Lemma rr_loop_only_added pl pids :
  pids <> [] -> (forall pid, In pid pids -> p_role (getp pid pl) = RAdded) ->
  forall ts idx idx' ok ev, 0 <= idx ->
    rr_loop pl pids idx ts = (idx', ok, ev) ->
    forallb (fun a => role_eqb (a_role a) RAdded && memz (a_pid a) pids) (asgs_of ev) = true.
Proof.
  intros Hne Hr. induction ts as [|t ts IH]; intros idx idx' ok ev Hidx H; simpl in H.
  - injection H as <- <- <-. reflexivity.
  - destruct (rr_loop pl pids ((if Z.of_nat (length pids) <=? idx then 0 else idx) + 1) ts)
      as [[i2 ok2] ev2] eqn:E.
    injection H as <- <- <-. cbn [asgs_of forallb].
    set (i := if Z.of_nat (length pids) <=? idx then 0 else idx) in *.
    assert (Hk : 0 < Z.of_nat (length pids)) by (destruct pids; [congruence|cbn [length]; lia]).
    assert (Hi : 0 <= i < Z.of_nat (length pids)) by (subst i; split_ifs; lia).
    assert (Hin : In (nth (Z.to_nat i) pids 0) pids) by (apply nth_In; lia).
    unfold snap. cbn [a_role a_pid]. rewrite (Hr _ Hin). cbn [role_eqb andb].
    pose proof (In_memz _ _ Hin) as Hm.
    rewrite Hm. cbn [andb]. apply (IH (i + 1) i2 ok2 ev2); [lia|exact E].
Qed.
