(* C12: round-robin balance.  RoundRobin._schedule_tasks walks the pilot list
   cyclically from any start index; over one call the numbers of tasks given
   to any two list positions differ by at most one. *)
From Coq Require Import ZArith List Bool Lia.
From RP Require Import Gen.StatesTables States.Model States.Inst
  TmgrSched.Model TmgrSched.Oracle.
Import ListNotations.
Open Scope Z_scope.

(* the list positions chosen for n tasks over k pilots from index idx *)
Fixpoint rr_pos (n : nat) (k idx : Z) : list Z :=
  match n with
  | O => []
  | S m => let i := if k <=? idx then 0 else idx in i :: rr_pos m k (i + 1)
  end.

Lemma rr_loop_pos pl pids : forall ts idx idx' ok ev,
  rr_loop pl pids idx ts = (idx', ok, ev) ->
  map a_pid (asgs_of ev) =
  map (fun i => nth (Z.to_nat i) pids 0) (rr_pos (length ts) (Z.of_nat (length pids)) idx).
Proof.
  induction ts as [|t ts IH]; intros idx idx' ok ev H; simpl in H.
  - injection H as <- <- <-. reflexivity.
  - destruct (rr_loop pl pids ((if Z.of_nat (length pids) <=? idx then 0 else idx) + 1) ts)
      as [[i2 ok2] ev2] eqn:E.
    injection H as <- <- <-. cbn [asgs_of map length rr_pos]. rewrite (IH _ _ _ _ E). reflexivity.
Qed.

(* cyclic distance from position i0 to position p *)
Definition cdist (k i0 p : Z) : Z := if i0 <=? p then p - i0 else p - i0 + k.

Ltac split_ifs :=
  repeat match goal with
         | |- context [?a <=? ?b] => destruct (Z.leb_spec a b)
         | |- context [?a <? ?b] => destruct (Z.ltb_spec a b)
         | |- context [?a =? ?b] => destruct (Z.eqb_spec a b)
         end.

Lemma rr_pos_shape k : 0 < k -> forall n idx, 0 <= idx ->
  exists m r, 0 <= r < k /\
    forall p, 0 <= p < k ->
      countz p (rr_pos n k idx) =
      m + (if cdist k (if k <=? idx then 0 else idx) p <? r then 1 else 0).
Proof.
  intro Hk. induction n as [|n IH]; intros idx Hidx.
  - exists 0, 0. split; [lia|]. intros p Hp. cbn [rr_pos countz]. unfold cdist. split_ifs; lia.
  - cbn [rr_pos countz].
    set (i0 := if k <=? idx then 0 else idx).
    assert (Hi0 : 0 <= i0 < k) by (subst i0; split_ifs; lia).
    destruct (IH (i0 + 1)) as [m' [r' [Hr' Hc]]]; [lia|].
    destruct (Z.ltb_spec (r' + 1) k) as [Hlt|Hge].
    + exists m', (r' + 1). split; [lia|]. intros p Hp. rewrite (Hc p Hp).
      unfold cdist. split_ifs; lia.
    + exists (m' + 1), 0. split; [lia|]. intros p Hp. rewrite (Hc p Hp).
      unfold cdist. split_ifs; lia.
Qed.

Lemma rr_balance pl pids idx ts idx' ok ev :
  pids <> [] -> 0 <= idx -> rr_loop pl pids idx ts = (idx', ok, ev) ->
  let k := Z.of_nat (length pids) in
  let pos := rr_pos (length ts) k idx in
  map a_pid (asgs_of ev) = map (fun i => nth (Z.to_nat i) pids 0) pos /\
  forall p q, 0 <= p < k -> 0 <= q < k -> Z.abs (countz p pos - countz q pos) <= 1.
Proof.
  intros Hne Hidx H k pos. split; [exact (rr_loop_pos _ _ _ _ _ _ _ H)|].
  assert (Hk : 0 < k) by (subst k; destruct pids; [congruence|cbn [length]; lia]).
  destruct (rr_pos_shape k Hk (length ts) idx Hidx) as [m [r [Hr Hc]]].
  intros p q Hp Hq. subst pos. rewrite (Hc p Hp), (Hc q Hq).
  repeat match goal with |- context [if ?b then 1 else 0] => destruct b end; lia.
Qed.
